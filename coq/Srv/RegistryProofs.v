From stdpp Require Import gmap.
From Coq Require Import NArith ZArith Lia ZifyN ZifyNat ZifyBool.
From Verif Require Import Srv.Registry.
Local Open Scope N_scope.
Set Default Timeout 60.

(* the loop tries IDs (nx+1) mod 2^16, (nx+2) mod 2^16, ...: if it ends on an ID in use, every one of the
   fuel+1 IDs it tried is in use *)
Lemma find_free_inuse fuel : forall nx (m : gmap N N) n id,
  nx < 4294967296 ->
  find_free fuel nx m = (n, id) -> m !! id <> None ->
  forall k, 1 <= k <= N.of_nat fuel + 1 -> m !! (((nx + k) mod 4294967296) mod ID_SPACE) <> None.
Proof.
  induction fuel as [|f IH]; intros nx m n id Hnx Hf Hin k Hk; cbn [find_free] in Hf.
  - injection Hf as <- <-. assert (k = 1) by lia. now subst.
  - destruct (m !! (((nx + 1) mod 4294967296) mod ID_SPACE)) as [v|] eqn:E.
    + destruct (N.eq_dec k 1) as [->|Hne]; [now rewrite E|].
      assert (Hn1 : (nx + 1) mod 4294967296 < 4294967296) by (apply N.mod_lt; lia).
      specialize (IH _ _ _ _ Hn1 Hf Hin (k - 1) ltac:(lia)).
      replace ((((nx + 1) mod 4294967296 + (k - 1)) mod 4294967296) mod ID_SPACE)
        with (((nx + k) mod 4294967296) mod ID_SPACE) in IH; [exact IH|].
      f_equal. rewrite N.add_mod_idemp_l by lia. f_equal. lia.
    + injection Hf as <- <-. now rewrite E in Hin.
Qed.

Lemma mod_mod_16 x : (x mod 4294967296) mod 65536 = x mod 65536.
Proof.
  change 4294967296 with (65536 * 65536). rewrite N.mod_mul_r by lia.
  rewrite N.mul_comm, N.mod_add by lia. apply N.mod_mod. lia.
Qed.

(* 65536 successive counter values hit every 16-bit ID *)
Lemma covers nx j : nx < 4294967296 -> j < ID_SPACE ->
  exists k, 1 <= k <= 65536 /\ ((nx + k) mod 4294967296) mod ID_SPACE = j.
Proof.
  intros Hnx Hj. unfold ID_SPACE in *.
  set (a := (nx + 1) mod 65536). set (q := (nx + 1) / 65536).
  assert (Ha : a < 65536) by (apply N.mod_lt; lia).
  assert (Hq : nx + 1 = 65536 * q + a) by (apply N.div_mod; lia).
  set (d := (j + 65536 - a) mod 65536). set (e := (j + 65536 - a) / 65536).
  assert (Hd : d < 65536) by (apply N.mod_lt; lia).
  assert (He : j + 65536 - a = 65536 * e + d) by (apply N.div_mod; lia).
  exists (d + 1). split; [lia|]. rewrite mod_mod_16.
  symmetry. apply (N.mod_unique _ _ (q + 1 - e)); [exact Hj|].
  assert (e <= 1) by nia. nia.
Qed.

Lemma add_fuel_val : N.of_nat add_fuel = 65535.
Proof. unfold add_fuel. apply N2Nat.id. Qed.
Global Opaque add_fuel.

(* a new connection never receives an ID that is in use, as long as some ID is free *)
Theorem add_fresh r tok r' id :
  next r < 4294967296 -> (exists j, j < ID_SPACE /\ clients r !! j = None) ->
  add r tok = (r', id) -> clients r !! id = None.
Proof.
  intros Hnx (j & Hj & Hfree). unfold add.
  remember add_fuel as fuel eqn:Hfuel.
  assert (Hfu : N.of_nat fuel = 65535) by (rewrite Hfuel; apply add_fuel_val).
  clear Hfuel.
  destruct (find_free fuel (next r) (clients r)) as [n i] eqn:E.
  intros H. injection H as <- <-.
  destruct (clients r !! i) as [v|] eqn:Ei; [exfalso|reflexivity].
  destruct (covers (next r) j Hnx Hj) as (k & Hk & Hkj).
  assert (Hk' : 1 <= k <= N.of_nat fuel + 1) by (rewrite Hfu; lia).
  assert (Hi : clients r !! i <> None) by (rewrite Ei; discriminate).
  pose proof (find_free_inuse fuel (next r) (clients r) n i Hnx E Hi k Hk') as Hin.
  rewrite Hkj in Hin. now apply Hin.
Qed.

Lemma find_free_next_bound fuel : forall nx m n id, find_free fuel nx m = (n, id) -> n < 4294967296.
Proof.
  induction fuel as [|f IH]; intros nx m n id Hf; cbn [find_free] in Hf.
  - injection Hf as <- _. apply N.mod_lt. lia.
  - destruct (m !! _); [eapply IH; eauto|]. injection Hf as <- _. apply N.mod_lt. lia.
Qed.
Lemma find_free_id_bound fuel : forall nx m n id, find_free fuel nx m = (n, id) -> id < ID_SPACE.
Proof.
  induction fuel as [|f IH]; intros nx m n id Hf; cbn [find_free] in Hf.
  - injection Hf as _ <-. apply N.mod_lt. unfold ID_SPACE. lia.
  - destruct (m !! _); [eapply IH; eauto|]. injection Hf as _ <-. apply N.mod_lt. unfold ID_SPACE. lia.
Qed.

(* ---- invariant over histories of any length ---- *)
(* every live connection is the registry's entry for its own ID; the registry holds nothing else;
   all IDs are 16-bit; the counter stays a uint32 *)
Definition Inv (w : world) : Prop :=
  (forall tok id, w_ids w !! tok = Some id -> clients (w_reg w) !! id = Some tok) /\
  (forall id tok, clients (w_reg w) !! id = Some tok -> w_ids w !! tok = Some id) /\
  (forall id tok, clients (w_reg w) !! id = Some tok -> id < ID_SPACE) /\
  next (w_reg w) < 4294967296.

(* histories in which a token connects only while not connected, and fewer than 65536 are ever live at once *)
Definition room (w : world) : Prop := exists j, j < ID_SPACE /\ clients (w_reg w) !! j = None.
Definition ok_op (w : world) (o : rop) : Prop :=
  match o with
  | Connect tok => w_ids w !! tok = None /\ room w
  | Disconnect _ => True
  end.

Lemma Inv0 : Inv world0.
Proof. repeat split; cbn; intros *; try rewrite lookup_empty; try done. Qed.

Lemma Inv_step w o : Inv w -> ok_op w o -> Inv (wstep w o).
Proof.
  intros (H1 & H2 & H3 & H4) Hok. destruct o as [tok|tok]; cbn [wstep].
  - destruct Hok as [Hnew Hroom].
    destruct (add (w_reg w) tok) as [r id] eqn:E.
    pose proof (add_fresh _ _ _ _ H4 Hroom E) as Hfresh.
    unfold add in E. destruct (find_free _ _ _) as [n i] eqn:F. injection E as <- <-.
    pose proof (find_free_next_bound _ _ _ _ _ F). pose proof (find_free_id_bound _ _ _ _ _ F).
    repeat split; cbn [w_reg w_ids clients next]; auto.
    + intros t j. destruct (decide (t = tok)) as [->|Hne].
      * rewrite lookup_insert. intros [= <-]. now rewrite lookup_insert.
      * rewrite lookup_insert_ne by done. intros Ht. specialize (H1 _ _ Ht).
        destruct (decide (j = i)) as [->|Hji]; [congruence|]. by rewrite lookup_insert_ne by done.
    + intros j t. destruct (decide (j = i)) as [->|Hji].
      * rewrite lookup_insert. intros [= <-]. now rewrite lookup_insert.
      * rewrite lookup_insert_ne by done. intros Hj. specialize (H2 _ _ Hj).
        destruct (decide (t = tok)) as [->|Hne]; [congruence|]. by rewrite lookup_insert_ne by done.
    + intros j t. destruct (decide (j = i)) as [->|Hji]; [auto|].
      rewrite lookup_insert_ne by done. apply H3.
  - destruct (w_ids w !! tok) as [id|] eqn:E; [|repeat split; auto].
    repeat split; cbn [w_reg w_ids del clients next]; auto.
    + intros t j. destruct (decide (t = tok)) as [->|Hne]; [now rewrite lookup_delete|].
      rewrite lookup_delete_ne by done. intros Ht. pose proof (H1 _ _ Ht) as Hx.
      destruct (decide (j = id)) as [->|Hji].
      * pose proof (H1 _ _ E) as Hy. congruence.
      * by rewrite lookup_delete_ne by done.
    + intros j t. destruct (decide (j = id)) as [->|Hji]; [now rewrite lookup_delete|].
      rewrite lookup_delete_ne by done. intros Hj. specialize (H2 _ _ Hj).
      destruct (decide (t = tok)) as [->|Hne]; [congruence|]. by rewrite lookup_delete_ne by done.
    + intros j t. destruct (decide (j = id)) as [->|Hji]; [now rewrite lookup_delete|].
      rewrite lookup_delete_ne by done. apply H3.
Qed.

Fixpoint oks (w : world) (h : list rop) : Prop :=
  match h with [] => True | o :: t => ok_op w o /\ oks (wstep w o) t end.

Theorem Inv_run h : forall w, Inv w -> oks w h -> Inv (fold_left wstep h w).
Proof. induction h as [|o t IH]; intros w HI Hok; cbn; [done|]. destruct Hok. apply IH; [by apply Inv_step|done]. Qed.

(* no two connected users share an ID, in every reachable state *)
Theorem ids_unique h t1 t2 id :
  oks world0 h -> w_ids (wrun h) !! t1 = Some id -> w_ids (wrun h) !! t2 = Some id -> t1 = t2.
Proof.
  intros Hok A B. destruct (Inv_run h world0 Inv0 Hok) as (H1 & _).
  pose proof (H1 _ _ A). pose proof (H1 _ _ B). congruence.
Qed.

(* an ID addresses at most one live user: the one currently holding it *)
Theorem id_addresses_holder h id tok :
  oks world0 h -> clients (w_reg (wrun h)) !! id = Some tok -> w_ids (wrun h) !! tok = Some id.
Proof. intros Hok A. destruct (Inv_run h world0 Inv0 Hok) as (_ & H2 & _). auto. Qed.

(* the pinned allocation is refuted: after 65,536 connections a live user's ID is handed out again *)
Fixpoint churn (k : nat) (r : reg) (tok : N) : reg :=
  match k with O => r | S k' => let '(r', id) := add_pinned r tok in churn k' (del r' id) (tok + 1) end.
Definition pinned_witness : bool :=
  let '(r1, id1) := add_pinned reg0 1000000 in
  let r2 := churn (N.to_nat 65535) r1 1 in
  let '(r3, id3) := add_pinned r2 2000000 in
  (id1 =? id3) && (match clients r3 !! id1 with Some t => t =? 2000000 | None => false end).
Lemma pinned_ids_collide : pinned_witness = true.
Proof. vm_compute. reflexivity. Qed.
