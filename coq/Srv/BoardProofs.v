(* Proofs for Srv/Board.v. *)
From Coq Require Import List Arith NArith Lia.
From Verif Require Import Base.Bytes Srv.Board.
Import ListNotations.

(* reading to the end from cursor c returns the text from c on, for every chunking with positive capacities *)
Lemma read_all_from (capf : nat -> nat) (Hcap : forall n, (0 < capf n)%nat) :
  forall fuel d c dk acc,
    (List.length d - c < fuel)%nat -> (c <= List.length d)%nat ->
    exists s', read_all fuel capf (mk_store d c dk) acc = (s', Some (acc ++ skipn c d)) /\ s_data s' = d /\ s_disk s' = dk.
Proof.
  induction fuel as [|f IH]; intros d c dk acc Hf Hc; [lia|].
  cbn [read_all read s_data s_cur s_disk].
  destruct (firstn (capf (List.length acc)) (skipn c d)) as [|x ch] eqn:E.
  - (* EOF: nothing is left *)
    assert (skipn c d = []) as ->.
    { destruct (skipn c d) as [|y r] eqn:Es; [reflexivity|]. specialize (Hcap (List.length acc)).
      destruct (capf (List.length acc)); [lia|]. cbn in E. discriminate. }
    eexists. rewrite app_nil_r. repeat split.
  - set (chunk := x :: ch) in *.
    assert (Hl : (List.length chunk <= List.length d - c)%nat).
    { rewrite <- E. rewrite firstn_length, skipn_length. lia. }
    assert (Hp : (0 < List.length chunk)%nat) by (cbn; lia).
    destruct (IH d (c + List.length chunk)%nat dk (acc ++ chunk)) as (s' & Hr & Hd & Hk); [lia|lia|].
    exists s'. rewrite Hr. repeat split; auto. f_equal. f_equal. rewrite <- app_assoc. f_equal.
    rewrite <- (firstn_skipn (capf (List.length acc)) (skipn c d)) at 1. rewrite E. f_equal.
    rewrite skipn_skipn'.
    assert (Hm : List.length chunk = Nat.min (capf (List.length acc)) (List.length d - c)).
    { rewrite <- E. now rewrite firstn_length, skipn_length. }
    destruct (Nat.le_ge_cases (capf (List.length acc)) (List.length d - c)) as [Hle|Hge].
    + rewrite Nat.min_l in Hm by assumption. f_equal. lia.
    + rewrite Nat.min_r in Hm by assumption. rewrite !skipn_all2 by lia. reflexivity.
Qed.

(* rewind + read to the end, as one step, returns the whole current text - whatever the cursor was, whatever the
   chunk sizes; text and disk are left alone *)
Theorem read_whole_exact (capf : nat -> nat) (Hcap : forall n, (0 < capf n)%nat) s :
  exists s', read_whole capf s = (s', Some (s_data s)) /\ s_data s' = s_data s /\ s_disk s' = s_disk s.
Proof.
  unfold read_whole, seek0.
  destruct (read_all_from capf Hcap (S (List.length (s_data s))) (s_data s) 0 (s_disk s) []) as (s' & H & Hd & Hk); [lia|lia|].
  exists s'. rewrite H. cbn. auto.
Qed.

(* histories of critical sections, any length, any order: every read returns the text current at that moment,
   every post is kept (newest first), and after every post the file holds the board *)
Definition synced (s : store) : Prop := s_disk s = s_data s.
Fixpoint expected (t : bytes) (h : list cs) : list (option bytes) :=
  match h with
  | [] => []
  | Post p :: r => None :: expected (p ++ t) r
  | ReadBoard :: r => Some t :: expected t r
  end.
Theorem cs_run_spec (capf : nat -> nat) (Hcap : forall n, (0 < capf n)%nat) h : forall s,
  let '(s', outs) := cs_run capf s h in
  outs = expected (s_data s) h /\ s_data s' = board_after (posts_of h) (s_data s) /\
  (synced s -> synced s') /\ (posts_of h <> [] -> synced s').
Proof.
  induction h as [|c r IH]; intros s.
  - cbn. repeat split; auto. intros H; contradiction.
  - cbn [cs_run]. destruct c as [p|].
    + cbn [cs_step]. specialize (IH (write p s)). destruct (cs_run capf (write p s) r) as [s2 os].
      destruct IH as (Ho & Hd & Hs & Hs'). cbn [expected posts_of map concat app board_after fold_left].
      cbn [write s_data] in *. repeat split.
      * now rewrite Ho.
      * exact Hd.
      * intros _. apply Hs. reflexivity.
      * intros _. apply Hs. reflexivity.
    + cbn [cs_step]. destruct (read_whole_exact capf Hcap s) as (s1 & Hr & Hd1 & Hk1). rewrite Hr.
      specialize (IH s1). destruct (cs_run capf s1 r) as [s2 os]. destruct IH as (Ho & Hd & Hs & Hs').
      cbn [expected posts_of map concat app]. rewrite Hd1 in *. repeat split.
      * now rewrite Ho.
      * exact Hd.
      * intros H. apply Hs. unfold synced in *. congruence.
      * exact Hs'.
Qed.
(* no post is lost and the newest comes first *)
Lemma board_after_app ps : forall t, board_after ps t = concat (rev ps) ++ t.
Proof.
  induction ps as [|p r IH]; intros t; [reflexivity|]. cbn [board_after fold_left]. fold (board_after r (p ++ t)).
  rewrite IH. cbn [rev]. rewrite concat_app. cbn. now rewrite app_nil_r, <- app_assoc.
Qed.

(* WITHOUT the lock: two readers, a 3-byte board, chunks of 2: one reader comes back with a wrong text *)
Definition torn_witness : bool :=
  let s := mk_store [1; 2; 3]%N 0 [1; 2; 3]%N in
  let '(_, rs) := interleave (fun _ => 2%nat) s [RStart; RStart] [0; 0; 1; 1; 0; 0; 1; 1]%nat in
  match rs with
  | [RDone a; RDone b] => negb (bytes_eqb a [1; 2; 3]%N) || negb (bytes_eqb b [1; 2; 3]%N)
  | _ => false
  end.
Lemma torn_witness_true : torn_witness = true. Proof. vm_compute. reflexivity. Qed.

(* the format: what is prepended contains no line feed, starts with "From <name> (" and ends with the rule and a return *)
Lemma lf_to_cr_no_lf b : ~ In 10%N (lf_to_cr b).
Proof.
  unfold lf_to_cr. intros H. apply in_map_iff in H as (x & Hx & _).
  destruct (N.eqb_spec x 10); [discriminate|congruence].
Qed.
Lemma format_post_length name date body :
  List.length (format_post name date body) = (5 + List.length name + 2 + List.length date + 2 + 2 + List.length body + 2 + 58 + 1)%nat.
Proof. unfold format_post, lf_to_cr, RULE. rewrite map_length, !app_length, repeat_length. cbn [List.length]. lia. Qed.
