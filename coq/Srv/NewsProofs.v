From stdpp Require Import gmap.
From Coq Require Import NArith List Lia.
From Verif Require Import Srv.News.
Import ListNotations.
Local Open Scope N_scope.

Lemma foldr_max_ge (l : list N) k : k ∈ l -> k <= foldr N.max 0 l.
Proof. induction l as [|x l IH]; simpl; [by intros ?%elem_of_nil|]. intros [->|H]%elem_of_cons; [lia|]. specialize (IH H). lia. Qed.

Lemma max_key_ge (m : gmap N article) k v : m !! k = Some v -> k <= max_key m.
Proof.
  intros H. apply foldr_max_ge. apply elem_of_list_fmap. exists (k, v). split; [done|].
  by apply elem_of_map_to_list.
Qed.

(* the ID chosen for a new article is not used by any article present in the category *)
Theorem post_fresh_id (m : gmap N article) : max_key m < 4294967295 -> m !! next_id m = None.
Proof.
  intros Hb. unfold next_id. destruct (decide (m = ∅)) as [->|_]; [apply lookup_empty|].
  rewrite N.mod_small by lia.
  destruct (m !! (max_key m + 1)) as [v|] eqn:E; [|done]. apply max_key_ge in E. lia.
Qed.

Lemma max_key_in (m : gmap N article) : m <> ∅ -> is_Some (m !! max_key m).
Proof.
  intros Hne. unfold max_key.
  assert (H : forall l : list N, l <> [] -> foldr N.max 0 l ∈ l).
  { induction l as [|x l IH]; [done|]. intros _. simpl. destruct l as [|y l'].
    - simpl. rewrite N.max_0_r. by left.
    - specialize (IH ltac:(done)). destruct (N.max_spec x (foldr N.max 0 (y :: l'))) as [[_ ->]|[_ ->]].
      + by right.
      + by left. }
  assert (Hl : map fst (map_to_list m) <> []).
  { intros E. apply Hne. apply map_to_list_empty_iff. destruct (map_to_list m); [done|discriminate]. }
  specialize (H _ Hl). apply elem_of_list_fmap in H as ([k v] & Hk & Hin). cbn in Hk.
  apply elem_of_map_to_list in Hin. rewrite Hk. eauto.
Qed.

(* a successful post into an existing category: exactly what changes *)
Theorem post_effect s p0 ps parent title poster date data s' nd :
  let p := p0 :: ps in
  s !! p = Some nd -> n_nil nd = false -> max_key (n_arts nd) < 4294967295 ->
  post s p parent title poster date data = (s', Done) ->
  exists nd', s' !! p = Some nd' /\
    let id := next_id (n_arts nd) in
    (* the new article: fresh ID, requested parent, linked after the previously newest *)
    n_arts nd !! id = None /\
    n_arts nd' !! id = Some (mk_article title poster date
                               (if decide (n_arts nd = ∅) then 0 else max_key (n_arts nd)) 0 parent 0 data) /\
    (* every other article keeps title, poster, date and body; only link fields of the previous newest
       (next) and of the parent (first child, if it had none) change *)
    (forall k a, k <> id -> n_arts nd !! k = Some a ->
       exists a', n_arts nd' !! k = Some a' /\ ar_title a' = ar_title a /\ ar_poster a' = ar_poster a /\
                  ar_date a' = ar_date a /\ ar_data a' = ar_data a /\ ar_prev a' = ar_prev a /\ ar_parent a' = ar_parent a /\
                  (k <> max_key (n_arts nd) -> ar_next a' = ar_next a) /\
                  (k = max_key (n_arts nd) -> ar_next a' = id) /\
                  (k <> parent -> ar_first a' = ar_first a)) /\
    (forall k, k <> id -> n_arts nd !! k = None -> n_arts nd' !! k = None) /\
    (* nothing else in the tree changes *)
    (forall q, q <> p -> s' !! q = s !! q) /\ n_type nd' = n_type nd /\ n_name nd' = n_name nd.
Proof.
  cbn zeta. intros Hs Hnil Hb. unfold post. rewrite Hs, Hnil.
  set (m := n_arts nd). set (id := next_id m).
  pose proof (post_fresh_id m Hb) as Hfresh. fold id in Hfresh.
  set (prev := if decide (m = ∅) then 0 else max_key m).
  set (m1 := if decide (m = ∅) then m else alter (fun a => set_next a id) prev m).
  assert (Hm1id : m1 !! id = None).
  { unfold m1. destruct (decide (m = ∅)); [done|]. unfold prev. destruct (decide (m = ∅)); [done|].
    destruct (decide (id = max_key m)) as [E|E].
    - destruct (max_key_in m n) as [v Hv]. rewrite <- E in Hv. congruence.
    - by rewrite lookup_alter_ne. }
  assert (Hm1 : forall k a, m !! k = Some a ->
            exists a', m1 !! k = Some a' /\ ar_title a' = ar_title a /\ ar_poster a' = ar_poster a /\
              ar_date a' = ar_date a /\ ar_data a' = ar_data a /\ ar_prev a' = ar_prev a /\ ar_parent a' = ar_parent a /\
              ar_first a' = ar_first a /\
              (k <> max_key m -> ar_next a' = ar_next a) /\ (k = max_key m -> ar_next a' = id)).
  { intros k a Hk. unfold m1. destruct (decide (m = ∅)) as [->|Hne]; [by rewrite lookup_empty in Hk|].
    unfold prev. destruct (decide (m = ∅)); [done|].
    destruct (decide (k = max_key m)) as [->|Hkm].
    - rewrite lookup_alter, Hk. cbn. eexists. split; [done|]. cbn. repeat split; try done.
    - rewrite lookup_alter_ne by done. exists a. repeat split; try done. }
  assert (Hm1n : forall k, m !! k = None -> m1 !! k = None).
  { intros k Hk. unfold m1. destruct (decide (m = ∅)); [done|].
    destruct (decide (k = prev)) as [->|E]; [by rewrite lookup_alter, Hk|by rewrite lookup_alter_ne]. }
  destruct (decide (parent = 0)) as [Hp0|Hp0].
  - intros [= <-]. eexists. split; [by rewrite lookup_insert|]. cbn [n_arts n_type n_name].
    split; [done|]. split; [by rewrite lookup_insert|]. split; [|split; [|split; [|done]]].
    + intros k a Hk Ha. rewrite lookup_insert_ne by done. destruct (Hm1 _ _ Ha) as (a' & ? & ? & ? & ? & ? & ? & ? & ? & ? & ?).
      exists a'. repeat split; try done.
    + intros k Hk Hn. rewrite lookup_insert_ne by done. by apply Hm1n.
    + intros q Hq. by rewrite lookup_insert_ne.
  - destruct (m1 !! parent) as [pa|] eqn:Epa; [|discriminate]. intros [= <-].
    eexists. split; [by rewrite lookup_insert|]. cbn [n_arts n_type n_name].
    split; [done|]. split; [by rewrite lookup_insert|]. split; [|split; [|split; [|done]]].
    + intros k a Hk Ha. rewrite lookup_insert_ne by done. destruct (Hm1 _ _ Ha) as (a' & Ha' & ? & ? & ? & ? & ? & ? & ? & ? & ?).
      destruct (decide (ar_first pa = 0)) as [Hf|Hf].
      * destruct (decide (k = parent)) as [->|Hkp].
        -- rewrite lookup_insert. eexists. split; [done|]. rewrite Epa in Ha'. injection Ha' as ->.
           cbn. repeat split; try done.
        -- rewrite lookup_insert_ne by done. exists a'. repeat split; try done.
      * exists a'. repeat split; try done.
    + intros k Hk Hn. rewrite lookup_insert_ne by done.
      destruct (decide (ar_first pa = 0)).
      * destruct (decide (k = parent)) as [->|E]; [|rewrite lookup_insert_ne by done; by apply Hm1n].
        apply Hm1n in Hn. congruence.
      * by apply Hm1n.
    + intros q Hq. by rewrite lookup_insert_ne.
Qed.

(* deleting an article removes exactly that article *)
Theorem delete_article_exact s p0 ps id nd :
  let p := p0 :: ps in
  s !! p = Some nd ->
  exists nd', (delete_article s p id).1 !! p = Some nd' /\ (delete_article s p id).2 = Done /\
    n_arts nd' !! id = None /\ (forall k, k <> id -> n_arts nd' !! k = n_arts nd !! k) /\
    (forall q, q <> p -> (delete_article s p id).1 !! q = s !! q).
Proof.
  cbn zeta. intros Hs. unfold delete_article. rewrite Hs. cbn. eexists. split; [by rewrite lookup_insert|].
  split; [done|]. cbn. split; [apply lookup_delete|]. split.
  - intros k Hk. by rewrite lookup_delete_ne.
  - intros q Hq. by rewrite lookup_insert_ne.
Qed.

(* deleting a category/bundle removes exactly that item and what is below it *)
Theorem delete_item_exact s p0 ps q :
  let p := p0 :: ps in
  (delete_item s p).1 !! q = if is_prefix_of p q then (if parent_exists s (removelast p) then None else s !! q) else s !! q.
Proof.
  cbn zeta. unfold delete_item. destruct (parent_exists s (removelast (p0 :: ps))); cbn [fst].
  - unfold drop_subtree. destruct (is_prefix_of (p0 :: ps) q) eqn:E.
    + apply map_filter_lookup_None. right. intros v _. cbn. by rewrite E.
    + destruct (s !! q) as [v|] eqn:Eq.
      * apply map_filter_lookup_Some. split; [done|]. done.
      * apply map_filter_lookup_None. by left.
  - by destruct (is_prefix_of _ _).
Qed.

(* creating: the new node appears (empty), everything outside its subtree is untouched *)
Theorem create_exact s p name ty q :
  parent_exists s p = true ->
  (create s p name ty).2 = Done /\
  (create s p name ty).1 !! (p ++ [name]) = Some (mk_node ty name ∅ false) /\
  (is_prefix_of (p ++ [name]) q = false -> (create s p name ty).1 !! q = s !! q).
Proof.
  intros Hp. unfold create. rewrite Hp. cbn. split; [done|]. split; [by rewrite lookup_insert|].
  intros Hq. assert (q <> p ++ [name]).
  { intros ->. unfold is_prefix_of in Hq. rewrite firstn_all in Hq. by rewrite bool_decide_eq_false in Hq. }
  rewrite lookup_insert_ne by done. unfold drop_subtree.
  destruct (s !! q) as [v|] eqn:Eq.
  - apply map_filter_lookup_Some. done.
  - apply map_filter_lookup_None. by left.
Qed.

(* category listings show exactly the children of a path *)
Theorem children_exact s p q nd :
  children s p !! q = Some nd <-> s !! q = Some nd /\ length q = S (length p) /\ p = firstn (length p) q.
Proof.
  unfold children. rewrite map_filter_lookup_Some. cbn. tauto.
Qed.

(* every successful update writes the file: a restart reproduces the tree (nil maps read back as empty maps) *)
Theorem reload_same st o st' : nstep st o = (st', Done) -> ns_disk st' = reloaded (ns_mem st') \/ o = NReload.
Proof.
  destruct o as [p n t|p par t po d b|p i|p|]; cbn [nstep]; [| | | |by right].
  - destruct (create _ _ _ _) as [m [| |]]; intros [= <-]; by left.
  - destruct (post _ _ _ _ _ _ _) as [m [| |]]; intros [= <-]; by left.
  - destruct (delete_article _ _ _) as [m [| |]]; intros [= <-]; by left.
  - destruct p; [done|]. destruct (delete_item _ _) as [m [| |]]; intros [= <-]; by left.
Qed.
