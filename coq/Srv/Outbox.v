(* The outbox (hotline/server.go:183-207): every queued transaction is written to its recipient's connection by
   its own goroutine.  The connection is TCP-like: each Write call is atomic, calls are unordered.  Model only. *)
From Coq Require Import List Permutation.
From Verif Require Import Base.Bytes Wire.Parse Wire.Types Wire.Impl.
Import ListNotations.

Section I.
Context {A : Type}.
(* all interleavings of several writers' chunk sequences (each Write atomic, calls unordered across writers,
   ordered within a writer) *)
Inductive interleave : list (list A) -> list A -> Prop :=
| il_nil ws : Forall (fun w => w = []) ws -> interleave ws []
| il_step ws1 c w ws2 out :
    interleave (ws1 ++ w :: ws2) out -> interleave (ws1 ++ (c :: w) :: ws2) (c :: out).
End I.

(* sendTransaction as repaired: the whole transaction in ONE Write *)
Definition chunks_fixed (t : transaction) : list bytes := [impl_bytes_tran t].
(* sendTransaction as it was: io.Copy through a 32 KiB buffer, one Write per buffer-full *)
Fixpoint split_at (fuel : nat) (n : nat) (b : bytes) : list bytes :=
  match fuel with
  | O => [b]
  | S f => if (List.length b <=? n)%nat then [b] else firstn n b :: split_at f n (skipn n b)
  end.
Definition COPY_BUF : nat := N.to_nat 32768.     (* io.Copy's buffer *)
Definition chunks_pinned (t : transaction) : list bytes :=
  let b := impl_bytes_tran t in split_at (List.length b) COPY_BUF b.

(* the client's view: parse the received stream into transactions with the reference decoder *)
Fixpoint parse_all (fuel : nat) (bs : bytes) : option (list transaction) :=
  match bs with
  | [] => Some []
  | _ => match fuel with
         | O => None
         | S f => match spec_dec_tran bs with
                  | Some (t, rest) => option_map (cons t) (parse_all f rest)
                  | None => None
                  end
         end
  end.

(* replies (hotline/client_conn.go:179-201): the request's ID, the reply flag, addressed to the requester *)
Record addressed := mk_addr { ad_to : N; ad_tran : transaction }.
Definition new_reply (cc : N) (req : transaction) (fields : list field) : addressed :=
  mk_addr cc (mk_tran 0 1 0 (t_id req) 0 fields).
Definition new_err_reply (cc : N) (req : transaction) (msg : bytes) : addressed :=
  mk_addr cc (mk_tran 0 1 0 (t_id req) 1 [NewField 100 msg]).
