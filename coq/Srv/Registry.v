(* MemClientMgr (hotline/client_manager.go:44-99): ID allocation and the registry of live connections. Model. *)
From stdpp Require Import gmap.
From Coq Require Import NArith Lia.
Local Open Scope N_scope.

(* clients: ID -> connection token; next: the 32-bit counter (atomic.Uint32) *)
Record reg := mk_reg { clients : gmap N N; next : N }.
Definition reg0 : reg := mk_reg ∅ 0.

Definition ID_SPACE : N := 65536.

(* Add as repaired: try up to 65536 successive counter values, take the first ID not in use; if every ID is
   in use the last one tried is taken (and its entry replaced). *)
Fixpoint find_free (fuel : nat) (nx : N) (m : gmap N N) : N * N :=
  let n := (nx + 1) mod 4294967296 in
  let id := n mod ID_SPACE in
  match fuel with
  | O => (n, id)
  | S f => match m !! id with
           | None => (n, id)
           | Some _ => find_free f n m
           end
  end.
Definition add_fuel : nat := N.to_nat 65535.
Definition add (r : reg) (tok : N) : reg * N :=
  let '(n, id) := find_free add_fuel (next r) (clients r) in
  (mk_reg (<[id := tok]> (clients r)) n, id).
Definition del (r : reg) (id : N) : reg := mk_reg (delete id (clients r)) (next r).

(* Add as it was in the pinned tree: no check, the ID is simply the counter truncated to 16 bits *)
Definition add_pinned (r : reg) (tok : N) : reg * N :=
  let n := (next r + 1) mod 4294967296 in let id := n mod ID_SPACE in
  (mk_reg (<[id := tok]> (clients r)) n, id).

(* histories of connects / disconnects; a live connection keeps the ID it was given (cc.ID) *)
Inductive rop := Connect (tok : N) | Disconnect (tok : N).
Record world := mk_world { w_reg : reg; w_ids : gmap N N (* live token -> its ID *) }.
Definition world0 : world := mk_world reg0 ∅.
Definition wstep (w : world) (o : rop) : world :=
  match o with
  | Connect tok => let '(r, id) := add (w_reg w) tok in mk_world r (<[tok := id]> (w_ids w))
  | Disconnect tok => match w_ids w !! tok with
                      | Some id => mk_world (del (w_reg w) id) (delete tok (w_ids w))
                      | None => w
                      end
  end.
Definition wrun (h : list rop) : world := fold_left wstep h world0.
