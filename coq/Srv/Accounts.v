(* Accounts: YAMLAccountManager (internal/mobius/account_manager.go) and the account handlers
   (transaction_handlers.go:470-784), for logins that are legal file names (the file name is then an
   injective function of the login, so memory and disk are both keyed by login).  Model only. *)
From stdpp Require Import gmap.
From Coq Require Import NArith List.
From Verif Require Import Auth.Access.
Import ListNotations.
Local Open Scope N_scope.
Notation bytes := (list N) (only parsing).

(* the stored password: a salted bcrypt hash of the obfuscated password bytes.  bcrypt feeds the key
   password ++ [0], repeated cyclically, into 72 bytes of key schedule: two passwords verify against each
   other's hashes exactly when those 72 bytes agree (e.g. "" and "\x00").  HashAndSalt ignores bcrypt's
   error for inputs longer than 72 bytes and stores "", which nothing verifies against. *)
Fixpoint cyc (n : nat) (key cur : bytes) : bytes :=
  match n with
  | O => []
  | S m => match cur with
           | x :: r => x :: cyc m key r
           | [] => match key with x :: r => x :: cyc m key r | [] => [] end
           end
  end.
Definition key72 (p : bytes) : bytes := cyc 72 (p ++ [0]) (p ++ [0]).
Inductive pw := PwHash (p : bytes) | PwBroken.
#[global] Instance pw_eq_dec : EqDecision pw. Proof. solve_decision. Defined.
Definition hash (p : bytes) : pw := if (length p <=? 72)%nat then PwHash p else PwBroken.
Definition verify (h : pw) (q : bytes) : bool :=
  match h with PwHash p => bool_decide (key72 p = key72 q) | PwBroken => false end.

Record account := mk_acct { a_login : bytes; a_name : bytes; a_pw : pw; a_access : bytes }.
#[global] Instance account_eq_dec : EqDecision account. Proof. solve_decision. Defined.
Definition with_login (a : account) (l : bytes) : account := mk_acct l (a_name a) (a_pw a) (a_access a).

(* the account file keeps the 40 named privileges only (C16): what is written is the masked bitmap *)
Definition mask_acct (a : account) : account := mk_acct (a_login a) (a_name a) (a_pw a) (mask_defined (a_access a)).

Record am := mk_am { mem : gmap (list N) account; disk : gmap (list N) account }.

(* ---- manager ---- *)
Definition create (s : am) (a : account) : option am :=
  match disk s !! a_login a with
  | Some _ => None                                     (* O_CREATE|O_EXCL fails *)
  | None => Some (mk_am (<[a_login a := a]> (mem s)) (<[a_login a := mask_acct a]> (disk s)))
  end.
Definition delete_acct (s : am) (l : bytes) : option am :=
  match disk s !! l with
  | None => None                                       (* os.Remove fails *)
  | Some _ => Some (mk_am (delete l (mem s)) (delete l (disk s)))
  end.
(* Update(account, newLogin) as repaired: rename the file, drop the OLD key, store under the new one *)
Definition update (s : am) (a : account) (newl : bytes) : option am :=
  if decide (a_login a = newl) then
    Some (mk_am (<[newl := a]> (mem s)) (<[newl := mask_acct a]> (disk s)))
  else match disk s !! a_login a with
       | None => None                                  (* os.Rename fails *)
       | Some _ =>
           let a' := with_login a newl in
           Some (mk_am (<[newl := a']> (delete (a_login a) (mem s)))
                       (<[newl := mask_acct a']> (delete (a_login a) (disk s))))
       end.
(* Update as it was in the pinned tree: the map delete hit the NEW key, the old login stayed in memory *)
Definition update_pinned (s : am) (a : account) (newl : bytes) : option am :=
  if decide (a_login a = newl) then
    Some (mk_am (<[newl := a]> (mem s)) (<[newl := mask_acct a]> (disk s)))
  else match disk s !! a_login a with
       | None => None
       | Some _ =>
           let a' := with_login a newl in
           Some (mk_am (<[newl := a']> (delete newl (<[newl := a']> (mem s))))
                       (<[newl := mask_acct a']> (delete (a_login a) (disk s))))
       end.
Definition reload (s : am) : am := mk_am (disk s) (disk s).

(* ---- handlers (the requester holds every privilege; privileges are C05/C06) ---- *)
Inductive status := Replied | ErrReplied | NoReply | Panicked.

Definition copy8 (src : bytes) (old : bytes) : bytes := firstn 8 (src ++ skipn (length src) old).
Definition zero8 : bytes := repeat 0 8.

(* password field handling shared by SetUser and the modify branch of UpdateUser *)
Definition new_pw (old : pw) (field : option bytes) : pw :=
  match field with
  | None => hash []                       (* field absent: password cleared *)
  | Some [0] => old                       (* a single zero byte: unchanged *)
  | Some p => hash p
  end.

Definition new_user (s : am) (login name : bytes) (pwf : option bytes) (access : bytes) : am * status :=
  match mem s !! login with
  | Some _ => (s, ErrReplied)
  | None =>
      let a := mk_acct login name (hash (default [] pwf)) (copy8 access zero8) in
      match create s a with Some s' => (s', Replied) | None => (s, ErrReplied) end
  end.

Definition set_user (s : am) (login name : bytes) (pwf : option bytes) (access : bytes) : am * status :=
  match mem s !! login with
  | None => (s, ErrReplied)
  | Some a =>
      let a' := mk_acct (a_login a) name (new_pw (a_pw a) pwf) (copy8 access (a_access a)) in
      match update s a' (a_login a') with Some s' => (s', Replied) | None => (s, Replied) end
  end.

Definition delete_user (s : am) (login : bytes) : am * status :=
  match delete_acct s login with Some s' => (s', Replied) | None => (s, NoReply) end.

(* one sub-record of the batched UpdateUser request *)
Inductive sub :=
| SubDelete (login : bytes)
| SubEdit (rename_from : option bytes) (login name : bytes) (pwf : option bytes) (access : option bytes).

Fixpoint update_user (s : am) (subs : list sub) : am * status :=
  match subs with
  | [] => (s, Replied)
  | SubDelete l :: r =>
      match delete_acct s l with
      | None => (s, NoReply)
      | Some s' => update_user s' r
      end
  | SubEdit rn login name pwf acc :: r =>
      let target := match rn with Some (x :: t) => x :: t | _ => login end in
      match mem s !! target with
      | Some a =>
          let a' := mk_acct (a_login a) name (new_pw (a_pw a) pwf)
                            (match acc with Some x => copy8 x (a_access a) | None => a_access a end) in
          match update s a' login with
          | None => (s, NoReply)
          | Some s' => update_user s' r
          end
      | None =>
          match acc, pwf with
          | Some x, Some p =>
              let a := mk_acct login name (hash p) (copy8 x zero8) in
              match create s a with
              | None => (s, ErrReplied)
              | Some s' => update_user s' r
              end
          | _, _ => (s, Panicked)      (* the create branch dereferences the access and password sub-fields *)
          end
      end
  end.

(* authentication (ClientConn.Authenticate): by the in-memory table *)
Definition can_login (s : am) (login pwd : bytes) : bool :=
  match mem s !! login with Some a => verify (a_pw a) pwd | None => false end.

(* ---- histories ---- *)
Inductive aop :=
| ONew (login name : bytes) (pwf : option bytes) (access : bytes)
| OSet (login name : bytes) (pwf : option bytes) (access : bytes)
| OUpdate (subs : list sub)
| ODelete (login : bytes)
| OReload.
Definition astep (s : am) (o : aop) : am * status :=
  match o with
  | ONew l n p a => new_user s l n p a
  | OSet l n p a => set_user s l n p a
  | OUpdate subs => update_user s subs
  | ODelete l => delete_user s l
  | OReload => (reload s, Replied)
  end.
Definition arun (s : am) (h : list aop) : am := fold_left (fun s o => fst (astep s o)) h s.
