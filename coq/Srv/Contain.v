(* Containment (C03): the resource bracket of a connection.  A connection acquires things in a fixed order - its
   registry entry, the connected counter, (transfer port) the claimed transfer entry and an in-progress counter -
   and every acquisition is immediately followed by a deferred release; the first deferred call of the handler is
   the panic recovery.  Go runs deferred calls in reverse order on return AND on panic, so whatever the body does
   with the peer's bytes - return, fail, panic - the releases run and the panic stops at the handler.  Model only:
   that the code has this shape is Gen/Structure.v's business (regenerated from the sources on every run). *)
From Coq Require Import List ZArith Bool.
Import ListNotations.
Local Open Scope Z_scope.

Inductive ending := Returned | Failed | Panicked.
Record counters := mk_ctr { connected : Z; downloads : Z; uploads : Z }.
Record sstate := mk_ss { registry : list nat; ctr : counters; pending : list nat (* transfer entries *) }.

(* what a handler body may do to the shared state besides its own bracket: anything its requests are entitled to
   (other properties); here it is an arbitrary function that leaves THIS connection's bracket alone *)
Definition respects (id : nat) (f : sstate -> sstate) : Prop :=
  forall s, (In id (registry (f s)) <-> In id (registry s)) /\ ctr (f s) = ctr s.

Definition remove_id (id : nat) (l : list nat) : list nat := filter (fun x => negb (Nat.eqb x id)) l.

(* a control connection that logged in as [id]; [body] = the effect of the requests it got through, [e] = how the
   loop ended.  The deferred calls run for every ending: Decrement(connected), Disconnect (registry), recover. *)
Definition control_conn (s : sstate) (id : nat) (body : sstate -> sstate) (e : ending) : sstate * bool (* process alive *) :=
  let s1 := mk_ss (id :: registry s) (ctr s) (pending s) in                                   (* ClientMgr.Add; defer Disconnect *)
  let s2 := mk_ss (registry s1) (mk_ctr (connected (ctr s1) + 1) (downloads (ctr s1)) (uploads (ctr s1))) (pending s1) in
  let s3 := body s2 in                                                                         (* requests; may end in any way *)
  let s4 := mk_ss (registry s3) (mk_ctr (connected (ctr s3) - 1) (downloads (ctr s3)) (uploads (ctr s3))) (pending s3) in
  let s5 := mk_ss (remove_id id (registry s4)) (ctr s4) (pending s4) in
  (s5, true).                                                                                  (* dontPanic recovered, if needed *)
(* a connection that does not get in (bad handshake, banned, bad login, undecodable first transaction) *)
Definition rejected_conn (s : sstate) : sstate * bool := (s, true).

(* a transfer connection claiming entry [ref]: Get, defer Delete, Increment(kind), defer Decrement(kind), body *)
Definition transfer_conn (s : sstate) (ref : nat) (is_upload : bool) (e : ending) : sstate * bool :=
  if negb (existsb (Nat.eqb ref) (pending s)) then (s, true) else              (* unknown reference: nothing claimed *)
  let c := ctr s in
  let c1 := if is_upload then mk_ctr (connected c) (downloads c) (uploads c + 1) else mk_ctr (connected c) (downloads c + 1) (uploads c) in
  let c2 := if is_upload then mk_ctr (connected c1) (downloads c1) (uploads c1 - 1) else mk_ctr (connected c1) (downloads c1 - 1) (uploads c1) in
  (mk_ss (registry s) c2 (remove_id ref (pending s)), true).
