(* Chat (internal/mobius/transaction_handlers.go:72-123,1567-1753, hotline/chat.go): audiences and text.  Model. *)
From stdpp Require Import gmap.
From Coq Require Import NArith List.
Import ListNotations.
Local Open Scope N_scope.
Notation bytes := (list N) (only parsing).

(* ---- text: fmt.Sprintf("\r%13.13s:  %s", name, msg), "\r*** %s %s", cut to 8192 bytes ---- *)
(* one rune as Go's range-over-string / utf8.DecodeRune sees it: a valid UTF-8 sequence, or a single byte *)
Definition cont (b : N) : bool := (128 <=? b) && (b <=? 191).
Definition rune_len (s : bytes) : nat :=
  match s with
  | [] => 0%nat
  | b0 :: r =>
      if b0 <? 128 then 1%nat
      else if (194 <=? b0) && (b0 <=? 223) then
        match r with b1 :: _ => if cont b1 then 2%nat else 1%nat | _ => 1%nat end
      else if (224 <=? b0) && (b0 <=? 239) then
        match r with
        | b1 :: b2 :: _ =>
            let lo := if b0 =? 224 then 160 else 128 in
            let hi := if b0 =? 237 then 159 else 191 in
            if (lo <=? b1) && (b1 <=? hi) && cont b2 then 3%nat else 1%nat
        | _ => 1%nat
        end
      else if (240 <=? b0) && (b0 <=? 244) then
        match r with
        | b1 :: b2 :: b3 :: _ =>
            let lo := if b0 =? 240 then 144 else 128 in
            let hi := if b0 =? 244 then 143 else 191 in
            if (lo <=? b1) && (b1 <=? hi) && cont b2 && cont b3 then 4%nat else 1%nat
        | _ => 1%nat
        end
      else 1%nat
  end.
Fixpoint runes (fuel : nat) (s : bytes) : list bytes :=
  match fuel with
  | O => []
  | S f => match s with
           | [] => []
           | _ => let n := rune_len s in firstn n s :: runes f (skipn n s)
           end
  end.
Definition rune_list (s : bytes) : list bytes := runes (length s) s.
(* %13.13s : cut to 13 runes, then pad on the left with spaces to 13 runes *)
Definition pad13 (name : bytes) : bytes :=
  let rs := firstn 13 (rune_list name) in
  repeat 32 (13 - length rs) ++ concat rs.
Definition LIMIT_CHAT : nat := N.to_nat 8192.
Definition format_chat (name msg : bytes) (emote : bool) : bytes :=
  firstn LIMIT_CHAT
    (if emote then [13; 42; 42; 42; 32] ++ name ++ [32] ++ msg
     else [13] ++ pad13 name ++ [58; 32; 32] ++ msg).

(* ---- audiences ---- *)
Record cli := mk_cli { c_name : bytes; c_read : bool; c_send : bool; c_refuse_chat : bool }.
Record cstate := mk_cs {
  cs_reg : gmap N cli;              (* connected users (with an account) by ID *)
  cs_order : list N;                (* connected IDs ascending *)
  cs_chats : gmap N (list N)        (* private chat -> member IDs ascending (purged on disconnect: LeaveAll) *)
}.

Fixpoint insert_sorted (x : N) (l : list N) : list N :=
  match l with
  | [] => [x]
  | y :: r => if x <? y then x :: l else if x =? y then l else y :: insert_sorted x r
  end.
Definition remove_id (x : N) (l : list N) : list N := List.filter (fun y => negb (y =? x)) l.

(* public chat: one chat message to every connected user whose account may read chat *)
Definition public_audience (s : cstate) : list N :=
  List.filter (fun i => match cs_reg s !! i with Some c => c_read c | None => false end) (cs_order s).
(* private chat: its members *)
Definition members (s : cstate) (chat : N) : option (list N) := cs_chats s !! chat.

Inductive chat_ev :=
| EvLine (to_ : N) (chat : option N) (text : bytes)       (* TranChatMsg *)
| EvJoined (to_ : N) (chat who : N)                        (* TranNotifyChatChangeUser *)
| EvLeft (to_ : N) (chat who : N)                          (* TranNotifyChatDeleteUser *)
| EvSubject (to_ : N) (chat : N) (subj : bytes)            (* TranNotifyChatSubject *)
| EvInvite (to_ : N) (chat who : N)                        (* TranInviteToChat *)
| EvRefused (to_ : N) (who : N)                            (* server message: "... does not accept private chats." *)
| EvError (to_ : N)                                        (* error reply *)
| EvPanic.
Definition ev_to (e : chat_ev) : option N :=
  match e with
  | EvLine t _ _ | EvJoined t _ _ | EvLeft t _ _ | EvSubject t _ _ | EvInvite t _ _ | EvRefused t _ | EvError t => Some t
  | EvPanic => None
  end.

Definition name_of (s : cstate) (i : N) : bytes := match cs_reg s !! i with Some c => c_name c | None => [] end.

Definition send_public (s : cstate) (who : N) (msg : bytes) (emote : bool) : list chat_ev :=
  match cs_reg s !! who with
  | Some c => if c_send c
              then map (fun t => EvLine t None (format_chat (c_name c) msg emote)) (public_audience s)
              else [EvError who]
  | None => []
  end.
Definition send_private (s : cstate) (who chat : N) (msg : bytes) (emote : bool) : list chat_ev :=
  match cs_reg s !! who with
  | Some c => if c_send c
              then match members s chat with
                   | Some ms => map (fun t => EvLine t (Some chat) (format_chat (c_name c) msg emote)) ms
                   | None => [EvPanic]
                   end
              else [EvError who]
  | None => []
  end.
Definition DECLINED : bytes := [32;100;101;99;108;105;110;101;100;32;105;110;118;105;116;97;116;105;111;110;32;116;111;32;99;104;97;116].
Definition decline (s : cstate) (who chat : N) : list chat_ev :=
  match members s chat with
  | Some ms => map (fun t => EvLine t (Some chat) (name_of s who ++ DECLINED)) ms
  | None => [EvPanic]
  end.
Definition join (s : cstate) (who chat : N) : cstate * list chat_ev :=
  match members s chat with
  | Some ms => (mk_cs (cs_reg s) (cs_order s) (<[chat := insert_sorted who ms]> (cs_chats s)),
                map (fun t => EvJoined t chat who) ms)
  | None => (s, [EvPanic])
  end.
Definition leave (s : cstate) (who chat : N) : cstate * list chat_ev :=
  match members s chat with
  | Some ms => let ms' := remove_id who ms in
               (mk_cs (cs_reg s) (cs_order s) (<[chat := ms']> (cs_chats s)), map (fun t => EvLeft t chat who) ms')
  | None => (s, [EvPanic])       (* Leave tolerates a missing chat, the Members call after it does not *)
  end.
Definition set_subject (s : cstate) (chat : N) (subj : bytes) : list chat_ev :=
  match members s chat with
  | Some ms => map (fun t => EvSubject t chat subj) ms
  | None => [EvPanic]
  end.
(* invite to a NEW chat (ID chosen at random by the server: an input): the creator is its only member *)
Definition invite_new (s : cstate) (who target chat : N) : cstate * list chat_ev :=
  let s' := mk_cs (cs_reg s) (cs_order s) (<[chat := [who]]> (cs_chats s)) in
  match cs_reg s !! target with
  | None => (s', [EvPanic])
  | Some t => (s', [if c_refuse_chat t then EvRefused who target else EvInvite target chat who])
  end.
Definition disconnect (s : cstate) (who : N) : cstate :=
  mk_cs (delete who (cs_reg s)) (remove_id who (cs_order s)) (remove_id who <$> cs_chats s).
Definition connect (s : cstate) (id : N) (c : cli) : cstate :=
  mk_cs (<[id := c]> (cs_reg s)) (insert_sorted id (cs_order s)) (cs_chats s).
