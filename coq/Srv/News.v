(* Threaded news: ThreadedNewsYAML (internal/mobius/threaded_news.go).  The nested name -> node maps of the Go
   code are represented by ONE map from paths to nodes: the children of p are the keys p ++ [name].  Model only. *)
From stdpp Require Import gmap.
From Coq Require Import NArith List.
Import ListNotations.
Local Open Scope N_scope.
Notation bytes := (list N) (only parsing).
Notation npath := (list (list N)) (only parsing).

Record article := mk_article {
  ar_title : bytes; ar_poster : bytes; ar_date : bytes;
  ar_prev : N; ar_next : N; ar_parent : N; ar_first : N; ar_data : bytes }.
(* n_nil: the Articles map is a nil map (a node that came into being as a Go zero value) *)
Record node := mk_node { n_type : N; n_name : bytes; n_arts : gmap N article; n_nil : bool }.
Notation store := (gmap (list (list N)) node).

Definition is_prefix_of (p q : npath) : bool := bool_decide (p = firstn (length p) q).
Definition parent_exists (s : store) (p : npath) : bool :=
  match p with [] => true | _ => bool_decide (is_Some (s !! p)) end.
Definition drop_subtree (s : store) (p : npath) : store := base.filter (fun kv => is_prefix_of p (fst kv) = false) s.

Inductive outcome := Done | Panicked | Failed.

(* CreateGrouping(path, name, type): the new node REPLACES an existing one of that name (with all below it) *)
Definition create (s : store) (p : npath) (name : bytes) (ty : N) : store * outcome :=
  if parent_exists s p
  then (<[p ++ [name] := mk_node ty name ∅ false]> (drop_subtree s (p ++ [name])), Done)
  else (s, Panicked).                                   (* assignment to an entry of a nil map *)

(* DeleteNewsItem(path): the node and everything below it *)
Definition delete_item (s : store) (p : npath) : store * outcome :=
  match p with
  | [] => (s, Failed)
  | _ => if parent_exists s (removelast p) then (drop_subtree s p, Done) else (s, Done)
  end.

Definition max_key (m : gmap N article) : N := foldr N.max 0 (map fst (map_to_list m)).
(* PostArticle: ID = 1, or highest ID + 1 (uint32) *)
Definition next_id (m : gmap N article) : N :=
  if decide (m = ∅) then 1 else (max_key m + 1) mod 4294967296.

Definition set_next (a : article) (n : N) : article :=
  mk_article (ar_title a) (ar_poster a) (ar_date a) (ar_prev a) n (ar_parent a) (ar_first a) (ar_data a).
Definition set_first (a : article) (n : N) : article :=
  mk_article (ar_title a) (ar_poster a) (ar_date a) (ar_prev a) (ar_next a) (ar_parent a) n (ar_data a).

(* returns (new memory state, outcome); on a panic after the in-place update of the previous newest article's
   NextArt the memory state has changed although nothing was written *)
Definition post (s : store) (p : npath) (parent : N) (title poster date data : bytes) : store * outcome :=
  match p with
  | [] => (s, Failed)
  | _ =>
      match s !! p with
      | None => (s, Panicked)                           (* zero category: nil Articles map *)
      | Some nd =>
          if n_nil nd then (s, Panicked) else
          let m := n_arts nd in
          let id := next_id m in
          let prev := if decide (m = ∅) then 0 else max_key m in
          let m1 := if decide (m = ∅) then m else alter (fun a => set_next a id) prev m in
          let art := mk_article title poster date prev 0 parent 0 data in
          if decide (parent = 0) then
            (<[p := mk_node (n_type nd) (n_name nd) (<[id := art]> m1) false]> s, Done)
          else match m1 !! parent with
               | None => (<[p := mk_node (n_type nd) (n_name nd) m1 false]> s, Panicked)
               | Some pa =>
                   let m2 := if decide (ar_first pa = 0) then <[parent := set_first pa id]> m1 else m1 in
                   (<[p := mk_node (n_type nd) (n_name nd) (<[id := art]> m2) false]> s, Done)
               end
      end
  end.

(* DeleteArticle(path, id): removes the key only; on a missing category below an existing parent it stores a
   zero-valued node under that name *)
Definition delete_article (s : store) (p : npath) (id : N) : store * outcome :=
  match p with
  | [] => (s, Failed)
  | _ =>
      match s !! p with
      | Some nd => (<[p := mk_node (n_type nd) (n_name nd) (delete id (n_arts nd)) (n_nil nd)]> s, Done)
      | None => if parent_exists s (removelast p)
                then (<[p := mk_node 0 [] ∅ true]> s, Done)
                else (s, Panicked)
      end
  end.

(* what a restart reads back: nil maps come back as empty maps *)
Definition reloaded (s : store) : store := (fun nd => mk_node (n_type nd) (n_name nd) (n_arts nd) false) <$> s.

(* memory and the file *)
Record nstate := mk_ns { ns_mem : store; ns_disk : store }.
Inductive nop :=
| NCreate (p : npath) (name : bytes) (ty : N)
| NPost (p : npath) (parent : N) (title poster date data : bytes)
| NDelArt (p : npath) (id : N)
| NDelItem (p : npath)
| NReload.
Definition nstep (st : nstate) (o : nop) : nstate * outcome :=
  let wrap (r : store * outcome) :=
    match r with
    | (m, Done) => (mk_ns m (reloaded m), Done)        (* writeFile: the file now holds the tree *)
    | (m, oc) => (mk_ns m (ns_disk st), oc)
    end in
  match o with
  | NCreate p n t => wrap (create (ns_mem st) p n t)
  | NPost p par t po d b => wrap (post (ns_mem st) p par t po d b)
  | NDelArt p i => wrap (delete_article (ns_mem st) p i)
  | NDelItem p => match p with [] => (st, Failed) | _ => wrap (delete_item (ns_mem st) p) end
  | NReload => (mk_ns (ns_disk st) (ns_disk st), Done)
  end.

(* GetCategories(path): the children of a path *)
Definition children (s : store) (p : npath) : store :=
  base.filter (fun kv => length (fst kv) = S (length p) /\ p = firstn (length p) (fst kv)) s.
