(* Message board and agreement: a text store with ONE read cursor shared by all clients
   (internal/mobius/news.go FlatNews, agreement.go Agreement), its users
   (transaction_handlers.go HandleGetMsgs / HandleTranOldPostNews, hotline/server.go agreement at login) and
   the lock that makes "rewind, then read to the end" one step.  Model only. *)
From Coq Require Import List Arith NArith Lia.
From Verif Require Import Base.Bytes.
Import ListNotations.

(* ---- the store: text, cursor, what is on disk ---- *)
Record store := mk_store { s_data : bytes; s_cur : nat; s_disk : bytes }.
Definition seek0 (s : store) : store := mk_store (s_data s) 0 (s_disk s).
(* Read(p) with len p = n: one chunk from the cursor; the empty chunk is io.EOF *)
Definition read (n : nat) (s : store) : store * bytes :=
  let c := firstn n (skipn (s_cur s) (s_data s)) in
  (mk_store (s_data s) (s_cur s + List.length c) (s_disk s), c).
(* Write(p): prepend, persist (temporary file + rename: C20); the cursor is left alone *)
Definition write (p : bytes) (s : store) : store := mk_store (p ++ s_data s) (s_cur s) (p ++ s_data s).

(* ---- io.ReadAll: read chunks until EOF; the chunk capacity may depend on how much was read so far ---- *)
Fixpoint read_all (fuel : nat) (capf : nat -> nat) (s : store) (acc : bytes) : store * option bytes :=
  match fuel with
  | O => (s, None)
  | S f => let '(s', c) := read (capf (List.length acc)) s in
           match c with
           | [] => (s', Some acc)
           | _ => read_all f capf s' (acc ++ c)
           end
  end.
(* "rewind and read to the end" as ONE step (inside the lock) *)
Definition read_whole (capf : nat -> nat) (s : store) : store * option bytes :=
  read_all (S (List.length (s_data s))) capf (seek0 s) [].

(* ---- critical sections in the order the lock grants them ---- *)
Inductive cs := Post (p : bytes) | ReadBoard.
Definition cs_step (capf : nat -> nat) (s : store) (c : cs) : store * option bytes :=
  match c with
  | Post p => (write p s, None)
  | ReadBoard => read_whole capf s
  end.
Fixpoint cs_run (capf : nat -> nat) (s : store) (h : list cs) : store * list (option bytes) :=
  match h with
  | [] => (s, [])
  | c :: r => let '(s1, o) := cs_step capf s c in let '(s2, os) := cs_run capf s1 r in (s2, o :: os)
  end.
Definition posts_of (h : list cs) : list bytes :=
  concat (map (fun c => match c with Post p => [p] | ReadBoard => [] end) h).
(* the board after the posts ps (oldest first) were made on text t: newest first *)
Definition board_after (ps : list bytes) (t : bytes) : bytes := fold_left (fun acc p => p ++ acc) ps t.

(* ---- WITHOUT the lock: the atomic steps of several readers interleave ---- *)
Inductive rstate := RStart | RReading (acc : bytes) | RDone (acc : bytes).
Definition rstep (capf : nat -> nat) (s : store) (r : rstate) : store * rstate :=
  match r with
  | RStart => (seek0 s, RReading [])
  | RReading acc => let '(s', c) := read (capf (List.length acc)) s in
                    (s', match c with [] => RDone acc | _ => RReading (acc ++ c) end)
  | RDone acc => (s, RDone acc)
  end.
Fixpoint set_nth {A} (n : nat) (x : A) (l : list A) : list A :=
  match l, n with
  | [], _ => []
  | _ :: r, O => x :: r
  | y :: r, S m => y :: set_nth m x r
  end.
(* a schedule names the reader that makes the next step *)
Fixpoint interleave (capf : nat -> nat) (s : store) (rs : list rstate) (sched : list nat) : store * list rstate :=
  match sched with
  | [] => (s, rs)
  | i :: rest => match nth_error rs i with
                 | Some r => let '(s', r') := rstep capf s r in interleave capf s' (set_nth i r' rs) rest
                 | None => interleave capf s rs rest
                 end
  end.

(* ---- the post format (hotline/message_board.go NewsTemplate + "\r", line feeds turned into returns) ---- *)
Definition CR : N := 13.
Definition lf_to_cr (b : bytes) : bytes := map (fun x => if N.eqb x 10 then CR else x) b.
Definition RULE : bytes := repeat 95%N 58.                       (* 58 underscores *)
Definition format_post (name date body : bytes) : bytes :=
  lf_to_cr ([70; 114; 111; 109; 32]%N ++ name ++ [32; 40]%N ++ date ++ [41; 58]%N ++ [10; 10]%N ++ body ++ [10; 10]%N ++ RULE ++ [CR]).
