From stdpp Require Import gmap.
From Coq Require Import NArith List Lia.
From Verif Require Import Auth.Access Srv.Accounts.
Import ListNotations.
Local Open Scope N_scope.

(* disk holds exactly the accounts of memory (privileges restricted to the 40 named ones, which is all the
   account file can express); every account is stored under its own login; bitmaps are 8 bytes *)
Definition consistent (s : am) : Prop :=
  disk s = mask_acct <$> mem s /\
  (forall l a, mem s !! l = Some a -> a_login a = l) /\
  (forall l a, mem s !! l = Some a -> List.length (a_access a) = 8%nat).

Lemma copy8_len src old : List.length old = 8%nat -> List.length (copy8 src old) = 8%nat.
Proof. intros H. unfold copy8. rewrite firstn_length, app_length, skipn_length. lia. Qed.

Lemma create_consistent s a s' :
  consistent s -> List.length (a_access a) = 8%nat -> create s a = Some s' -> consistent s'.
Proof.
  intros (H & K & W) Ha. unfold create. destruct (disk s !! a_login a); [done|]. intros [= <-].
  split; [|split]; cbn.
  - by rewrite H, fmap_insert.
  - intros l b. destruct (decide (l = a_login a)) as [->|Hne].
    + rewrite lookup_insert. by intros [= <-].
    + rewrite lookup_insert_ne by done. apply K.
  - intros l b. destruct (decide (l = a_login a)) as [->|Hne].
    + rewrite lookup_insert. by intros [= <-].
    + rewrite lookup_insert_ne by done. apply W.
Qed.

Lemma delete_consistent s l s' : consistent s -> delete_acct s l = Some s' -> consistent s'.
Proof.
  intros (H & K & W). unfold delete_acct. destruct (disk s !! l); [|done]. intros [= <-].
  split; [|split]; cbn.
  - by rewrite H, fmap_delete.
  - intros k b. destruct (decide (k = l)) as [->|Hne]; [by rewrite lookup_delete|].
    rewrite lookup_delete_ne by done. apply K.
  - intros k b. destruct (decide (k = l)) as [->|Hne]; [by rewrite lookup_delete|].
    rewrite lookup_delete_ne by done. apply W.
Qed.

Lemma update_consistent s a newl s' :
  consistent s -> List.length (a_access a) = 8%nat -> update s a newl = Some s' -> consistent s'.
Proof.
  intros (H & K & W) Ha. unfold update. destruct (decide (a_login a = newl)) as [E|E].
  - intros [= <-]. split; [|split]; cbn; [by rewrite H, fmap_insert| |].
    + intros k b. destruct (decide (k = newl)) as [->|Hne].
      * rewrite lookup_insert. by intros [= <-].
      * rewrite lookup_insert_ne by done. apply K.
    + intros k b. destruct (decide (k = newl)) as [->|Hne].
      * rewrite lookup_insert. by intros [= <-].
      * rewrite lookup_insert_ne by done. apply W.
  - destruct (disk s !! a_login a); [|done]. intros [= <-].
    split; [|split]; cbn; [by rewrite H, fmap_insert, fmap_delete| |].
    + intros k b. destruct (decide (k = newl)) as [->|Hne].
      * rewrite lookup_insert. by intros [= <-].
      * rewrite lookup_insert_ne by done.
        destruct (decide (k = a_login a)) as [->|Hn2]; [by rewrite lookup_delete|].
        rewrite lookup_delete_ne by done. apply K.
    + intros k b. destruct (decide (k = newl)) as [->|Hne].
      * rewrite lookup_insert. by intros [= <-].
      * rewrite lookup_insert_ne by done.
        destruct (decide (k = a_login a)) as [->|Hn2]; [by rewrite lookup_delete|].
        rewrite lookup_delete_ne by done. apply W.
Qed.

Lemma zero8_len : List.length Accounts.zero8 = 8%nat. Proof. reflexivity. Qed.

Lemma new_user_consistent s l n p a : consistent s -> consistent (new_user s l n p a).1.
Proof.
  intros HC. unfold new_user. destruct (mem s !! l); [done|].
  destruct (create s _) as [s'|] eqn:E; [|done]. cbn. eapply create_consistent; eauto.
  cbn. apply copy8_len, zero8_len.
Qed.
Lemma set_user_consistent s l n p a : consistent s -> consistent (set_user s l n p a).1.
Proof.
  intros HC. unfold set_user. destruct (mem s !! l) as [acc|] eqn:Ea; [|done].
  destruct (update s _ _) as [s'|] eqn:E; [|done]. cbn. eapply update_consistent; eauto.
  cbn. apply copy8_len. destruct HC as (_ & _ & W). eauto.
Qed.
Lemma delete_user_consistent s l : consistent s -> consistent (delete_user s l).1.
Proof.
  intros HC. unfold delete_user. destruct (delete_acct s l) as [s'|] eqn:E; [|done]. cbn. eapply delete_consistent; eauto.
Qed.
Lemma update_user_consistent subs : forall s, consistent s -> consistent (update_user s subs).1.
Proof.
  induction subs as [|[l|rn l n p acc] r IH]; intros s HC; cbn [update_user]; [done| |].
  - destruct (delete_acct s l) as [s'|] eqn:E; [|done]. apply IH. eapply delete_consistent; eauto.
  - destruct (mem s !! _) as [a|] eqn:Ea.
    + destruct (update s _ l) as [s'|] eqn:E; [|done]. apply IH. eapply update_consistent; eauto.
      cbn. destruct HC as (_ & _ & W). destruct acc; [apply copy8_len|]; eauto.
    + destruct acc as [x|]; [|done]. destruct p as [pp|]; [|done].
      destruct (create s _) as [s'|] eqn:E; [|done].
      apply IH. eapply create_consistent; eauto. cbn. apply copy8_len, zero8_len.
Qed.

Lemma mask_acct_idem a : List.length (a_access a) = 8%nat -> mask_acct (mask_acct a) = mask_acct a.
Proof.
  intros Hl. unfold mask_acct. cbn. f_equal. unfold mask_defined.
  destruct (a_access a) as [|b0 [|b1 [|b2 [|b3 [|b4 [|b5 [|b6 [|b7 [|]]]]]]]]]; try discriminate.
  cbn. rewrite <- !N.land_assoc. reflexivity.
Qed.
Lemma mask_acct_len a : List.length (a_access a) = 8%nat -> List.length (a_access (mask_acct a)) = 8%nat.
Proof.
  intros Hl. cbn. unfold mask_defined.
  destruct (a_access a) as [|b0 [|b1 [|b2 [|b3 [|b4 [|b5 [|b6 [|b7 [|]]]]]]]]]; try discriminate. reflexivity.
Qed.

Lemma reload_consistent s : consistent s -> consistent (reload s).
Proof.
  intros (H & K & W). split; [|split]; cbn.
  - rewrite H. rewrite <- map_fmap_compose. apply map_eq. intros l. rewrite !lookup_fmap.
    destruct (mem s !! l) as [a|] eqn:E; cbn; [|done]. f_equal. symmetry. apply mask_acct_idem. eauto.
  - intros l a. rewrite H, lookup_fmap. destruct (mem s !! l) as [b|] eqn:E; cbn; [|done].
    intros [= <-]. cbn. eauto.
  - intros l a. rewrite H, lookup_fmap. destruct (mem s !! l) as [b|] eqn:E; cbn; [|done].
    intros [= <-]. apply mask_acct_len. eauto.
Qed.

Lemma astep_consistent s o : consistent s -> consistent (astep s o).1.
Proof.
  intros HC. destruct o; cbn [astep].
  - by apply new_user_consistent.
  - by apply set_user_consistent.
  - by apply update_user_consistent.
  - by apply delete_user_consistent.
  - by apply reload_consistent.
Qed.

Theorem arun_consistent h : forall s, consistent s -> consistent (arun s h).
Proof.
  unfold arun. induction h as [|o t IH]; intros s HC; cbn [fold_left]; [done|]. apply IH. by apply astep_consistent.
Qed.

(* what can log in = what is listed (memory) = what is on disk, after any history; a restart yields the same
   logins, names and passwords and the named privileges *)
Theorem login_listed_disk h s0 : consistent s0 ->
  let s := arun s0 h in
  disk s = mask_acct <$> mem s /\
  mem (reload s) = mask_acct <$> mem s /\
  (forall l, is_Some (mem s !! l) <-> is_Some (disk s !! l)) /\
  (forall l p, can_login s l p = true <-> exists a, disk s !! l = Some a /\ verify (a_pw a) p = true) /\
  (forall l p, can_login (reload s) l p = can_login s l p).
Proof.
  intros HC. cbn zeta. destruct (arun_consistent h s0 HC) as (H & K & W).
  split; [done|]. split; [by cbn|]. split; [|split].
  - intros l. rewrite H, lookup_fmap. destruct (mem (arun s0 h) !! l); cbn; split; intros [? ?]; eauto; done.
  - intros l p. unfold can_login. rewrite H, lookup_fmap.
    destruct (mem (arun s0 h) !! l) as [a|]; cbn; [|naive_solver].
    split; [eauto|]. by intros (a' & [= <-] & Hv).
  - intros l p. unfold can_login, reload. cbn. rewrite H, lookup_fmap.
    by destruct (mem (arun s0 h) !! l) as [a|].
Qed.

(* a deleted login can no longer log in, whatever password is tried *)
Theorem deleted_cannot_login s l s' p :
  delete_user s l = (s', Replied) -> can_login s' l p = false.
Proof.
  unfold delete_user, delete_acct. destruct (disk s !! l); [|done]. intros [= <-]. unfold can_login. cbn.
  by rewrite lookup_delete.
Qed.

(* renaming: the old login is gone, the new one carries the account *)
Theorem renamed_old_gone_new_present s a newl s' :
  a_login a <> newl -> update s a newl = Some s' ->
  mem s' !! a_login a = None /\ mem s' !! newl = Some (with_login a newl) /\
  disk s' !! a_login a = None /\ disk s' !! newl = Some (mask_acct (with_login a newl)) /\
  (forall p, can_login s' (a_login a) p = false) /\
  (forall p, can_login s' newl p = verify (a_pw a) p).
Proof.
  intros Hne. unfold update. destruct (decide (a_login a = newl)); [done|].
  destruct (disk s !! a_login a); [|done]. intros [= <-]. cbn.
  assert (A : <[newl:=with_login a newl]> (delete (a_login a) (mem s)) !! a_login a = None)
    by (rewrite lookup_insert_ne by done; apply lookup_delete).
  assert (B : <[newl:=with_login a newl]> (delete (a_login a) (mem s)) !! newl = Some (with_login a newl))
    by apply lookup_insert.
  repeat split; auto.
  - rewrite lookup_insert_ne by done. apply lookup_delete.
  - apply lookup_insert.
  - intros p. unfold can_login. cbn. by rewrite A.
  - intros p. unfold can_login. cbn. by rewrite B.
Qed.

(* password rules *)
Theorem password_rules old :
  new_pw old None = hash [] /\ new_pw old (Some [0]) = old /\
  forall p, p <> [0] -> new_pw old (Some p) = hash p.
Proof.
  repeat split. intros p Hp. unfold new_pw.
  destruct p as [|x [|y r]]; [reflexivity| |destruct x; reflexivity].
  destruct x; [by exfalso; apply Hp|reflexivity].
Qed.
Theorem hash_verifies p q : (length p <= 72)%nat -> verify (hash p) q = bool_decide (key72 p = key72 q).
Proof. intros H. unfold hash. destruct (Nat.leb_spec (length p) 72); [done|lia]. Qed.
Theorem hash_verifies_own p : (length p <= 72)%nat -> verify (hash p) p = true.
Proof. intros H. rewrite hash_verifies by done. by apply bool_decide_eq_true. Qed.

(* nothing but the named account changes: an edit of one login leaves every other login alone *)
Theorem set_user_frame s l n p a k : consistent s -> k <> l -> mem (set_user s l n p a).1 !! k = mem s !! k.
Proof.
  intros (_ & K & _) Hne. unfold set_user. destruct (mem s !! l) as [acc|] eqn:E; [|done].
  pose proof (K _ _ E) as Hl. unfold update. cbn [a_login]. destruct (decide _) as [Heq|Heq]; [|done]. cbn.
  rewrite Hl. by rewrite lookup_insert_ne.
Qed.

(* the pinned Update is refuted: rename alice -> bob leaves alice able to log in *)
Definition alice : account := mk_acct [97] [] (PwHash [1]) (repeat 0 8).
Example pinned_rename_keeps_old_login :
  exists s1 s2, create (mk_am ∅ ∅) alice = Some s1 /\
                update_pinned s1 alice [98] = Some s2 /\
                can_login s2 [97] [1] = true /\ disk s2 !! [97] = None.
Proof. do 2 eexists. repeat split; vm_compute; reflexivity. Qed.
