(* Presence: what the server tells whom when users come, change and go (hotline/server.go:483-502,
   client_conn.go:155-176, transaction_handlers.go:140-199,827-895,1473-1511), the roster a client folds from
   those notifications, and private messages addressed by user ID.  Model only. *)
From stdpp Require Import gmap.
From Coq Require Import NArith List.
From Verif Require Import Srv.Registry.
Import ListNotations.
Local Open Scope N_scope.

Notation bytes := (list N) (only parsing).

(* what the user list shows for a user *)
Record info := mk_info { i_name : bytes; i_icon : bytes; i_flags : N }.
#[global] Instance info_eq_dec : EqDecision info.
Proof. solve_decision. Defined.

(* registry entry: shown info, announced to the others yet?, automatic reply *)
Record entry := mk_entry { e_info : info; e_announced : bool; e_auto : bytes }.
Notation registry := (gmap N entry).
Notation roster := (gmap N info).

(* ---- abstract presence operations ---- *)
Inductive pop :=
| LoginNamed (b : N) (i : info)        (* 1.2.3 flow: registered and announced at once *)
| LoginLimbo (b : N) (i : info)        (* 1.5 flow: registered, nothing sent until Agreed *)
| Announce (b : N) (i : info) (auto : option bytes)   (* Agreed / SetClientUserInfo: change-user *)
| Leave (b : N).                       (* Disconnect: delete-user *)

Definition srv (r : registry) (o : pop) : registry :=
  match o with
  | LoginNamed b i => <[b := mk_entry i true []]> r
  | LoginLimbo b i => <[b := mk_entry i false []]> r
  | Announce b i auto =>
      match r !! b with
      | Some e => <[b := mk_entry i true (match auto with Some a => a | None => e_auto e end)]> r
      | None => r
      end
  | Leave b => delete b r
  end.

(* notifications as a client sees them *)
Inductive notif := NChange (b : N) (i : info) | NDelete (b : N).
Definition emits (o : pop) : option notif :=
  match o with
  | LoginNamed b i => Some (NChange b i)
  | LoginLimbo _ _ => None
  | Announce b i _ => Some (NChange b i)
  | Leave b => Some (NDelete b)
  end.
Definition subject (o : pop) : N :=
  match o with LoginNamed b _ | LoginLimbo b _ | Announce b _ _ | Leave b => b end.

(* the client-side fold *)
Definition apply_notif (ro : roster) (n : notif) : roster :=
  match n with NChange b i => <[b := i]> ro | NDelete b => delete b ro end.
Definition observe (ro : roster) (o : pop) : roster :=
  match emits o with Some n => apply_notif ro n | None => ro end.

(* what a fetched user list contains: every registry entry (also not yet announced ones) *)
Definition listed (r : registry) : roster := e_info <$> r.

(* well-formed histories: a connecting user gets an ID not in use (C13 ids_unique, Srv/RegistryProofs.v);
   Agreed / SetClientUserInfo come from connected users *)
Definition pok (r : registry) (o : pop) : Prop :=
  match o with
  | LoginNamed b _ | LoginLimbo b _ => r !! b = None
  | Announce b _ _ => is_Some (r !! b)
  | Leave _ => True
  end.

Fixpoint prun (r : registry) (ro : roster) (h : list pop) : registry * roster :=
  match h with [] => (r, ro) | o :: t => prun (srv r o) (observe ro o) t end.
Fixpoint poks (r : registry) (h : list pop) : Prop :=
  match h with [] => True | o :: t => pok r o /\ poks (srv r o) t end.

(* "traffic has settled": nobody is between login and the first announcement *)
Definition settled (r : registry) : Prop := forall b e, r !! b = Some e -> e_announced e = true.

(* ---- user flags (hotline/user.go): bit i of the 16-bit value ---- *)
Definition FLAG_AWAY := 0. Definition FLAG_ADMIN := 1. Definition FLAG_REFUSE_PM := 2. Definition FLAG_REFUSE_CHAT := 3.
Definition set_flag (f : N) (bit : N) (v : bool) : N := if v then N.setbit f bit else N.clearbit f bit.
(* client options (field 113): bit 0 refuse private messages, 1 refuse private chat, 2 automatic response *)
Definition flags_with_options (f opts : N) : N :=
  set_flag (set_flag f FLAG_REFUSE_PM (N.testbit opts 0)) FLAG_REFUSE_CHAT (N.testbit opts 1).

(* ---- private messages (HandleSendInstantMsg) ---- *)
Inductive pm_out :=
| PmDeliver (to_ : N) (from_ : N)            (* server message with the text, options 00 01, to the target *)
| PmRefused (to_ : N) (about : N)            (* "... does not accept private messages", options 00 02, to the sender *)
| PmAuto (to_ : N) (from_ : N) (text : bytes) (* automatic reply, to the sender *)
| PmReply (to_ : N).                         (* the empty reply to the request *)
Definition send_pm (r : registry) (sender target : N) : list pm_out :=
  match r !! target with
  | None => []                                 (* nobody holds that ID: nothing at all is sent *)
  | Some e =>
      (if N.testbit (i_flags (e_info e)) FLAG_REFUSE_PM then [PmRefused sender target] else [PmDeliver target sender]) ++
      (match e_auto e with [] => [] | a => [PmAuto sender target a] end) ++
      [PmReply sender]
  end.
Definition pm_recipient (o : pm_out) : N :=
  match o with PmDeliver t _ => t | PmRefused t _ => t | PmAuto t _ _ => t | PmReply t => t end.
