(* The ban list (internal/mobius/ban.go), the administrator's disconnect request
   (transaction_handlers.go: HandleDisconnectUser) and the check at the door (hotline/server.go).  Model only.
   Instants are nanoseconds since the epoch (N); an address is the text before the first ':' of the peer address. *)
From stdpp Require Import gmap.
From Verif Require Import Base.Bytes Auth.Door.
Local Open Scope N_scope.

Definition BAN_DURATION : N := 1800000000000.      (* 30 minutes *)

(* address -> None (permanent) | Some expiry; the file is rewritten from the whole map on every Add *)
Record bans := mk_bans { b_mem : gmap bytes (option N); b_disk : gmap bytes (option N) }.
Definition bans0 : bans := mk_bans ∅ ∅.
Definition ban_add (s : bans) (ip : bytes) (until : option N) : bans :=
  let m := <[ip := until]> (b_mem s) in mk_bans m m.
Definition ban_reload (s : bans) : bans := mk_bans (b_disk s) (b_disk s).      (* a fresh BanFile on the same path *)
Definition verdict (s : bans) (ip : bytes) (now : N) : ban_verdict :=
  match b_mem s !! ip with
  | None => Admit
  | Some None => RefusePerm
  | Some (Some u) => if now <? u then RefuseTemp else Admit
  end.

(* ---- the world of C17: live connections and the ban list ---- *)
Record conn := mk_conn { c_tok : N; c_ip : bytes; c_protected : bool }.
Record world := mk_world { w_conns : list conn; w_bans : bans }.
Definition world0 : world := mk_world [] bans0.

Inductive ev :=
| EConnect (tok : N) (ip : bytes) (protected : bool) (now : N)       (* handshake + valid login from ip *)
| EKick (target : N) (opt : option N) (now : N)                      (* disconnect request by an administrator *)
| ELeave (tok : N)                                                   (* the user closes its connection *)
| ERestart
| EAdd (ip : bytes) (until : option N).                              (* BanMgr.Add directly *)
Inductive out :=
| OLetIn | ORefused (perm : bool)
| OKicked (told : list N) | OKickDenied | ONoTarget
| ONone.

Definition find_conn (tok : N) (cs : list conn) : option conn :=
  match List.filter (fun c => c_tok c =? tok) cs with c :: _ => Some c | [] => None end.
Definition without (tok : N) (cs : list conn) : list conn := List.filter (fun c => negb (c_tok c =? tok)) cs.

Definition step (w : world) (e : ev) : world * out :=
  match e with
  | EConnect tok ip prot now =>
      match verdict (w_bans w) ip now with
      | Admit => (mk_world (w_conns w ++ [mk_conn tok ip prot]) (w_bans w), OLetIn)
      | RefusePerm => (w, ORefused true)
      | RefuseTemp => (w, ORefused false)
      end
  | EKick target opt now =>
      match find_conn target (w_conns w) with
      | None => (w, ONoTarget)
      | Some c =>
          if c_protected c then (w, OKickDenied) else
          let b := match opt with
                   | Some 1 => ban_add (w_bans w) (c_ip c) (Some (now + BAN_DURATION))
                   | Some 2 => ban_add (w_bans w) (c_ip c) None
                   | _ => w_bans w
                   end in
          let rest := without target (w_conns w) in
          (mk_world rest b, OKicked (map c_tok rest))
      end
  | ELeave tok => (mk_world (without tok (w_conns w)) (w_bans w), ONone)
  | ERestart => (mk_world (w_conns w) (ban_reload (w_bans w)), ONone)
  | EAdd ip until => (mk_world (w_conns w) (ban_add (w_bans w) ip until), ONone)
  end.
Fixpoint run (w : world) (h : list ev) : world * list out :=
  match h with
  | [] => (w, [])
  | e :: r => let '(w1, o) := step w e in let '(w2, os) := run w1 r in (w2, o :: os)
  end.

(* the ban requests a history makes, in order: (address, expiry) *)
Definition request_of (w : world) (e : ev) : option (bytes * option N) :=
  match e with
  | EKick target opt now =>
      match find_conn target (w_conns w) with
      | Some c => if c_protected c then None else
                  match opt with
                  | Some 1 => Some (c_ip c, Some (now + BAN_DURATION))
                  | Some 2 => Some (c_ip c, None)
                  | _ => None
                  end
      | None => None
      end
  | EAdd ip until => Some (ip, until)
  | _ => None
  end.
Fixpoint requests (w : world) (h : list ev) : list (bytes * option N) :=
  match h with
  | [] => []
  | e :: r => match request_of w e with Some q => [q] | None => [] end ++ requests (step w e).1 r
  end.
(* the latest request for an address *)
Fixpoint last_request (ip : bytes) (qs : list (bytes * option N)) : option (option N) :=
  match qs with
  | [] => None
  | q :: r => match last_request ip r with
              | Some v => Some v
              | None => if bool_decide (q.1 = ip) then Some q.2 else None
              end
  end.
Definition verdict_of_request (r : option (option N)) (now : N) : ban_verdict :=
  match r with
  | None => Admit
  | Some None => RefusePerm
  | Some (Some u) => if now <? u then RefuseTemp else Admit
  end.
