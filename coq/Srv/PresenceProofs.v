From stdpp Require Import gmap.
From Coq Require Import NArith List.
From Verif Require Import Srv.Registry Srv.Presence.
Import ListNotations.
Local Open Scope N_scope.

(* invariant between the registry and the roster of a client that fetched the list and applies every later
   notification in order *)
Definition RInv (r : registry) (ro : roster) : Prop :=
  (forall b e, r !! b = Some e -> e_announced e = true -> ro !! b = Some (e_info e)) /\
  (forall b i, ro !! b = Some i -> exists e, r !! b = Some e /\ (e_announced e = true -> e_info e = i)).

(* a stronger, simpler invariant that is preserved: roster entries mirror registry entries for announced
   users; for not-yet-announced users the roster has either nothing or the info the fetched list showed *)
Definition RInv' (r : registry) (ro : roster) : Prop :=
  (forall b e, r !! b = Some e -> e_announced e = true -> ro !! b = Some (e_info e)) /\
  (forall b i, ro !! b = Some i -> exists e, r !! b = Some e /\ (e_announced e = true -> e_info e = i) /\
                                           (e_announced e = false -> e_info e = i)).

Lemma fetch_inv r : RInv' r (listed r).
Proof.
  unfold listed. split.
  - intros b e H _. by rewrite lookup_fmap, H.
  - intros b i H. rewrite lookup_fmap in H. destruct (r !! b) as [e|] eqn:E; simplify_eq/=. eauto.
Qed.

Lemma step_inv r ro o : pok r o -> RInv' r ro -> RInv' (srv r o) (observe ro o).
Proof.
  intros Hok [H1 H2]. destruct o as [b i|b i|b i auto|b]; cbn [srv observe emits apply_notif pok] in *.
  - split.
    + intros c e. destruct (decide (c = b)) as [->|Hne].
      * rewrite !lookup_insert. by intros [= <-] _.
      * rewrite !lookup_insert_ne by done. apply H1.
    + intros c j. destruct (decide (c = b)) as [->|Hne].
      * rewrite !lookup_insert. intros [= <-]. eexists. split; [done|]. done.
      * rewrite !lookup_insert_ne by done. apply H2.
  - split.
    + intros c e. destruct (decide (c = b)) as [->|Hne].
      * rewrite lookup_insert. by intros [= <-] ?.
      * rewrite lookup_insert_ne by done. apply H1.
    + intros c j Hc. destruct (H2 _ _ Hc) as (e & He & Ha & Hb).
      assert (c <> b) by congruence. rewrite lookup_insert_ne by done. eauto.
  - destruct Hok as [e0 He0]. rewrite He0. split.
    + intros c e. destruct (decide (c = b)) as [->|Hne].
      * rewrite !lookup_insert. by intros [= <-] _.
      * rewrite !lookup_insert_ne by done. apply H1.
    + intros c j. destruct (decide (c = b)) as [->|Hne].
      * rewrite !lookup_insert. intros [= <-]. eexists. split; [done|]. done.
      * rewrite !lookup_insert_ne by done. apply H2.
  - split.
    + intros c e. destruct (decide (c = b)) as [->|Hne].
      * by rewrite lookup_delete.
      * rewrite !lookup_delete_ne by done. apply H1.
    + intros c j. destruct (decide (c = b)) as [->|Hne].
      * by rewrite lookup_delete.
      * rewrite !lookup_delete_ne by done. apply H2.
Qed.

Lemma run_inv h : forall r ro, poks r h -> RInv' r ro -> RInv' (prun r ro h).1 (prun r ro h).2.
Proof.
  induction h as [|o t IH]; intros r ro Hok HI; cbn [prun poks] in *; [done|].
  destruct Hok. apply IH; [done|]. by apply step_inv.
Qed.

(* A client that fetched the user list at any point and applied every later change-user / delete-user
   notification in order holds, once traffic has settled, exactly the server's current list. *)
Theorem roster_converges r0 h :
  poks r0 h -> let '(r, ro) := prun r0 (listed r0) h in settled r -> ro = listed r.
Proof.
  intros Hok. pose proof (run_inv h r0 _ Hok (fetch_inv r0)) as HI.
  destruct (prun r0 (listed r0) h) as [r ro]. cbn [fst snd] in HI. destruct HI as [H1 H2].
  intros Hs. apply map_eq. intros b. unfold listed. rewrite lookup_fmap.
  destruct (r !! b) as [e|] eqn:E; cbn.
  - apply H1; [done|]. by eapply Hs.
  - destruct (ro !! b) as [i|] eqn:E2; [|done]. destruct (H2 _ _ E2) as (e & He & _). congruence.
Qed.

(* ---- private messages ---- *)
(* whatever is sent goes to the sender or to the holder of the addressed ID and to nobody else *)
Theorem pm_only_sender_and_holder r sender target o :
  In o (send_pm r sender target) -> pm_recipient o = sender \/ (pm_recipient o = target /\ is_Some (r !! target)).
Proof.
  unfold send_pm. destruct (r !! target) as [e|] eqn:E; [|by intros []].
  rewrite !in_app_iff. intros [H|[H|H]].
  - destruct (N.testbit _ _); destruct H as [<-|[]]; cbn; eauto.
  - destruct (e_auto e); [by destruct H|]. destruct H as [<-|[]]. by left.
  - destruct H as [<-|[]]. by left.
Qed.

(* refuse-private-messages is honoured: the recipient gets nothing, the sender is told *)
Theorem pm_refused r sender target e :
  r !! target = Some e -> N.testbit (i_flags (e_info e)) FLAG_REFUSE_PM = true ->
  In (PmRefused sender target) (send_pm r sender target) /\
  forall o, In o (send_pm r sender target) -> sender <> target -> pm_recipient o <> target.
Proof.
  intros E F. unfold send_pm. rewrite E, F. split; [by left|].
  intros o Hin Hne. cbn [app] in Hin. destruct Hin as [<-|Hin]; [done|].
  rewrite in_app_iff in Hin. destruct Hin as [Hin|[<-|[]]]; [|done].
  destruct (e_auto e); [by destruct Hin|]. by destruct Hin as [<-|[]].
Qed.

(* otherwise the message is delivered to the holder, exactly once, and an automatic reply is returned *)
Theorem pm_delivered r sender target e :
  r !! target = Some e -> N.testbit (i_flags (e_info e)) FLAG_REFUSE_PM = false ->
  send_pm r sender target =
    [PmDeliver target sender] ++ (match e_auto e with [] => [] | a => [PmAuto sender target a] end) ++ [PmReply sender].
Proof. intros E F. unfold send_pm. by rewrite E, F. Qed.

Theorem pm_nobody r sender target : r !! target = None -> send_pm r sender target = [].
Proof. intros E. unfold send_pm. by rewrite E. Qed.
