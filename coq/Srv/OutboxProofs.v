From Coq Require Import List Permutation.
From Verif Require Import Base.Bytes Wire.Parse Wire.Types Wire.Impl Wire.Proofs Srv.Outbox.
Import ListNotations.

Set Default Timeout 120.
Section P.
Context {A : Type}.
Lemma concat_all_nil (ws : list (list A)) : Forall (fun w => w = []) ws -> concat ws = [].
Proof. induction 1; simpl; subst; auto. Qed.

(* any interleaving of atomic writes is a permutation of the chunks *)
Theorem interleave_perm (ws : list (list A)) out : interleave ws out -> Permutation out (concat ws).
Proof.
  induction 1 as [ws H | ws1 c w ws2 out _ IH].
  - rewrite concat_all_nil; auto.
  - rewrite concat_app in *. simpl in *. apply Permutation_cons_app. exact IH.
Qed.
End P.

Lemma parse_all_concat ts : Forall tran_wf ts ->
  parse_all (List.length ts) (concat (map spec_enc_tran ts)) = Some ts.
Proof.
  induction 1 as [|t ts Ht _ IH]; [reflexivity|].
  cbn [map concat List.length].
  assert (Hne : exists x r, spec_enc_tran t ++ concat (map spec_enc_tran ts) = x :: r).
  { unfold spec_enc_tran. cbn [app]. eauto. }
  destruct Hne as (x & r & E). cbn [parse_all]. rewrite E. rewrite <- E.
  rewrite spec_dec_enc_tran by exact Ht. rewrite IH. reflexivity.
Qed.

(* With one Write per transaction, EVERY interleaving of any number of concurrent senders' writes is a
   concatenation of whole transactions - some permutation of the ones sent - and the receiving side's framing
   recovers exactly those, each with consistent length prefixes. *)
Theorem whole_frames ts out :
  Forall tran_wf ts -> interleave (map chunks_fixed ts) out ->
  exists ts', Permutation ts ts' /\ out = map spec_enc_tran ts' /\
              parse_all (List.length ts') (concat out) = Some ts'.
Proof.
  intros Hwf Hi. apply interleave_perm in Hi.
  assert (E : concat (map chunks_fixed ts) = map spec_enc_tran ts).
  { clear Hi. induction Hwf as [|t l Ht _ IH]; [reflexivity|]. cbn [map concat chunks_fixed app].
    rewrite IH. now rewrite impl_spec_tran. }
  rewrite E in Hi. apply Permutation_map_inv in Hi as (ts' & -> & Hp).
  exists ts'. split; [exact Hp|]. split; [reflexivity|].
  apply parse_all_concat. eapply Permutation_Forall; eauto.
Qed.

(* a reply carries the reply flag and the ID of the request, and is addressed to the requester *)
Theorem reply_correlated cc req fields msg :
  let r := new_reply cc req fields in let e := new_err_reply cc req msg in
  ad_to r = cc /\ t_isreply (ad_tran r) = 1 /\ t_id (ad_tran r) = t_id req /\
  ad_to e = cc /\ t_isreply (ad_tran e) = 1 /\ t_id (ad_tran e) = t_id req /\ t_err (ad_tran e) = 1.
Proof. cbn. repeat split. Qed.

(* The chunked sender of the pinned tree is refuted: a transaction larger than 32 KiB is written in two calls,
   and a second transaction written in between tears the stream. *)
Definition big_tran : transaction := mk_tran 0 1 0 7 0 [NewField 101 (pattern 33000 5)].
Definition small_tran : transaction := mk_tran 0 0 104 9 0 [NewField 101 [1; 2; 3]].
Definition big_c1 : bytes := firstn COPY_BUF (impl_bytes_tran big_tran).
Definition big_c2 : bytes := skipn COPY_BUF (impl_bytes_tran big_tran).
Lemma list_bytes_eqb_eq (x y : list bytes) : list_eqb bytes_eqb x y = true -> x = y.
Proof.
  revert y. induction x as [|a x IH]; intros [|b y] H; cbn in H; try discriminate; [reflexivity|].
  apply andb_prop in H as [H1 H2]. apply bytes_eqb_eq in H1. apply IH in H2. congruence.
Qed.
Lemma chunks_big : chunks_pinned big_tran = [big_c1; big_c2].
Proof. apply list_bytes_eqb_eq. vm_compute. reflexivity. Qed.
Lemma chunks_small : chunks_pinned small_tran = [impl_bytes_tran small_tran].
Proof. apply list_bytes_eqb_eq. vm_compute. reflexivity. Qed.
Lemma torn_is_an_interleaving :
  interleave [chunks_pinned big_tran; chunks_pinned small_tran] [big_c1; impl_bytes_tran small_tran; big_c2].
Proof.
  rewrite chunks_big, chunks_small.
  apply (il_step [] big_c1 [big_c2] [[impl_bytes_tran small_tran]]).
  apply (il_step [[big_c2]] (impl_bytes_tran small_tran) [] []).
  apply (il_step [] big_c2 [] [[]]).
  apply il_nil. repeat constructor.
Qed.
Definition torn_parses_to_sent : bool :=
  match parse_all 10 (big_c1 ++ impl_bytes_tran small_tran ++ big_c2) with
  | Some [a; b] => true
  | _ => false
  end.
Lemma torn_does_not_parse : torn_parses_to_sent = false.
Proof. vm_compute. reflexivity. Qed.
