(* Proofs about the ban list and the disconnect request (Srv/Ban.v). *)
From stdpp Require Import gmap.
From Coq Require Import Lia.
From Verif Require Import Base.Bytes Auth.Door Srv.Ban.
Local Open Scope N_scope.

Definition synced (w : world) : Prop := b_mem (w_bans w) = b_disk (w_bans w).
Lemma synced0 : synced world0. Proof. reflexivity. Qed.

Lemma step_bans w e :
  synced w ->
  synced (step w e).1 /\
  b_mem (w_bans (step w e).1) =
    match request_of w e with
    | Some q => <[q.1 := q.2]> (b_mem (w_bans w))
    | None => b_mem (w_bans w)
    end.
Proof.
  intros Hs. destruct e as [tok ip prot now | target opt now | tok | | ip until]; cbn [step request_of].
  - destruct (verdict (w_bans w) ip now); cbn; auto.
  - destruct (find_conn target (w_conns w)) as [c|]; [|cbn; auto].
    destruct (c_protected c); [cbn; auto|].
    unfold synced in *.
    destruct opt as [[|p]|]; [cbn; auto| |cbn; auto].
    destruct p as [p|p|]; [cbn; auto| |cbn; auto]. destruct p; cbn; auto.
  - cbn; auto.
  - cbn. unfold synced in *. cbn. split; [reflexivity|]. now rewrite Hs.
  - cbn. split; reflexivity.
Qed.

Lemma run_bans h : forall w ip,
  synced w ->
  b_mem (w_bans (run w h).1) !! ip =
    match last_request ip (requests w h) with
    | Some v => Some v
    | None => b_mem (w_bans w) !! ip
    end.
Proof.
  induction h as [|e r IH]; intros w ip Hs; [reflexivity|].
  cbn [run requests]. destruct (step w e) as [w1 o] eqn:E1. destruct (run w1 r) as [w2 os] eqn:E2. cbn [fst].
  pose proof (step_bans w e Hs) as [Hs1 Hm]. rewrite E1 in Hs1, Hm. cbn [fst] in Hs1, Hm.
  specialize (IH w1 ip Hs1). rewrite E2 in IH. cbn [fst] in IH. rewrite IH. clear IH.
  destruct (request_of w e) as [q|]; cbn [app].
  - cbn [last_request]. destruct (last_request ip (requests w1 r)); [reflexivity|].
    rewrite Hm. case_bool_decide as Hq.
    + subst ip. now rewrite lookup_insert.
    + now rewrite lookup_insert_ne.
  - now rewrite Hm.
Qed.

(* whether an address is turned away is decided by the latest ban request for it - through any number of
   restarts, connections and requests concerning other addresses *)
Theorem verdict_after_history h ip now :
  verdict (w_bans (run world0 h).1) ip now = verdict_of_request (last_request ip (requests world0 h)) now.
Proof.
  unfold verdict. rewrite (run_bans h world0 ip synced0). cbn.
  destruct (last_request ip (requests world0 h)) as [[u|]|]; reflexivity.
Qed.

(* a request concerning one address leaves the verdict for every other address alone *)
Theorem other_addresses_unaffected w e ip now :
  synced w -> (forall q, request_of w e = Some q -> q.1 <> ip) ->
  verdict (w_bans (step w e).1) ip now = verdict (w_bans w) ip now.
Proof.
  intros Hs Hq. unfold verdict. destruct (step_bans w e Hs) as [_ ->].
  destruct (request_of w e) as [q|]; [|reflexivity]. rewrite lookup_insert_ne; [reflexivity|]. now apply Hq.
Qed.

(* every ban request keeps the address out for its whole term, whatever is requested afterwards, as long as
   later requests for the address do not end earlier (true when the clock does not run backwards) *)
Lemma last_request_app ip qs1 qs2 :
  last_request ip (qs1 ++ qs2) = match last_request ip qs2 with Some v => Some v | None => last_request ip qs1 end.
Proof.
  induction qs1 as [|q r IH]; cbn [app last_request].
  - destruct (last_request ip qs2); reflexivity.
  - rewrite IH. destruct (last_request ip qs2); reflexivity.
Qed.
Lemma last_request_forall ip (P : option N -> Prop) qs :
  Forall (fun q => q.1 = ip -> P q.2) qs -> match last_request ip qs with Some v => P v | None => True end.
Proof.
  induction qs as [|q r IH]; intros Hall; [exact I|]. inversion Hall as [|? ? Hq Hr]; subst. specialize (IH Hr).
  cbn [last_request]. destruct (last_request ip r); [exact IH|]. case_bool_decide as Hd; [now apply Hq|exact I].
Qed.
Theorem ban_term_respected ip qs1 u qs2 now :
  Forall (fun q => q.1 = ip -> match q.2 with None => True | Some u' => u <= u' end) qs2 ->
  now < u -> verdict_of_request (last_request ip (qs1 ++ (ip, Some u) :: qs2)) now <> Admit.
Proof.
  intros Hall Hnow. rewrite last_request_app. cbn [last_request].
  pose proof (last_request_forall ip (fun v => match v with None => True | Some u' => u <= u' end) qs2 Hall) as Hb.
  destruct (last_request ip qs2) as [[u'|]|]; cbn.
  - replace (now <? u') with true by lia. discriminate.
  - discriminate.
  - rewrite bool_decide_eq_true_2 by reflexivity. cbn. replace (now <? u) with true by lia. discriminate.
Qed.
Theorem permanent_ban_stands ip qs1 qs2 now :
  Forall (fun q => q.1 = ip -> q.2 = None) qs2 ->
  verdict_of_request (last_request ip (qs1 ++ (ip, None) :: qs2)) now = RefusePerm.
Proof.
  intros Hall. rewrite last_request_app. cbn [last_request].
  pose proof (last_request_forall ip (fun v => v = None) qs2 Hall) as Hb.
  destruct (last_request ip qs2) as [v|]; cbn.
  - now rewrite Hb.
  - now rewrite bool_decide_eq_true_2.
Qed.
(* once a temporary ban has run out the address is let in again *)
Theorem expired_ban_lets_in ip qs u now :
  last_request ip qs = Some (Some u) -> u <= now -> verdict_of_request (last_request ip qs) now = Admit.
Proof. intros -> H. cbn. replace (now <? u) with false by lia. reflexivity. Qed.

(* the disconnect request: the target is gone, everybody else is told *)
Lemma find_without tok cs : find_conn tok (without tok cs) = None.
Proof.
  unfold find_conn, without. induction cs as [|c r IH]; [reflexivity|]. cbn [List.filter].
  destruct (c_tok c =? tok) eqn:E; cbn [negb]; [exact IH|]. cbn [List.filter]. now rewrite E.
Qed.
Theorem kick_closes_and_tells_others w target opt now c :
  find_conn target (w_conns w) = Some c -> c_protected c = false ->
  exists w', step w (EKick target opt now) = (w', OKicked (map c_tok (w_conns w'))) /\
             find_conn target (w_conns w') = None /\
             w_conns w' = without target (w_conns w).
Proof.
  intros Hf Hp. cbn [step]. rewrite Hf, Hp.
  exists (mk_world (without target (w_conns w))
            match opt with
            | Some 1 => ban_add (w_bans w) (c_ip c) (Some (now + BAN_DURATION))
            | Some 2 => ban_add (w_bans w) (c_ip c) None
            | _ => w_bans w
            end).
  cbn. split; [reflexivity|]. split; [apply find_without|reflexivity].
Qed.
Theorem protected_user_stays w target opt now c :
  find_conn target (w_conns w) = Some c -> c_protected c = true -> step w (EKick target opt now) = (w, OKickDenied).
Proof. intros Hf Hp. cbn [step]. now rewrite Hf, Hp. Qed.
(* the ban a disconnect request asks for *)
Theorem kick_records_ban w target now c :
  find_conn target (w_conns w) = Some c -> c_protected c = false ->
  request_of w (EKick target (Some 1) now) = Some (c_ip c, Some (now + BAN_DURATION)) /\
  request_of w (EKick target (Some 2) now) = Some (c_ip c, None) /\
  request_of w (EKick target None now) = None.
Proof. intros Hf Hp. cbn [request_of]. rewrite Hf, Hp. repeat split. Qed.
