From stdpp Require Import gmap.
From Coq Require Import NArith List Lia.
From Verif Require Import Srv.Chat.
Import ListNotations.
Local Open Scope N_scope.

Fixpoint recipients (evs : list chat_ev) : list N :=
  match evs with
  | [] => []
  | e :: r => match ev_to e with Some t => t :: recipients r | None => recipients r end
  end.
Lemma recipients_map (f : N -> chat_ev) l : (forall t, ev_to (f t) = Some t) -> recipients (map f l) = l.
Proof. intros H. induction l as [|x l IH]; simpl; [done|]. rewrite H. by rewrite IH. Qed.

(* public chat: exactly the connected users whose account may read chat, each once (in ID order), and only
   if the sender may send chat *)
Theorem public_audience_exact s who c msg emote :
  cs_reg s !! who = Some c -> c_send c = true ->
  recipients (send_public s who msg emote) = public_audience s /\
  forall e, In e (send_public s who msg emote) -> exists t, e = EvLine t None (format_chat (c_name c) msg emote).
Proof.
  intros Hw Hs. unfold send_public. rewrite Hw, Hs. split.
  - by apply recipients_map.
  - intros e Hin. apply in_map_iff in Hin as (t & <- & _). eauto.
Qed.
Theorem public_needs_send_privilege s who c msg emote :
  cs_reg s !! who = Some c -> c_send c = false -> send_public s who msg emote = [EvError who].
Proof. intros Hw Hs. unfold send_public. by rewrite Hw, Hs. Qed.

Lemma public_audience_spec s i :
  In i (public_audience s) <-> In i (cs_order s) /\ exists c, cs_reg s !! i = Some c /\ c_read c = true.
Proof.
  unfold public_audience. rewrite filter_In. split; intros [H1 H2]; split; auto.
  - destruct (cs_reg s !! i) as [c|]; [eauto|done].
  - destruct H2 as (c & -> & ->). done.
Qed.

(* private chat lines, subject changes, join and leave notices: exactly the members, each once *)
Theorem private_audience_exact s who c chat ms msg emote :
  cs_reg s !! who = Some c -> c_send c = true -> members s chat = Some ms ->
  recipients (send_private s who chat msg emote) = ms.
Proof.
  intros Hw Hs Hm. unfold send_private. rewrite Hw, Hs, Hm. by apply recipients_map.
Qed.
Theorem subject_audience_exact s chat ms subj :
  members s chat = Some ms -> recipients (set_subject s chat subj) = ms.
Proof. intros Hm. unfold set_subject. rewrite Hm. by apply recipients_map. Qed.
Theorem join_audience_exact s who chat ms :
  members s chat = Some ms -> recipients (join s who chat).2 = ms /\ members (join s who chat).1 chat = Some (insert_sorted who ms).
Proof.
  intros Hm. unfold join. rewrite Hm. cbn. split.
  - by apply recipients_map.
  - unfold members. cbn. by rewrite lookup_insert.
Qed.

Lemma remove_id_not_in x l : ~ In x (remove_id x l).
Proof. unfold remove_id. rewrite filter_In. intros [_ H]. by rewrite N.eqb_refl in H. Qed.

(* a user who left receives nothing further from that chat: after Leave the user is not a member, and every
   later line / subject / join / leave notice goes to members only *)
Theorem left_is_not_member s who chat ms :
  members s chat = Some ms ->
  exists ms', members (leave s who chat).1 chat = Some ms' /\ ~ In who ms' /\ recipients (leave s who chat).2 = ms'.
Proof.
  intros Hm. unfold leave. rewrite Hm. cbn. exists (remove_id who ms). split; [unfold members; cbn; by rewrite lookup_insert|].
  split; [apply remove_id_not_in|].
  by apply recipients_map.
Qed.
(* declining an invitation does not make the user a member (membership is unchanged), so nothing further
   reaches them *)
(* a user who disconnected is a member of nothing: whoever gets its ID later inherits no chat *)
Theorem departed_is_member_of_nothing s who chat ms :
  members (disconnect s who) chat = Some ms -> ~ In who ms.
Proof.
  unfold members, disconnect. cbn [cs_chats]. rewrite lookup_fmap. destruct (cs_chats s !! chat) as [l|]; cbn; [|discriminate].
  intros [= <-]. apply remove_id_not_in.
Qed.
Theorem disconnect_keeps_other_members s who chat ms x :
  members s chat = Some ms -> x <> who -> In x ms ->
  exists ms', members (disconnect s who) chat = Some ms' /\ In x ms'.
Proof.
  unfold members, disconnect. cbn [cs_chats]. intros H Hne Hin. rewrite lookup_fmap, H. cbn. eexists. split; [reflexivity|].
  unfold remove_id. apply filter_In. split; [exact Hin|]. apply negb_true_iff. now apply N.eqb_neq.
Qed.
Theorem decline_changes_no_membership s who chat ms :
  members s chat = Some ms -> recipients (decline s who chat) = ms.
Proof. intros Hm. unfold decline. rewrite Hm. by apply recipients_map. Qed.

(* the text is cut to the 8192-byte limit *)
Theorem chat_text_limit name msg emote : (length (format_chat name msg emote) <= LIMIT_CHAT)%nat.
Proof. unfold format_chat. rewrite firstn_length. lia. Qed.
Theorem chat_text_shape name msg :
  format_chat name msg false = firstn LIMIT_CHAT ([13] ++ pad13 name ++ [58; 32; 32] ++ msg) /\
  format_chat name msg true = firstn LIMIT_CHAT ([13; 42; 42; 42; 32] ++ name ++ [32] ++ msg).
Proof. split; reflexivity. Qed.
(* the name column is 13 runes wide when the name has at most 13 runes *)
Lemma pad13_runes name : (length (firstn 13 (rune_list name)) <= 13)%nat.
Proof. rewrite firstn_length. lia. Qed.
