From Coq Require Import List Arith Lia Bool.
Import ListNotations.
From Verif Require Import Base.Bytes Lib.Reader.

Section P.
Context {A : Type}.

(* shape A emits exactly its buffer under EVERY script of buffer sizes >= 1, and terminates within
   |buf| + 1 reads (the script only needs to be that long) *)
Theorem shapeA_drain (buf : list A) : forall script off,
  Forall (fun k => (1 <= k)%nat) script -> (List.length buf - off < List.length script)%nat ->
  drain ShapeA buf off script = Done (skipn off buf).
Proof.
  induction script as [|k ks IH]; intros off Hpos Hlen; [simpl in Hlen; lia|].
  inversion Hpos as [|? ? Hk Hks]; subst. cbn [drain]. unfold read1.
  destruct (List.length buf <=? off)%nat eqn:E.
  - apply Nat.leb_le in E. now rewrite skipn_all2.
  - apply Nat.leb_gt in E.
    assert (Hl : (1 <= List.length (firstn k (skipn off buf)))%nat).
    { rewrite firstn_length, skipn_length. lia. }
    rewrite IH; auto.
    + f_equal.
      transitivity (firstn k (skipn off buf) ++ skipn k (skipn off buf)); [f_equal | apply firstn_skipn].
      rewrite skipn_skipn', firstn_length, skipn_length.
      destruct (le_lt_dec k (List.length buf - off)) as [Hle|Hgt].
      * f_equal. lia.
      * rewrite !skipn_all2 by lia. reflexivity.
    + simpl in Hlen. lia.
Qed.

Corollary shapeA_drain_all (buf : list A) script :
  Forall (fun k => (1 <= k)%nat) script -> (List.length buf < List.length script)%nat ->
  drain ShapeA buf 0 script = Done buf.
Proof. intros H1 H2. rewrite shapeA_drain; auto. lia. Qed.
End P.

(* the other two shapes are wrong: witnesses *)
Example shapeB_diverges :
  exists script, Forall (fun k => (1 <= k)%nat) script /\ (10 < List.length script)%nat /\
   drain ShapeB [1;2;3;4;5;6;7;8;9;10] 0 script <> Done [1;2;3;4;5;6;7;8;9;10].
Proof.
  exists (repeat 4%nat 30). split; [apply Forall_forall; intros x Hx; apply repeat_spec in Hx; lia|].
  split; [rewrite repeat_length; lia|]. vm_compute. discriminate.
Qed.
Example shapeC_truncates :
  drain ShapeC [1;2;3;4;5] 0 [2;2;2;2;2;2]%nat = Done [1;2].
Proof. reflexivity. Qed.
