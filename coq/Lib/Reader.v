(* io.Reader implementations of package hotline: the three coded shapes, and a caller that drains a
   reader with an arbitrary script of buffer sizes. *)
From Coq Require Import List Arith Lia Bool.
Import ListNotations.

(* A: n := copy(p, buf[off:]); off += n; return n, nil      (EOF only when off >= len buf)
   B: n := copy(p, buf);       off  = n; return n, nil
   C: as A but returns n, io.EOF together with the data
   U: not recognised by the translator *)
Inductive shape := ShapeA | ShapeB | ShapeC | ShapeUnknown.

Section Drain.
Context {A : Type}.

(* one Read call with a caller buffer of k bytes: (bytes, new offset, returned EOF?) *)
Definition read1 (sh : shape) (buf : list A) (off k : nat) : list A * nat * bool :=
  if length buf <=? off then ([], off, true)
  else match sh with
       | ShapeA | ShapeUnknown => let out := firstn k (skipn off buf) in (out, off + length out, false)
       | ShapeB => let out := firstn k buf in (out, length out, false)
       | ShapeC => let out := firstn k (skipn off buf) in (out, off + length out, true)
       end.

Inductive result := Done (bs : list A) | Diverges (bs : list A).

(* a caller that keeps reading with the scripted buffer sizes until EOF (io.Reader contract: bytes
   returned together with EOF count); running out of script = the caller's read cap is exhausted *)
Fixpoint drain (sh : shape) (buf : list A) (off : nat) (script : list nat) : result :=
  match script with
  | [] => Diverges []
  | k :: ks =>
      let '(out, off', eof) := read1 sh buf off k in
      if eof then Done out
      else match drain sh buf off' ks with
           | Done r => Done (out ++ r)
           | Diverges r => Diverges (out ++ r)
           end
  end.
End Drain.
