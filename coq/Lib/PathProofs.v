From Verif Require Import Base.Bytes Base.MacRoman Lib.Path.

(* a component that names an entry of its parent directory: not empty, not "." or "..", no '/' *)
Definition good (c : name) : Prop :=
  is_empty c = false /\ is_dot c = false /\ is_dotdot c = false /\ ~ In SLASH c.
(* inside: below (or at) the root by a chain of such components *)
Definition inside (rootc p : list name) : Prop := exists suf, p = rootc ++ suf /\ Forall good suf.

Lemma split_slash_noslash s : Forall (fun c => ~ In SLASH c) (split_slash s).
Proof.
  induction s as [|b r IH]; simpl.
  - constructor; auto.
  - destruct (b =? SLASH) eqn:E.
    + constructor; auto.
    + apply N.eqb_neq in E. destruct (split_slash r) as [|c cs].
      * constructor; auto. simpl. intuition.
      * inversion IH; subst. constructor; auto. simpl. intuition.
Qed.

Lemma removelast_Forall {A} (P : A -> Prop) l : Forall P l -> Forall P (removelast l).
Proof.
  induction l as [|x l IH]; simpl; auto. intros H; inversion H; subst.
  destruct l; auto.
Qed.

Lemma clean_rooted_good_gen cs : forall stk,
  Forall (fun c => ~ In SLASH c) cs -> Forall good stk -> Forall good (fold_left step_rooted cs stk).
Proof.
  induction cs as [|c cs IH]; intros stk Hs Hstk; simpl; auto.
  inversion Hs; subst. apply IH; auto. unfold step_rooted.
  destruct (is_empty c) eqn:E1; simpl; auto.
  destruct (is_dot c) eqn:E2; simpl; auto.
  destruct (is_dotdot c) eqn:E3.
  - now apply removelast_Forall.
  - apply Forall_app; split; auto. constructor; auto. unfold good; auto.
Qed.

Theorem clean_rooted_good cs :
  Forall (fun c => ~ In SLASH c) cs -> Forall good (clean_rooted cs).
Proof. intros; apply clean_rooted_good_gen; auto. Qed.

Lemma good_noslash c : good c -> ~ In SLASH c.
Proof. unfold good; tauto. Qed.

Lemma sub_good items : forall sub, Forall good sub -> Forall good (fold_left join_rooted items sub).
Proof.
  induction items as [|it items IH]; intros sub H; simpl; auto.
  apply IH. unfold join_rooted. apply clean_rooted_good.
  apply Forall_app; split.
  - eapply Forall_impl; [|exact H]. apply good_noslash.
  - apply split_slash_noslash.
Qed.

(* ReadPath: for ALL item byte strings (any count, any content: "..", ".", "/", empty, absolute, NUL,
   high bytes) and ALL names, the path lies inside the root *)
Theorem read_path_inside rootc items fname : inside rootc (read_path_comps rootc items fname).
Proof.
  unfold inside, read_path_comps. eexists; split; [reflexivity|].
  apply Forall_app; split.
  - apply sub_good. constructor.
  - apply clean_rooted_good, split_slash_noslash.
Qed.

(* the repaired folder-upload item path stays below the upload folder *)
Theorem formatted_path_inside upc segs : inside upc (upc ++ formatted_path_comps segs).
Proof. exists (formatted_path_comps segs). split; [reflexivity|]. apply sub_good. constructor. Qed.

(* the pinned one did not *)
Example formatted_path_pinned_escapes :
  formatted_path_pinned_comps [[DOT; DOT]; [DOT; DOT]; [120]] = [[DOT; DOT]; [DOT; DOT]; [120]].
Proof. reflexivity. Qed.

Theorem rename_target_inside rootc items newname : inside rootc (rename_target_comps rootc items newname).
Proof. apply read_path_inside. Qed.

(* side files of a well-named file are well-named entries of the same directory *)
Lemma good_prefixed p c : ~ In SLASH p -> p <> [] -> hd 0 p = DOT -> (List.length p > 2)%nat -> good c -> good (p ++ c).
Proof.
  intros Hp Hne Hd Hl (H1 & H2 & H3 & H4). unfold good.
  destruct p as [|a [|b [|d p']]]; cbn in Hl; try lia. cbn in Hd. subst a.
  split; [reflexivity|]. split; [reflexivity|]. split.
  - unfold is_dotdot. cbn. destruct (b =? DOT); reflexivity.
  - intros Hin. apply in_app_or in Hin. tauto.
Qed.
Theorem side_files_good c : good c -> good (info_name c) /\ good (rsrc_name c) /\ good (incomplete_name c).
Proof.
  intros Hc. split; [|split].
  - apply good_prefixed; auto; cbn; try lia; try discriminate. intros [H|[H|[H|[H|[H|[H|[]]]]]]]; discriminate.
  - apply good_prefixed; auto; cbn; try lia; try discriminate. intros [H|[H|[H|[H|[H|[H|[]]]]]]]; discriminate.
  - destruct Hc as (H1 & H2 & H3 & H4). unfold incomplete_name, good.
    destruct c as [|a c]; [discriminate|].
    repeat split.
    + cbn. unfold is_dot. cbn. destruct (a =? DOT); [|reflexivity]. destruct c; reflexivity.
    + cbn. unfold is_dotdot. cbn. destruct (a =? DOT); [|reflexivity].
      destruct c as [|b c]; cbn; [reflexivity|]. destruct (b =? DOT); [|reflexivity]. destruct c; reflexivity.
    + intros Hin. apply in_app_or in Hin. destruct Hin as [Hin|Hin]; [tauto|].
      cbn in Hin. repeat (destruct Hin as [Hin|Hin]; [discriminate|]). exact Hin.
Qed.

(* account files stay inside the accounts directory, for every login byte string *)
Theorem account_path_inside dirc login : inside dirc (account_path_comps dirc login).
Proof.
  exists (clean_rooted (split_slash (login ++ YAML))). split; [reflexivity|].
  apply clean_rooted_good, split_slash_noslash.
Qed.

Lemma good_suffixed c : good c -> good (c ++ YAML).
Proof.
  intros (H1 & H2 & H3 & H4). destruct c as [|a c]; [discriminate|]. unfold good. repeat split.
  - cbn. unfold is_dot. cbn. destruct (a =? DOT); [|reflexivity]. destruct c; reflexivity.
  - cbn. unfold is_dotdot. cbn. destruct (a =? DOT); [|reflexivity].
    destruct c as [|b c]; cbn; [reflexivity|]. destruct (b =? DOT); [|reflexivity]. destruct c; reflexivity.
  - intros Hin. apply in_app_or in Hin. destruct Hin as [Hin|Hin]; [tauto|].
    cbn in Hin. repeat (destruct Hin as [Hin|Hin]; [discriminate|]). exact Hin.
Qed.

Theorem account_update_path_inside dirc login : inside dirc (account_update_path_comps dirc login).
Proof.
  unfold account_update_path_comps.
  pose proof (clean_rooted_good _ (split_slash_noslash login)) as HG.
  destruct (rev (clean_rooted (split_slash login))) as [|l r] eqn:E.
  - exists [YAML]. split; [reflexivity|]. constructor; [|constructor].
    unfold good, YAML. repeat split; try reflexivity. cbn. intros H. repeat (destruct H as [H|H]; [discriminate|]). exact H.
  - exists (rev r ++ [l ++ YAML]). split; [reflexivity|].
    assert (HR : Forall good (l :: r)).
    { rewrite <- E. apply Forall_rev. exact HG. }
    inversion HR; subst. apply Forall_app. split; [now apply Forall_rev|].
    constructor; [|constructor]. now apply good_suffixed.
Qed.

(* the Mac Roman decoder maps each byte below 128 to itself and every other byte to bytes >= 128: it can
   neither create nor destroy '/' and '.', so components stay components and good stays good *)
Lemma macroman_table_ok :
  forallb (fun b => if b <? 128 then bytes_eqb (macroman_byte b) [b]
                    else negb (is_empty (macroman_byte b)) && forallb (fun x => 128 <=? x) (macroman_byte b))
          (map N.of_nat (seq 0 256)) = true.
Proof. vm_compute. reflexivity. Qed.
