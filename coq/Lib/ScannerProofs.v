From Verif Require Import Base.Bytes Lib.Scanner.

Lemma total_size_app bs x ts : total_size bs = Some ts -> total_size (bs ++ x) = Some ts.
Proof.
  unfold total_size. intros H.
  destruct (skipn 12 bs) as [|a [|b [|c [|d r]]]] eqn:E; try discriminate.
  assert (Hl : (12 <= List.length bs)%nat).
  { destruct (le_lt_dec 12 (List.length bs)); auto. rewrite skipn_all2 in E by lia. discriminate. }
  rewrite skipn_app. rewrite E. replace (12 - List.length bs)%nat with 0%nat by lia. simpl. exact H.
Qed.

Lemma total_size_none_len bs : total_size bs = None -> (List.length bs < 16)%nat.
Proof.
  unfold total_size. intros H.
  assert (Hl : List.length (skipn 12 bs) = (List.length bs - 12)%nat) by apply skipn_length.
  destruct (skipn 12 bs) as [|a [|b [|c [|d r]]]]; simpl in Hl; try lia. discriminate.
Qed.

Lemma takeN_app_le {A} n (a b : list A) : n <= len a -> takeN n (a ++ b) = takeN n a.
Proof.
  intros H. unfold takeN, len in *. rewrite firstn_app.
  replace (N.to_nat n - List.length a)%nat with 0%nat by lia. cbn [firstn]. apply app_nil_r.
Qed.
Lemma dropN_app_le {A} n (a b : list A) : n <= len a -> dropN n (a ++ b) = dropN n a ++ b.
Proof.
  intros H. unfold dropN, len in *. rewrite skipn_app.
  replace (N.to_nat n - List.length a)%nat with 0%nat by lia. reflexivity.
Qed.
Lemma takeN_dropN {A} n (l : list A) : takeN n l ++ dropN n l = l.
Proof. apply firstn_skipn. Qed.
Lemma takeN_length {A} n (l : list A) : n <= len l -> len (takeN n l) = n.
Proof. intros H. unfold takeN, len in *. rewrite firstn_length. lia. Qed.

Lemma try_split_tok pend tok rest :
  try_split pend = Tok tok rest -> pend = tok ++ rest /\ 22 <= len tok.
Proof.
  unfold try_split. destruct (total_size pend) as [ts|]; [|discriminate].
  destruct ((tok_len ts <=? len pend) && (tok_len ts <=? MAXTOK)) eqn:C; [|discriminate].
  destruct (tok_len ts <? 22) eqn:D; [discriminate|].
  intros H. injection H as <- <-. split; [symmetry; apply takeN_dropN|].
  rewrite takeN_length by lia. lia.
Qed.

Lemma try_split_app_tok pend tok rest x :
  try_split pend = Tok tok rest -> try_split (pend ++ x) = Tok tok (rest ++ x).
Proof.
  unfold try_split. destruct (total_size pend) as [ts|] eqn:E; [|discriminate].
  rewrite (total_size_app _ x _ E).
  destruct ((tok_len ts <=? len pend) && (tok_len ts <=? MAXTOK)) eqn:C; [|discriminate].
  destruct (tok_len ts <? 22) eqn:D; [discriminate|].
  intros H. injection H as <- <-.
  replace ((tok_len ts <=? len (pend ++ x)) && (tok_len ts <=? MAXTOK)) with true.
  2:{ unfold len in *. rewrite app_length. lia. }
  rewrite takeN_app_le, dropN_app_le by lia. reflexivity.
Qed.

Lemma try_split_app_stop pend tok x :
  try_split pend = Stop tok -> try_split (pend ++ x) = Stop tok.
Proof.
  unfold try_split. destruct (total_size pend) as [ts|] eqn:E; [|discriminate].
  rewrite (total_size_app _ x _ E).
  destruct ((tok_len ts <=? len pend) && (tok_len ts <=? MAXTOK)) eqn:C; [|discriminate].
  destruct (tok_len ts <? 22) eqn:D; [|discriminate].
  intros H. injection H as <-.
  replace ((tok_len ts <=? len (pend ++ x)) && (tok_len ts <=? MAXTOK)) with true.
  2:{ unfold len in *. rewrite app_length. lia. }
  rewrite takeN_app_le by lia. reflexivity.
Qed.

Lemma try_split_need_full pend x :
  try_split pend = Need -> MAXTOK <= len pend -> try_split (pend ++ x) = Need.
Proof.
  unfold try_split. intros H Hfull.
  destruct (total_size pend) as [ts|] eqn:E.
  - rewrite (total_size_app _ x _ E).
    destruct ((tok_len ts <=? len pend) && (tok_len ts <=? MAXTOK)) eqn:C.
    + destruct (tok_len ts <? 22); discriminate.
    + replace ((tok_len ts <=? len (pend ++ x)) && (tok_len ts <=? MAXTOK)) with false; auto.
      unfold len in *. rewrite app_length. unfold MAXTOK in *. lia.
  - exfalso. apply total_size_none_len in E. unfold len, MAXTOK in Hfull. lia.
Qed.

Lemma frames_fuel_irrel f1 : forall f2 bs,
  (List.length bs < f1)%nat -> (List.length bs < f2)%nat -> frames_fuel f1 bs = frames_fuel f2 bs.
Proof.
  induction f1 as [|f1 IH]; intros f2 bs H1 H2; [lia|].
  destruct f2 as [|f2]; [lia|]. cbn [frames_fuel].
  destruct (try_split bs) as [tok rest| tok |] eqn:E; auto.
  apply try_split_tok in E as [-> Hl]. f_equal.
  rewrite app_length in *. unfold len in Hl. apply IH; lia.
Qed.

Lemma frames_unfold bs :
  frames bs = match try_split bs with
              | Tok tok rest => tok :: frames rest
              | Stop tok => [tok]
              | Need => []
              end.
Proof.
  unfold frames at 1. cbn [frames_fuel].
  destruct (try_split bs) as [tok rest| tok |] eqn:E; auto.
  f_equal. unfold frames. apply frames_fuel_irrel.
  - apply try_split_tok in E as [-> Hl]. rewrite app_length. unfold len in Hl. lia.
  - lia.
Qed.

(* every run of the scanner, under every segmentation, yields the frames of the byte string *)
Theorem scan_independent pend unread out :
  scans pend unread out -> out = frames (pend ++ unread).
Proof.
  induction 1 as [pend unread tok rest out Hs _ IH | pend unread tok Hs
                 | pend chunk unread' out Hs Hne Hlen _ IH | pend Hs | pend unread Hs Hfull].
  - rewrite frames_unfold. rewrite (try_split_app_tok _ _ _ unread Hs). now rewrite IH.
  - rewrite frames_unfold. now rewrite (try_split_app_stop _ _ unread Hs).
  - rewrite IH. now rewrite app_assoc.
  - rewrite app_nil_r, frames_unfold, Hs. reflexivity.
  - rewrite frames_unfold, (try_split_need_full _ unread Hs Hfull). reflexivity.
Qed.

(* two runs over the same bytes agree, whatever the two segmentations *)
Corollary scan_two_runs bs out1 out2 : scans [] bs out1 -> scans [] bs out2 -> out1 = out2.
Proof. intros H1 H2. apply scan_independent in H1, H2. congruence. Qed.

(* ---- fixed-size stages ---- *)
Lemma read_full_exact chunks : forall n,
  (n <= List.length (concat chunks))%nat ->
  exists rest, read_full n chunks = Some (firstn n (concat chunks), rest) /\
               concat rest = skipn n (concat chunks).
Proof.
  induction chunks as [|c cs IH]; intros n Hn.
  - cbn in Hn. assert (n = 0)%nat by lia. subst. exists []. split; reflexivity.
  - destruct n as [|n]; [exists (c :: cs); split; reflexivity|].
    cbn [read_full concat]. cbn [concat] in Hn. rewrite app_length in Hn.
    destruct (List.length c <=? S n)%nat eqn:E.
    + apply Nat.leb_le in E. destruct (IH (S n - List.length c)%nat ltac:(lia)) as (rest & H1 & H2).
      rewrite H1. exists rest. split.
      * f_equal. f_equal. rewrite firstn_app. f_equal. rewrite firstn_all2 by lia. reflexivity.
      * rewrite H2. rewrite skipn_app. rewrite (skipn_all2 c) by lia. reflexivity.
    + apply Nat.leb_gt in E. exists (skipn (S n) c :: cs). split.
      * f_equal. f_equal. rewrite firstn_app. replace (S n - List.length c)%nat with 0%nat by lia.
        cbn [firstn]. now rewrite app_nil_r.
      * cbn [concat]. rewrite skipn_app. replace (S n - List.length c)%nat with 0%nat by lia. reflexivity.
Qed.

Lemma read_full_short chunks : forall n,
  (List.length (concat chunks) < n)%nat -> read_full n chunks = None.
Proof.
  induction chunks as [|c cs IH]; intros n Hn.
  - destruct n; [cbn in Hn; lia|reflexivity].
  - destruct n as [|n]; [lia|]. cbn [read_full]. cbn [concat] in Hn. rewrite app_length in Hn.
    replace (List.length c <=? S n)%nat with true by (symmetry; apply Nat.leb_le; lia).
    rewrite IH by lia. reflexivity.
Qed.

Lemma copy_n_written chunks : forall n,
  let '(w, rest, ok) := copy_n n chunks in
  w = firstn n (concat chunks) /\
  (ok = true -> concat rest = skipn n (concat chunks)) /\
  (ok = (n <=? List.length (concat chunks))%nat).
Proof.
  induction chunks as [|c cs IH]; intros n.
  - destruct n; cbn; repeat split; auto.
  - destruct n as [|n]; [cbn; repeat split; auto|].
    cbn [copy_n concat]. destruct (List.length c <=? S n)%nat eqn:E.
    + apply Nat.leb_le in E. specialize (IH (S n - List.length c)%nat).
      destruct (copy_n (S n - List.length c) cs) as [[w rest] ok]. destruct IH as (H1 & H2 & H3).
      repeat split.
      * rewrite H1. rewrite firstn_app. f_equal. now rewrite firstn_all2 by lia.
      * intros Hok. rewrite (H2 Hok). rewrite skipn_app. now rewrite (skipn_all2 c) by lia.
      * rewrite H3. rewrite app_length. destruct (Nat.leb_spec (S n - List.length c) (List.length (concat cs)));
          symmetry; [apply Nat.leb_le | apply Nat.leb_gt]; lia.
    + apply Nat.leb_gt in E. repeat split.
      * rewrite firstn_app. replace (S n - List.length c)%nat with 0%nat by lia. cbn [firstn]. now rewrite app_nil_r.
      * intros _. cbn [concat]. rewrite skipn_app. now replace (S n - List.length c)%nat with 0%nat by lia.
      * symmetry. apply Nat.leb_le. rewrite app_length. lia.
Qed.
