(* bufio.Scanner + transactionScanner on a connection (hotline/server.go:394-523, transaction.go:206-222)
   and the fixed-size stage reads (io.ReadFull).  Model only. *)
From Verif Require Import Base.Bytes.

Definition MAXTOK : N := 65536.          (* bufio.MaxScanTokenSize *)

(* transactionScanner: needs 16 bytes; token length (20 + totalSize) in uint32 arithmetic *)
Definition total_size (bs : bytes) : option N :=
  match skipn 12 bs with
  | a :: b :: c :: d :: _ => Some (dbe32 a b c d)
  | _ => None
  end.
Definition tok_len (ts : N) : N := (20 + ts) mod 4294967296.

(* what one Scan() does with the pending bytes:
   Tok  : a whole transaction (>= 22 bytes) is available: it is handed to Transaction.Write and the handler
   Stop : a token shorter than 22 bytes (only through uint32 wrap-around): Transaction.Write fails, the loop ends
   Need : more input is needed *)
Inductive scan_step := Tok (tok rest : bytes) | Stop (tok : bytes) | Need.
Definition try_split (pend : bytes) : scan_step :=
  match total_size pend with
  | None => Need
  | Some ts =>
      let L := tok_len ts in
      if (L <=? len pend) && (L <=? MAXTOK)
      then if L <? 22 then Stop (takeN L pend) else Tok (takeN L pend) (dropN L pend)
      else Need
  end.

(* specification: the frames of a byte string (a function of the bytes alone) *)
Fixpoint frames_fuel (fuel : nat) (bs : bytes) : list bytes :=
  match fuel with
  | O => []
  | S f => match try_split bs with
           | Tok tok rest => tok :: frames_fuel f rest
           | Stop tok => [tok]
           | Need => []
           end
  end.
Definition frames (bs : bytes) : list bytes := frames_fuel (S (List.length bs)) bs.

(* ALL runs of the scanner: any non-empty chunk that fits the 64 KiB buffer may arrive next (this covers every
   TCP segmentation and every re-chunking by the scanner's own buffer management); EOF; buffer full *)
Inductive scans : bytes -> bytes -> list bytes -> Prop :=
| sc_emit pend unread tok rest out :
    try_split pend = Tok tok rest -> scans rest unread out -> scans pend unread (tok :: out)
| sc_stop pend unread tok :
    try_split pend = Stop tok -> scans pend unread [tok]
| sc_read pend chunk unread' out :
    try_split pend = Need -> chunk <> [] -> len pend + len chunk <= MAXTOK ->
    scans (pend ++ chunk) unread' out -> scans pend (chunk ++ unread') out
| sc_eof pend : try_split pend = Need -> scans pend [] []
| sc_toolong pend unread : try_split pend = Need -> MAXTOK <= len pend -> scans pend unread [].

(* io.ReadFull(r, buf[:n]) / binary.Read over a stream delivered in chunks: reads until n bytes are there;
   never reads past them (the chunk that straddles the boundary is split: the rest stays in the stream) *)
Fixpoint read_full (n : nat) (chunks : list bytes) : option (bytes * list bytes) :=
  match n with
  | O => Some ([], chunks)
  | _ => match chunks with
         | [] => None                                   (* EOF before n bytes *)
         | c :: cs =>
             if (List.length c <=? n)%nat
             then match read_full (n - List.length c) cs with
                  | Some (got, rest) => Some (c ++ got, rest)
                  | None => None
                  end
             else Some (firstn n c, skipn n c :: cs)
         end
  end.

(* io.CopyN(dst, r, n): copies what arrives, at most n bytes; returns (written, rest of stream, complete?) *)
Fixpoint copy_n (n : nat) (chunks : list bytes) : bytes * list bytes * bool :=
  match n with
  | O => ([], chunks, true)
  | _ => match chunks with
         | [] => ([], [], false)                        (* EOF: what was copied so far stays written *)
         | c :: cs =>
             if (List.length c <=? n)%nat
             then let '(w, rest, ok) := copy_n (n - List.length c) cs in (c ++ w, rest, ok)
             else (firstn n c, skipn n c :: cs, true)
         end
  end.
