(* filepath.Clean / filepath.Join on byte strings, at the level of '/'-separated components, and the path
   expressions of every call site that turns client bytes into a file system path.  Model only. *)
From Verif Require Import Base.Bytes Base.MacRoman Wire.Impl.

Definition name := bytes.
Definition SLASH : N := 47.
Definition DOT : N := 46.

Definition is_dot (c : name) : bool := bytes_eqb c [DOT].
Definition is_dotdot (c : name) : bool := bytes_eqb c [DOT; DOT].
Definition is_empty (c : name) : bool := match c with [] => true | _ => false end.

(* strings.Split(s, "/") *)
Fixpoint split_slash (s : bytes) : list name :=
  match s with
  | [] => [[]]
  | b :: r => if b =? SLASH then [] :: split_slash r
              else match split_slash r with
                   | c :: cs => (b :: c) :: cs
                   | [] => [[b]]
                   end
  end.

(* Clean of a ROOTED path on its components: "" and "." vanish, ".." pops (and is dropped at the root) *)
Definition step_rooted (stk : list name) (c : name) : list name :=
  if is_empty c || is_dot c then stk
  else if is_dotdot c then removelast stk
  else stk ++ [c].
Definition clean_rooted (cs : list name) : list name := fold_left step_rooted cs [].

(* Clean of an UNROOTED path: leading ".." are kept *)
Definition step_unrooted (stk : list name) (c : name) : list name :=
  if is_empty c || is_dot c then stk
  else if is_dotdot c then
    match rev stk with
    | [] => [c]
    | l :: _ => if is_dotdot l then stk ++ [c] else removelast stk
    end
  else stk ++ [c].
Definition clean_unrooted (cs : list name) : list name := fold_left step_unrooted cs [].

(* "/a/b" for [a; b]; "" for [] *)
Definition render (cs : list name) : bytes := concat (map (fun c => SLASH :: c) cs).
Fixpoint render_rel (cs : list name) : bytes :=
  match cs with [] => [] | [c] => c | c :: r => c ++ SLASH :: render_rel r end.

(* filepath.Join("/", sub, item) where sub is already a cleaned rooted path *)
Definition join_rooted (sub : list name) (item : bytes) : list name := clean_rooted (sub ++ split_slash item).
Definition sub_of (items : list bytes) : list name := fold_left join_rooted items [].

(* ReadPath (hotline/file_path.go:105-128): root / fold(Join("/", sub, item)) / Join("/", name), then the
   Mac Roman decoder over the whole string.  rootc = the components of the (absolute, clean) root. *)
Definition read_path_comps (rootc : list name) (items : list bytes) (fname : bytes) : list name :=
  rootc ++ sub_of items ++ clean_rooted (split_slash fname).
Definition read_path (rootc : list name) (items : list bytes) (fname : bytes) : bytes :=
  macroman (render (read_path_comps rootc items fname)).

(* folderUpload.FormattedPath as repaired: the same rooted fold over the client's segments, leading "/" cut *)
Definition formatted_path_comps (segs : list bytes) : list name := sub_of segs.
Definition formatted_path (segs : list bytes) : bytes := render_rel (formatted_path_comps segs).
(* ... as it was in the pinned tree: an unrooted Join of the segments *)
Definition formatted_path_pinned_comps (segs : list bytes) : list name :=
  clean_unrooted (concat (map split_slash (filter (fun s => negb (is_empty s)) segs))).

(* the segment parser of FormattedPath: PathItemCount items of  00 00 len bytes ; panics when short *)
Fixpoint fu_segments (n : nat) (d : bytes) : res (list bytes) :=
  match n with
  | O => Ok []
  | S k => match d with
           | _ :: _ :: l :: r =>
               if l <=? len r then
                 match fu_segments k (dropN l r) with Ok s => Ok (takeN l r :: s) | e => e end
               else Panic
           | _ => Panic
           end
  end.

(* rename of a file through SetFileInfo as repaired: the target is Dir/Base of ReadPath(root, path, newName) *)
Definition rename_target_comps (rootc : list name) (items : list bytes) (newname : bytes) : list name :=
  read_path_comps rootc items newname.

(* side files of a file named n in the same directory *)
Definition info_name (n : name) : name := [46;105;110;102;111;95] ++ n.        (* .info_ *)
Definition rsrc_name (n : name) : name := [46;114;115;114;99;95] ++ n.         (* .rsrc_ *)
Definition incomplete_name (n : name) : name := n ++ [46;105;110;99;111;109;112;108;101;116;101].   (* .incomplete *)

(* account files (internal/mobius/account_manager.go): dir / Clean("/" + login + ".yaml")  and, for the write
   after a rename as repaired, dir / (Clean("/" + login) + ".yaml") *)
Definition YAML : bytes := [46;121;97;109;108].
Definition account_path_comps (dirc : list name) (login : bytes) : list name :=
  dirc ++ clean_rooted (split_slash (login ++ YAML)).
Definition account_update_path_comps (dirc : list name) (login : bytes) : list name :=
  match rev (clean_rooted (split_slash login)) with
  | [] => dirc ++ [YAML]
  | l :: r => dirc ++ rev r ++ [l ++ YAML]
  end.
