(* Byte-stream sessions: what the server does with a client's bytes, as staged reads over a chunked stream
   (the code) and as a function of the byte string (the specification).  Model only. *)
From Verif Require Import Base.Bytes Lib.Scanner Wire.Parse Wire.Types Wire.Impl.

(* ---- stream-level stages (on the byte string) ---- *)
Definition take_exact (n : N) (bs : bytes) : option (bytes * bytes) :=
  if n <=? len bs then Some (takeN n bs, dropN n bs) else None.

(* ---- control connection: performHandshake (io.ReadFull of 12 bytes) then the transaction scanner ---- *)
Record control_view := { cv_handshake : option bytes; cv_tokens : list bytes }.
Definition control_bytes (bs : bytes) : control_view :=
  match take_exact 12 bs with
  | None => {| cv_handshake := None; cv_tokens := [] |}
  | Some (hs, rest) => {| cv_handshake := Some hs; cv_tokens := frames rest |}
  end.

(* ---- transfer connection, upload: preamble(16) . flat file header(24) . info fork header(16) .
        info fork (size from its header) . data fork header(16) . data (size from its header) ---- *)
Record upload_view := {
  uv_preamble : bytes; uv_header : bytes; uv_infohdr : bytes; uv_info : bytes; uv_datahdr : bytes;
  uv_written : bytes; uv_complete : bool }.
Definition size_of_forkhdr (h : bytes) : N := dbe (skipn 12 h).

Definition upload_chunks (chunks : list bytes) : option upload_view :=
  match read_full 16 chunks with None => None | Some (pre, c1) =>
  match read_full 24 c1 with None => None | Some (h, c2) =>
  match read_full 16 c2 with None => None | Some (ih, c3) =>
  match read_full (N.to_nat (size_of_forkhdr ih)) c3 with None => None | Some (info, c4) =>
  match read_full 16 c4 with None => None | Some (dh, c5) =>
  let '(w, _, ok) := copy_n (N.to_nat (size_of_forkhdr dh)) c5 in
  Some {| uv_preamble := pre; uv_header := h; uv_infohdr := ih; uv_info := info; uv_datahdr := dh;
          uv_written := w; uv_complete := ok |}
  end end end end end.

Definition upload_bytes (bs : bytes) : option upload_view :=
  match take_exact 16 bs with None => None | Some (pre, b1) =>
  match take_exact 24 b1 with None => None | Some (h, b2) =>
  match take_exact 16 b2 with None => None | Some (ih, b3) =>
  match take_exact (size_of_forkhdr ih) b3 with None => None | Some (info, b4) =>
  match take_exact 16 b4 with None => None | Some (dh, b5) =>
  let n := size_of_forkhdr dh in
  Some {| uv_preamble := pre; uv_header := h; uv_infohdr := ih; uv_info := info; uv_datahdr := dh;
          uv_written := if n <=? len b5 then takeN n b5 else b5;
          uv_complete := n <=? len b5 |}
  end end end end end.

(* ---- the resource fork: with a fork count of 3 in the flattened-file header the upload is complete only when a
        third fork header (16 bytes) and as many bytes as it declares have arrived as well ---- *)
Definition three_forks (h : bytes) : bool := bytes_eqb (firstn 2 (skipn 22 h)) [0; 3].
Definition upload_done_chunks (chunks : list bytes) : bool :=
  match read_full 16 chunks with None => false | Some (pre, c1) =>
  match read_full 24 c1 with None => false | Some (h, c2) =>
  match read_full 16 c2 with None => false | Some (ih, c3) =>
  match read_full (N.to_nat (size_of_forkhdr ih)) c3 with None => false | Some (info, c4) =>
  match read_full 16 c4 with None => false | Some (dh, c5) =>
  let '(_, c6, ok) := copy_n (N.to_nat (size_of_forkhdr dh)) c5 in
  ok && (if three_forks h then
           match read_full 16 c6 with
           | None => false
           | Some (rh, c7) => let '(_, _, ok2) := copy_n (N.to_nat (size_of_forkhdr rh)) c7 in ok2
           end
         else true)
  end end end end end.
Definition upload_done_bytes (bs : bytes) : bool :=
  match take_exact 16 bs with None => false | Some (pre, b1) =>
  match take_exact 24 b1 with None => false | Some (h, b2) =>
  match take_exact 16 b2 with None => false | Some (ih, b3) =>
  match take_exact (size_of_forkhdr ih) b3 with None => false | Some (info, b4) =>
  match take_exact 16 b4 with None => false | Some (dh, b5) =>
  match take_exact (size_of_forkhdr dh) b5 with None => false | Some (_, b6) =>
  if three_forks h then
    match take_exact 16 b6 with
    | None => false
    | Some (rh, b7) => size_of_forkhdr rh <=? len b7
    end
  else true
  end end end end end end.

(* ---- transfer connection, FOLDER upload into a fresh target (hotline/file_transfer.go, UploadFolderHandler):
        preamble(16), then for each of the announced items an item header - data size(2), is-folder(2), path item
        count(2), path (data size - 4 bytes, 16-bit arithmetic) - and, for a file, the size word(4) and a flattened
        file as receiveFile reads it: header(24), info fork header(16), info fork, data fork header(16), data fork
        (io.CopyN), and with a fork count of 3 a resource fork header(16) and the resource fork.  The result is the
        list of items with the bytes written to each file; None when the stream ends early. ---- *)
Record fitem := mk_fitem { fi_path : bytes; fi_isdir : bool; fi_data : bytes }.

Definition file_body_chunks (c : list bytes) : option (bytes * list bytes) :=
  match read_full 24 c with None => None | Some (h, c2) =>
  match read_full 16 c2 with None => None | Some (ih, c3) =>
  match read_full (N.to_nat (size_of_forkhdr ih)) c3 with None => None | Some (_, c4) =>
  match read_full 16 c4 with None => None | Some (dh, c5) =>
  let '(d, c6, ok) := copy_n (N.to_nat (size_of_forkhdr dh)) c5 in
  if ok then
    if three_forks h then
      match read_full 16 c6 with None => None | Some (rh, c7) =>
      let '(_, c8, ok2) := copy_n (N.to_nat (size_of_forkhdr rh)) c7 in
      if ok2 then Some (d, c8) else None
      end
    else Some (d, c6)
  else None
  end end end end.
Definition file_body_bytes (b : bytes) : option (bytes * bytes) :=
  match take_exact 24 b with None => None | Some (h, b2) =>
  match take_exact 16 b2 with None => None | Some (ih, b3) =>
  match take_exact (size_of_forkhdr ih) b3 with None => None | Some (_, b4) =>
  match take_exact 16 b4 with None => None | Some (dh, b5) =>
  match take_exact (size_of_forkhdr dh) b5 with None => None | Some (d, b6) =>
  if three_forks h then
    match take_exact 16 b6 with None => None | Some (rh, b7) =>
    match take_exact (size_of_forkhdr rh) b7 with None => None | Some (_, b8) => Some (d, b8) end
    end
  else Some (d, b6)
  end end end end end.

(* Go: make([]byte, binary.BigEndian.Uint16(fu.DataSize[:])-4) in uint16 arithmetic *)
Definition path_len (ds : bytes) : N := (dbe ds + 65536 - 4) mod 65536.

Fixpoint folder_items_chunks (n : nat) (c : list bytes) : option (list fitem) :=
  match n with
  | O => Some []
  | S n' =>
      match read_full 2 c with None => None | Some (ds, c1) =>
      match read_full 2 c1 with None => None | Some (isf, c2) =>
      match read_full 2 c2 with None => None | Some (_, c3) =>
      match read_full (N.to_nat (path_len ds)) c3 with None => None | Some (p, c4) =>
      if bytes_eqb isf [0; 1] then
        match folder_items_chunks n' c4 with Some r => Some (mk_fitem p true [] :: r) | None => None end
      else
        match read_full 4 c4 with None => None | Some (_, c5) =>
        match file_body_chunks c5 with None => None | Some (d, c6) =>
        match folder_items_chunks n' c6 with Some r => Some (mk_fitem p false d :: r) | None => None end
        end end
      end end end end
  end.
Fixpoint folder_items_bytes (n : nat) (b : bytes) : option (list fitem) :=
  match n with
  | O => Some []
  | S n' =>
      match take_exact 2 b with None => None | Some (ds, b1) =>
      match take_exact 2 b1 with None => None | Some (isf, b2) =>
      match take_exact 2 b2 with None => None | Some (_, b3) =>
      match take_exact (path_len ds) b3 with None => None | Some (p, b4) =>
      if bytes_eqb isf [0; 1] then
        match folder_items_bytes n' b4 with Some r => Some (mk_fitem p true [] :: r) | None => None end
      else
        match take_exact 4 b4 with None => None | Some (_, b5) =>
        match file_body_bytes b5 with None => None | Some (d, b6) =>
        match folder_items_bytes n' b6 with Some r => Some (mk_fitem p false d :: r) | None => None end
        end end
      end end end end
  end.
Definition folder_upload_chunks (n : nat) (chunks : list bytes) : option (list fitem) :=
  match read_full 16 chunks with None => None | Some (_, c1) => folder_items_chunks n c1 end.
Definition folder_upload_bytes (n : nat) (b : bytes) : option (list fitem) :=
  match take_exact 16 b with None => None | Some (_, b1) => folder_items_bytes n b1 end.
