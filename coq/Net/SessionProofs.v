From Verif Require Import Base.Bytes Lib.Scanner Lib.ScannerProofs Net.Session.

(* a staged read over chunks is the stream-level stage over the concatenation *)
Lemma read_full_take n chunks :
  match read_full n chunks with
  | Some (got, rest) => take_exact (N.of_nat n) (concat chunks) = Some (got, concat rest)
  | None => take_exact (N.of_nat n) (concat chunks) = None
  end.
Proof.
  unfold take_exact, takeN, dropN, len. rewrite Nat2N.id.
  destruct (Nat.leb_spec n (List.length (concat chunks))) as [H|H].
  - destruct (read_full_exact chunks n H) as (rest & -> & Hr). rewrite Hr.
    replace (N.of_nat n <=? N.of_nat (List.length (concat chunks))) with true by lia. reflexivity.
  - rewrite (read_full_short chunks n H).
    replace (N.of_nat n <=? N.of_nat (List.length (concat chunks))) with false by lia. reflexivity.
Qed.

Ltac stage n c g r :=
  let H := fresh "H" in
  pose proof (read_full_take n c) as H;
  destruct (read_full n c) as [[g r]|]; cbn [N.of_nat Pos.of_succ_nat Pos.succ] in H; rewrite H; [|reflexivity].

(* the upload stream is parsed identically under every segmentation *)
Theorem upload_independent chunks : upload_chunks chunks = upload_bytes (concat chunks).
Proof.
  unfold upload_chunks, upload_bytes.
  stage 16%nat chunks pre c1. stage 24%nat c1 h c2. stage 16%nat c2 ih c3.
  pose proof (read_full_take (N.to_nat (size_of_forkhdr ih)) c3) as H2.
  rewrite N2Nat.id in H2.
  destruct (read_full (N.to_nat (size_of_forkhdr ih)) c3) as [[info c4]|]; rewrite H2; [|reflexivity].
  stage 16%nat c4 dh c5.
  pose proof (copy_n_written c5 (N.to_nat (size_of_forkhdr dh))) as H4.
  destruct (copy_n (N.to_nat (size_of_forkhdr dh)) c5) as [[w rest] ok].
  destruct H4 as (Hw & _ & Hok). subst w ok. f_equal.
  assert (E : (size_of_forkhdr dh <=? len (concat c5)) = (N.to_nat (size_of_forkhdr dh) <=? List.length (concat c5))%nat).
  { unfold len. destruct (Nat.leb_spec (N.to_nat (size_of_forkhdr dh)) (List.length (concat c5))); lia. }
  rewrite E. f_equal.
  destruct (Nat.leb_spec (N.to_nat (size_of_forkhdr dh)) (List.length (concat c5))) as [Hle|Hgt].
  - reflexivity.
  - now rewrite firstn_all2 by lia.
Qed.

(* ... and so is the decision that the whole upload (resource fork included) has arrived *)
Theorem upload_done_independent chunks : upload_done_chunks chunks = upload_done_bytes (concat chunks).
Proof.
  unfold upload_done_chunks, upload_done_bytes.
  stage 16%nat chunks pre c1. stage 24%nat c1 h c2. stage 16%nat c2 ih c3.
  pose proof (read_full_take (N.to_nat (size_of_forkhdr ih)) c3) as H2.
  rewrite N2Nat.id in H2.
  destruct (read_full (N.to_nat (size_of_forkhdr ih)) c3) as [[info c4]|]; rewrite H2; [|reflexivity].
  stage 16%nat c4 dh c5.
  pose proof (copy_n_written c5 (N.to_nat (size_of_forkhdr dh))) as H4.
  destruct (copy_n (N.to_nat (size_of_forkhdr dh)) c5) as [[w c6] ok].
  destruct H4 as (_ & Hrest & Hok).
  unfold take_exact at 1.
  assert (E : (size_of_forkhdr dh <=? len (concat c5)) = ok).
  { rewrite Hok. unfold len. destruct (Nat.leb_spec (N.to_nat (size_of_forkhdr dh)) (List.length (concat c5))); lia. }
  rewrite E. destruct ok; [|reflexivity]. cbn [andb].
  destruct (three_forks h); [|reflexivity].
  unfold dropN. rewrite <- (Hrest eq_refl).
  stage 16%nat c6 rh c7.
  pose proof (copy_n_written c7 (N.to_nat (size_of_forkhdr rh))) as H6.
  destruct (copy_n (N.to_nat (size_of_forkhdr rh)) c7) as [[w2 c8] ok2]. destruct H6 as (_ & _ & Hok2).
  rewrite Hok2. unfold len. destruct (Nat.leb_spec (N.to_nat (size_of_forkhdr rh)) (List.length (concat c7))); lia.
Qed.

(* control connection: handshake bytes and token sequence depend only on the byte string *)
Theorem control_independent chunks hs rest out :
  read_full 12 chunks = Some (hs, rest) -> scans [] (concat rest) out ->
  control_bytes (concat chunks) = {| cv_handshake := Some hs; cv_tokens := out |}.
Proof.
  intros H1 H2. unfold control_bytes.
  pose proof (read_full_take 12 chunks) as H. rewrite H1 in H. cbn [N.of_nat Pos.of_succ_nat Pos.succ] in H.
  rewrite H. apply scan_independent in H2. cbn [app] in H2. now rewrite H2.
Qed.

Theorem control_short chunks :
  read_full 12 chunks = None -> control_bytes (concat chunks) = {| cv_handshake := None; cv_tokens := [] |}.
Proof.
  intros H1. unfold control_bytes.
  pose proof (read_full_take 12 chunks) as H. rewrite H1 in H. cbn [N.of_nat Pos.of_succ_nat Pos.succ] in H.
  now rewrite H.
Qed.

Corollary session_independent chunks1 chunks2 hs1 r1 out1 hs2 r2 out2 :
  concat chunks1 = concat chunks2 ->
  read_full 12 chunks1 = Some (hs1, r1) -> scans [] (concat r1) out1 ->
  read_full 12 chunks2 = Some (hs2, r2) -> scans [] (concat r2) out2 ->
  hs1 = hs2 /\ out1 = out2.
Proof.
  intros E A1 A2 B1 B2.
  pose proof (control_independent _ _ _ _ A1 A2) as HA.
  pose proof (control_independent _ _ _ _ B1 B2) as HB.
  rewrite E in HA. rewrite HA in HB. injection HB as -> ->. auto.
Qed.

(* ---- folder uploads ---- *)
Lemma copy_n_take n c :
  let '(w, rest, ok) := copy_n n c in
  if ok then take_exact (N.of_nat n) (concat c) = Some (w, concat rest)
  else take_exact (N.of_nat n) (concat c) = None.
Proof.
  pose proof (copy_n_written c n) as H. destruct (copy_n n c) as [[w rest] ok].
  destruct H as (Hw & Hrest & Hok). unfold take_exact, takeN, dropN, len. rewrite Nat2N.id.
  destruct (Nat.leb_spec n (List.length (concat c))) as [Hle|Hgt]; subst ok.
  - replace (N.of_nat n <=? N.of_nat (List.length (concat c))) with true by lia.
    rewrite Hw, (Hrest eq_refl). reflexivity.
  - replace (N.of_nat n <=? N.of_nat (List.length (concat c))) with false by lia. reflexivity.
Qed.

Ltac stagev sz c g r :=
  let H := fresh "H" in
  pose proof (read_full_take (N.to_nat sz) c) as H; rewrite N2Nat.id in H;
  destruct (read_full (N.to_nat sz) c) as [[g r]|]; rewrite H; [|reflexivity].
Ltac stagec sz c g r ok :=
  let H := fresh "H" in
  pose proof (copy_n_take (N.to_nat sz) c) as H; rewrite N2Nat.id in H;
  destruct (copy_n (N.to_nat sz) c) as [[g r] ok]; destruct ok; rewrite H; [|reflexivity].

Lemma file_body_take c :
  match file_body_chunks c with
  | Some (d, r) => file_body_bytes (concat c) = Some (d, concat r)
  | None => file_body_bytes (concat c) = None
  end.
Proof.
  unfold file_body_chunks, file_body_bytes.
  stage 24%nat c h c2. stage 16%nat c2 ih c3. stagev (size_of_forkhdr ih) c3 info c4.
  stage 16%nat c4 dh c5. stagec (size_of_forkhdr dh) c5 d c6 ok.
  destruct (three_forks h); [|reflexivity].
  stage 16%nat c6 rh c7. stagec (size_of_forkhdr rh) c7 rs c8 ok2. reflexivity.
Qed.

Theorem folder_items_independent : forall n chunks,
  folder_items_chunks n chunks = folder_items_bytes n (concat chunks).
Proof.
  induction n as [|n IH]; intros c; [reflexivity|]. cbn [folder_items_chunks folder_items_bytes].
  stage 2%nat c ds c1. stage 2%nat c1 isf c2. stage 2%nat c2 pc c3. stagev (path_len ds) c3 p c4.
  destruct (bytes_eqb isf [0; 1]).
  - rewrite IH. reflexivity.
  - stage 4%nat c4 sz c5. pose proof (file_body_take c5) as Hb.
    destruct (file_body_chunks c5) as [[d c6]|]; rewrite Hb; [|reflexivity]. rewrite IH. reflexivity.
Qed.
Theorem folder_upload_independent n chunks :
  folder_upload_chunks n chunks = folder_upload_bytes n (concat chunks).
Proof.
  unfold folder_upload_chunks, folder_upload_bytes. stage 16%nat chunks pre c1. apply folder_items_independent.
Qed.
