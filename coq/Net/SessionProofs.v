From Verif Require Import Base.Bytes Lib.Scanner Lib.ScannerProofs Net.Session.

(* a staged read over chunks is the stream-level stage over the concatenation *)
Lemma read_full_take n chunks :
  match read_full n chunks with
  | Some (got, rest) => take_exact (N.of_nat n) (concat chunks) = Some (got, concat rest)
  | None => take_exact (N.of_nat n) (concat chunks) = None
  end.
Proof.
  unfold take_exact, takeN, dropN, len. rewrite Nat2N.id.
  destruct (Nat.leb_spec n (List.length (concat chunks))) as [H|H].
  - destruct (read_full_exact chunks n H) as (rest & -> & Hr). rewrite Hr.
    replace (N.of_nat n <=? N.of_nat (List.length (concat chunks))) with true by lia. reflexivity.
  - rewrite (read_full_short chunks n H).
    replace (N.of_nat n <=? N.of_nat (List.length (concat chunks))) with false by lia. reflexivity.
Qed.

Ltac stage n c g r :=
  let H := fresh "H" in
  pose proof (read_full_take n c) as H;
  destruct (read_full n c) as [[g r]|]; cbn [N.of_nat Pos.of_succ_nat Pos.succ] in H; rewrite H; [|reflexivity].

(* the upload stream is parsed identically under every segmentation *)
Theorem upload_independent chunks : upload_chunks chunks = upload_bytes (concat chunks).
Proof.
  unfold upload_chunks, upload_bytes.
  stage 16%nat chunks pre c1. stage 24%nat c1 h c2. stage 16%nat c2 ih c3.
  pose proof (read_full_take (N.to_nat (size_of_forkhdr ih)) c3) as H2.
  rewrite N2Nat.id in H2.
  destruct (read_full (N.to_nat (size_of_forkhdr ih)) c3) as [[info c4]|]; rewrite H2; [|reflexivity].
  stage 16%nat c4 dh c5.
  pose proof (copy_n_written c5 (N.to_nat (size_of_forkhdr dh))) as H4.
  destruct (copy_n (N.to_nat (size_of_forkhdr dh)) c5) as [[w rest] ok].
  destruct H4 as (Hw & _ & Hok). subst w ok. f_equal.
  assert (E : (size_of_forkhdr dh <=? len (concat c5)) = (N.to_nat (size_of_forkhdr dh) <=? List.length (concat c5))%nat).
  { unfold len. destruct (Nat.leb_spec (N.to_nat (size_of_forkhdr dh)) (List.length (concat c5))); lia. }
  rewrite E. f_equal.
  destruct (Nat.leb_spec (N.to_nat (size_of_forkhdr dh)) (List.length (concat c5))) as [Hle|Hgt].
  - reflexivity.
  - now rewrite firstn_all2 by lia.
Qed.

(* ... and so is the decision that the whole upload (resource fork included) has arrived *)
Theorem upload_done_independent chunks : upload_done_chunks chunks = upload_done_bytes (concat chunks).
Proof.
  unfold upload_done_chunks, upload_done_bytes.
  stage 16%nat chunks pre c1. stage 24%nat c1 h c2. stage 16%nat c2 ih c3.
  pose proof (read_full_take (N.to_nat (size_of_forkhdr ih)) c3) as H2.
  rewrite N2Nat.id in H2.
  destruct (read_full (N.to_nat (size_of_forkhdr ih)) c3) as [[info c4]|]; rewrite H2; [|reflexivity].
  stage 16%nat c4 dh c5.
  pose proof (copy_n_written c5 (N.to_nat (size_of_forkhdr dh))) as H4.
  destruct (copy_n (N.to_nat (size_of_forkhdr dh)) c5) as [[w c6] ok].
  destruct H4 as (_ & Hrest & Hok).
  unfold take_exact at 1.
  assert (E : (size_of_forkhdr dh <=? len (concat c5)) = ok).
  { rewrite Hok. unfold len. destruct (Nat.leb_spec (N.to_nat (size_of_forkhdr dh)) (List.length (concat c5))); lia. }
  rewrite E. destruct ok; [|reflexivity]. cbn [andb].
  destruct (three_forks h); [|reflexivity].
  unfold dropN. rewrite <- (Hrest eq_refl).
  stage 16%nat c6 rh c7.
  pose proof (copy_n_written c7 (N.to_nat (size_of_forkhdr rh))) as H6.
  destruct (copy_n (N.to_nat (size_of_forkhdr rh)) c7) as [[w2 c8] ok2]. destruct H6 as (_ & _ & Hok2).
  rewrite Hok2. unfold len. destruct (Nat.leb_spec (N.to_nat (size_of_forkhdr rh)) (List.length (concat c7))); lia.
Qed.

(* control connection: handshake bytes and token sequence depend only on the byte string *)
Theorem control_independent chunks hs rest out :
  read_full 12 chunks = Some (hs, rest) -> scans [] (concat rest) out ->
  control_bytes (concat chunks) = {| cv_handshake := Some hs; cv_tokens := out |}.
Proof.
  intros H1 H2. unfold control_bytes.
  pose proof (read_full_take 12 chunks) as H. rewrite H1 in H. cbn [N.of_nat Pos.of_succ_nat Pos.succ] in H.
  rewrite H. apply scan_independent in H2. cbn [app] in H2. now rewrite H2.
Qed.

Theorem control_short chunks :
  read_full 12 chunks = None -> control_bytes (concat chunks) = {| cv_handshake := None; cv_tokens := [] |}.
Proof.
  intros H1. unfold control_bytes.
  pose proof (read_full_take 12 chunks) as H. rewrite H1 in H. cbn [N.of_nat Pos.of_succ_nat Pos.succ] in H.
  now rewrite H.
Qed.

Corollary session_independent chunks1 chunks2 hs1 r1 out1 hs2 r2 out2 :
  concat chunks1 = concat chunks2 ->
  read_full 12 chunks1 = Some (hs1, r1) -> scans [] (concat r1) out1 ->
  read_full 12 chunks2 = Some (hs2, r2) -> scans [] (concat r2) out2 ->
  hs1 = hs2 /\ out1 = out2.
Proof.
  intros E A1 A2 B1 B2.
  pose proof (control_independent _ _ _ _ A1 A2) as HA.
  pose proof (control_independent _ _ _ _ B1 B2) as HB.
  rewrite E in HA. rewrite HA in HB. injection HB as -> ->. auto.
Qed.
