(* C08 / C09 correspondence (harness/c09.go) *)
From Verif Require Import Base.Bytes Corr.Case Net.Session FS.Transfer.
Local Open Scope N_scope.
Definition a (n : nat) (l : list (list N)) : list N := nth n l [].
Definition flag (b : list N) : bool := bytes_eqb b [1].
Definition optb (o : option (list N)) : list (list N) := match o with Some x => [[1]; x] | None => [[0]; []] end.

(* upload histories on one target: state + ops
   1 request(resume flag)              -> [reply kind (0 refused,1 fresh,2 resume,3 none); offset(4)]
   2 transfer(stream head, data, cut k) -> [final?, final bytes, partial?, partial bytes]
   3 place an existing final file      -> [] *)
Definition render_tgt (st : tgt) : list (list N) := optb (final st) ++ optb (partial st).
Definition ustep (st : tgt) (o : dop) : tgt * list (list N) :=
  let '(code, args) := o in
  match code with
  | 1 => (st, match upload_request st (flag (a 0 args)) with
              | UpRefused => [[0]; []] | UpFresh => [[1]; []]
              | UpResume off => [[2]; be32 off] | UpNoReply => [[3]; []] end)
  | 2 => let st' := attempt st (a 0 args ++ a 1 args) (N.to_nat (dbe (a 2 args))) in (st', render_tgt st')
  | 3 => (mk_tgt (Some (a 0 args)) (partial st), [])
  | _ => (st, [])
  end.
Fixpoint urun (st : tgt) (ops : list dop) : list (list (list N)) :=
  match ops with [] => [] | o :: r => let '(st', out) := ustep st o in out :: urun st' r end.

(* download: one op
   10 download(name, data, off(4), resuming, preview, hasinfo, info, hasrsrc, rsrc, type, creator, mtime)
      -> [transfer size(4); file size(4); stream] *)
(* the client's cut of a download stream (same rule as harness/c09.go splitDownload) *)
Definition split_download (stream : list N) (preview : bool) (n : N) : list (list N) :=
  let head := if preview then Some 0
              else if len stream <? 40 then None
              else let h := 40 + dbe (firstn 4 (skipn 36 stream)) + 16 in
                   if len stream <? h then None else Some h in
  match head with
  | None => [stream; []; []]
  | Some h => let rest := dropN h stream in
              [takeN h stream; takeN (N.min n (len rest)) rest; dropN (N.min n (len rest)) rest]
  end.

Definition dmodel (args : list (list N)) : list (list N) :=
  let f := mk_dfile (a 0 args) (a 1 args) (if flag (a 5 args) then Some (a 6 args) else None)
                    (if flag (a 7 args) then Some (a 8 args) else None) (a 9 args) (a 10 args) (a 11 args) in
  let off := dbe (a 2 args) in
  let '(x, s) := dl_reply f off (flag (a 4 args)) in
  [x; s] ++ split_download (dl_stream f off (flag (a 3 args)) (flag (a 4 args))) (flag (a 4 args)) (dbe s).

Definition model (ops : list dop) : list (list (list N)) :=
  match ops with
  | (10, args) :: _ => [dmodel args]
  | _ => urun (mk_tgt None None) ops
  end.

(* oracle.  Upload histories (the harness plays the honest resuming client for data d = first argument of the
   history's op 0): after every transfer, final = none and partial is a prefix of d, or final = d and no partial;
   an existing file is never replaced.  Download: data part exactly dropN off data; preview bare; sizes. *)
Fixpoint is_prefix (p d : list N) : bool :=
  match p, d with [], _ => true | x :: p', y :: d' => (x =? y) && is_prefix p' d' | _, [] => false end.
(* prefix test that also works on digest-form observations *)
Definition prefix_match (o d : list N) : bool :=
  match o with
  | [256; l; h] => (l <=? len d) && (digest (takeN l d) =? h)
  | _ => is_prefix o d
  end.
Definition obs_len (o : list N) : N := match o with [256; l; _] => l | _ => len o end.
Fixpoint oracle_up (d : list N) (placed : option (list N)) (ops : list dop) (obs : list (list (list N))) : bool :=
  match ops, obs with
  | (code, args) :: r, ob :: rb =>
      match code with
      | 0 => oracle_up (a 0 args) placed r rb
      | 3 => oracle_up d (Some (a 0 args)) r rb
      | 2 =>
          let fin := a 0 ob in let finb := a 1 ob in let par := a 2 ob in let parb := a 3 ob in
          (match placed with
           | Some e => flag fin && bytes_match e finb       (* existing file untouched *)
           | None =>
               (* an attempt that is not cut (the whole stream of the resuming client arrived) must complete *)
               let uncut := len (a 0 args) + len (a 1 args) <=? dbe (a 2 args) in
               (* the partial file holds EXACTLY the prefix received: what was there when the transfer began (the
                  offset the resuming client was told: all of d but the data it now sends) plus the data bytes that
                  arrived before the cut - no more, and not a byte less *)
               let off := len d - len (a 1 args) in
               let delivered := N.min (len (a 1 args)) (dbe (a 2 args) - len (a 0 args)) in
               if flag fin then bytes_match d finb && negb (flag par)
               else negb uncut &&
                    (if flag par then prefix_match parb d && (obs_len parb =? off + delivered)
                     else off + delivered =? 0)
           end) && oracle_up d placed r rb
      | _ => oracle_up d placed r rb
      end
  | _, _ => true
  end.
Definition has_suffix_from (stream : list N) (n : nat) (want : list N) : bool :=
  bytes_eqb (firstn (List.length want) (skipn n stream)) want.
Definition oracle (ops : list dop) (obs : list (list (list N))) : bool :=
  match ops, obs with
  | (10, args) :: _, [ob] =>
      let data := a 1 args in let off := dbe (a 2 args) in
      let preview := flag (a 4 args) in let resuming := flag (a 3 args) in
      let hasrsrc := flag (a 7 args) in
      let rest := dropN off data in
      (* the model's stream is compared by M; here: reply sizes and the preview rule, judged independently *)
      bytes_eqb (a 1 ob) (be32 (len rest)) &&
      (* after the header (whose own INFO size field locates the data fork) come exactly the remaining data bytes *)
      bytes_match rest (a 3 ob) &&
      (if preview then bytes_eqb (a 2 ob) [] && bytes_eqb (a 4 ob) [] else true) &&
      (* the header names the file (synthesised fork): name-size field = length of the name that follows *)
      (if negb preview && negb (flag (a 5 args))
       then bytes_eqb (firstn (2 + List.length (a 0 args)) (skipn 110 (a 2 ob))) (be16 (len (a 0 args)) ++ a 0 args)
       else true) &&
      (if negb hasrsrc && negb preview
       then bytes_eqb (a 0 ob) (be32 (len rest + 56 + (if flag (a 5 args) then len (a 6 args) else 74 + len (a 0 args))))
       else true) &&
      (* a stored resource fork follows the data whole: behind its 16-byte fork header on a fresh download, bare on a
         resumed one (the data offset does not apply to it) *)
      (if hasrsrc && negb preview
       then bytes_match (if resuming then a 8 args
                         else [77; 65; 67; 82] ++ repeat 0 8 ++ be32 (len (a 8 args)) ++ a 8 args) (a 4 ob)
       else true)
  | _, _ => oracle_up [] None ops obs
  end.
