(* C10 correspondence (harness/c10.go): a reference folder-transfer client against the real transfer handlers.
   op 9 initial tree (as in Run_C11)
   op 1 folder download   args folder path, actions (1 byte kind 1 send | 2 resume | 3 skip, 4 bytes offset)*
          obs [announced item count (2 bytes); one string per item header received:
               path, is-folder, size prefix (flag + 4 bytes), data fork bytes received]
   op 2 folder upload     args target folder path, (path, is-folder, data)*
          obs [server's answer per item (1 byte 0 next | 1 send | 2 resume | 9 failed, 4 bytes offset); tree afterwards]
   op 3 folder upload cut   args target, item index, bytes of that item's data delivered, (path, is-folder, data)*
          obs [tree afterwards] *)
From stdpp Require Import gmap.
From Verif Require Import Base.Bytes Corr.Case Lib.Path FS.Namespace FS.Folder Corr.Run_C11.
Local Open Scope N_scope.

Definition FUEL : nat := 64.
Fixpoint dec_actions (fuel : nat) (b : list N) : list action :=
  match fuel with
  | O => []
  | S f => match b with
           | k :: o1 :: o2 :: o3 :: o4 :: r =>
               (match k with 2 => Resume (dbe [o1; o2; o3; o4]) | 3 => Skip | _ => Send end) :: dec_actions f r
           | _ => []
           end
  end.
Definition enc_sent (s : sent) : list N :=
  enc_path (s_path s) ++ [if s_isdir s then 1 else 0] ++
  match s_prefix s with Some n => [1] ++ be32 n | None => [0; 0; 0; 0; 0] end ++ len32 (s_data s).
Fixpoint dec_items (fuel : nat) (args : list (list N)) : list up_item :=
  match fuel with
  | O => []
  | S f => match args with
           | p :: d :: data :: r => mk_up (dec_path p) (bytes_eqb d [1]) data :: dec_items f r
           | _ => []
           end
  end.
Definition enc_reply (r : up_reply) : list N :=
  match r with
  | UNext => [0; 0; 0; 0; 0]
  | USend => [1; 0; 0; 0; 0]
  | UResume k => [2] ++ be32 k
  | UFail => [9; 0; 0; 0; 0]
  end.

Definition step (w : world) (o : dop) : world * list (list N) :=
  let '(code, args) := o in
  match code with
  | 9 => (dec_world (List.length args) args, [])
  | 1 =>
      let root := dec_path (a 0 args) in
      let items := items_of FUEL w root in
      (w, be16 (item_count FUEL w root) :: map enc_sent (download root items (dec_actions (List.length (a 1 args)) (a 1 args))))
  | 2 =>
      let t := dec_path (a 0 args) in
      let its := dec_items (List.length args) (skipn 1 args) in
      let w0 := match w !! t with Some _ => w | None => match t with [] => w | _ => <[t := NDir]> w end end in
      let '(w', rs) := upload w0 t its in
      (w', [concat (map enc_reply rs); snapshot w'])
  | 3 => (* upload that dies inside the data of item number i (0-based), m bytes of it delivered *)
      let t := dec_path (a 0 args) in
      let i := N.to_nat (dbe (a 1 args)) in let m := N.to_nat (dbe (a 2 args)) in
      let its := dec_items (List.length args) (skipn 3 args) in
      let w0 := match w !! t with Some _ => w | None => match t with [] => w | _ => <[t := NDir]> w end end in
      let '(w1, _) := upload w0 t (firstn i its) in
      let w2 := match nth_error its i with Some it => upload_cut_step w1 t it m | None => w1 end in
      (w2, [snapshot w2])
  | _ => (w, [])
  end.
Fixpoint run (w : world) (ops : list dop) : list (list (list N)) :=
  match ops with [] => [] | o :: r => let '(w', out) := step w o in out :: run w' r end.
Definition model (ops : list dop) : list (list (list N)) := run ∅ ops.
Definition oracle (ops : list dop) (obs : list (list (list N))) : bool := obs_eqb (model ops) obs.
