(* C11 correspondence (harness/c11.go): request sequences through the real file handlers on a real tree.
   op 9  initial tree       args (path, kind, payload)*          obs []
   op 1  list               args items                           obs [status; rows]
   op 2  get info           args items, name                     obs [status; info]
   op 3  delete             args items, name                     obs [status; tree]
   op 4  move               args items, name, new items          obs [status; tree]
   op 5  rename             args items, name, new name           obs [status; tree]
   op 6  set comment        args items, name, comment            obs [status; tree]
   op 7  new folder         args items, name                     obs [status; tree]
   op 8  make alias         args items, name, new items          obs [status; tree]
   op 10 download request   args items, name                     obs [status; data fork size]
   op 11 comment + rename in one request   args items, name, comment, new name   obs [status; tree]
   status 0 = replied, 1 = error reply, 2 = no reply.  Paths/items: count(2) then len16-prefixed names. *)
From stdpp Require Import gmap.
From Verif Require Import Base.Bytes Corr.Case Lib.Path FS.Namespace.
Local Open Scope N_scope.

Definition a (n : nat) (l : list (list N)) : list N := nth n l [].
Definition len16 (b : list N) : list N := be16 (len b) ++ b.
Definition len32 (b : list N) : list N := be32 (len b) ++ b.

Fixpoint names_fuel (fuel : nat) (k : nat) (b : list N) : list (list N) :=
  match fuel, k with
  | O, _ | _, O => []
  | S f, S k' => match b with
                 | x :: y :: r => let l := x * 256 + y in takeN l r :: names_fuel f k' (dropN l r)
                 | _ => []
                 end
  end.
Definition dec_path (b : list N) : list (list N) :=
  match b with x :: y :: r => let k := N.to_nat (x * 256 + y) in names_fuel (S k) k r | _ => [] end.
Definition enc_path (p : list (list N)) : list N := be16 (len p) ++ concat (map len16 p).

Definition dec_node (kind payload : list N) : node :=
  match kind with
  | [1] => NFile payload
  | [2] => NInfo (firstn 4 payload) (firstn 4 (skipn 4 payload)) (skipn 10 payload)
  | [4] => NLink (dec_path payload)
  | _ => NDir
  end.
Fixpoint dec_world (fuel : nat) (args : list (list N)) : world :=
  match fuel with
  | O => ∅
  | S f => match args with
           | p :: k :: pl :: r => <[dec_path p := dec_node k pl]> (dec_world f r)
           | _ => ∅
           end
  end.
Definition enc_node (x : node) : list N :=
  match x with
  | NFile d => [1] ++ len32 d
  | NInfo ty cr c => [2] ++ ty ++ cr ++ len16 c
  | NDir => [3]
  | NLink t => [4] ++ enc_path t
  end.
Definition snapshot (w : world) : list N :=
  concat (map (fun '(p, x) => enc_path p ++ enc_node x) (sort_by (fun kv => render (fst kv)) (map_to_list w))).
Definition st (s : status) : list N := match s with Replied => [0] | ErrReplied => [1] | NoReply => [2] end.
Definition enc_row (r : row) : list N := len16 (r_name r) ++ r_type r ++ r_creator r ++ be32 (r_size r mod 4294967296).

Definition step (w : world) (o : dop) : world * list (list N) :=
  let '(code, args) := o in
  let items := dec_path (a 0 args) in
  let upd (r : world * status) : world * list (list N) := (fst r, [st (snd r); snapshot (fst r)]) in
  match code with
  | 9 => (dec_world (List.length args) args, [])
  | 1 => match list_dir w (sub_of items) with
         | Some rows => (w, [[0]; concat (map enc_row rows)])
         | None => (w, [[2]; []])
         end
  | 2 => match get_info w items (a 1 args) with
         | Some (n, ty, c, sz) =>
             (w, [[0]; len16 n ++ ty ++ len16 c ++ match sz with Some s => [1] ++ be32 (s mod 4294967296) | None => [0] end])
         | None => (w, [[2]; []])
         end
  | 3 => upd (delete_file w items (a 1 args))
  | 4 => upd (move_file w items (a 1 args) (dec_path (a 2 args)))
  | 5 => upd (rename_file w items (a 1 args) (a 2 args))
  | 6 => upd (set_comment w items (a 1 args) (a 2 args))
  | 7 => upd (new_folder w items (a 1 args))
  | 8 => upd (make_alias w items (a 1 args) (dec_path (a 2 args)))
  | 11 => (* one SetFileInfo request carrying a comment AND a new name: the comment is written first *)
          let '(w1, s1) := set_comment w items (a 1 args) (a 2 args) in
          match s1 with
          | Replied => upd (rename_file w1 items (a 1 args) (a 3 args))
          | _ => upd (w1, s1)
          end
  | 10 => match download_size w items (a 1 args) with
          | Some s => (w, [[0]; be32 (s mod 4294967296)])
          | None => (w, [[2]; []])
          end
  | _ => (w, [])
  end.
Fixpoint run (w : world) (ops : list dop) : list (list (list N)) :=
  match ops with [] => [] | o :: r => let '(w', out) := step w o in out :: run w' r end.
Definition model (ops : list dop) : list (list (list N)) := run ∅ ops.
(* the model is the reference namespace: the judgement is agreement with it *)
Definition oracle (ops : list dop) (obs : list (list (list N))) : bool := obs_eqb (model ops) obs.
