(* C01 correspondence (harness/c01.go): object builders from case arguments, the model of what the code
   emits/decodes (impl_X, under the reader shape the translator extracted), and the property oracle
   (reference layouts spec_enc_X). *)
From Verif Require Import Base.Bytes Lib.Reader Corr.Case Wire.Parse Wire.Types Wire.Impl Gen.ReaderShapes.
From Coq Require Import String.
Local Open Scope N_scope.

Definition a (n : nat) (l : list bytes) : bytes := nth n l [].
Definition num (b : bytes) : N := dbe b.

Fixpoint pairs_to_fields (l : list bytes) : list field :=
  match l with
  | t :: d :: r => NewField (num t) d :: pairs_to_fields r
  | _ => []
  end.
Fixpoint fields_to_pairs (l : list field) : list bytes :=
  match l with [] => [] | f :: r => be16 (f_type f) :: f_data f :: fields_to_pairs r end.

Definition build_field (l : list bytes) := mk_field (num (a 0 l)) (num (a 1 l)) (a 2 l).
Definition comps_field (f : field) := [be16 (f_type f); be16 (f_size f); f_data f].
Definition build_tran (l : list bytes) :=
  mk_tran (num (a 0 l)) (num (a 1 l)) (num (a 2 l)) (num (a 3 l)) (num (a 4 l)) (pairs_to_fields (skipn 5 l)).
Definition comps_tran (t : transaction) :=
  [[t_flags t]; [t_isreply t]; be16 (t_type t); be32 (t_id t); be32 (t_err t)] ++ fields_to_pairs (t_fields t).
Definition build_user (l : list bytes) := mk_user (num (a 0 l)) (a 1 l) (a 2 l) (a 3 l).
Definition comps_user (u : user) := [be16 (u_id u); u_icon u; u_flags u; u_name u].
Definition build_fnwi (l : list bytes) := mk_fnwi (a 0 l) (a 1 l) (a 2 l) (a 3 l) (a 4 l) (num (a 5 l)) (a 6 l).
Definition comps_fnwi (x : fnwi) :=
  [fn_type x; fn_creator x; fn_fsize x; fn_rsvd x; fn_script x; be16 (fn_namesize x); fn_name x].
Definition build_fh (l : list bytes) := NewFileHeader (skipn 1 l) (bytes_eqb (a 0 l) [1]).
Definition build_fork (b : bytes) := mk_fork (firstn 4 b) (firstn 4 (skipn 4 b)) (firstn 4 (skipn 8 b)) (firstn 4 (skipn 12 b)).
Definition build_rd (l : list bytes) := NewFileResumeData (map build_fork l).
Definition comps_rd (r : resume_data) :=
  [rd_format r; rd_version r; rd_rsvd r; rd_forkcount r] ++ map spec_enc_fork (rd_forks r).
Definition build_ifork (l : list bytes) :=
  mk_ifork (a 0 l) (a 1 l) (a 2 l) (a 3 l) (a 4 l) (a 5 l) (a 6 l) (a 7 l) (a 8 l) (a 9 l) (a 10 l) (a 11 l) (a 12 l).
Definition comps_ifork (x : info_fork) :=
  [ff_platform x; ff_type x; ff_creator x; ff_flags x; ff_pflags x; ff_rsvd x; ff_create x; ff_modify x;
   ff_script x; ff_namesize x; ff_name x; ff_commentsize x; ff_comment x].
Definition build_ffo (l : list bytes) :=
  mk_ffo (a 0 l) (a 1 l) (a 2 l) (a 3 l) (build_ifork (firstn 13 (skipn 4 l)))
         (mk_fkh (a 17 l) (a 18 l) (a 19 l) (a 20 l)).
Definition comps_ffo (x : ffo) :=
  [fo_format x; fo_version x; fo_rsvd x; fo_forkcount x] ++ comps_ifork (fo_info x) ++
  [fh_ftype (fo_datahdr x); fh_comp (fo_datahdr x); fh_frsvd (fo_datahdr x); fh_dsize (fo_datahdr x)].
Definition build_art (l : list bytes) := mk_art (a 0 l) (a 1 l) (a 2 l) (a 3 l) (a 4 l) (a 5 l) (a 6 l).
Fixpoint build_arts (fuel : nat) (l : list bytes) : list news_art :=
  match fuel with
  | O => []
  | S k => match l with
           | _ :: _ :: _ :: _ :: _ :: _ :: _ :: r => build_art l :: build_arts k r
           | _ => []
           end
  end.
Definition build_al (l : list bytes) :=
  mk_al (a 0 l) (num (a 1 l)) (a 2 l) (a 3 l) (build_arts (List.length l) (skipn 4 l)).
Definition build_cat (l : list bytes) :=
  let t := num (a 0 l) in
  if t =? 3 then mk_cat t (num (a 1 l)) (a 2 l) (a 3 l) (a 4 l) (a 5 l)
  else mk_cat t (num (a 1 l)) [] [] [] (a 5 l).
Definition build_tr (l : list bytes) := mk_tr (a 0 l) (num (a 1 l)) (a 2 l) (a 3 l) (a 4 l) (a 5 l).
Definition build_acc (l : list bytes) := mk_acc (a 0 l) (a 1 l) (a 2 l) (bytes_eqb (a 3 l) [1]).

(* Go type name of each tag (for the generated reader shapes) *)
Definition tag_name (t : N) : string :=
  match t with
  | 1 => "Field" | 2 => "Transaction" | 3 => "User" | 4 => "FileNameWithInfo" | 5 => "FileHeader"
  | 7 => "FlatFileInformationFork" | 8 => "flattenedFileObject" | 9 => "NewsArtList"
  | 10 => "NewsArtListData" | 11 => "NewsCategoryListData15" | 12 => "TrackerRegistration" | 13 => "Account"
  | _ => ""
  end%string.
Fixpoint shape_of (n : string) (l : list (string * shape)) : shape :=
  match l with [] => ShapeUnknown | (k, s) :: r => if String.eqb k n then s else shape_of n r end.

Definition impl_bytes (tag : N) (l : list bytes) : bytes :=
  match tag with
  | 1 => impl_bytes_field (build_field l) | 2 => impl_bytes_tran (build_tran l)
  | 3 => impl_bytes_user (build_user l) | 4 => impl_bytes_fnwi (build_fnwi l)
  | 5 => impl_bytes_fh (build_fh l) | 6 => impl_bytes_rd (build_rd l)
  | 7 => impl_bytes_ifork (build_ifork l) | 8 => impl_bytes_ffo (build_ffo l)
  | 9 => impl_bytes_art (build_art l) | 10 => impl_bytes_al (build_al l)
  | 11 => impl_bytes_cat (build_cat l) | 12 => impl_bytes_tr (build_tr l)
  | 13 => impl_bytes_acc (build_acc l) | 14 => impl_enc_path l
  | 15 => spec_enc_time (num (a 0 l)) (num (a 1 l))
  | _ => []
  end.
Definition spec_bytes (tag : N) (l : list bytes) : bytes :=
  match tag with
  | 1 => spec_enc_field (build_field l) | 2 => spec_enc_tran (build_tran l)
  | 3 => spec_enc_user (build_user l) | 4 => spec_enc_fnwi (build_fnwi l)
  | 5 => spec_enc_fh (build_fh l) | 6 => spec_enc_rd (build_rd l)
  | 7 => spec_enc_ifork (build_ifork l) | 8 => spec_enc_ffo (build_ffo l)
  | 9 => spec_enc_art (build_art l) | 10 => spec_enc_al (build_al l)
  | 11 => spec_enc_cat (build_cat l) | 12 => spec_enc_tr (build_tr l)
  | 13 => spec_enc_acc (build_acc l) | 14 => spec_enc_path l
  | 15 => spec_enc_time (num (a 0 l)) (num (a 1 l))
  | _ => []
  end.

(* run-length records: count(4) size(2) *)
Fixpoint script_of (b : bytes) : list nat :=
  match b with
  | c0 :: c1 :: c2 :: c3 :: x :: y :: r => (repeat (N.to_nat (dbe16 x y)) (N.to_nat (dbe32 c0 c1 c2 c3)) ++ script_of r)%list
  | _ => []
  end.

Definition res_out {A} (r : res A) (comps : A -> list bytes) : list bytes :=
  match r with Ok x => [0] :: comps x | Err => [[1]] | Panic => [[2]] end.

Definition decode (tag : N) (raw : bytes) : list bytes :=
  match tag with
  | 1 => res_out (impl_dec_field raw) comps_field
  | 2 => res_out (impl_dec_tran raw) comps_tran
  | 3 => res_out (impl_dec_user raw) comps_user
  | 4 => res_out (impl_dec_fnwi raw) comps_fnwi
  | 6 => res_out (impl_dec_rd raw) comps_rd
  | 7 => res_out (impl_dec_ifork raw) comps_ifork
  | 8 => res_out (impl_dec_ffo raw) (fun p => comps_ffo (fst p) ++ [snd p])
  | 14 => res_out (impl_dec_path raw) (fun p => be16 (fst p) :: snd p)
  | 16 => res_out (impl_dec_int raw) (fun n => [be32 n])
  | 17 => [[if impl_handshake_ok raw then 0 else 1]]
  | 18 => res_out (impl_dec_transfer raw) (fun r => [r])
  | _ => []
  end.

(* what the original object's components are, for the round-trip oracle *)
Definition orig_comps (tag : N) (l : list bytes) : list bytes :=
  match tag with
  | 1 => comps_field (build_field l) | 2 => comps_tran (build_tran l) | 3 => comps_user (build_user l)
  | 4 => comps_fnwi (build_fnwi l) | 6 => comps_rd (build_rd l) | 7 => comps_ifork (build_ifork l)
  | 8 => comps_ffo (build_ffo l) ++ [[]] | 14 => be16 (len l) :: l
  | _ => []
  end.

Definition model1 (o : dop) : list bytes :=
  let '(code, args) := o in
  let tag := num (a 0 args) in
  if code =? 1 then
    let consumer := num (a 1 args) in
    let obj := skipn 3 args in
    let buf := impl_bytes tag obj in
    let sh := shape_of (tag_name tag) reader_shapes in
    let sh := if (tag =? 6) || (tag =? 14) || (tag =? 15) then ShapeA else sh in  (* plain functions, no reader *)
    if consumer =? 0 then
      match drain sh buf 0 (script_of (a 2 args)) with
      | Done b => [[0]; b]
      | Diverges b => [[1]; []]
      end
    else match sh with
         | ShapeA => [[0]; buf]
         | ShapeC => [[0]; firstn 512 buf]
         | ShapeB => if (List.length buf <=? 512)%nat then [[0]; buf] else [[9]; []]
         | ShapeUnknown => [[9]; []]
         end
  else if code =? 4 then decode tag (impl_bytes tag (skipn 1 args))
  else if (code =? 2) || (code =? 5) then decode tag (a 1 args)
  else [].
Definition model (ops : list dop) : list (list bytes) := map model1 ops.

Definition oracle1 (o : dop) (obs : list bytes) : bool :=
  let '(code, args) := o in
  let tag := num (a 0 args) in
  if code =? 1 then
    (* emitted bytes are exactly the protocol layout, and emission terminates, for every drain *)
    list_eqb bytes_match [[0]; spec_bytes tag (skipn 3 args)] obs
  else if code =? 4 then
    (* decoding the emitted bytes yields the original object *)
    list_eqb bytes_match ([0] :: orig_comps tag (skipn 1 args)) obs
  else if code =? 5 then
    (* a record the server built itself (a file-list entry): it is a well-formed record - the reference decoder
       consumes it exactly, i.e. the name-size prefix covers exactly the name bytes that follow *)
    if tag =? 4 then match spec_dec_fnwi (a 1 args) with Some (_, []) => true | _ => false end else true
  else true.
Definition oracle (ops : list dop) (obs : list (list bytes)) : bool :=
  forallb (fun p => oracle1 (fst p) (snd p)) (combine ops obs).
