(* C12 correspondence (harness/c12.go): executable history model (IDs from Srv/Registry, audiences and text
   from Srv/Chat) and a property oracle that tracks membership by CONNECTION (a departed user is a member of
   nothing). *)
From stdpp Require Import gmap.
From Verif Require Import Base.Bytes Corr.Case Srv.Registry Srv.Chat.
Local Open Scope N_scope.

Definition a (n : nat) (l : list (list N)) : list N := nth n l [].
Definition num (b : list N) : N := dbe b.
Definition len16 (b : list N) : list N := be16 (len b) ++ b.
Definition flag (b : list N) : bool := bytes_eqb b [1].

(* long texts travel as length + checksum so that an inbox stays small *)
Definition short (t : list N) : list N :=
  if len t <=? 64 then len16 t else be16 (len t) ++ be32 (digest t / 4294967296) ++ be32 (digest t mod 4294967296).
Definition render (e : chat_ev) : list N :=
  match e with
  | EvLine _ None t => [1; 0] ++ short t
  | EvLine _ (Some c) t => [1; 1] ++ be32 c ++ short t
  | EvJoined _ c w => [2] ++ be32 c ++ be16 w
  | EvLeft _ c w => [3] ++ be32 c ++ be16 w
  | EvSubject _ c s => [4] ++ be32 c ++ len16 s
  | EvInvite _ c w => [5] ++ be32 c ++ be16 w
  | EvRefused _ w => [6] ++ be16 w
  | EvError _ => [7]
  | EvPanic => []
  end.

Record mstate := mk_m { m_reg : reg; m_cs : cstate; m_ids : gmap N N }.
Definition m0 : mstate := mk_m reg0 (mk_cs ∅ [] ∅) ∅.

Definition inboxes (order : list N) (evs : list chat_ev) : list (list N) :=
  map (fun c => be16 c ++ concat (map (fun e => if bool_decide (ev_to e = Some c) then render e else []) evs)) order.
Definition panicked (evs : list chat_ev) : bool := existsb (fun e => match e with EvPanic => true | _ => false end) evs.

Definition step (s : mstate) (o : dop) : mstate * list (list N) :=
  let '(code, args) := o in
  let tok := num (a 0 args) in
  let cs := m_cs s in
  match code with
  | 1 =>
      let '(r', id) := add (m_reg s) tok in
      let cs' := connect cs id (mk_cli (a 1 args) (flag (a 2 args)) (flag (a 3 args)) (flag (a 4 args))) in
      (mk_m r' cs' (<[tok := id]> (m_ids s)), [be16 id] ++ inboxes (cs_order cs') [])
  | 10 =>
      let k := N.to_nat (num (a 0 args)) in
      (mk_m (Nat.iter k (fun r => let '(r', id) := add r 0 in del r' id) (m_reg s)) cs (m_ids s), [])
  | _ =>
      match m_ids s !! tok with
      | None => (s, [])
      | Some id =>
          match code with
          | 2 => (s, inboxes (cs_order cs) (send_public cs id (a 1 args) (flag (a 2 args))))
          | 3 =>
              match m_ids s !! num (a 1 args) with
              | None => (s, [])
              | Some tid =>
                  let chat := num (a 2 args) in
                  let '(cs', evs) := invite_new cs id tid chat in
                  (mk_m (m_reg s) cs' (m_ids s), [be32 chat] ++ inboxes (cs_order cs) evs)
              end
          | 4 => let '(cs', evs) := join cs id (num (a 1 args)) in
                 (mk_m (m_reg s) cs' (m_ids s), inboxes (cs_order cs) evs)
          | 5 => let '(cs', evs) := leave cs id (num (a 1 args)) in
                 (mk_m (m_reg s) cs' (m_ids s), inboxes (cs_order cs) evs)
          | 6 => (s, inboxes (cs_order cs) (decline cs id (num (a 1 args))))
          | 7 => (s, inboxes (cs_order cs) (set_subject cs (num (a 1 args)) (a 2 args)))
          | 8 => (s, inboxes (cs_order cs) (send_private cs id (num (a 1 args)) (a 2 args) (flag (a 3 args))))
          | 9 => let cs' := disconnect cs id in
                 (mk_m (del (m_reg s) id) cs' (delete tok (m_ids s)), inboxes (cs_order cs') [])
          | _ => (s, [])
          end
      end
  end.
Fixpoint run (s : mstate) (ops : list dop) : list (list (list N)) :=
  match ops with [] => [] | o :: r => let '(s', out) := step s o in out :: run s' r end.
Definition model (ops : list dop) : list (list (list N)) := run m0 ops.

(* ---------------------------------------------------------------------------------------------------
   Property oracle: who may receive what, judged with membership tracked per connection token:
   - a public line reaches exactly the connected users that may read chat (when the sender may send);
   - a private line / subject / join / leave / decline notice reaches exactly the connected members;
   - nobody else receives anything of that kind. *)
Record ocli := mk_oc { oc_tok : N; oc_id : N; oc_read : bool; oc_send : bool; oc_name : list N }.
Record ostate := mk_o { o_clients : list ocli; o_chats : list (N * list N) (* chat -> member tokens *) }.
Definition o_find (t : N) (s : ostate) : option ocli :=
  match filter (fun c => oc_tok c =? t) (o_clients s) with c :: _ => Some c | [] => None end.
Definition o_members (chat : N) (s : ostate) : list N :=
  match filter (fun p => fst p =? chat) (o_chats s) with p :: _ => snd p | [] => [] end.
Definition o_set_members (chat : N) (ms : list N) (s : ostate) : ostate :=
  mk_o (o_clients s) ((chat, ms) :: filter (fun p => negb (fst p =? chat)) (o_chats s)).

(* IDs (ascending, as 2-byte strings) of the inboxes that contain at least one event of the given kind *)
Definition got_kind (kind : N) (boxes : list (list N)) : list N :=
  map (fun b => dbe (firstn 2 b)) (filter (fun b => match skipn 2 b with k :: _ => k =? kind | [] => false end) boxes).
Fixpoint ins (x : N) (l : list N) : list N :=
  match l with [] => [x] | y :: r => if x <? y then x :: l else if x =? y then l else y :: ins x r end.
Definition sort_ids (l : list N) : list N := fold_right ins [] l.
Definition ids_of (toks : list N) (s : ostate) : list N :=
  sort_ids (concat (map (fun t => match o_find t s with Some c => [oc_id c] | None => [] end) toks)).
Definition same (x y : list N) : bool := list_eqb N.eqb x y.

Definition ostep (s : ostate) (o : dop) (obs : list (list N)) : ostate * bool :=
  let '(code, args) := o in
  let tok := num (a 0 args) in
  match code with
  | 1 => (mk_o (mk_oc tok (num (a 0 obs)) (flag (a 2 args)) (flag (a 3 args)) (a 1 args) :: o_clients s) (o_chats s), true)
  | 2 =>
      match o_find tok s with
      | Some c =>
          let want := if oc_send c then sort_ids (map oc_id (filter oc_read (o_clients s))) else [] in
          (* every delivered line carries the sender's name and the message in the protocol's format, cut to 8192 *)
          let txt := [1; 0] ++ short (format_chat (oc_name c) (a 1 args) (flag (a 2 args))) in
          (s, same (got_kind 1 obs) want &&
              forallb (fun b => match skipn 2 b with 1 :: _ => bytes_eqb (skipn 2 b) txt | _ => true end) obs)
      | None => (s, true)
      end
  | 3 => (o_set_members (num (a 0 obs)) [tok] s, true)
  | 4 => let chat := num (a 1 args) in
         let ms := o_members chat s in
         (o_set_members chat (tok :: filter (fun t => negb (t =? tok)) ms) s, same (got_kind 2 obs) (ids_of ms s))
  | 5 => let chat := num (a 1 args) in
         let ms := filter (fun t => negb (t =? tok)) (o_members chat s) in
         (o_set_members chat ms s, same (got_kind 3 obs) (ids_of ms s))
  | 6 => (s, same (got_kind 1 obs) (ids_of (o_members (num (a 1 args)) s) s))
  | 7 => (s, same (got_kind 4 obs) (ids_of (o_members (num (a 1 args)) s) s))
  | 8 =>
      match o_find tok s with
      | Some c =>
          let txt := [1; 1] ++ be32 (num (a 1 args)) ++ short (format_chat (oc_name c) (a 2 args) (flag (a 3 args))) in
          (s, same (got_kind 1 obs) (if oc_send c then ids_of (o_members (num (a 1 args)) s) s else []) &&
              forallb (fun b => match skipn 2 b with 1 :: _ => bytes_eqb (skipn 2 b) txt | _ => true end) obs)
      | None => (s, true)
      end
  | 9 => (mk_o (filter (fun c => negb (oc_tok c =? tok)) (o_clients s))
               (map (fun p => (fst p, filter (fun t => negb (t =? tok)) (snd p))) (o_chats s)), true)
  | _ => (s, true)
  end.
Fixpoint orun (s : ostate) (ops : list dop) (obs : list (list (list N))) : bool :=
  match ops, obs with
  | o :: r, ob :: rb => let '(s', ok) := ostep s o ob in ok && orun s' r rb
  | _, _ => true
  end.
Definition oracle (ops : list dop) (obs : list (list (list N))) : bool := orun (mk_o [] []) ops obs.
