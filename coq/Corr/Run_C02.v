(* C02 correspondence (harness/c02.go) *)
From Verif Require Import Base.Bytes Corr.Case Lib.Scanner Wire.Parse Wire.Types Wire.Impl Net.Session.

Definition a (n : nat) (l : list bytes) : bytes := nth n l [].

(* requests of the generated sessions that are answered with a reply: 300 GetUserNameList, 500 KeepAlive *)
Definition answered (ty : N) : bool := (ty =? 300) || (ty =? 500).

(* replies of the transaction loop, as coded: stop at the first token Transaction.Write rejects *)
Fixpoint loop_replies (toks : list bytes) : bytes :=
  match toks with
  | [] => []
  | tok :: r =>
      match impl_dec_tran tok with
      | Ok t => (if answered (t_type t) then be32 (t_id t) else []) ++ loop_replies r
      | _ => []
      end
  end.

Definition control_model (bs : bytes) : list bytes :=
  let v := control_bytes bs in
  match cv_handshake v with
  | None => [[0]]
  | Some hs =>
      if impl_handshake_ok hs then
        match cv_tokens v with
        | [] => [[1]; [0]; []]
        | login :: rest =>
            match impl_dec_tran login with
            | Ok t => [[1]; [1]; be32 (t_id t) ++ loop_replies rest]
            | _ => [[1]; [0]; []]
            end
        end
      else [[0]]
  end.

(* raw scanner: the tokens a loop that stops at the first token shorter than 22 bytes gets *)
Definition scanner_model (bs : bytes) : list bytes := frames bs.

Definition upload_model (bs : bytes) : list bytes :=
  match upload_bytes bs with
  | None => [[0]; []; []]
  | Some v => if upload_done_bytes bs then [[1]; uv_written v; []] else [[0]; []; uv_written v]
  end.

(* op 5 = the client side of a folder upload into a fresh target: args stream, chunk script, item count, then for each
   item what must be found on disk (len16 path ++ [is-folder] ++ data); obs [complete?; the same, read back] *)
Definition len16 (b : bytes) : bytes := be16 (len b) ++ b.
Definition render_fitem (i : fitem) : bytes := len16 (fi_path i) ++ [if fi_isdir i then 1 else 0] ++ fi_data i.
Definition folder_model (bs cnt : bytes) : list bytes :=
  match folder_upload_bytes (N.to_nat (dbe cnt)) bs with
  | Some items => [1] :: map render_fitem items
  | None => [[0]]
  end.

Definition model1 (o : dop) : list bytes :=
  let '(code, args) := o in
  if (code =? 1) || (code =? 2) then control_model (a 0 args)
  else if code =? 3 then scanner_model (a 0 args)
  else if code =? 4 then upload_model (a 0 args ++ a 2 args ++ a 3 args)
  else if code =? 5 then folder_model (a 0 args) (a 2 args)
  else if code =? 6 then
    (* op 6 = the client's side of a folder download under a segmentation: args client bytes, chunk script, what the
       server sent when the same bytes arrived in one piece; obs what it sent now.  No byte-level model of the
       folder download is used here: the comparison is with the one-piece delivery (the segmentation does not enter) *)
    [a 2 args]
  else [].
Definition model (ops : list dop) : list (list bytes) := map model1 ops.

(* oracle: what a well-formed session must produce, computed from the byte string alone with the REFERENCE
   transaction decoder; the chunk script (argument 1) does not enter *)
Fixpoint spec_replies (toks : list bytes) : bytes :=
  match toks with
  | [] => []
  | tok :: r =>
      match spec_dec_tran tok with
      | Some (t, []) => (if answered (t_type t) then be32 (t_id t) else []) ++ spec_replies r
      | _ => []
      end
  end.
Definition oracle1 (o : dop) (obs : list bytes) : bool :=
  let '(code, args) := o in
  if code =? 1 then
    let bs := a 0 args in
    match frames (skipn 12 bs) with
    | login :: rest =>
        match spec_dec_tran login with
        | Some (t, []) => list_eqb bytes_match [[1]; [1]; be32 (t_id t) ++ spec_replies rest] obs
        | _ => true
        end
    | [] => true
    end
  else if code =? 4 then
    (* argument 2 is the data the client sent; a complete stream must publish exactly it *)
    list_eqb bytes_match [[1]; a 2 args; []] obs
  else if code =? 5 then
    (* arguments 3.. are what the client sent, item by item; a complete stream must leave exactly that on disk *)
    list_eqb bytes_match ([1] :: skipn 3 args) obs
  else if code =? 6 then list_eqb bytes_match [a 2 args] obs
  else true.
Definition oracle (ops : list dop) (obs : list (list bytes)) : bool :=
  forallb (fun p => oracle1 (fst p) (snd p)) (combine ops obs).
