(* C06 correspondence: model of the implementation vs the harness observations (harness/c06.go),
   and the property oracle evaluated directly on the observations. *)
From Verif Require Import Base.Bytes Corr.Case Auth.Access.

Definition flag (b : bytes) : bool := match b with [1] => true | _ => false end.

Definition model1 (o : dop) : list bytes :=
  let '(code, a) := o in
  if (code =? 1) || (code =? 2) then
    let '(st, stored) := create_account (code =? 2) (arg 0 a) (arg 1 a) (flag (arg 2 a)) in
    let s := match stored with Some b => b | None => [] end in
    [[status_code st]; s; mask_defined s]
  else if code =? 3 then
    let r := disconnect_user (arg 0 a) (arg 1 a) (arg 2 a) (flag (arg 3 a)) in
    [[status_code (d_status r)]; [ban_code (d_ban r)]; [ban_code (d_ban r)]; [if d_closed r then 1 else 0]]
  else if code =? 4 then
    (* the same request while two more users are connected - one from the target's address, one from elsewhere (args
       4 and 5: their bitmaps): a disconnect request closes its target and nobody else; obs adds [closed?] for both *)
    let r := disconnect_user (arg 0 a) (arg 1 a) (arg 2 a) (flag (arg 3 a)) in
    [[status_code (d_status r)]; [ban_code (d_ban r)]; [ban_code (d_ban r)]; [if d_closed r then 1 else 0]; [0]; [0]]
  else [].
Definition model (ops : list dop) : list (list bytes) := map model1 ops.

(* property oracle: judged on the observation only *)
Definition oracle1 (o : dop) (obs : list bytes) : bool :=
  let '(code, a) := o in
  if (code =? 1) || (code =? 2) then
    let creator := arg 0 a in
    let mem := arg 1 obs in let disk := arg 2 obs in
    let within (b : bytes) :=
      match b with [] => true
      | _ => forallb (fun i => implb (IsSet b i) (IsSet creator i)) (seq 0 64) end in
    within mem && within disk
  else if code =? 3 then
    let target := arg 1 a in
    if IsSet target ACCESS_CANNOT_BE_DISCON
    then bytes_eqb (arg 1 obs) [0] && bytes_eqb (arg 2 obs) [0] && bytes_eqb (arg 3 obs) [0]
    else true
  else if code =? 4 then
    (* a protected user is not disconnected by a request aimed at somebody else either, also when it shares the
       target's address *)
    (if IsSet (arg 1 a) ACCESS_CANNOT_BE_DISCON
     then bytes_eqb (arg 1 obs) [0] && bytes_eqb (arg 2 obs) [0] && bytes_eqb (arg 3 obs) [0] else true) &&
    (if IsSet (arg 4 a) ACCESS_CANNOT_BE_DISCON then bytes_eqb (arg 4 obs) [0] else true) &&
    (if IsSet (arg 5 a) ACCESS_CANNOT_BE_DISCON then bytes_eqb (arg 5 obs) [0] else true)
  else true.
Definition oracle (ops : list dop) (obs : list (list bytes)) : bool :=
  forallb (fun p => oracle1 (fst p) (snd p)) (combine ops obs).
