(* C17 correspondence (harness/c17.go): histories of connections, disconnect/ban requests, direct ban additions,
   departures and restarts on a real server; instants are the harness's clock readings.
   op 1 connect   args tok, ip, protected?, now        obs [status 4 let in | 3 refused permanently | 5 refused temporarily;
                                                            every byte the refused peer received (notice ID zeroed)]
   op 2 kick      args target tok, options, now        obs [reply 0 ok | 1 error; target closed?; toks told (ascending);
                                                            notice shown to the target 0|1|2; ban entry as requested?]
   op 3 leave     args tok                             obs []
   op 4 restart                                        obs []
   op 5 add       args ip, kind (0 permanent | 1 until), until   obs [] *)
From stdpp Require Import gmap.
From Verif Require Import Base.Bytes Corr.Case Auth.Door Srv.Ban.
Local Open Scope N_scope.

Definition a (n : nat) (l : list (list N)) : list N := nth n l [].
Definition flag (b : list N) : bool := bytes_eqb b [1].
Definition opt_of (b : list N) : option N := match b with [] => None | [_] => None | _ :: x :: _ => Some x end.

Definition ev_of (o : dop) : option ev :=
  let '(code, args) := o in
  match code with
  | 1 => Some (EConnect (dbe (a 0 args)) (a 1 args) (flag (a 2 args)) (dbe (a 3 args)))
  | 2 => Some (EKick (dbe (a 0 args)) (opt_of (a 1 args)) (dbe (a 2 args)))
  | 3 => Some (ELeave (dbe (a 0 args)))
  | 4 => Some ERestart
  | 5 => Some (EAdd (a 0 args) (if flag (a 1 args) then Some (dbe (a 2 args)) else None))
  | _ => None
  end.
Definition render (e : ev) (o : out) : list (list N) :=
  match o with
  | OLetIn => [[4]; []]
  | ORefused p => [[if p then 3 else 5]; HS_REPLY ++ ban_notice p]
  | OKicked told =>
      let notice := match e with EKick _ (Some 1) _ => 1 | EKick _ (Some 2) _ => 2 | _ => 0 end in
      [[0]; [1]; concat (map be16 told); [notice]; [1]]
  | OKickDenied => [[1]; [0]; []; [0]; [1]]
  | ONoTarget => [[9]]
  | ONone => []
  end.
Fixpoint mrun (w : world) (ops : list dop) : list (list (list N)) :=
  match ops with
  | [] => []
  | o :: r => match ev_of o with
              | Some e => let '(w', out) := step w e in render e out :: mrun w' r
              | None => [] :: mrun w r
              end
  end.
Definition model (ops : list dop) : list (list (list N)) := mrun world0 ops.

(* ---- property oracle: written over plain association lists, independent of Srv/Ban.v ---- *)
Record ost := mk_ost { o_live : list (N * (list N * bool)); o_ban : list (list N * option N) }.
Definition o_lookup (ip : list N) (l : list (list N * option N)) : option (option N) :=
  match List.filter (fun p => bytes_eqb (fst p) ip) l with p :: _ => Some (snd p) | [] => None end.
Definition o_find (t : N) (l : list (N * (list N * bool))) : option (list N * bool) :=
  match List.filter (fun p => fst p =? t) l with p :: _ => Some (snd p) | [] => None end.
Definition THIRTY_MIN : N := 30 * 60 * 1000000000.
Definition ostep (s : ost) (o : dop) (ob : list (list N)) : ost * bool :=
  let '(code, args) := o in
  match code with
  | 1 =>
      let ip := a 1 args in let now := dbe (a 3 args) in
      let expect := match o_lookup ip (o_ban s) with
                    | None => 4
                    | Some None => 3
                    | Some (Some u) => if now <? u then 5 else 4
                    end in
      let ok := (dbe (a 0 ob) =? expect) &&
                (* a refused peer gets the handshake reply and one server message, nothing else *)
                (if expect =? 4 then true else
                   bytes_eqb (firstn 8 (a 1 ob)) HS_REPLY && bytes_eqb (firstn 4 (skipn 8 (a 1 ob))) [0; 0; 0; 104]) in
      (if expect =? 4 then mk_ost (o_live s ++ [(dbe (a 0 args), (ip, flag (a 2 args)))]) (o_ban s) else s, ok)
  | 2 =>
      let t := dbe (a 0 args) in let now := dbe (a 2 args) in
      match o_find t (o_live s) with
      | None => (s, true)
      | Some (ip, prot) =>
          if prot then (s, bytes_eqb (a 0 ob) [1] && bytes_eqb (a 1 ob) [0] && bytes_eqb (a 4 ob) [1]) else
          let live' := List.filter (fun p => negb (fst p =? t)) (o_live s) in
          let ban' := match opt_of (a 1 args) with
                      | Some 1 => (ip, Some (now + THIRTY_MIN)) :: o_ban s
                      | Some 2 => (ip, None) :: o_ban s
                      | _ => o_ban s
                      end in
          (mk_ost live' ban',
           bytes_eqb (a 0 ob) [0] && bytes_eqb (a 1 ob) [1] &&
           bytes_eqb (a 2 ob) (concat (map (fun p => be16 (fst p)) live')) && bytes_eqb (a 4 ob) [1])
      end
  | 3 => (mk_ost (List.filter (fun p => negb (fst p =? dbe (a 0 args))) (o_live s)) (o_ban s), true)
  | 5 => (mk_ost (o_live s) ((a 0 args, if flag (a 1 args) then Some (dbe (a 2 args)) else None) :: o_ban s), true)
  | _ => (s, true)
  end.
Fixpoint orun (s : ost) (ops : list dop) (obs : list (list (list N))) : bool :=
  match ops, obs with
  | o :: r, ob :: rb => let '(s', ok) := ostep s o ob in ok && orun s' r rb
  | _, _ => true
  end.
Definition oracle (ops : list dop) (obs : list (list (list N))) : bool := orun (mk_ost [] []) ops obs.
