(* C07 correspondence (harness/c07.go) *)
From Verif Require Import Base.Bytes Base.MacRoman Corr.Case Wire.Impl Lib.Path.
Local Open Scope N_scope.
Definition a (n : nat) (l : list (list N)) : list N := nth n l [].
Definition flag (b : list N) : bool := bytes_eqb b [1].

(* components of an absolute clean root "/x/y" *)
Definition root_comps (r : list N) : list name := tl (split_slash r).

Definition len16 (b : list N) : list N := be16 (len b) ++ b.

Definition model1 (o : dop) : list (list N) :=
  let '(code, args) := o in
  match code with
  | 1 =>   (* ReadPath(root, filePath, fileName) *)
      let rootc := root_comps (a 0 args) in
      if flag (a 1 args) then
        match impl_dec_path (a 2 args) with
        | Ok (_, items) => [[0]; read_path rootc items (a 3 args)]
        | Err => [[1]; []]
        | Panic => [[2]; []]
        end
      else [[0]; read_path rootc [] (a 3 args)]
  | 2 =>   (* folderUpload.FormattedPath *)
      match fu_segments (N.to_nat (dbe (a 0 args))) (a 1 args) with
      | Ok segs => [[0]; formatted_path segs]
      | _ => [[2]; []]
      end
  | 3 => [[]; [0]]     (* effect cases: nothing outside the allowed tree changes, nothing outside is disclosed *)
  | 4 => [concat (map (fun b => len16 (macroman_byte b)) (map N.of_nat (seq 0 256)))]
  | 5 =>   (* filepath.Join("/", elems...) *)
      let cs := clean_rooted (concat (map split_slash args)) in
      [match cs with [] => [SLASH] | _ => render cs end]
  | _ => []
  end.
Definition model (ops : list dop) : list (list (list N)) := map model1 ops.

(* oracle: a path handed to the file system must be the root followed by '/'-separated components none of which
   is "", "." or ".."; effects outside the allowed tree must be empty *)
Fixpoint has_prefix (p s : list N) : bool :=
  match p, s with
  | [], _ => true
  | x :: p', y :: s' => (x =? y) && has_prefix p' s'
  | _, [] => false
  end.
Definition comps_ok (rest : list N) : bool :=
  match rest with
  | [] => true
  | c :: _ => (c =? SLASH) &&
              forallb (fun k => negb (is_empty k || is_dot k || is_dotdot k)) (tl (split_slash rest))
  end.
Definition oracle1 (o : dop) (obs : list (list N)) : bool :=
  let '(code, args) := o in
  match code with
  | 1 => if bytes_eqb (a 0 obs) [0]
         then has_prefix (a 0 args) (a 1 obs) && comps_ok (skipn (List.length (a 0 args)) (a 1 obs))
         else true
  | 2 => if bytes_eqb (a 0 obs) [0]
         then forallb (fun k => negb (is_dot k || is_dotdot k)) (split_slash (a 1 obs)) &&
              negb (has_prefix [SLASH] (a 1 obs))
         else true
  | 3 => bytes_eqb (a 0 obs) [] && bytes_eqb (a 1 obs) [0]
  | _ => true
  end.
Definition oracle (ops : list dop) (obs : list (list (list N))) : bool :=
  forallb (fun p => oracle1 (fst p) (snd p)) (combine ops obs).
