(* C13 correspondence (harness/c13.go): the executable history model built from the registry (Srv/Registry.v)
   and the abstract presence operations (Srv/Presence.v), and the property oracle that folds the observed
   notifications into rosters. *)
From stdpp Require Import gmap.
From Verif Require Import Base.Bytes Corr.Case Srv.Registry Srv.Presence.
Local Open Scope N_scope.

Definition a (n : nat) (l : list (list N)) : list N := nth n l [].
Definition num (b : list N) : N := dbe b.
Definition len16 (b : list N) : list N := be16 (len b) ++ b.

(* ---- canonical rendering shared with the harness ---- *)
Definition render_info (i : info) : list N := len16 (i_name i) ++ len16 (i_icon i) ++ be16 (i_flags i).
Definition render_change (b : N) (i : info) : list N := [1] ++ be16 b ++ render_info i.
Definition render_delete (b : N) : list N := [2] ++ be16 b.
Definition render_msg (kind from_ : N) (text name opts : list N) : list N :=
  [kind] ++ be16 from_ ++ len16 text ++ len16 name ++ opts.
Definition render_listed (b : N) (i : info) : list N :=
  be16 b ++ len16 (i_icon i) ++ be16 (i_flags i) ++ len16 (i_name i).

Record mstate := mk_m {
  m_reg : reg;                 (* ID allocation *)
  m_pres : registry;           (* ID -> entry *)
  m_ids : gmap N N;            (* connection token -> ID *)
  m_order : list N;            (* connected IDs, ascending *)
  m_conn : gmap N (N * bool);  (* ID -> account of the connection (0 "usr", 1 "adm") and whether the connection's OWN
                                  copy of the account holds disconnect-users (what Authorize looks at) *)
  m_mgr : bool * bool          (* does the stored account hold disconnect-users: ("usr", "adm") *)
}.
Definition m0 : mstate := mk_m reg0 ∅ ∅ [] ∅ (false, true).

Fixpoint insert_sorted (x : N) (l : list N) : list N :=
  match l with
  | [] => [x]
  | y :: r => if x <? y then x :: l else if x =? y then l else y :: insert_sorted x r
  end.
Definition remove_id (x : N) (l : list N) : list N := filter (fun y => negb (y =? x)) l.

(* inboxes: for every connected ID in order, be16 id ++ what it received *)
Definition inboxes (order : list N) (f : N -> list N) : list (list N) :=
  map (fun c => be16 c ++ f c) order.

Definition which_of (admin : list N) : N := if bytes_eqb admin [1] then 1 else 0.
Definition mgr_disc (m : bool * bool) (which : N) : bool := if which =? 1 then snd m else fst m.
Definition admin_flags (m : bool * bool) (admin : list N) : N := if mgr_disc m (which_of admin) then 2 else 0.
Definition REFUSED_SUFFIX : list N :=   (* " does not accept private messages." *)
  [32;100;111;101;115;32;110;111;116;32;97;99;99;101;112;116;32;112;114;105;118;97;116;101;32;109;101;115;115;97;103;101;115;46].

Definition step (s : mstate) (o : dop) : mstate * list (list N) :=
  let '(code, args) := o in
  let tok := num (a 0 args) in
  match code with
  | 1 | 2 =>   (* login with a name (1.2.3 flow) / without (1.5 flow) *)
      let '(r', id) := add (m_reg s) tok in
      let named := code =? 1 in
      let adm := if named then a 3 args else a 2 args in
      let i := if named then mk_info (a 1 args) (a 2 args) (admin_flags (m_mgr s) adm)
               else mk_info [] (match a 1 args with [] => [0; 0] | ic => ic end) (admin_flags (m_mgr s) adm) in
      let p := if named then LoginNamed id i else LoginLimbo id i in
      let order' := insert_sorted id (m_order s) in
      (mk_m r' (srv (m_pres s) p) (<[tok := id]> (m_ids s)) order'
            (<[id := (which_of adm, mgr_disc (m_mgr s) (which_of adm))]> (m_conn s)) (m_mgr s),
       [be16 id] ++ inboxes order' (fun c => if (c =? id) || negb named then [] else render_change id i))
  | 3 | 4 =>   (* Agreed / SetClientUserInfo *)
      match m_ids s !! tok with
      | None => (s, [])
      | Some id =>
          match m_pres s !! id with
          | None => (s, [])
          | Some e =>
              let agreed := code =? 3 in
              let icon := a 2 args in
              let icon := if agreed then icon else (if (List.length icon =? 4)%nat then skipn 2 icon else icon) in
              let opts_present := if agreed then true else negb (bytes_eqb (a 3 args) []) in
              let opts := num (a 3 args) in
              let fl := if opts_present then flags_with_options (i_flags (e_info e)) opts else i_flags (e_info e) in
              let auto := if opts_present
                          then (if N.testbit opts 2 then Some (a 4 args) else if agreed then None else Some [])
                          else None in
              let i := mk_info (a 1 args) icon fl in
              (mk_m (m_reg s) (srv (m_pres s) (Announce id i auto)) (m_ids s) (m_order s) (m_conn s) (m_mgr s),
               inboxes (m_order s) (fun c => if (c =? id) && agreed then [] else render_change id i))
          end
      end
  | 5 =>       (* the client closes its connection *)
      match m_ids s !! tok with
      | None => (s, [])
      | Some id =>
          let order' := remove_id id (m_order s) in
          (mk_m (del (m_reg s) id) (srv (m_pres s) (Leave id)) (delete tok (m_ids s)) order' (delete id (m_conn s)) (m_mgr s),
           inboxes order' (fun _ => render_delete id))
      end
  | 6 =>       (* fetch the user list *)
      (s, [concat (map (fun c => match m_pres s !! c with
                                 | Some e => render_listed c (e_info e)
                                 | None => [] end) (m_order s))])
  | 7 =>       (* private message from tok to the ID in argument 1 *)
      match m_ids s !! tok with
      | None => (s, [])
      | Some sid =>
          let target := num (a 1 args) in
          let sname := match m_pres s !! sid with Some e => i_name (e_info e) | None => [] end in
          let tname := match m_pres s !! target with Some e => i_name (e_info e) | None => [] end in
          let outs := send_pm (m_pres s) sid target in
          let render (c : N) (o : pm_out) : list N :=
            if pm_recipient o =? c then
              match o with
              | PmDeliver _ f => render_msg 3 f (a 2 args) sname [0; 1]
              | PmRefused _ ab => render_msg 4 ab (tname ++ REFUSED_SUFFIX) tname [0; 2]
              | PmAuto _ f txt => render_msg 5 f txt tname [0; 1]
              | PmReply _ => [6]
              end
            else [] in
          (s, inboxes (m_order s) (fun c => concat (map (render c) outs)))
      end
  | 8 =>       (* k connect/disconnect cycles at the registry level *)
      let k := N.to_nat (num (a 0 args)) in
      let r := Nat.iter k (fun r => let '(r', id) := add r 0 in del r' id) (m_reg s) in
      (mk_m r (m_pres s) (m_ids s) (m_order s) (m_conn s) (m_mgr s), [])
  | 9 =>       (* privilege change (HandleSetUser by a logged-in administrator): args token, account, new disconnect-users bit.
                  Every connection logged in to the account gets the admin flag its OWN copy of the account justified
                  BEFORE the update (the handler tests Authorize first and copies the new bitmap afterwards), and that
                  change is announced to everybody, the changed user and the requester included *)
      match m_ids s !! tok with
      | None => (s, [])
      | Some _ =>
          let which := num (a 1 args) in
          let nd := num (a 2 args) =? 1 in
          let affected := filter (fun c => match m_conn s !! c with Some (w, _) => w =? which | None => false end) (m_order s) in
          let upd (c : N) : option info :=
            match m_pres s !! c, m_conn s !! c with
            | Some e, Some (_, od) =>
                Some (mk_info (i_name (e_info e)) (i_icon (e_info e)) (set_flag (i_flags (e_info e)) FLAG_ADMIN od))
            | _, _ => None
            end in
          let pres' := fold_left (fun r c => match upd c with Some i => srv r (Announce c i None) | None => r end)
                                 affected (m_pres s) in
          let conn' := fold_left (fun m c => <[c := (which, nd)]> m) affected (m_conn s) in
          let mgr' := if which =? 1 then (fst (m_mgr s), nd) else (nd, snd (m_mgr s)) in
          (mk_m (m_reg s) pres' (m_ids s) (m_order s) conn' mgr',
           inboxes (m_order s) (fun _ => concat (map (fun c => match upd c with Some i => render_change c i | None => [] end) affected)))
      end
  | _ => (s, [])
  end.

Fixpoint run (s : mstate) (ops : list dop) : list (list (list N)) :=
  match ops with
  | [] => []
  | o :: r => let '(s', out) := step s o in out :: run s' r
  end.
Definition model (ops : list dop) : list (list (list N)) := run m0 ops.

(* ---------------------------------------------------------------------------------------------
   Property oracle, judged on the observations: (i) a new connection never gets an ID held by a connected
   user; (ii) a client that fetched the list and then applies the change/delete notifications it received
   holds exactly the freshly fetched list whenever nobody is between login and first announcement;
   (iii) private-message frames reach only the holder of the addressed ID (deliver) or the sender. *)

(* parse one client's inbox (after the 2-byte client id) into notifications; PM frames are returned as kinds *)
Fixpoint parse_inbox (fuel : nat) (b : list N) (ro : list (N * list N)) (kinds : list N)
  : list (N * list N) * list N :=
  match fuel with
  | O => (ro, kinds)
  | S f =>
      match b with
      | 1 :: i0 :: i1 :: r =>
          let id := dbe16 i0 i1 in
          let nl := N.to_nat (dbe (firstn 2 r)) in
          let r1 := skipn (2 + nl) r in
          let il := N.to_nat (dbe (firstn 2 r1)) in
          let r2 := skipn (2 + il + 2) r1 in
          let entry := firstn (2 + nl) r ++ firstn (2 + il + 2) r1 in
          parse_inbox f r2 ((id, entry) :: filter (fun p => negb (fst p =? id)) ro) kinds
      | 2 :: i0 :: i1 :: r =>
          parse_inbox f r (filter (fun p => negb (fst p =? dbe16 i0 i1)) ro) kinds
      | 6 :: r => parse_inbox f r ro (kinds ++ [6])
      | k :: i0 :: i1 :: r =>
          let tl := N.to_nat (dbe (firstn 2 r)) in
          let r1 := skipn (2 + tl) r in
          let nl := N.to_nat (dbe (firstn 2 r1)) in
          parse_inbox f (skipn (2 + nl + 2) r1) ro (kinds ++ [k])
      | _ => (ro, kinds)
      end
  end.

(* the fetched list as (id, name/icon/flags rendering in the notification layout) *)
Fixpoint parse_listed (fuel : nat) (b : list N) : list (N * list N) :=
  match fuel with
  | O => []
  | S f =>
      match b with
      | i0 :: i1 :: r =>
          let il := N.to_nat (dbe (firstn 2 r)) in
          let icon := firstn (2 + il) r in
          let r1 := skipn (2 + il) r in
          let flags := firstn 2 r1 in
          let r2 := skipn 2 r1 in
          let nl := N.to_nat (dbe (firstn 2 r2)) in
          let name := firstn (2 + nl) r2 in
          (dbe16 i0 i1, name ++ icon ++ flags) :: parse_listed f (skipn (2 + nl) r2)
      | _ => []
      end
  end.

Fixpoint sort_ro (l : list (N * list N)) : list (N * list N) :=
  match l with
  | [] => []
  | x :: r => (fix ins (y : N * list N) (s : list (N * list N)) :=
                 match s with
                 | [] => [y]
                 | z :: t => if fst y <? fst z then y :: s else z :: ins y t
                 end) x (sort_ro r)
  end.
Definition ro_eqb (x y : list (N * list N)) : bool :=
  list_eqb (fun p q => (fst p =? fst q) && bytes_eqb (snd p) (snd q)) (sort_ro x) (sort_ro y).

Record ostate := mk_o {
  o_ids : list (N * N);                       (* token -> id of connected clients *)
  o_limbo : list N;                           (* ids between login and first announcement *)
  o_rosters : list (N * list (N * list N))    (* id -> roster folded so far (present once it fetched) *)
}.
Definition lookup_tok (t : N) (l : list (N * N)) : option N :=
  match filter (fun p => fst p =? t) l with p :: _ => Some (snd p) | [] => None end.

Definition fold_inboxes (rs : list (N * list (N * list N))) (boxes : list (list N)) : list (N * list (N * list N)) :=
  map (fun p => match filter (fun b => bytes_eqb (firstn 2 b) (be16 (fst p))) boxes with
                | b :: _ => (fst p, fst (parse_inbox (List.length b) (skipn 2 b) (snd p) []))
                | [] => p
                end) rs.

Definition ostep (s : ostate) (o : dop) (obs : list (list N)) : ostate * bool :=
  let '(code, args) := o in
  let tok := num (a 0 args) in
  match code with
  | 1 | 2 =>
      let id := num (a 0 obs) in
      let fresh := negb (existsb (fun p => snd p =? id) (o_ids s)) in
      let rs := fold_inboxes (o_rosters s) (skipn 1 obs) in
      (mk_o ((tok, id) :: o_ids s) (if code =? 2 then id :: o_limbo s else o_limbo s) rs, fresh)
  | 3 | 4 =>
      match lookup_tok tok (o_ids s) with
      | Some id => (mk_o (o_ids s) (filter (fun x => negb (x =? id)) (o_limbo s)) (fold_inboxes (o_rosters s) obs), true)
      | None => (s, true)
      end
  | 9 => (mk_o (o_ids s) (o_limbo s) (fold_inboxes (o_rosters s) obs), true)
  | 5 =>
      match lookup_tok tok (o_ids s) with
      | Some id => (mk_o (filter (fun p => negb (fst p =? tok)) (o_ids s))
                         (filter (fun x => negb (x =? id)) (o_limbo s))
                         (fold_inboxes (filter (fun p => negb (fst p =? id)) (o_rosters s)) obs), true)
      | None => (s, true)
      end
  | 6 =>
      match lookup_tok tok (o_ids s) with
      | Some id =>
          let fetched := parse_listed (List.length (a 0 obs)) (a 0 obs) in
          let ok := match filter (fun p => fst p =? id) (o_rosters s), o_limbo s with
                    | p :: _, [] =>       (* settled: the folded roster is the list (the observer's own entry
                                             is excluded: Agreed is not echoed to its sender) *)
                        let others := filter (fun q : N * list N => negb (fst q =? id)) in
                        ro_eqb (others (snd p)) (others fetched)
                    | _, _ => true
                    end in
          (mk_o (o_ids s) (o_limbo s) ((id, fetched) :: filter (fun p => negb (fst p =? id)) (o_rosters s)), ok)
      | None => (s, true)
      end
  | 7 =>
      match lookup_tok tok (o_ids s) with
      | Some sid =>
          let target := num (a 1 args) in
          (* kind 3 (delivery) only in the inbox of the addressed ID; kinds 4,5,6 only in the sender's *)
          let ok := forallb (fun b =>
                      let c := dbe (firstn 2 b) in
                      let kinds := snd (parse_inbox (List.length b) (skipn 2 b) [] []) in
                      forallb (fun k => if k =? 3 then c =? target else if (k =? 4) || (k =? 5) || (k =? 6) then c =? sid else true) kinds) obs in
          (s, ok)
      | None => (s, true)
      end
  | _ => (s, true)
  end.

Fixpoint orun (s : ostate) (ops : list dop) (obs : list (list (list N))) : bool :=
  match ops, obs with
  | o :: r, ob :: rb => let '(s', ok) := ostep s o ob in ok && orun s' r rb
  | _, _ => true
  end.
(* (iv) a private message honours the recipient's refuse flag and automatic reply: at every private-message step
   the frames each client receives -- kind (3 delivery, 4 refusal, 5 automatic reply, 6 plain reply), sender, and
   the text for kinds 3 and 5 -- are those the reference model (Srv/Presence.send_pm over the options last announced
   by the recipient; Props/C13: C13_pm_respects_refuse_flag, C13_pm_delivered_with_auto_reply) prescribes. *)
Fixpoint pm_frames (fuel : nat) (b : list N) : list (N * list N) :=
  match fuel with
  | O => []
  | S f =>
      match b with
      | 1 :: _ :: _ :: r =>
          let nl := N.to_nat (dbe (firstn 2 r)) in
          let r1 := skipn (2 + nl) r in
          let il := N.to_nat (dbe (firstn 2 r1)) in
          pm_frames f (skipn (2 + il + 2) r1)
      | 2 :: _ :: _ :: r => pm_frames f r
      | 6 :: r => (6, []) :: pm_frames f r
      | k :: i0 :: i1 :: r =>
          let tl := N.to_nat (dbe (firstn 2 r)) in
          let r1 := skipn (2 + tl) r in
          let nl := N.to_nat (dbe (firstn 2 r1)) in
          (k, [i0; i1] ++ (if (k =? 3) || (k =? 5) then firstn tl (skipn 2 r) else []))
            :: pm_frames f (skipn (2 + nl + 2) r1)
      | _ => []
      end
  end.
Definition pm_view (boxes : list (list N)) : list (list N * list (N * list N)) :=
  filter (fun p => negb (match snd p with [] => true | _ => false end))
         (map (fun b => (firstn 2 b, pm_frames (List.length b) (skipn 2 b))) boxes).
Definition pm_view_eqb (x y : list (list N * list (N * list N))) : bool :=
  list_eqb (fun p q => bytes_eqb (fst p) (fst q) &&
                       list_eqb (fun u v => (fst u =? fst v) && bytes_eqb (snd u) (snd v)) (snd p) (snd q)) x y.
Fixpoint pm_effect_ok (ops : list dop) (ms obs : list (list (list N))) : bool :=
  match ops, ms, obs with
  | (code, _) :: r, m :: rm, ob :: rb =>
      (if code =? 7 then pm_view_eqb (pm_view m) (pm_view ob) else true) && pm_effect_ok r rm rb
  | _, _, _ => true
  end.

Definition oracle (ops : list dop) (obs : list (list (list N))) : bool :=
  orun (mk_o [] [] []) ops obs && pm_effect_ok ops (model ops) obs.
