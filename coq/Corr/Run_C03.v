(* C03 correspondence (harness/c03.go): a child process runs the REAL accept loops (Serve, ServeFileTransfers) on
   loopback listeners with a logged-in sentinel; batches of concurrent hostile connections from distinct source
   addresses (pre-login garbage, truncated / corrupted handshakes and logins, post-login transactions with random
   types, fields and corrupted lengths, transfer-port garbage, claimed transfers broken off, uploads declaring up
   to 1 MiB).  Afterwards:
   obs [exit status of the server process; sentinel answered every probe; registry size; connected counter;
        downloads in progress; uploads in progress; a probe took longer than 5 s?]
   The model's prediction is the containment statement itself. *)
From Coq Require Import List NArith.
From Verif Require Import Base.Bytes Corr.Case.
Import ListNotations.
Local Open Scope N_scope.

Definition model1 (o : dop) : list (list N) :=
  [[0; 0]; [1]; [0; 1]; [0; 1]; [0; 0]; [0; 0]; [0]].
Definition model (ops : list dop) : list (list (list N)) := map model1 ops.
Definition oracle (ops : list dop) (obs : list (list (list N))) : bool := obs_eqb (model ops) obs.
