(* C16 correspondence (harness/c16.go) *)
From Verif Require Import Base.Bytes Corr.Case Auth.Access Auth.AccessYaml Auth.PrivSpec Gen.AccessTables.
From Coq Require Import String Ascii.

Fixpoint bytes_of_string (s : string) : bytes :=
  match s with EmptyString => [] | String a r => N_of_ascii a :: bytes_of_string r end.
Fixpoint join_keys (l : list string) : bytes :=
  match l with
  | [] => []
  | [k] => bytes_of_string k
  | k :: r => (bytes_of_string k ++ [44] ++ join_keys r)%list
  end.

Definition model1 (o : dop) : list bytes :=
  let '(code, a) := o in
  let b := arg 0 a in
  if (code =? 1) || (code =? 2) then
    let d := save_named save_fields save_tags b in
    let l := load_named load_table d in
    (* format 1: first restart loads the named file; format 2: first restart reads the array (all 64 bits),
       migrates the file to the named form, second restart loads that *)
    [if code =? 1 then l else match load_array b with Some x => x | None => [] end;
     join_keys (true_keys save_fields save_tags b); l]
  else if code =? 3 then [b; b]
  else if code =? 4 then
    (* an account holding [b] is given [arg 1] while the server runs: the manager caches the new account as given,
       a restart reads the saved named form *)
    let b' := arg 1 a in [b'; load_named load_table (save_named save_fields save_tags b')]
  else [].
Definition model (ops : list dop) : list (list bytes) := map model1 ops.

(* property oracle, independent of the generated tables: uses the protocol reference table *)
Definition spec_keys (b : bitmap) : list string :=
  map snd (filter (fun s => IsSet b (fst s)) priv_spec).
Fixpoint count_commas (l : bytes) : nat :=
  match l with [] => O | x :: r => if x =? 44 then S (count_commas r) else count_commas r end.
Fixpoint contains (needle hay : bytes) (fuel : nat) : bool :=
  match fuel with
  | O => false
  | S f => bytes_eqb (firstn (List.length needle) hay) needle ||
           match hay with [] => false | _ :: r => contains needle r f end
  end.
Definition oracle1 (o : dop) (obs : list bytes) : bool :=
  let '(code, a) := o in
  let b := arg 0 a in
  if (code =? 1) || (code =? 2) then
    let final := arg 2 obs in
    let keys := arg 1 obs in
    (* every defined privilege preserved, no other granted (after the final load) *)
    bytes_eqb final (mask_defined b) &&
    (* format 2: the legacy array itself loads to the same privileges on the defined bits *)
    bytes_eqb (mask_defined (arg 0 obs)) (mask_defined b) &&
    (* the keys set to true are exactly the protocol names of the set defined bits *)
    forallb (fun k => contains (bytes_of_string k ++ [44])%list (keys ++ [44])%list (S (List.length keys))) (spec_keys b) &&
    (match spec_keys b with
     | [] => match keys with [] => true | _ => false end
     | l => (S (count_commas keys) =? List.length l)%nat end)
  else if code =? 3 then bytes_eqb (arg 0 obs) b && bytes_eqb (arg 1 obs) b
  else if code =? 4 then
    (* the defined privileges the running server and a restarted one hold are exactly the new ones *)
    bytes_eqb (mask_defined (arg 0 obs)) (mask_defined (arg 1 a)) && bytes_eqb (arg 1 obs) (mask_defined (arg 1 a))
  else true.
Definition oracle (ops : list dop) (obs : list (list bytes)) : bool :=
  forallb (fun p => oracle1 (fst p) (snd p)) (combine ops obs).
