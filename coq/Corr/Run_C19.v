(* C19 correspondence (harness/c19.go): the real handlers on a real FlatNews / Agreement.
   op 1 post          args name, date, body           obs [reply 0|1; announced text; recipients (toks); file on disk]
   op 2 read                                           obs [reply; text]
   op 3 restart (the board is loaded from its file again)   obs []
   op 4 concurrent batch  args k, post_1..post_k (texts as prepended, in the order the final board shows), then one
                           2-byte version index per concurrent read (0xffff = the read matches no version)
                                                       obs [final board; file on disk; read_1 .. read_m]
   op 5 concurrent logins args agreement file content, n   obs [text shown to client 1 .. n]
   op 9 initial state     args board text, tokens of the connected users *)
From Coq Require Import List NArith Arith.
From Verif Require Import Base.Bytes Corr.Case Srv.Board.
Import ListNotations.
Local Open Scope N_scope.

Definition a (n : nat) (l : list (list N)) : list N := nth n l [].
Record mst := mk_mst { m_store : store; m_users : list N }.
Definition capf (n : nat) : nat := 512%nat.

Fixpoint pairs (b : list N) : list N :=
  match b with x :: y :: r => (x * 256 + y) :: pairs r | _ => [] end.
Fixpoint versions (t : list N) (ps : list (list N)) : list (list N) :=
  t :: match ps with [] => [] | p :: r => versions (p ++ t) r end.

Definition step (s : mst) (o : dop) : mst * list (list N) :=
  let '(code, args) := o in
  match code with
  | 9 => (mk_mst (mk_store (a 0 args) 0 (a 0 args)) (pairs (a 1 args)), [])
  | 1 =>
      let p := format_post (a 0 args) (a 1 args) (a 2 args) in
      let st := write p (m_store s) in
      (mk_mst st (m_users s), [[0]; p; concat (map be16 (m_users s)); s_disk st])
  | 2 =>
      let '(st, r) := read_whole capf (m_store s) in
      (mk_mst st (m_users s), [[0]; match r with Some t => t | None => [256] end])
  | 3 => (mk_mst (mk_store (lf_to_cr (s_disk (m_store s))) 0 (s_disk (m_store s))) (m_users s), [])
  | 4 =>
      let k := N.to_nat (dbe (a 0 args)) in
      let ps := firstn k (skipn 1 args) in
      let idx := pairs (concat (skipn (S k) args)) in
      let t0 := s_data (m_store s) in
      let final := board_after ps t0 in
      let vs := versions t0 ps in
      (mk_mst (mk_store final 0 final) (m_users s),
       [final; final] ++ map (fun i => nth (N.to_nat i) vs [257]) idx)
  | 5 => (s, repeat (lf_to_cr (a 0 args)) (N.to_nat (dbe (a 1 args))))
  | _ => (s, [])
  end.
Fixpoint run (s : mst) (ops : list dop) : list (list (list N)) :=
  match ops with [] => [] | o :: r => let '(s', out) := step s o in out :: run s' r end.
Definition model (ops : list dop) : list (list (list N)) := run (mk_mst (mk_store [] 0 []) []) ops.
(* the model is the specification here (whole text, newest first, announced to all, on disk): same judgement *)
Definition oracle (ops : list dop) (obs : list (list (list N))) : bool := obs_eqb (model ops) obs.
