(* C18 correspondence (harness/c18.go) *)
From stdpp Require Import gmap.
From Verif Require Import Base.Bytes Corr.Case Wire.Types Wire.Impl Srv.News.
Local Open Scope N_scope.
Definition a (n : nat) (l : list (list N)) : list N := nth n l [].
Definition len16 (b : list N) : list N := be16 (len b) ++ b.

(* a news path travels as one argument: count(2) then len16-prefixed names *)
Fixpoint path_of (fuel : nat) (b : list N) : list (list N) :=
  match fuel with
  | O => []
  | S f => match b with
           | x :: y :: r => let n := N.to_nat (dbe16 x y) in firstn n r :: path_of f (skipn n r)
           | _ => []
           end
  end.
Definition npath_of (b : list N) : list (list N) :=
  match b with x :: y :: r => firstn (N.to_nat (dbe16 x y)) (path_of (List.length r) r) | _ => [] end.

Fixpoint bytes_ltb (x y : list N) : bool :=
  match x, y with
  | [], [] => false | [], _ => true | _, [] => false
  | p :: x', q :: y' => if p <? q then true else if q <? p then false else bytes_ltb x' y'
  end.
Fixpoint path_ltb (x y : list (list N)) : bool :=
  match x, y with
  | [], [] => false | [], _ => true | _, [] => false
  | p :: x', q :: y' => if bytes_ltb p q then true else if bytes_ltb q p then false else path_ltb x' y'
  end.
Fixpoint ins_node (x : list (list N) * node) (l : list (list (list N) * node)) :=
  match l with
  | [] => [x]
  | y :: r => if path_ltb (fst x) (fst y) then x :: l else y :: ins_node x r
  end.
Fixpoint ins_art (x : N * article) (l : list (N * article)) :=
  match l with [] => [x] | y :: r => if fst x <? fst y then x :: l else y :: ins_art x r end.

Definition render_art (ia : N * article) : list N :=
  let '(i, x) := ia in
  be32 i ++ len16 (ar_title x) ++ len16 (ar_poster x) ++ ar_date x ++ be32 (ar_prev x) ++ be32 (ar_next x) ++
  be32 (ar_parent x) ++ be32 (ar_first x) ++ len16 (ar_data x).
Definition render_node (pn : list (list N) * node) : list N :=
  let '(p, nd) := pn in
  be16 (len p) ++ concat (map len16 p) ++ be16 (n_type nd) ++ len16 (n_name nd) ++
  be16 (len (map_to_list (n_arts nd))) ++ concat (map render_art (fold_right ins_art [] (map_to_list (n_arts nd)))).
Definition dump (s : gmap (list (list N)) node) : list N :=
  concat (map render_node (fold_right ins_node [] (map_to_list s))).

Definition oc_code (o : outcome) : N := match o with Done => 0 | Panicked => 3 | Failed => 2 end.

(* ListArticles + NewsArtListData.Read as coded: entries in ascending ID order *)
Definition list_articles (s : gmap (list (list N)) node) (p : list (list N)) : list N :=
  let arts := match s !! p with Some nd => fold_right ins_art [] (map_to_list (n_arts nd)) | None => [] end in
  impl_bytes_al (mk_al [0;0;0;0] (len arts) [] []
    (map (fun ia => mk_art (be32 (fst ia)) (ar_date (snd ia)) (be32 (ar_parent (snd ia))) [0;0;0;0]
                           (ar_title (snd ia)) (ar_poster (snd ia)) (be16 (len (ar_data (snd ia))))) arts)).

Definition step (st : nstate) (o : dop) : nstate * list (list N) :=
  let '(code, args) := o in
  if code =? 7 then (st, [list_articles (ns_mem st) (npath_of (a 0 args))]) else
  let op := match code with
            | 1 => NCreate (npath_of (a 0 args)) (a 1 args) 2
            | 2 => NCreate (npath_of (a 0 args)) (a 1 args) 3
            | 3 => NPost (npath_of (a 0 args)) (dbe (a 1 args)) (a 2 args) (a 3 args) (a 4 args) (a 5 args)
            | 4 => NDelArt (npath_of (a 0 args)) (dbe (a 1 args))
            | 5 => NDelItem (npath_of (a 0 args))
            | _ => NReload
            end in
  let '(st', oc) := nstep st op in
  (st', [[oc_code oc]; dump (ns_mem st'); dump (ns_disk st')]).
Fixpoint run (st : nstate) (ops : list dop) : list (list (list N)) :=
  match ops with [] => [] | o :: r => let '(st', out) := step st o in out :: run st' r end.
Definition model (ops : list dop) : list (list (list N)) := run (mk_ns ∅ ∅) ops.

(* oracle on the observations: after every successful step the tree re-read from the file equals the tree in
   memory (obs 1 = obs 2); the listing check is part of the model comparison (the harness decodes the article
   list reply with the reference decoder and reports the entries in obs 3 when present) *)
Definition oracle1 (obs : list (list N)) : bool :=
  match obs with
  | st :: m :: d :: _ => if bytes_eqb st [0] then bytes_eqb m d else true
  | _ => true
  end.
(* ... and every request has the outcome and leaves the tree the reference model (Srv/News.v) says: a post into an
   existing category is accepted and stored with a fresh ID, its parent and its predecessor link; nothing else moves *)
Definition effect_ok (m o : list (list N)) : bool := bytes_match (nth 0 m []) (nth 0 o []) && bytes_match (nth 1 m []) (nth 1 o []).
Definition oracle (ops : list dop) (obs : list (list (list N))) : bool :=
  forallb oracle1 obs && list_eqb effect_ok (model ops) obs.
