(* C15 correspondence (harness/c15.go) *)
From stdpp Require Import gmap.
From Verif Require Import Base.Bytes Corr.Case Auth.Access Srv.Accounts.
Local Open Scope N_scope.

Definition a (n : nat) (l : list (list N)) : list N := nth n l [].
Definition len16 (b : list N) : list N := be16 (len b) ++ b.
Definition opt (flag v : list N) : option (list N) := if bytes_eqb flag [1] then Some v else None.

Fixpoint bytes_ltb (x y : list N) : bool :=
  match x, y with
  | [], [] => false
  | [], _ => true
  | _, [] => false
  | p :: x', q :: y' => if p <? q then true else if q <? p then false else bytes_ltb x' y'
  end.
Fixpoint ins_acct (x : account) (l : list account) : list account :=
  match l with
  | [] => [x]
  | y :: r => if bytes_ltb (a_login x) (a_login y) then x :: l else y :: ins_acct x r
  end.
Definition sorted_accounts (m : gmap (list N) account) : list account :=
  fold_right ins_acct [] (map snd (map_to_list m)).
Definition render_acct (x : account) : list N :=
  len16 (a_login x) ++ len16 (a_name x) ++ a_access x ++ [if verify (a_pw x) [] then 0 else 1].
Definition listed (m : gmap (list N) account) : list N := concat (map render_acct (sorted_accounts m)).

Record mstate := mk_ms { ms : am; ms_logins : list (list N); ms_pws : list (list N) }.
Definition auth_vec (m : gmap (list N) account) (logins pws : list (list N)) : list N :=
  concat (map (fun l => map (fun p => match m !! l with
                                      | Some acc => if verify (a_pw acc) p then 1 else 0
                                      | None => 0 end) pws) logins).

Fixpoint split_at_marker (l : list (list N)) : list (list N) * list (list N) :=
  match l with
  | [] => ([], [])
  | x :: r => if bytes_eqb x [255; 255; 255] then ([], r)
              else let '(u, v) := split_at_marker r in (x :: u, v)
  end.

(* sub-records: 9 arguments each: kind, hasdata, data, login, name, haspw, pw, hasaccess, access *)
Fixpoint subs_of (fuel : nat) (l : list (list N)) : list sub :=
  match fuel with
  | O => []
  | S f =>
      match l with
      | k :: hd :: d :: lg :: nm :: hp :: p :: ha :: ac :: r =>
          (if bytes_eqb k [1] then SubDelete d else SubEdit (opt hd d) lg nm (opt hp p) (opt ha ac)) :: subs_of f r
      | _ => []
      end
  end.

Definition status_code (s : status) : N :=
  match s with Replied => 0 | ErrReplied => 1 | NoReply => 2 | Panicked => 3 end.

Definition step (s : mstate) (o : dop) : mstate * list (list N) :=
  let '(code, args) := o in
  match code with
  | 9 => let '(ls, ps) := split_at_marker args in (mk_ms (ms s) ls ps, [])
  | _ =>
      let op := match code with
                | 1 => ONew (a 0 args) (a 1 args) (opt (a 2 args) (a 3 args)) (a 4 args)
                | 2 => OSet (a 0 args) (a 1 args) (opt (a 2 args) (a 3 args)) (a 4 args)
                | 3 => OUpdate (subs_of (List.length args) args)
                | 4 => ODelete (a 0 args)
                | _ => OReload
                end in
      let '(s', st) := astep (ms s) op in
      (mk_ms s' (ms_logins s) (ms_pws s),
       [[status_code st]; listed (mem s'); auth_vec (mem s') (ms_logins s) (ms_pws s);
        listed (disk s'); auth_vec (disk s') (ms_logins s) (ms_pws s)])
  end.
Fixpoint run (s : mstate) (ops : list dop) : list (list (list N)) :=
  match ops with [] => [] | o :: r => let '(s', out) := step s o in out :: run s' r end.

(* initial state: the bootstrap guest account (empty password, no privileges) *)
Definition guest : account := mk_acct [103;117;101;115;116] [71;117;101;115;116;32;85;115;101;114] (hash []) (repeat 0 8).
Definition s0 : am := mk_am {[ a_login guest := guest ]} {[ a_login guest := mask_acct guest ]}.
Definition model (ops : list dop) : list (list (list N)) := run (mk_ms s0 [] []) ops.

(* oracle on the observations alone: the accounts listed to administrators are the accounts on disk (same
   logins, names, password presence; privileges compared on the 40 named bits), and exactly the same
   (login, password) pairs authenticate before and after a restart from the files *)
Fixpoint mask_listing (fuel : nat) (b : list N) : list N :=
  match fuel with
  | O => []
  | S f =>
      match b with
      | [] => []
      | _ =>
          let ll := N.to_nat (dbe (firstn 2 b)) in
          let r1 := skipn (2 + ll) b in
          let nl := N.to_nat (dbe (firstn 2 r1)) in
          let r2 := skipn (2 + nl) r1 in
          (firstn (2 + ll) b ++ firstn (2 + nl) r1 ++ mask_defined (firstn 8 r2) ++ firstn 1 (skipn 8 r2) ++
           mask_listing f (skipn 9 r2))%list
      end
  end.
Definition oracle1 (obs : list (list N)) : bool :=
  match obs with
  | [_; lm; am_; ld; ad] =>
      bytes_eqb (mask_listing (List.length lm) lm) (mask_listing (List.length ld) ld) && bytes_eqb am_ ad
  | _ => true
  end.
(* ... and the requested change took effect: after every step exactly the (login, password) pairs the reference
   account editor (Srv/Accounts.v) says can authenticate do authenticate (a password change takes effect, the
   unchanged marker leaves it alone, a renamed-away login is gone, a renamed-to login works) *)
Definition effect_ok (m o : list (list N)) : bool := bytes_match (nth 2 m []) (nth 2 o []) && bytes_match (nth 0 m []) (nth 0 o []).
Definition oracle (ops : list dop) (obs : list (list (list N))) : bool :=
  forallb oracle1 obs && list_eqb effect_ok (model ops) obs.
