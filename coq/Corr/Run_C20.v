(* C20 correspondence (harness/c20.go): every update is performed by the real managers in a child process under
   strace; the traced system calls on the configuration directory are compared call by call with the model's
   script, every prefix of the trace is materialised as a directory and loaded with the real constructors.
   op 1 board post | 2 threaded-news save | 3 ban-list save   args path, old present?, old content, new content
   op 4 account create   args file, data
   op 5 account update   args old file, new file, old content, new content, old login, new login
   op 6 account delete   args file, old content
   obs [encoded trace; one class byte per crash point 0..n: 0 = the loaders see the old state, 1 = the new state,
        2 = neither / a store does not load] *)
From stdpp Require Import gmap.
From Verif Require Import Base.Bytes Corr.Case FS.Crash.
Local Open Scope N_scope.

Definition a (n : nat) (l : list (list N)) : list N := nth n l [].
Definition len16 (b : list N) : list N := be16 (len b) ++ b.
Definition len32 (b : list N) : list N := be32 (len b) ++ b.
Definition enc1 (c : sc) : list N :=
  match c with
  | ScCreate p => [1] ++ len16 p
  | ScCreateExcl p => [2] ++ len16 p
  | ScWrite p d => [3] ++ len16 p ++ len32 d
  | ScRename x y => [4] ++ len16 x ++ len16 y
  | ScLink x y => [5] ++ len16 x ++ len16 y
  | ScUnlink p => [6] ++ len16 p
  end.
Definition enc (l : list sc) : list N := concat (map enc1 l).

Definition opt_eqb (x y : option (list N)) : bool :=
  match x, y with Some u, Some v => bytes_eqb u v | None, None => true | _, _ => false end.
(* classes of all crash points 0..n of a script, given a classifier of states *)
Definition classes (s0 : fs) (script : list sc) (cls : fs -> N) : list N :=
  map (fun k => cls (crash_at k s0 script)) (seq 0 (S (List.length script))).

Definition model1 (o : dop) : list (list N) :=
  let '(code, args) := o in
  match code with
  | 1 | 2 | 3 =>
      let p := a 0 args in
      let old := if bytes_eqb (a 1 args) [1] then Some (a 2 args) else None in
      let new := a 3 args in
      let s0 : fs := match old with Some c => {[ p := c ]} | None => ∅ end in
      let script := match code with 1 => board_post p new | 2 => news_save p new | _ => ban_save p new end in
      [enc script; classes s0 script (fun s => if opt_eqb (s !! p) old then 0 else if opt_eqb (s !! p) (Some new) then 1 else 2)]
  | 4 =>
      let f := a 0 args in let data := a 1 args in
      let script := acct_create f data in
      [enc script; classes ∅ script (fun s => match s !! f with None => 0 | Some c => if bytes_eqb c data then 1 else 2 end)]
  | 5 =>
      let fold := a 0 args in let fnew := a 1 args in let old := a 2 args in let data := a 3 args in
      let script := acct_update fold fnew data in
      (* the loader reads fold and fnew; the login is the one inside the file *)
      let view (s : fs) : list (option (list N)) :=
        let files := if bytes_eqb fold fnew then [fold] else [fold; fnew] in
        concat (map (fun f => match s !! f with Some c => [Some c] | None => [] end) files) in
      let cls (s : fs) : N :=
        match view s with
        | [Some c] => if bytes_eqb c old then 0 else if bytes_eqb c data then 1 else 2
        | _ => 2
        end in
      [enc script; classes {[ fold := old ]} script cls]
  | 6 =>
      let f := a 0 args in let old := a 1 args in
      let script := acct_delete f in
      [enc script; classes {[ f := old ]} script (fun s => match s !! f with None => 1 | Some c => if bytes_eqb c old then 0 else 2 end)]
  | _ => []
  end.
Definition model (ops : list dop) : list (list (list N)) := map model1 ops.

(* the property itself: every crash point loads and shows the old or the new state; before the first call it is
   the old one, after the last call (the update returned, the change may be acknowledged) the new one *)
Definition oracle1 (ob : list (list N)) : bool :=
  let cl := a 1 ob in
  forallb (fun c => (c =? 0) || (c =? 1)) cl &&
  match cl with [] => false | c0 :: _ => c0 =? 0 end &&
  (last cl 2 =? 1).
Definition oracle (ops : list dop) (obs : list (list (list N))) : bool := forallb oracle1 obs.
