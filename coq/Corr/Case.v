(* Generic case format shared with the Go harness (harness/common.go: WriteCoq). *)
From Verif Require Import Base.Bytes.
From Coq Require Import String.

Inductive op := Op (code : N) (args : list string).
Record case := mk_case { c_idx : nat; c_ops : list op; c_obs : list (list string) }.

Definition dop := (N * list bytes)%type.
Definition decode_op (o : op) : dop := match o with Op c a => (c, map unhex a) end.
Definition decode_obs (o : list (list string)) : list (list bytes) := map (map unhex) o.
Definition obs_eqb : list (list bytes) -> list (list bytes) -> bool := list_eqb (list_eqb bytes_eqb).

Definition arg (n : nat) (a : list bytes) : bytes := nth n a [].

Section Run.
  (* model: what the Gallina model of the implementation says is observed for the op list *)
  Variable model : list dop -> list (list bytes).
  (* oracle: does the observation satisfy the property (independent of the impl model)? *)
  Variable oracle : list dop -> list (list bytes) -> bool.

  Definition agrees (c : case) : bool :=
    obs_eqb (model (map decode_op (c_ops c))) (decode_obs (c_obs c)).
  Definition mismatches (cs : list case) : list nat :=
    map c_idx (filter (fun c => negb (agrees c)) cs).
  Definition spec_failures (cs : list case) : list nat :=
    map c_idx (filter (fun c => negb (oracle (map decode_op (c_ops c)) (decode_obs (c_obs c)))) cs).
  Definition show_model (c : case) : list (list string) :=
    map (map hex) (model (map decode_op (c_ops c))).
End Run.
