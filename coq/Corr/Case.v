(* Generic case format shared with the Go harness (harness/common.go: WriteCoq). *)
From Verif Require Import Base.Bytes.
From Coq Require Import String Ascii.

Inductive op := Op (code : N) (args : list string).
Record case := mk_case { c_idx : nat; c_ops : list op; c_obs : list (list string) }.

Definition dop := (N * list bytes)%type.
(* a string is a sequence of parts: two hex digits = one byte; "!LLLLLLLLSS" = pattern of length L (8 hex
   digits) with seed S (2 hex digits).  A whole string "#LLLLLLLL<24 hex>" = digest of an observation. *)
Fixpoint decode_parts (s : string) : bytes :=
  match s with
  | String "!" (String l1 (String l2 (String l3 (String l4 (String l5 (String l6 (String l7 (String l8
      (String s1 (String s2 r)))))))))) =>
      let n := dbe (unhex (String l1 (String l2 (String l3 (String l4 (String l5 (String l6 (String l7 (String l8 EmptyString))))))))) in
      let sd := dbe (unhex (String s1 (String s2 EmptyString))) in
      pattern n sd ++ decode_parts r
  | String a (String b r) => (hexval a * 16 + hexval b) :: decode_parts r
  | _ => []
  end.
Definition decode_str (s : string) : bytes :=
  match s with
  | String "#" r => let b := unhex r in [256; dbe (firstn 4 b); dbe (skipn 4 b)]
  | _ => decode_parts s
  end.
Definition decode_op (o : op) : dop := match o with Op c a => (c, map decode_str a) end.
Definition decode_obs (o : list (list string)) : list (list bytes) := map (map decode_str) o.
(* model on the left, observation on the right *)
Definition obs_eqb : list (list bytes) -> list (list bytes) -> bool := list_eqb (list_eqb bytes_match).

Definition arg (n : nat) (a : list bytes) : bytes := nth n a [].

Section Run.
  (* model: what the Gallina model of the implementation says is observed for the op list *)
  Variable model : list dop -> list (list bytes).
  (* oracle: does the observation satisfy the property (independent of the impl model)? *)
  Variable oracle : list dop -> list (list bytes) -> bool.

  Definition agrees (c : case) : bool :=
    obs_eqb (model (map decode_op (c_ops c))) (decode_obs (c_obs c)).
  Definition mismatches (cs : list case) : list nat :=
    map c_idx (filter (fun c => negb (agrees c)) cs).
  Definition spec_failures (cs : list case) : list nat :=
    map c_idx (filter (fun c => negb (oracle (map decode_op (c_ops c)) (decode_obs (c_obs c)))) cs).
  Definition show_model (c : case) : list (list string) :=
    map (map hex) (model (map decode_op (c_ops c))).
End Run.
