(* C05 correspondence (harness/c05.go): op 1 = one request of class [cls] by an account with bitmap [b]:
   obs [denied?; state changed although denied?]; op 2 = display name: obs [error?; resulting name] *)
From Verif Require Import Base.Bytes Corr.Case Auth.Access Auth.Batch Auth.GuardSpec Wire.Parse Wire.Types Wire.Impl.
Local Open Scope N_scope.
Definition a (n : nat) (l : list (list N)) : list N := nth n l [].

(* op 4 = one UpdateUser transaction carrying a batch of edits on the logins 0 and 1: args bitmap, which of the two
   logins exist, edits as triples (0 delete / 1 upsert, login, tag);
   obs [0 replied / 1 refused / 2 no reply; for each login 0 = absent, 1 + tag of the edit that last wrote it] *)
Fixpoint dec_edits (b : list N) : list edit :=
  match b with
  | k :: l :: tag :: r => (if k =? 0 then EDelete l else EUpsert l tag) :: dec_edits r
  | _ => []
  end.
Definition init_table (f : list N) : table :=
  (if nth 0 f 0 =? 1 then [(0, 0)] else []) ++ (if nth 1 f 0 =? 1 then [(1, 0)] else []).
Definition render_login (t : table) (l : N) : N := match lookup t l with None => 0 | Some tag => 1 + tag end.
Definition batch_model (b f es : list N) : list (list N) :=
  let '(t, o) := run_batch b (init_table f) (dec_edits es) in
  [[outcome_code o]; [render_login t 0; render_login t 1]].

Definition model1 (o : dop) : list (list N) :=
  let '(code, args) := o in
  if code =? 1 then [[if permit (a 1 args) (dbe (a 0 args)) then 0 else 1]; [0]]
  else if code =? 2 then [[0]; adopted_name (a 0 args) (a 1 args) (a 2 args)]
  else if code =? 3 then
    (* op 3 = crafted path field against the upload-folder / drop-box rules: args kind, bitmap, raw field;
       obs [0 = answered or silently dropped, 1 = refused, 3 = panic; protected effect without the privilege?] *)
    match impl_dec_path (a 2 args) with
    | Ok (d, items) =>
        let ok := if dbe (a 0 args) =? 1 then may_list (a 1 args) d items else may_upload_to (a 1 args) d items in
        [[if ok then 0 else 1]; [0]]
    | Err => [[0]; [0]]
    | Panic => [[3]; [0]]
    end
  else if code =? 4 then batch_model (a 0 args) (a 1 args) (a 2 args)
  else if code =? 6 then
    (* op 6 = delete (0) or move (1) of an alias whose target is gone, by an account holding neither the file nor the
       folder privilege for it: nothing happens.  obs [did the alias disappear / anything change?] *)
    [[0]]
  else [].
Definition model (ops : list dop) : list (list (list N)) := map model1 ops.
(* the model IS the reference decision table; the oracle is the same judgement - except for path probes, which are
   judged on the observed EFFECT (no drop-box content revealed, no upload granted outside an upload folder /
   drop box without the privilege) and, when the field is a well-formed path (count = items, nothing left over),
   on the decision the specification assigns to the directory the items resolve to *)
Definition oracle1 (o : dop) (ob : list (list N)) : bool :=
  let '(code, args) := o in
  if code =? 3 then
    bytes_eqb (a 1 ob) [0] &&
    match Wire.Types.spec_dec_path (a 2 args) with
    | Some (items, []) =>
        let b := a 1 args in
        let ok := if dbe (a 0 args) =? 1 then negb (dir_is W_DROPBOX items) || IsSet b 30
                  else IsSet b 25 || dir_is W_UPLOAD items || dir_is W_DROPBOX items in
        match items with [] => true | _ => bytes_eqb (a 0 ob) [if ok then 0 else 1] end
    | _ => true
    end
  else list_eqb bytes_eqb (model1 o) ob.
Fixpoint oracle (ops : list dop) (obs : list (list (list N))) : bool :=
  match ops, obs with
  | o :: r, ob :: rb => oracle1 o ob && oracle r rb
  | [], [] => true
  | _, _ => false
  end.
