(* C05 correspondence (harness/c05.go): op 1 = one request of class [cls] by an account with bitmap [b]:
   obs [denied?; state changed although denied?]; op 2 = display name: obs [error?; resulting name] *)
From Verif Require Import Base.Bytes Corr.Case Auth.Access Auth.GuardSpec.
Local Open Scope N_scope.
Definition a (n : nat) (l : list (list N)) : list N := nth n l [].

Definition model1 (o : dop) : list (list N) :=
  let '(code, args) := o in
  if code =? 1 then [[if permit (a 1 args) (dbe (a 0 args)) then 0 else 1]; [0]]
  else if code =? 2 then [[0]; adopted_name (a 0 args) (a 1 args) (a 2 args)]
  else [].
Definition model (ops : list dop) : list (list (list N)) := map model1 ops.
(* the model IS the reference decision table; the oracle is the same judgement *)
Definition oracle (ops : list dop) (obs : list (list (list N))) : bool :=
  list_eqb (list_eqb bytes_eqb) (model ops) obs.
