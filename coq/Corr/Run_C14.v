(* C14 correspondence (harness/c14.go) *)
From Verif Require Import Base.Bytes Corr.Case Wire.Types Wire.Impl Srv.Outbox.
Local Open Scope N_scope.
Definition a (n : nat) (l : list (list N)) : list N := nth n l [].

(* request types used under load and whether they are answered *)
Definition answered (ty : N) : bool := (ty =? 500) || (ty =? 300) || (ty =? 101).
Fixpoint types_of (b : list N) : list N :=
  match b with x :: y :: r => dbe16 x y :: types_of r | _ => [] end.
Fixpoint reply_ids (tys : list N) (id : N) : list N :=
  match tys with
  | [] => []
  | ty :: r => (if answered ty then be32 id else []) ++ reply_ids r (id + 1)
  end.
Definition count_chat (tys : list N) : N := len (filter (fun t => t =? 105) tys).

Definition model1 (o : dop) : list (list N) :=
  let '(code, args) := o in
  if code =? 1 then
    (* one transaction with one field through sendTransaction onto a connection that records every Write *)
    let t := mk_tran 0 0 104 1 0 [NewField 101 (a 0 args)] in
    [concat (map (fun c => be32 (len c)) (chunks_fixed t))]
  else if code =? 2 then
    (* load run: argument i = the request types client i sends (IDs 2, 3, ... after the login with ID 1) *)
    let all := map types_of args in
    let chats := fold_right N.add 0 (map count_chat all) in
    map (fun tys => [1] ++ be16 0 ++ be32 1 ++ reply_ids tys 2 ++ be16 chats) all
  else if code =? 3 then
    (* two transactions drained in turns (part of the first, all of the second, the rest of the first): what comes
       out of each is its own encoding *)
    [impl_bytes_tran (mk_tran 0 0 104 1 0 [NewField 101 (a 0 args)]);
     impl_bytes_tran (mk_tran 0 0 104 1 0 [NewField 101 (a 1 args)])]
  else [].
Definition model (ops : list dop) : list (list (list N)) := map model1 ops.

(* oracle: every client's byte stream re-frames completely into well-formed transactions, and its replies are
   exactly the answered requests it sent, once each *)
Definition oracle1 (o : dop) (obs : list (list N)) : bool :=
  let '(code, args) := o in
  if code =? 1 then true
  else if code =? 2 then
    forallb (fun p =>
      let tys := types_of (fst p) in let ob := snd p in
      bytes_eqb (firstn 3 ob) [1; 0; 0] &&
      bytes_eqb (firstn (4 + List.length (reply_ids tys 2)) (skipn 3 ob)) (be32 1 ++ reply_ids tys 2))
    (combine args obs)
  else if code =? 3 then
    bytes_match (spec_enc_tran (mk_tran 0 0 104 1 0 [NewField 101 (a 0 args)])) (a 0 obs) &&
    bytes_match (spec_enc_tran (mk_tran 0 0 104 1 0 [NewField 101 (a 1 args)])) (a 1 obs)
  else true.
Definition oracle (ops : list dop) (obs : list (list (list N))) : bool :=
  forallb (fun p => oracle1 (fst p) (snd p)) (combine ops obs).
