(* C04 correspondence (harness/c04.go).
   op 9 = account table: args login1, stored-password1, login2, ... (as given to HashAndSalt)
   op 1 = one connection attempt: args [stream] (every byte the peer sends before it closes)
     obs [status; bytes; what the logged-in observer received; config/file tree changed?; registry delta]
       status 0 nothing written | 1 handshake reply only | 2 + one error reply | 3 + one ban notice | 4 logged in
       bytes  = everything the peer received (status 0-3; the ban notice's random ID zeroed), or
                len16 login ++ the IDs of the keep-alive replies received after the login reply (status 4) *)
From stdpp Require Import gmap.
From Verif Require Import Base.Bytes Corr.Case Lib.Scanner Wire.Parse Wire.Types Wire.Impl Net.Session Srv.Accounts Auth.Door.
Local Open Scope N_scope.

Definition a (n : nat) (l : list (list N)) : list N := nth n l [].
Definition len16 (b : list N) : list N := be16 (len b) ++ b.

Fixpoint db_of (args : list (list N)) (fuel : nat) : gmap (list N) pw :=
  match fuel with
  | O => ∅
  | S f => match args with
           | l :: p :: r => <[l := hash p]> (db_of r f)
           | _ => ∅
           end
  end.
Definition keepalive_ids (d : list transaction) : list N :=
  concat (map (fun t => if t_type t =? 500 then be32 (t_id t) else []) d).

Definition attempt (db : gmap (list N) pw) (stream : list N) : list (list N) :=
  match door db Admit stream with
  | OutLoggedIn l t d => [[4]; len16 l ++ keepalive_ids d; []; [0]; [1]]
  | OutNothing as o => [[0]; to_peer o; []; [0]; [0]]
  | OutSilent as o => [[1]; to_peer o; []; [0]; [0]]
  | OutRefused _ as o => [[2]; to_peer o; []; [0]; [0]]
  | OutBanned _ as o => [[3]; to_peer o; []; [0]; [0]]
  end.

Fixpoint run (db : gmap (list N) pw) (ops : list dop) : list (list (list N)) :=
  match ops with
  | [] => []
  | (code, args) :: r =>
      if code =? 9 then [] :: run (db_of args (List.length args)) r
      else if code =? 1 then attempt db (a 0 args) :: run db r
      else [] :: run db r
  end.
Definition model (ops : list dop) : list (list (list N)) := run ∅ ops.

(* ---- property oracle, independent of the door model: judged with the REFERENCE transaction decoder ---- *)
Definition ref_first (body : list N) : option (transaction * list N) := spec_dec_tran body.
Definition ref_field (t : N) (fs : list field) : list N :=
  match List.filter (fun f => f_type f =? t) fs with f :: _ => f_data f | [] => [] end.
Definition one_frame_only (b : list N) (pred : transaction -> bool) : bool :=
  match spec_dec_tran b with Some (t, []) => pred t | _ => false end.
Definition quiet_ok (status : N) (bytes : list N) : bool :=
  match status with
  | 0 => bytes_eqb bytes []
  | 1 => bytes_eqb bytes HS_REPLY
  | 2 => bytes_eqb (firstn 8 bytes) HS_REPLY && one_frame_only (skipn 8 bytes) (fun t => (t_isreply t =? 1) && negb (t_err t =? 0))
  | 3 => bytes_eqb (firstn 8 bytes) HS_REPLY && one_frame_only (skipn 8 bytes) (fun t => (t_isreply t =? 0) && (t_type t =? 104))
  | _ => false
  end.
Definition oattempt (db : gmap (list N) pw) (stream : list N) (ob : list (list N)) : bool :=
  let status := dbe (a 0 ob) in
  let hs := firstn 12 stream in
  let hs_valid := (12 <=? len stream) && bytes_eqb (firstn 4 hs) TRTP && bytes_eqb (firstn 4 (skipn 4 hs)) HOTL in
  (* nobody else hears anything, nothing on disk changes, in every case *)
  bytes_eqb (a 2 ob) [] && bytes_eqb (a 3 ob) [0] &&
  (* not logged in: silent but for the allowed replies, and never registered *)
  (if status =? 4 then true else quiet_ok status (a 1 ob) && bytes_eqb (a 4 ob) [0]) &&
  (* no valid handshake: nothing at all *)
  (if hs_valid then true else status =? 0) &&
  (* a well-formed first transaction decides: logged in iff the named account exists and the password verifies *)
  (if hs_valid then
     match ref_first (skipn 12 stream) with
     | Some (t, rest) =>
         (* the connection scanner hands over transactions of at most 64 KiB (bufio.MaxScanTokenSize) *)
         if 65536 <? len (skipn 12 stream) - len rest then true else
         let l := negate (ref_field 105 (t_fields t)) in
         let l := match l with [] => GUEST | _ => l end in
         let good := match db !! l with Some h => verify h (ref_field 106 (t_fields t)) | None => false end in
         if good then (status =? 4) && bytes_eqb (firstn (N.to_nat (2 + len l)) (a 1 ob)) (len16 l)
         else status =? 2
     | None => negb (status =? 4) || true
     end
   else true).
Fixpoint orun (db : gmap (list N) pw) (ops : list dop) (obs : list (list (list N))) : bool :=
  match ops, obs with
  | (code, args) :: r, ob :: rb =>
      if code =? 9 then orun (db_of args (List.length args)) r rb
      else if code =? 1 then oattempt db (a 0 args) ob && orun db r rb
      else orun db r rb
  | _, _ => true
  end.
Definition oracle (ops : list dop) (obs : list (list (list N))) : bool := orun ∅ ops obs.
