(* C19 — Message board and agreement are served whole and lose no post.  Property theorems only
   (model: Srv/Board.v; Gen/Locks.v is REGENERATED from the sources on every run). *)
From Coq Require Import List String NArith Bool Arith.
From Verif Require Import Base.Bytes Srv.Board Srv.BoardProofs Gen.Locks.
Import ListNotations.

(* Every use of the two shared-cursor stores in the code (Seek / Read / ReadAll / Write on Server.MessageBoard and
   Server.Agreement) sits inside a Lock()..Unlock() section, all uses of one store under ONE mutex, and the three
   users the model speaks about are among them: "rewind, then read to the end" and "prepend" are critical sections. *)
Definition use_ok (store mutex : string) (u : string * string * string * bool) : bool :=
  if String.eqb (snd (fst (fst u))) store then snd u && String.eqb (snd (fst u)) mutex else true.
Definition has_use (fn store : string) : bool :=
  existsb (fun u => String.eqb (fst (fst (fst u))) fn && String.eqb (snd (fst (fst u))) store) cursor_uses.
Theorem C19_cursor_use_is_serialised :
  forallb (use_ok "MessageBoard" "messageBoardMu") cursor_uses = true /\
  forallb (use_ok "Agreement" "s.agreementMu") cursor_uses = true /\
  has_use "HandleGetMsgs" "MessageBoard" = true /\ has_use "HandleTranOldPostNews" "MessageBoard" = true /\
  has_use "handleNewConnection" "Agreement" = true.
Proof. vm_compute. repeat split. Qed.

(* One critical section "rewind + read to the end" returns the complete current text exactly - whatever the cursor
   was left at by anybody, for every sequence of (positive) chunk capacities - and changes neither text nor file *)
Theorem C19_read_is_whole :
  forall (capf : nat -> nat), (forall n, (0 < capf n)%nat) -> forall s,
    exists s', read_whole capf s = (s', Some (s_data s)) /\ s_data s' = s_data s /\ s_disk s' = s_disk s.
Proof. exact read_whole_exact. Qed.

(* For EVERY order in which the lock lets in any number of posters and readers: each reader gets the text that was
   current at its turn, the final board is all posts newest first on top of the initial text, and once a post has
   been made the file equals the board (it is on disk when the post is acknowledged) *)
Theorem C19_every_history :
  forall (capf : nat -> nat), (forall n, (0 < capf n)%nat) -> forall h s,
    let '(s', outs) := cs_run capf s h in
    outs = expected (s_data s) h /\ s_data s' = board_after (posts_of h) (s_data s) /\
    (synced s -> synced s') /\ (posts_of h <> [] -> synced s').
Proof. exact cs_run_spec. Qed.
Theorem C19_no_post_lost_newest_first :
  forall ps t, board_after ps t = concat (rev ps) ++ t.
Proof. exact board_after_app. Qed.

(* ... so every post made in the history is still in the final board, whole and contiguous *)
Theorem C19_every_post_is_kept_whole :
  forall (capf : nat -> nat), (forall n, (0 < capf n)%nat) -> forall h s p,
    In p (posts_of h) -> exists a b, s_data (fst (cs_run capf s h)) = a ++ p ++ b.
Proof.
  intros capf Hc h s p Hin. pose proof (cs_run_spec capf Hc h s) as H.
  destruct (cs_run capf s h) as [s' outs]. destruct H as [_ [Hd _]]. cbn [fst]. rewrite Hd, board_after_app.
  apply in_rev in Hin. apply in_split in Hin as [l1 [l2 E]]. rewrite E, concat_app. cbn [concat].
  exists (concat l1), (concat l2 ++ s_data s). now rewrite <- !app_assoc.
Qed.

(* Why the lock is needed: with the store's own per-call mutex only, two readers' steps interleave and one of them
   returns a wrong text (3-byte board, 2-byte chunks) *)
Theorem C19_unlocked_cursor_refuted : torn_witness = true.
Proof. exact torn_witness_true. Qed.

(* the post format: no line feed survives *)
Theorem C19_post_has_no_line_feed : forall name date body, ~ In 10%N (format_post name date body).
Proof. intros. apply lf_to_cr_no_lf. Qed.

Example C19_nonvacuous :
  let s := mk_store [9]%N 5 [9]%N in
  snd (cs_run (fun _ => 2%nat) s [Post [1; 2; 3]%N; ReadBoard; Post [4]%N; ReadBoard]) =
    [None; Some [1; 2; 3; 9]%N; None; Some [4; 1; 2; 3; 9]%N].
Proof. vm_compute. reflexivity. Qed.

Print Assumptions C19_cursor_use_is_serialised.
Print Assumptions C19_read_is_whole.
Print Assumptions C19_every_history.
Print Assumptions C19_no_post_lost_newest_first.
Print Assumptions C19_unlocked_cursor_refuted.
Print Assumptions C19_post_has_no_line_feed.
Print Assumptions C19_every_post_is_kept_whole.
