(* C16 — A privilege bit means the same on the wire, in memory and on disk.
   Only the property theorems (closed by [exact]/short glue over lemmas) and their assumptions.
   The tables load_table / save_fields / save_tags are REGENERATED from hotline/access.go on every run. *)
From Verif Require Import Base.Bytes Auth.Access Auth.AccessProofs Auth.AccessYaml Auth.AccessYamlProofs
  Auth.PrivSpec Gen.AccessTables.
From Coq Require Import String.

(* finite obligations on the generated tables (domain: the 40-odd generated entries; by computation) *)
Lemma gen_tables_consistent : tables_consistent load_table save_fields save_tags = true.
Proof. vm_compute. reflexivity. Qed.

Lemma gen_defined_bits :
  forallb (fun i => Bool.eqb (defined_gen load_table i) (defined_bit i)) (seq 0 64) = true.
Proof. vm_compute. reflexivity. Qed.

Lemma gen_defined i : (i < 64)%nat -> defined_gen load_table i = defined_bit i.
Proof.
  intros Hi. pose proof gen_defined_bits as H. rewrite forallb_forall in H.
  apply Bool.eqb_prop. apply H. apply in_seq. lia.
Qed.

Lemma save_load_bits_gen b i : (i < 64)%nat ->
  IsSet (load_named load_table (save_named save_fields save_tags b)) i = IsSet b i && defined_bit i.
Proof.
  intros Hi. rewrite (save_load_bits _ _ _ gen_tables_consistent) by exact Hi. now rewrite gen_defined.
Qed.

Lemma save_load_eq_gen b : bitmap_wf b ->
  load_named load_table (save_named save_fields save_tags b) = mask_defined b.
Proof.
  intros Hb. apply bitmap_ext.
  - apply load_named_wf.
  - now apply mask_defined_wf.
  - intros i Hi. rewrite save_load_bits_gen by exact Hi. destruct Hb as [Hl _].
    now rewrite IsSet_mask_defined.
Qed.

(* Saving an account and loading it back preserves every defined privilege and grants no other:
   for ALL bitmaps (2^64) and every bit position. *)
Theorem C16_save_load_preserves_defined_grants_no_other :
  forall (b : bitmap) (i : nat), (i < 64)%nat ->
    IsSet (load_named load_table (save_named save_fields save_tags b)) i = IsSet b i && defined_bit i.
Proof. exact save_load_bits_gen. Qed.

(* the same as an equation between bitmaps *)
Theorem C16_save_load_is_mask :
  forall b, bitmap_wf b -> load_named load_table (save_named save_fields save_tags b) = mask_defined b.
Proof. exact save_load_eq_gen. Qed.

(* legacy numeric-array form: the loader (shape checked by the translator) stores the 8 numbers as the 8
   bytes, so a legacy file loads to the same privileges as the named form written from it *)
Theorem C16_legacy_array_form_as_modelled : load_array_form = ArrayBytes.
Proof. reflexivity. Qed.

Lemma legacy_loads_bytes (ints : list N) :
  List.length ints = 8%nat -> bytes_ok ints -> load_array ints = Some ints.
Proof.
  intros Hl Ho. unfold load_array. rewrite Hl. cbn [Nat.leb].
  assert (Hm : map (fun v => v mod 256) ints = ints).
  { clear Hl. induction Ho as [|x r Hx _ IH]; cbn [map]; [reflexivity|].
    rewrite N.mod_small by exact Hx. now rewrite IH. }
  rewrite Hm. f_equal.
  transitivity (firstn (List.length ints) (ints ++ zero8)); [now rewrite Hl | apply firstn_app_exact].
Qed.

Theorem C16_legacy_equals_named :
  forall (ints : list N), List.length ints = 8%nat -> bytes_ok ints ->
    exists b, load_array ints = Some b /\
      forall i, (i < 64)%nat ->
        IsSet (load_named load_table (save_named save_fields save_tags b)) i = IsSet b i && defined_bit i.
Proof.
  intros ints Hl Ho. exists ints. split; [now apply legacy_loads_bytes|].
  intros i Hi. now apply save_load_bits_gen.
Qed.

(* the names in the account file are the protocol's names for the bit numbers (reference table
   Auth/PrivSpec.v, transcribed from the protocol document), in both directions *)
Definition names_match : bool :=
  forallb (fun e => existsb (fun s => (fst s =? snd e)%nat && String.eqb (snd s) (fst e)) priv_spec) load_table &&
  forallb (fun s => existsb (fun e => (fst s =? snd e)%nat && String.eqb (snd s) (fst e)) load_table) priv_spec &&
  (List.length load_table =? List.length priv_spec)%nat.

Lemma names_match_true : names_match = true.
Proof. vm_compute. reflexivity. Qed.

Theorem C16_names_match_protocol :
  (forall k bit, In (k, bit) load_table -> In (bit, k) priv_spec) /\
  (forall k bit, In (bit, k) priv_spec -> In (k, bit) load_table).
Proof.
  pose proof names_match_true as H. unfold names_match in H.
  apply andb_prop in H as [H _]. apply andb_prop in H as [H1 H2].
  rewrite forallb_forall in H1, H2. split; intros k bit Hin.
  - specialize (H1 _ Hin). apply existsb_exists in H1 as [[sb sk] [Hs Hc]]. cbn [fst snd] in Hc.
    apply andb_prop in Hc as [Hb Hk]. apply Nat.eqb_eq in Hb. apply String.eqb_eq in Hk. now subst.
  - specialize (H2 _ Hin). apply existsb_exists in H2 as [[ek eb] [He Hc]]. cbn [fst snd] in Hc.
    apply andb_prop in Hc as [Hb Hk]. apply Nat.eqb_eq in Hb. apply String.eqb_eq in Hk. now subst.
Qed.

(* the Access* constants used by Authorize are the protocol numbers (C06's model constants included) *)
Theorem C16_constants_are_protocol_numbers :
  assoc "AccessCreateUser" access_consts = Some ACCESS_CREATE_USER /\
  assoc "AccessDisconUser" access_consts = Some ACCESS_DISCON_USER /\
  assoc "AccessCannotBeDiscon" access_consts = Some ACCESS_CANNOT_BE_DISCON /\
  forallb (fun c => (snd c <? 64)%nat) access_consts = true.
Proof. vm_compute. repeat split. Qed.

(* bit numbering used by authorization decisions: Set i then IsSet j answers exactly (i = j) or the old bit,
   on the same 8 wire bytes (bit i counted from the most significant bit of byte i/8) *)
Theorem C16_set_then_isset_same_numbering :
  forall (b : bitmap) (i j : nat), (i < 64)%nat -> (j < 64)%nat -> List.length b = 8%nat ->
    IsSet (SetBit b i) j = (i =? j)%nat || IsSet b j.
Proof. exact IsSet_SetBit. Qed.

(* a second save/load round changes nothing more: the stored form is stable *)
Lemma save_load_idem_gen b : bitmap_wf b ->
  let r := load_named load_table (save_named save_fields save_tags b) in
  load_named load_table (save_named save_fields save_tags r) = r.
Proof.
  intros Hb r. apply bitmap_ext.
  - apply load_named_wf.
  - apply load_named_wf.
  - intros i Hi. subst r. rewrite !save_load_bits_gen by exact Hi. now destruct (IsSet b i), (defined_bit i).
Qed.

Theorem C16_save_load_idempotent :
  forall b, bitmap_wf b ->
    let r := load_named load_table (save_named save_fields save_tags b) in
    load_named load_table (save_named save_fields save_tags r) = r.
Proof. exact save_load_idem_gen. Qed.

(* exactly the bitmaps made of defined privileges survive a save/load unchanged *)
Lemma save_load_fixed_iff_gen b : bitmap_wf b ->
  (load_named load_table (save_named save_fields save_tags b) = b <->
   forall i, (i < 64)%nat -> IsSet b i = true -> defined_bit i = true).
Proof.
  intros Hb. split.
  - intros E i Hi Hs. pose proof (save_load_bits_gen b i Hi) as H. rewrite E, Hs in H.
    cbn [andb] in H. now symmetry.
  - intros H. apply bitmap_ext; [apply load_named_wf | exact Hb |].
    intros i Hi. rewrite save_load_bits_gen by exact Hi.
    destruct (IsSet b i) eqn:Hs; [|reflexivity]. cbn [andb]. now apply H.
Qed.

Theorem C16_save_load_unchanged_iff_only_defined :
  forall b, bitmap_wf b ->
    (load_named load_table (save_named save_fields save_tags b) = b <->
     forall i, (i < 64)%nat -> IsSet b i = true -> defined_bit i = true).
Proof. exact save_load_fixed_iff_gen. Qed.

(* non-vacuity *)
Example C16_nonvacuous :
  load_named load_table (save_named save_fields save_tags [160;0;16;0;0;128;0;1]) = [160;0;0;0;0;128;0;0].
Proof. vm_compute. reflexivity. Qed.

Print Assumptions C16_save_load_preserves_defined_grants_no_other.
Print Assumptions C16_save_load_is_mask.
Print Assumptions C16_legacy_array_form_as_modelled.
Print Assumptions C16_legacy_equals_named.
Print Assumptions C16_names_match_protocol.
Print Assumptions C16_constants_are_protocol_numbers.
Print Assumptions C16_set_then_isset_same_numbering.
Print Assumptions C16_save_load_idempotent.
Print Assumptions C16_save_load_unchanged_iff_only_defined.
