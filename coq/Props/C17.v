(* C17 — Disconnects and bans are enforced at the door.  Property theorems only (models: Srv/Ban.v, Auth/Door.v). *)
From stdpp Require Import gmap.
From Coq Require Import NArith List.
From Verif Require Import Base.Bytes Srv.Accounts Auth.Door Auth.DoorProofs Srv.Ban Srv.BanProofs.
Local Open Scope N_scope.

(* After ANY history of connections, disconnect/ban requests, direct additions and restarts, whether an address
   is turned away at instant [now] is decided by the latest ban request for that address: permanent - always;
   temporary - exactly while now is before its expiry; none - never.  Restarts change nothing. *)
Theorem C17_refused_iff_latest_request :
  forall h ip now,
    verdict (w_bans (run world0 h).1) ip now = verdict_of_request (last_request ip (requests world0 h)) now.
Proof. exact verdict_after_history. Qed.

(* the ban a disconnect request records: 30 minutes from the request for option 1, unlimited for option 2,
   none otherwise - for the address of the disconnected connection *)
Theorem C17_kick_records_ban :
  forall w target now c,
    find_conn target (w_conns w) = Some c -> c_protected c = false ->
    request_of w (EKick target (Some 1) now) = Some (c_ip c, Some (now + BAN_DURATION)) /\
    request_of w (EKick target (Some 2) now) = Some (c_ip c, None) /\
    request_of w (EKick target None now) = None.
Proof. exact kick_records_ban. Qed.

(* a ban keeps the address out for its whole term whatever is requested later (later requests for the address
   not ending earlier - true when the clock does not run backwards); a permanent ban stands unless a later
   request for the same address replaces it *)
Theorem C17_ban_term_respected :
  forall ip qs1 u qs2 now,
    Forall (fun q => q.1 = ip -> match q.2 with None => True | Some u' => u <= u' end) qs2 ->
    now < u -> verdict_of_request (last_request ip (qs1 ++ (ip, Some u) :: qs2)) now <> Admit.
Proof. exact ban_term_respected. Qed.
Theorem C17_permanent_ban_stands :
  forall ip qs1 qs2 now,
    Forall (fun q => q.1 = ip -> q.2 = None) qs2 ->
    verdict_of_request (last_request ip (qs1 ++ (ip, None) :: qs2)) now = RefusePerm.
Proof. exact permanent_ban_stands. Qed.
(* once a temporary ban has expired the address can log in again *)
Theorem C17_expired_ban_lets_in :
  forall ip qs u now, last_request ip qs = Some (Some u) -> u <= now ->
    verdict_of_request (last_request ip qs) now = Admit.
Proof. exact expired_ban_lets_in. Qed.

(* every other address is unaffected *)
Theorem C17_other_addresses_unaffected :
  forall w e ip now, synced w -> (forall q, request_of w e = Some q -> q.1 <> ip) ->
    verdict (w_bans (step w e).1) ip now = verdict (w_bans w) ip now.
Proof. exact other_addresses_unaffected. Qed.

(* the refusal happens before any login is processed: for a banned address the outcome does not depend on the
   account table (credentials are never examined), and it is never a login *)
Theorem C17_refused_before_login :
  forall (db db' : gmap bytes pw) ban s,
    ban <> Admit -> door db ban s = door db' ban s /\ logged_in (door db ban s) = false.
Proof. exact door_banned_before_login. Qed.

(* the disconnect itself: the user's connection is gone and everybody else is told; a protected user stays *)
Theorem C17_kick_closes_and_tells_others :
  forall w target opt now c,
    find_conn target (w_conns w) = Some c -> c_protected c = false ->
    exists w', step w (EKick target opt now) = (w', OKicked (map c_tok (w_conns w'))) /\
               find_conn target (w_conns w') = None /\ w_conns w' = without target (w_conns w).
Proof. exact kick_closes_and_tells_others. Qed.
Theorem C17_protected_user_stays :
  forall w target opt now c,
    find_conn target (w_conns w) = Some c -> c_protected c = true -> step w (EKick target opt now) = (w, OKickDenied).
Proof. exact protected_user_stays. Qed.

(* non-vacuity: a history with a temporary and a permanent ban, a restart, and connections from three addresses *)
Definition ipA : bytes := [49]. Definition ipB : bytes := [50]. Definition ipC : bytes := [51].
Definition h1 : list ev :=
  [EConnect 1 ipA false 100; EConnect 2 ipB false 100; EConnect 3 ipC false 100;
   EKick 1 (Some 1) 1000; EKick 2 (Some 2) 1000; ERestart;
   EConnect 4 ipA false 2000; EConnect 5 ipB false 2000; EConnect 6 ipC false 2000;
   EConnect 7 ipA false (1000 + BAN_DURATION)].
Example C17_nonvacuous :
  (run world0 h1).2 = [OLetIn; OLetIn; OLetIn; OKicked [2; 3]; OKicked [3]; ONone;
                       ORefused false; ORefused true; OLetIn; OLetIn].
Proof. vm_compute. reflexivity. Qed.

Print Assumptions C17_refused_iff_latest_request.
Print Assumptions C17_kick_records_ban.
Print Assumptions C17_ban_term_respected.
Print Assumptions C17_permanent_ban_stands.
Print Assumptions C17_expired_ban_lets_in.
Print Assumptions C17_other_addresses_unaffected.
Print Assumptions C17_refused_before_login.
Print Assumptions C17_kick_closes_and_tells_others.
Print Assumptions C17_protected_user_stays.
