(* C20 — A crash never leaves persistent state torn.  Property theorems only (model: FS/Crash.v).
   Which system calls each update really issues is tied to the code on every run by the traced correspondence
   (harness/c20.go: strace of the real managers, compared call by call with these scripts). *)
From stdpp Require Import gmap.
From Coq Require Import NArith List.
From Verif Require Import Base.Bytes FS.Crash FS.CrashProofs.
Local Open Scope N_scope.

(* Message board post, threaded-news save, ban-list save: at EVERY crash point the store's file holds the complete
   old content or the complete new content, and no other file of the directory (but the temporary one) changes *)
Theorem C20_single_file_stores_atomic :
  forall (s : fs) p new k,
    let s' := crash_at k s (atomic_write p new) in
    (s' !! p = s !! p \/ s' !! p = Some new) /\ (forall q, q <> p -> q <> tmp_of p -> s' !! q = s !! q).
Proof. exact atomic_write_crash. Qed.
Theorem C20_scripts_are_atomic_writes :
  forall p new, board_post p new = atomic_write p new /\ news_save p new = atomic_write p new /\ ban_save p new = atomic_write p new.
Proof. intros; repeat split. Qed.
(* a change that was acknowledged (the update returned: all calls made) is on disk *)
Theorem C20_acknowledged_is_durable :
  forall (s : fs) p new k, (3 <= k)%nat -> crash_at k s (atomic_write p new) !! p = Some new.
Proof. exact atomic_write_durable. Qed.

(* Account creation: the account file is absent or complete at every crash point, never empty; an existing account
   is never overwritten *)
Theorem C20_account_create_atomic :
  forall (s : fs) f data k, s !! f = None ->
    let s' := crash_at k s (acct_create f data) in
    (s' !! f = None \/ s' !! f = Some data) /\ (forall q, q <> f -> q <> tmp_of f -> s' !! q = s !! q).
Proof. exact acct_create_crash. Qed.
Theorem C20_account_create_durable :
  forall (s : fs) f data k, s !! f = None -> (3 <= k)%nat -> crash_at k s (acct_create f data) !! f = Some data.
Proof. exact acct_create_durable. Qed.
Theorem C20_account_create_exclusive :
  forall (s : fs) f data old k, s !! f = Some old -> crash_at k s (acct_create f data) !! f = Some old.
Proof. exact acct_create_exclusive. Qed.

(* Account update, also under a new login: at every crash point the directory loads (every account file is a
   complete record) and holds exactly the old accounts or exactly the new accounts, as the loader - which reads the
   login from inside each file - sees them.  [key_of] is the YAML decoder (login of a complete record). *)
Theorem C20_account_update_atomic :
  forall (key_of : bytes -> option bytes) (live : bytes -> bool) (s : fs) fold fnew old data k,
    live fold = true -> live fnew = true -> live (tmp_of fold) = false ->
    s !! fold = Some old -> (fold <> fnew -> s !! fnew = None) ->
    key_of data <> None -> loads key_of live s ->
    let s' := crash_at k s (acct_update fold fnew data) in
    let s_new := apply s (acct_update fold fnew data) in
    loads key_of live s' /\ (same_accounts key_of live s' s \/ same_accounts key_of live s' s_new).
Proof. exact acct_update_crash. Qed.
Theorem C20_account_delete_atomic :
  forall (s : fs) f k, crash_at k s (acct_delete f) = s \/ crash_at k s (acct_delete f) = apply s (acct_delete f).
Proof. exact acct_delete_crash. Qed.

(* Why the scripts matter: writing the file in place (open with O_TRUNC, then write) - what the pinned tree did for
   the board's second write, the ban list and account updates - is refuted by the crash point between the two calls *)
Definition in_place_write (p data : bytes) : list sc := [ScCreate p; ScWrite p data].
Theorem C20_in_place_write_refuted :
  exists (s : fs) p old new k,
    s !! p = Some old /\ crash_at k s (in_place_write p new) !! p <> Some old /\
    crash_at k s (in_place_write p new) !! p <> Some new.
Proof.
  exists {[ [1] := [7] ]}, [1], [7], [8], 1%nat. vm_compute. repeat split; congruence.
Qed.

Example C20_nonvacuous :
  let s : fs := {[ [1] := [7] ]} in
  crash_at 2 s (atomic_write [1] [8]) !! [1] = Some [7] /\ crash_at 3 s (atomic_write [1] [8]) !! [1] = Some [8].
Proof. vm_compute. split; reflexivity. Qed.

Print Assumptions C20_single_file_stores_atomic.
Print Assumptions C20_scripts_are_atomic_writes.
Print Assumptions C20_acknowledged_is_durable.
Print Assumptions C20_account_create_atomic.
Print Assumptions C20_account_create_durable.
Print Assumptions C20_account_create_exclusive.
Print Assumptions C20_account_update_atomic.
Print Assumptions C20_account_delete_atomic.
Print Assumptions C20_in_place_write_refuted.
