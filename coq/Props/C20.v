(* C20 — A crash never leaves persistent state torn.  Property theorems only (model: FS/Crash.v).
   Which system calls each update really issues is tied to the code on every run by the traced correspondence
   (harness/c20.go: strace of the real managers, compared call by call with these scripts). *)
From stdpp Require Import gmap.
From Coq Require Import NArith List.
From Coq Require Import String.
From Verif Require Import Base.Bytes FS.Crash FS.CrashProofs FS.PersistSyntax FS.PersistSpec Gen.Persist.
Local Open Scope N_scope.

(* Message board post, threaded-news save, ban-list save: at EVERY crash point the store's file holds the complete
   old content or the complete new content, and no other file of the directory (but the temporary one) changes *)
Theorem C20_single_file_stores_atomic :
  forall (s : fs) p new k,
    let s' := crash_at k s (atomic_write p new) in
    (s' !! p = s !! p \/ s' !! p = Some new) /\ (forall q, q <> p -> q <> tmp_of p -> s' !! q = s !! q).
Proof. exact atomic_write_crash. Qed.
Theorem C20_scripts_are_atomic_writes :
  forall p new, board_post p new = atomic_write p new /\ news_save p new = atomic_write p new /\ ban_save p new = atomic_write p new.
Proof. intros; repeat split. Qed.
(* a change that was acknowledged (the update returned: all calls made) is on disk *)
Theorem C20_acknowledged_is_durable :
  forall (s : fs) p new k, (3 <= k)%nat -> crash_at k s (atomic_write p new) !! p = Some new.
Proof. exact atomic_write_durable. Qed.

(* Account creation: the account file is absent or complete at every crash point, never empty; an existing account
   is never overwritten *)
Theorem C20_account_create_atomic :
  forall (s : fs) f data k, s !! f = None ->
    let s' := crash_at k s (acct_create f data) in
    (s' !! f = None \/ s' !! f = Some data) /\ (forall q, q <> f -> q <> tmp_of f -> s' !! q = s !! q).
Proof. exact acct_create_crash. Qed.
Theorem C20_account_create_durable :
  forall (s : fs) f data k, s !! f = None -> (3 <= k)%nat -> crash_at k s (acct_create f data) !! f = Some data.
Proof. exact acct_create_durable. Qed.
Theorem C20_account_create_exclusive :
  forall (s : fs) f data old k, s !! f = Some old -> crash_at k s (acct_create f data) !! f = Some old.
Proof. exact acct_create_exclusive. Qed.

(* Account update, also under a new login: at every crash point the directory loads (every account file is a
   complete record) and holds exactly the old accounts or exactly the new accounts, as the loader - which reads the
   login from inside each file - sees them.  [key_of] is the YAML decoder (login of a complete record). *)
Theorem C20_account_update_atomic :
  forall (key_of : bytes -> option bytes) (live : bytes -> bool) (s : fs) fold fnew old data k,
    live fold = true -> live fnew = true -> live (tmp_of fold) = false ->
    s !! fold = Some old -> (fold <> fnew -> s !! fnew = None) ->
    key_of data <> None -> loads key_of live s ->
    let s' := crash_at k s (acct_update fold fnew data) in
    let s_new := apply s (acct_update fold fnew data) in
    loads key_of live s' /\ (same_accounts key_of live s' s \/ same_accounts key_of live s' s_new).
Proof. exact acct_update_crash. Qed.
(* ... and the one crash state of a login-changing update in which the record is not yet in the file of its login is
   repaired by the loader: what it does with the old file (rename it to the file of the login inside, when that is
   free) yields exactly the state of the completed update, does nothing at every other crash point, and always
   leaves a directory in which every account lives in the file of its login - so that later updates and deletions,
   which address the file by the login, act on the account's only file *)
Theorem C20_interrupted_rename_is_finished :
  forall (key_of : bytes -> option bytes) (live : bytes -> bool) (name_of : bytes -> bytes)
         (s : fs) fold fnew old data knew k,
    live fold = true -> live fnew = true -> live (tmp_of fold) = false ->
    s !! fold = Some old -> fold <> fnew -> s !! fnew = None ->
    key_of data = Some knew -> fnew = name_of knew -> key_of old <> None -> well_named key_of live name_of s ->
    let U := acct_update fold fnew data in
    recover1 key_of name_of (crash_at k s U) fold = (if Nat.eqb k 3 then apply s U else crash_at k s U) /\
    well_named key_of live name_of (recover1 key_of name_of (crash_at k s U) fold).
Proof. exact acct_update_recovered. Qed.
Theorem C20_account_delete_atomic :
  forall (s : fs) f k, crash_at k s (acct_delete f) = s \/ crash_at k s (acct_delete f) = apply s (acct_delete f).
Proof. exact acct_delete_crash. Qed.

(* Why the scripts matter: writing the file in place (open with O_TRUNC, then write) - what the pinned tree did for
   the board's second write, the ban list and account updates - is refuted by the crash point between the two calls *)
Definition in_place_write (p data : bytes) : list sc := [ScCreate p; ScWrite p data].
Theorem C20_in_place_write_refuted :
  exists (s : fs) p old new k,
    s !! p = Some old /\ crash_at k s (in_place_write p new) !! p <> Some old /\
    crash_at k s (in_place_write p new) !! p <> Some new.
Proof.
  exists {[ [1] := [7] ]}, [1], [7], [8], 1%nat. vm_compute. repeat split; congruence.
Qed.

(* ---- the scripts are the source's: Gen/Persist.v is REGENERATED from internal/mobius/*.go on every run ----
   Exactly these functions of internal/mobius call anything that changes the file system ... *)
Theorem C20_only_known_functions_touch_the_file_system : map fst persist_calls = persist_functions.
Proof. vm_compute. reflexivity. Qed.
(* ... the shared helper is the atomic write of the model, for every value of its arguments ... *)
Theorem C20_writeFileAtomic_is_atomic_write :
  exists pe de, forall rho gamma,
    derive rho gamma (calls_of "writeFileAtomic" persist_calls) = Some (atomic_write (eval rho pe) (eval rho de)).
Proof. exists (PVar "path"), (PVar "data"). intros rho gamma. reflexivity. Qed.
(* ... and each persistent-state update issues, call for call, the script its crash theorem is about: for every
   value of the source expressions (rho) and every outcome of the conditions (gamma).  The rename of an account
   file happens exactly when the login changes; that the two paths differ exactly then is the hypothesis. *)
Theorem C20_sources_issue_the_modelled_scripts :
  (exists pe de, forall rho gamma,
     derive rho gamma (calls_of "FlatNews.Write" persist_calls) = Some (board_post (eval rho pe) (eval rho de))) /\
  (exists pe de, forall rho gamma,
     derive rho gamma (calls_of "ThreadedNewsYAML.writeFile" persist_calls) = Some (news_save (eval rho pe) (eval rho de))) /\
  (exists pe de, forall rho gamma,
     derive rho gamma (calls_of "BanFile.Add" persist_calls) = Some (ban_save (eval rho pe) (eval rho de))) /\
  (exists pe de, forall rho gamma,
     derive rho gamma (calls_of "YAMLAccountManager.Create" persist_calls) = Some (acct_create (eval rho pe) (eval rho de))) /\
  (exists pe, forall rho gamma,
     derive rho gamma (calls_of "YAMLAccountManager.Delete" persist_calls) = Some (acct_delete (eval rho pe))) /\
  (exists po pn de g, forall rho gamma,
     gamma g = negb (bool_decide (eval rho po = eval rho pn)) ->
     derive rho gamma (calls_of "YAMLAccountManager.Update" persist_calls) =
       Some (acct_update (eval rho po) (eval rho pn) (eval rho de))).
Proof.
  split; [exists (PVar "f.filePath"), (PVar "f.data"); intros; reflexivity|].
  split; [exists (PVar "n.filePath"), (PVar "out"); intros; reflexivity|].
  split; [exists (PVar "filepath.Join(bf.filePath)"), (PVar "out"); intros; reflexivity|].
  split; [exists (PVar "accountPath"), (PVar "b"); intros; reflexivity|].
  split; [eexists; intros; reflexivity|].
  exists (PVar "oldPath"), (PVar "newPath"), (PVar "out"), "oldLogin != newLogin"%string. intros rho gamma Hg.
  unfold acct_update. cbn in Hg |- *. rewrite Hg.
  destruct (bool_decide (rho "oldPath"%string = rho "newPath"%string)); reflexivity.
Qed.

Theorem C20_loader_only_finishes_moves : calls_of "NewYAMLAccountManager" persist_calls = loader_calls.
Proof. vm_compute. reflexivity. Qed.

Example C20_nonvacuous :
  let s : fs := {[ [1] := [7] ]} in
  crash_at 2 s (atomic_write [1] [8]) !! [1] = Some [7] /\ crash_at 3 s (atomic_write [1] [8]) !! [1] = Some [8].
Proof. vm_compute. split; reflexivity. Qed.

Print Assumptions C20_single_file_stores_atomic.
Print Assumptions C20_scripts_are_atomic_writes.
Print Assumptions C20_acknowledged_is_durable.
Print Assumptions C20_account_create_atomic.
Print Assumptions C20_account_create_durable.
Print Assumptions C20_account_create_exclusive.
Print Assumptions C20_account_update_atomic.
Print Assumptions C20_account_delete_atomic.
Print Assumptions C20_in_place_write_refuted.
Print Assumptions C20_only_known_functions_touch_the_file_system.
Print Assumptions C20_writeFileAtomic_is_atomic_write.
Print Assumptions C20_sources_issue_the_modelled_scripts.
Print Assumptions C20_interrupted_rename_is_finished.
Print Assumptions C20_loader_only_finishes_moves.
