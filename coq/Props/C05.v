(* C05 — Every privileged effect requires the governing privilege.  Property theorems only.
   handler_guards and registered are REGENERATED from internal/mobius/transaction_handlers.go on every run. *)
From Coq Require Import List String NArith Bool.
From Verif Require Import Base.Bytes Auth.Access Auth.AccessProofs Auth.GuardSpec Auth.Batch Auth.BatchProofs Gen.Handlers Gen.AccessTables.
Import ListNotations.

Definition set_eqb (x y : list string) : bool :=
  forallb (fun a => existsb (String.eqb a) y) x && forallb (fun a => existsb (String.eqb a) x) y.
Fixpoint assoc_s {B} (k : string) (l : list (string * B)) : option B :=
  match l with [] => None | (k', v) :: r => if String.eqb k' k then Some v else assoc_s k r end.

(* every handler tests exactly the privileges the reference table assigns to it: no check dropped, no wrong
   constant, no extra check - for all 43 handlers found in the source *)
Definition guards_ok : bool :=
  forallb (fun h => match assoc_s (fst h) handler_guard_spec with
                    | Some spec => set_eqb (snd h) spec
                    | None => false end) handler_guards &&
  forallb (fun h => match assoc_s (fst h) handler_guards with Some _ => true | None => false end) handler_guard_spec.
Theorem C05_guards_match_spec : guards_ok = true.
Proof. vm_compute. reflexivity. Qed.

(* every registered transaction type has a handler that the table covers (43 registrations) *)
Theorem C05_every_registered_handler_specified :
  forallb (fun r => match assoc_s (snd r) handler_guard_spec with Some _ => true | None => false end) registered = true
  /\ List.length registered = 43%nat.
Proof. vm_compute. split; reflexivity. Qed.

(* the privileges of every request class are among the constants its handler tests, with the protocol's numbers *)
Definition class_ok (e : nat * string * list nat) : bool :=
  match assoc_s (snd (fst e)) handler_guards with
  | Some gs => forallb (fun p => existsb (fun g => match assoc_s g access_consts with
                                                   | Some n => Nat.eqb n p | None => false end) gs) (snd e)
  | None => false
  end.
Theorem C05_class_privileges_are_tested_by_their_handler : forallb class_ok class_table = true.
Proof. vm_compute. reflexivity. Qed.

(* the decision, for ALL 2^64 bitmaps: a request is refused exactly when a governing privilege is missing ... *)
Theorem C05_denied_iff_privilege_missing :
  forall (b : bitmap) (cls : N), permit b cls = false <-> exists p, In p (governing cls) /\ IsSet b p = false.
Proof.
  intros b cls. unfold permit. split.
  - intros H. induction (governing cls) as [|p l IH]; [discriminate|]. cbn in H.
    destruct (IsSet b p) eqn:E.
    + destruct (IH H) as (q & Hq & Hb). exists q. split; [now right|exact Hb].
    + exists p. split; [now left|exact E].
  - intros (p & Hin & Hb). destruct (forallb (IsSet b) (governing cls)) eqn:E; [|reflexivity].
    rewrite forallb_forall in E. rewrite (E p Hin) in Hb. discriminate.
Qed.
(* ... and is never refused for lack of privilege when they are all held *)
Theorem C05_never_refused_when_held :
  forall (b : bitmap) (cls : N), (forall p, In p (governing cls) -> IsSet b p = true) -> permit b cls = true.
Proof. intros b cls H. unfold permit. apply forallb_forall. exact H. Qed.

(* the display-name privilege: the name is adopted iff bit 26 is held; there is no error either way *)
Theorem C05_anyname_not_adopted_without_privilege :
  forall b supplied current, IsSet b 26 = false -> adopted_name b supplied current = current.
Proof. intros b s c H. unfold adopted_name. now rewrite H. Qed.

(* field contents: the upload-folder and drop-box rules are judged on the directory the path field RESOLVES to
   (the one ReadPath opens), for all item lists - "." / ".." items, separators inside items, any declared count *)
Theorem C05_dropbox_listing_needs_privilege :
  forall (b : bitmap) (declared : N) (items : list bytes),
    declared <> 0%N -> dir_is W_DROPBOX items = true -> IsSet b 30 = false -> may_list b declared items = false.
Proof.
  intros b d items Hd Hk Hb. unfold may_list, impl_dir_is. destruct (N.eqb_spec d 0); [contradiction|].
  unfold dir_is in Hk. rewrite Hk, Hb. reflexivity.
Qed.
Theorem C05_upload_elsewhere_needs_privilege :
  forall (b : bitmap) (declared : N) (items : list bytes),
    dir_is W_UPLOAD items = false -> dir_is W_DROPBOX items = false -> IsSet b 25 = false ->
    may_upload_to b declared items = false.
Proof.
  intros b d items Hu Hx Hb. unfold may_upload_to, impl_dir_is, dir_is in *. rewrite Hb, Hu, Hx.
  destruct (N.eqb d 0); reflexivity.
Qed.
Theorem C05_upload_folder_never_refused :
  forall (b : bitmap) (declared : N) (items : list bytes),
    declared <> 0%N -> (dir_is W_UPLOAD items = true \/ dir_is W_DROPBOX items = true) -> may_upload_to b declared items = true.
Proof.
  intros b d items Hd Hk. unfold may_upload_to, impl_dir_is, dir_is in *. destruct (N.eqb_spec d 0); [contradiction|].
  destruct Hk as [-> | ->]; destruct (IsSet b 25); cbn; rewrite ?orb_true_r; reflexivity.
Qed.
Example C05_paths_nonvacuous :
  dir_is W_DROPBOX [[68;114;111;112;32;66;111;120]; [46]] = true /\                       (* "Drop Box", "." *)
  dir_is W_UPLOAD [[85;112;108;111;97;100;115;47;46;46;47;100;101;115;116]] = false /\     (* "Uploads/../dest" *)
  dir_is W_UPLOAD [[100;101;115;116]; [46;46]; [85;112;108;111;97;100;115]] = true.        (* "dest", "..", "Uploads" *)
Proof. vm_compute. repeat split. Qed.

(* batched account edits (one UpdateUser transaction with several sub-records, possibly naming the same login):
   for ALL bitmaps, tables and batches, every edit that is applied held the privilege governing the effect it has on
   the table as the earlier edits of the batch left it (create / modify / delete), the resulting table is the
   initial one changed by exactly those edits, logins no edit names are untouched, a refusal means the next edit
   lacked its privilege, and with the three privileges held no batch is refused *)
Theorem C05_batched_edits_each_hold_their_privilege :
  forall b es t t' e, In (t', e) (applied b t es) -> IsSet b (governing_edit t' e) = true.
Proof. exact applied_privileged. Qed.
Theorem C05_batch_changes_exactly_the_privileged_edits :
  forall b es t, fst (run_batch b t es) = fold_left apply_edit (map snd (applied b t es)) t /\
                 (exists rest, es = map snd (applied b t es) ++ rest) /\
                 forall l, (forall e, In e es -> edit_login e <> l) -> lookup (fst (run_batch b t es)) l = lookup t l.
Proof. intros b es t. split; [apply run_is_applied|]. split; [apply applied_prefix|]. intros l. apply batch_frame. Qed.
Theorem C05_batch_refused_iff_next_edit_lacks_privilege :
  forall b es t, snd (run_batch b t es) = Refused <->
    exists pre e post, es = pre ++ e :: post /\ pre = map snd (applied b t es) /\
                       IsSet b (governing_edit (fold_left apply_edit pre t) e) = false.
Proof. exact refused_iff. Qed.
Theorem C05_batch_never_refused_when_held :
  forall b, IsSet b ACCESS_CREATE_USER = true -> IsSet b ACCESS_DELETE_USER = true -> IsSet b ACCESS_MODIFY_USER = true ->
    forall es t, snd (run_batch b t es) <> Refused.
Proof. exact never_refused_when_held. Qed.
Example C05_batch_nonvacuous :   (* create-only account: creating login 5 and then editing it again is refused *)
  run_batch [0;2;0;0;0;0;0;0] [] [EUpsert 5 1; EUpsert 5 2] = ([(5, 1)]%N, Refused) /\
  IsSet [0;2;0;0;0;0;0;0] ACCESS_CREATE_USER = true.
Proof. vm_compute. split; reflexivity. Qed.

Example C05_nonvacuous : permit [127;255;255;255;255;255;255;255] 3 = false /\ permit [128;0;0;0;0;0;0;0] 3 = true /\
  governing 16 = [1; 25]%nat.
Proof. vm_compute. repeat split. Qed.

Print Assumptions C05_guards_match_spec.
Print Assumptions C05_class_privileges_are_tested_by_their_handler.
Print Assumptions C05_denied_iff_privilege_missing.
Print Assumptions C05_never_refused_when_held.
Print Assumptions C05_dropbox_listing_needs_privilege.
Print Assumptions C05_upload_elsewhere_needs_privilege.
Print Assumptions C05_upload_folder_never_refused.
Print Assumptions C05_batched_edits_each_hold_their_privilege.
Print Assumptions C05_batch_changes_exactly_the_privileged_edits.
Print Assumptions C05_batch_refused_iff_next_edit_lacks_privilege.
Print Assumptions C05_batch_never_refused_when_held.
