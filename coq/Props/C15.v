(* C15 — Accounts: what can log in = what is listed = what is on disk.  Property theorems only. *)
From stdpp Require Import gmap.
From Coq Require Import NArith List.
From Verif Require Import Srv.Accounts Srv.AccountsProofs.
Import ListNotations.
Local Open Scope N_scope.

(* After ANY sequence of new-user, set-user, batched update-user (create / modify / rename / delete mixed),
   delete-user and restarts, starting from a consistent state: the account files are exactly the in-memory
   accounts (same logins, names, password hashes; privileges = the 40 named ones the file format can express,
   C16); a restart reproduces them; a login is listed iff its file exists; a (login, password) authenticates
   iff the account file for that login exists and its stored hash verifies the password - before and after
   a restart. *)
Theorem C15_login_listed_disk_agree :
  forall h s0, consistent s0 ->
    let s := arun s0 h in
    disk s = mask_acct <$> mem s /\
    mem (reload s) = mask_acct <$> mem s /\
    (forall l, is_Some (mem s !! l) <-> is_Some (disk s !! l)) /\
    (forall l p, can_login s l p = true <-> exists a, disk s !! l = Some a /\ verify (a_pw a) p = true) /\
    (forall l p, can_login (reload s) l p = can_login s l p).
Proof. exact login_listed_disk. Qed.

Theorem C15_consistency_is_invariant : forall h s, consistent s -> consistent (arun s h).
Proof. exact arun_consistent. Qed.

Theorem C15_deleted_cannot_login :
  forall s l s' p, delete_user s l = (s', Replied) -> can_login s' l p = false.
Proof. exact deleted_cannot_login. Qed.

Theorem C15_rename_old_gone_new_present :
  forall s a newl s', a_login a <> newl -> update s a newl = Some s' ->
    mem s' !! a_login a = None /\ mem s' !! newl = Some (with_login a newl) /\
    disk s' !! a_login a = None /\ disk s' !! newl = Some (mask_acct (with_login a newl)) /\
    (forall p, can_login s' (a_login a) p = false) /\
    (forall p, can_login s' newl p = verify (a_pw a) p).
Proof. exact renamed_old_gone_new_present. Qed.

(* absent password field clears it, the single zero byte leaves it alone, anything else sets it *)
Theorem C15_password_rules :
  forall old, new_pw old None = hash [] /\ new_pw old (Some [0]) = old /\
    forall p, p <> [0] -> new_pw old (Some p) = hash p.
Proof. exact password_rules. Qed.
(* a stored hash verifies exactly the passwords with the same 72-byte bcrypt key (the password itself, and
   nothing else among NUL-free passwords of at most 71 bytes) *)
Theorem C15_hash_verifies_exactly_its_key :
  forall p q, (length p <= 72)%nat -> verify (hash p) q = bool_decide (key72 p = key72 q).
Proof. exact hash_verifies. Qed.
Theorem C15_hash_verifies_own_password : forall p, (length p <= 72)%nat -> verify (hash p) p = true.
Proof. exact hash_verifies_own. Qed.

Theorem C15_edit_touches_only_its_account :
  forall s l n p a k, consistent s -> k <> l -> mem (set_user s l n p a).1 !! k = mem s !! k.
Proof. exact set_user_frame. Qed.

(* the pinned Update is refuted *)
Theorem C15_pinned_rename_refuted :
  exists s1 s2, create (mk_am ∅ ∅) alice = Some s1 /\ update_pinned s1 alice [98] = Some s2 /\
                can_login s2 [97] [1] = true /\ disk s2 !! [97] = None.
Proof. exact pinned_rename_keeps_old_login. Qed.

Example C15_nonvacuous : consistent (mk_am ∅ ∅) /\
  (arun (mk_am ∅ ∅) [ONew [97] [65] (Some [1]) [255]; OUpdate [SubEdit (Some [97]) [98] [66] (Some [0]) None]; OReload]).(mem) !! [98]
  = Some (mk_acct [98] [66] (PwHash [1]) [255;0;0;0;0;0;0;0]).
Proof.
  split; [|vm_compute; reflexivity].
  split; [cbn; by rewrite fmap_empty|split; intros l x H; cbn in H; by rewrite lookup_empty in H].
Qed.

Print Assumptions C15_login_listed_disk_agree.
Print Assumptions C15_deleted_cannot_login.
Print Assumptions C15_rename_old_gone_new_present.
Print Assumptions C15_password_rules.
