(* C01 — Wire format fidelity of every protocol object.
   Only property theorems (closed by [exact]) and their assumptions.
   layout_T   : the code's encoder emits exactly the protocol document's layout on well-formed values
   prefixes_T : the REFERENCE decoder, which trusts every length/size/count prefix, recovers the object from
                the layout followed by arbitrary bytes => every prefix equals the bytes that follow
   roundtrip_T: the code's decoder applied to the code's encoding yields the original object
   drain      : stated over the reader shapes REGENERATED from hotline/*.go on every run *)
From Verif Require Import Base.Bytes Lib.Reader Lib.ReaderProofs Wire.Parse Wire.Types Wire.Impl Wire.Proofs
  Gen.ReaderShapes.
From Coq Require Import String.

(* ---- Field ---- *)
Theorem C01_layout_field : forall f, field_wf f -> impl_bytes_field f = spec_enc_field f.
Proof. exact impl_spec_field. Qed.
Theorem C01_prefixes_field : forall f r, field_wf f -> spec_dec_field (spec_enc_field f ++ r) = Some (f, r).
Proof. exact spec_dec_enc_field. Qed.
Theorem C01_roundtrip_field : forall f, field_wf f -> impl_dec_field (impl_bytes_field f) = Ok f.
Proof. exact impl_dec_enc_field. Qed.
Theorem C01_NewField_wf : forall t d, t < 65536 -> len d < 65536 -> bytes_ok d -> field_wf (NewField t d).
Proof. exact NewField_wf. Qed.

(* ---- Transaction ---- *)
Theorem C01_layout_transaction : forall t, tran_wf t -> impl_bytes_tran t = spec_enc_tran t.
Proof. exact impl_spec_tran. Qed.
Theorem C01_prefixes_transaction : forall t r, tran_wf t -> spec_dec_tran (spec_enc_tran t ++ r) = Some (t, r).
Proof. exact spec_dec_enc_tran. Qed.
Theorem C01_roundtrip_transaction : forall t, tran_wf t -> impl_dec_tran (impl_bytes_tran t) = Ok t.
Proof. exact impl_dec_enc_tran. Qed.

(* ---- User ---- *)
Theorem C01_layout_user : forall u, user_wf u -> impl_bytes_user u = spec_enc_user u.
Proof. exact impl_spec_user. Qed.
Theorem C01_prefixes_user : forall u r, user_wf u -> spec_dec_user (spec_enc_user u ++ r) = Some (u, r).
Proof. exact spec_dec_enc_user. Qed.
Theorem C01_roundtrip_user : forall u, user_wf u -> impl_dec_user (impl_bytes_user u) = Ok u.
Proof. exact impl_dec_enc_user. Qed.

(* ---- File name with info ---- *)
Theorem C01_layout_fnwi : forall x, fnwi_wf x -> impl_bytes_fnwi x = spec_enc_fnwi x.
Proof. exact impl_spec_fnwi. Qed.
Theorem C01_prefixes_fnwi : forall x r, fnwi_wf x -> spec_dec_fnwi (spec_enc_fnwi x ++ r) = Some (x, r).
Proof. exact spec_dec_enc_fnwi. Qed.
Theorem C01_roundtrip_fnwi : forall x, fnwi_wf x -> impl_dec_fnwi (impl_bytes_fnwi x) = Ok x.
Proof. exact impl_dec_enc_fnwi. Qed.

(* ---- File path and folder item header ---- *)
Theorem C01_layout_path : forall items, Forall path_item_wf items -> impl_enc_path items = spec_enc_path items.
Proof. exact impl_spec_path. Qed.
Theorem C01_prefixes_path : forall items r, Forall path_item_wf items -> len items < 65536 ->
  spec_dec_path (spec_enc_path items ++ r) = Some (items, r).
Proof. exact spec_dec_enc_path. Qed.
Theorem C01_roundtrip_path : forall items, Forall path_item_wf items -> len items < 65536 -> items <> [] ->
  impl_dec_path (impl_enc_path items) = Ok (len items, items).
Proof. exact impl_dec_enc_path. Qed.
Theorem C01_NewFileHeader_wf : forall items d, Forall path_item_wf items -> len items < 65536 ->
  len (spec_enc_path items) + 2 < 65536 -> fh_wf (NewFileHeader items d).
Proof. exact NewFileHeader_wf. Qed.
Theorem C01_layout_file_header : forall h, fh_wf h -> impl_bytes_fh h = spec_enc_fh h.
Proof. exact impl_spec_fh. Qed.
Theorem C01_prefixes_file_header : forall h r, fh_wf h -> spec_dec_fh (spec_enc_fh h ++ r) = Some (h, r).
Proof. exact spec_dec_enc_fh. Qed.

(* ---- File resume data ---- *)
Theorem C01_layout_resume : forall x, rd_wf x -> impl_bytes_rd x = spec_enc_rd x.
Proof. exact impl_spec_rd. Qed.
Theorem C01_prefixes_resume : forall x r, rd_wf x -> spec_dec_rd (spec_enc_rd x ++ r) = Some (x, r).
Proof. exact spec_dec_enc_rd. Qed.
Theorem C01_roundtrip_resume : forall x, rd_wf x -> impl_dec_rd (impl_bytes_rd x) = Ok x.
Proof. exact impl_dec_enc_rd. Qed.
Theorem C01_NewFileResumeData_wf : forall forks, len forks < 256 -> Forall fork_wf forks -> rd_wf (NewFileResumeData forks).
Proof. exact NewFileResumeData_wf. Qed.

(* ---- Information fork and flattened file object ---- *)
Theorem C01_layout_info_fork : forall x, ifork_wf x -> impl_bytes_ifork x = spec_enc_ifork x.
Proof. exact impl_spec_ifork. Qed.
Theorem C01_prefixes_info_fork : forall x r, ifork_wf x -> spec_dec_ifork (spec_enc_ifork x ++ r) = Some (x, r).
Proof. exact spec_dec_enc_ifork. Qed.
Theorem C01_roundtrip_info_fork : forall x, ifork_wf x -> impl_dec_ifork (impl_bytes_ifork x) = Ok x.
Proof. exact impl_dec_enc_ifork. Qed.
Theorem C01_layout_ffo : forall x, ffo_wf x -> impl_bytes_ffo x = spec_enc_ffo x.
Proof. exact impl_spec_ffo. Qed.
(* includes: the INFO fork header's size field equals the length of the information fork that follows *)
Theorem C01_prefixes_ffo : forall x r, ffo_wf x -> spec_dec_ffo (spec_enc_ffo x ++ r) = Some (x, r).
Proof. exact spec_dec_enc_ffo. Qed.
Theorem C01_roundtrip_ffo : forall x r, ffo_wf x -> impl_dec_ffo (impl_bytes_ffo x ++ r) = Ok (x, r).
Proof. exact impl_dec_enc_ffo. Qed.

(* ---- News records ---- *)
Theorem C01_layout_article : forall a, art_wf a -> impl_bytes_art a = spec_enc_art a.
Proof. exact impl_spec_art. Qed.
Theorem C01_prefixes_article : forall a r, art_wf a -> spec_dec_art (spec_enc_art a ++ r) = Some (a, r).
Proof. exact spec_dec_enc_art. Qed.
Theorem C01_layout_article_list : forall l, al_wf l -> impl_bytes_al l = spec_enc_al l.
Proof. exact impl_spec_al. Qed.
Theorem C01_prefixes_article_list : forall l r, al_wf l -> spec_dec_al (spec_enc_al l ++ r) = Some (l, r).
Proof. exact spec_dec_enc_al. Qed.
Theorem C01_layout_category : forall c, cat_wf c -> impl_bytes_cat c = spec_enc_cat c.
Proof. exact impl_spec_cat. Qed.
Theorem C01_prefixes_category : forall c r, cat_wf c -> spec_dec_cat (spec_enc_cat c ++ r) = Some (c, r).
Proof. exact spec_dec_enc_cat. Qed.

(* ---- Tracker registration, list-users record ---- *)
Theorem C01_layout_tracker : forall t, tr_wf t -> impl_bytes_tr t = spec_enc_tr t.
Proof. exact impl_spec_tr. Qed.
Theorem C01_prefixes_tracker : forall t r, tr_wf t -> spec_dec_tr (spec_enc_tr t ++ r) = Some (t, r).
Proof. exact spec_dec_enc_tr. Qed.
Theorem C01_layout_account : forall a, acc_wf a -> impl_bytes_acc a = spec_enc_acc a.
Proof. exact impl_spec_acc. Qed.
Theorem C01_prefixes_account : forall a r, acc_wf a -> spec_dec_acc (spec_enc_acc a ++ r) = Some (a, r).
Proof. exact spec_dec_enc_acc. Qed.

(* ---- Draining: every encoder of package hotline, every script of buffer sizes >= 1 ---- *)
Definition is_shapeA (s : shape) : bool := match s with ShapeA => true | _ => false end.

(* finite obligation on the generated table (one entry per Read method of package hotline) *)
Lemma all_readers_shapeA : forallb (fun e => is_shapeA (snd e)) reader_shapes = true.
Proof. vm_compute. reflexivity. Qed.

Lemma drain_generated (name : string) (sh : shape) (buf : list N) (script : list nat) :
  In (name, sh) reader_shapes -> Forall (fun k => (1 <= k)%nat) script ->
  (List.length buf < List.length script)%nat -> drain sh buf 0 script = Done buf.
Proof.
  intros Hin Hs Hl. pose proof all_readers_shapeA as H. rewrite forallb_forall in H.
  specialize (H _ Hin). cbn in H. destruct sh; try discriminate. now apply shapeA_drain_all.
Qed.

(* For every Read method the translator finds in package hotline, whatever bytes the object encodes to, and
   whatever sequence of caller buffer sizes >= 1: the drained bytes are exactly those bytes and the drain
   ends within |buf| + 1 reads. *)
Theorem C01_drain_any_script :
  forall (name : string) (sh : shape) (buf : list N) (script : list nat),
    In (name, sh) reader_shapes -> Forall (fun k => (1 <= k)%nat) script ->
    (List.length buf < List.length script)%nat -> drain sh buf 0 script = Done buf.
Proof. exact drain_generated. Qed.

(* the types this file proves layouts for are the ones that have a Read method (names as in the Go code) *)
Definition modelled_readers : list string :=
  ["Account"; "Field"; "FileHeader"; "FileNameWithInfo"; "FlatFileInformationFork"; "NewsArtList";
   "NewsArtListData"; "NewsCategoryListData15"; "TrackerRegistration"; "Transaction"; "User";
   "flattenedFileObject"]%string.
Theorem C01_every_reader_is_modelled :
  forallb (fun e => existsb (String.eqb (fst e)) modelled_readers) reader_shapes = true.
Proof. vm_compute. reflexivity. Qed.

(* ---- non-vacuity ---- *)
Example C01_nonvacuous_tran :
  let t := mk_tran 0 1 107 7 0 [NewField 101 [104; 105]; NewField 102 []; NewField 160 [0; 190]] in
  impl_bytes_tran t = [0;1;0;107;0;0;0;7;0;0;0;0;0;0;0;18;0;0;0;18;0;3;0;101;0;2;104;105;0;102;0;0;0;160;0;2;0;190]
  /\ impl_dec_tran (impl_bytes_tran t) = Ok t.
Proof. vm_compute. split; reflexivity. Qed.
Example C01_nonvacuous_drain :
  drain ShapeA [1;2;3;4;5;6;7] 0 [3;1;2;5;1;1;1;1]%nat = Done [1;2;3;4;5;6;7].
Proof. reflexivity. Qed.

Print Assumptions C01_layout_field. Print Assumptions C01_prefixes_field. Print Assumptions C01_roundtrip_field.
Print Assumptions C01_layout_transaction. Print Assumptions C01_prefixes_transaction.
Print Assumptions C01_roundtrip_transaction. Print Assumptions C01_roundtrip_ffo.
Print Assumptions C01_prefixes_ffo. Print Assumptions C01_drain_any_script.
