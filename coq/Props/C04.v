(* C04 — Nothing is served before a successful login.  Property theorems only (model: Auth/Door.v). *)
From stdpp Require Import gmap.
From Coq Require Import NArith List.
From Verif Require Import Base.Bytes Lib.Scanner Wire.Types Wire.Impl Net.Session Srv.Accounts Auth.Door Auth.DoorProofs.
Local Open Scope N_scope.

(* A connection is logged in EXACTLY when: its first 12 bytes are a TRTP/HOTL handshake, the address is not
   banned, a complete first transaction follows and decodes, and the account it names (empty login: guest)
   exists and its stored password verifies the offered one.  For every account table and every byte string. *)
Theorem C04_logged_in_iff :
  forall (db : gmap bytes pw) ban s l t d,
    door db ban s = OutLoggedIn l t d <->
    exists hs tok rest,
      cv_handshake (control_bytes s) = Some hs /\ impl_handshake_ok hs = true /\ ban = Admit /\
      cv_tokens (control_bytes s) = tok :: rest /\ impl_dec_tran tok = Ok t /\
      credentials_ok db t = true /\ l = effective_login t /\ d = dispatch rest.
Proof. exact door_logged_in_iff. Qed.
Theorem C04_credentials :
  forall (db : gmap bytes pw) t,
    credentials_ok db t = true <->
    exists h, db !! effective_login t = Some h /\ verify h (offered_password t) = true.
Proof. exact credentials_ok_iff. Qed.
(* ... and "verifies" means "is that password", for all NUL-free byte strings up to bcrypt's 72-byte limit
   (bcrypt abstracted to its 72 bytes of key material) *)
Theorem C04_only_the_current_password :
  forall p q, nulfree p -> nulfree q -> (List.length p <= 72)%nat -> (List.length q <= 72)%nat ->
    (verify (hash p) q = true <-> p = q).
Proof. exact verify_exact. Qed.

(* Until then nothing is executed or answered: no request reaches a handler, the connection never appears in
   the client registry (so nobody else hears of it), and all it ever receives is nothing, the handshake reply,
   or the handshake reply followed by ONE error reply or ONE ban notice. *)
Theorem C04_nothing_before_login :
  forall (db : gmap bytes pw) ban s,
    logged_in (door db ban s) = false ->
    served (door db ban s) = [] /\ registered (door db ban s) = false /\
    (to_peer (door db ban s) = [] \/ to_peer (door db ban s) = HS_REPLY \/
     (exists id, to_peer (door db ban s) = HS_REPLY ++ err_reply id) \/
     (exists p, to_peer (door db ban s) = HS_REPLY ++ ban_notice p)).
Proof. exact not_logged_in_quiet. Qed.

(* Whatever an unauthenticated peer appends after its login attempt changes nothing *)
Theorem C04_appended_requests_ignored :
  forall (db : gmap bytes pw) ban hs body tok rest x,
    List.length hs = 12%nat -> try_split body = Tok tok rest ->
    logged_in (door db ban (hs ++ body)) = false ->
    door db ban (hs ++ body ++ x) = door db ban (hs ++ body).
Proof. exact door_ignores_what_follows. Qed.
Theorem C04_appended_after_short_token_ignored :
  forall (db : gmap bytes pw) ban hs body tok x,
    List.length hs = 12%nat -> try_split body = Stop tok ->
    door db ban (hs ++ body ++ x) = door db ban (hs ++ body).
Proof. exact door_ignores_after_stop. Qed.

(* No valid handshake: not a single byte is written, whatever follows *)
Theorem C04_bad_handshake_gets_nothing :
  forall (db : gmap bytes pw) ban hs body,
    List.length hs = 12%nat -> impl_handshake_ok hs = false -> door db ban (hs ++ body) = OutNothing.
Proof. exact door_bad_handshake. Qed.
Theorem C04_short_handshake_gets_nothing :
  forall (db : gmap bytes pw) ban s, (List.length s < 12)%nat -> door db ban s = OutNothing.
Proof. exact door_short_handshake. Qed.

(* non-vacuity: a stream that logs in as guest and has its keep-alive dispatched; one that is refused *)
Definition hs_ok : bytes := TRTP ++ HOTL ++ [0; 1; 0; 2].
Definition login_guest : bytes := impl_bytes_tran (mk_tran 0 0 107 1 0 []).
Definition keepalive : bytes := impl_bytes_tran (mk_tran 0 0 500 2 0 []).
Definition db1 : gmap bytes pw := {[ GUEST := hash [] ]}.
Example C04_nonvacuous :
  (exists l t, door db1 Admit (hs_ok ++ login_guest ++ keepalive) = OutLoggedIn l t [mk_tran 0 0 500 2 0 []]) /\
  door (∅ : gmap bytes pw) Admit (hs_ok ++ login_guest ++ keepalive) = OutRefused 1.
Proof. split; [eexists _, _|]; vm_compute; reflexivity. Qed.

Print Assumptions C04_logged_in_iff.
Print Assumptions C04_credentials.
Print Assumptions C04_only_the_current_password.
Print Assumptions C04_nothing_before_login.
Print Assumptions C04_appended_requests_ignored.
Print Assumptions C04_appended_after_short_token_ignored.
Print Assumptions C04_bad_handshake_gets_nothing.
Print Assumptions C04_short_handshake_gets_nothing.
