(* C11 — File views agree and file operations carry the whole file.  Property theorems only
   (model: FS/Namespace.v; Gen/FileTypes.v is REGENERATED from hotline/file_types.go on every run). *)
From stdpp Require Import gmap.
From Coq Require Import NArith List.
From Verif Require Import Base.Bytes Base.MacRoman Lib.Path Lib.PathProofs FS.Namespace FS.NamespaceProofs.
Local Open Scope N_scope.

(* The listing encoder is the exact inverse of ReadPath's decoder: every wire name (any bytes) decodes to a disk
   name that encodes back to the same wire name - a listed name, sent back unchanged, denotes the same disk name *)
Theorem C11_listed_name_round_trips :
  forall s, Forall (fun b => b < 256) s ->
    forall fuel, (List.length s <= fuel)%nat -> mac_encode fuel (macroman s) = Some s.
Proof. exact mac_encode_decode. Qed.

(* ... and a name that is one path component resolves, in the folder it was listed in, to exactly that entry *)
Theorem C11_listed_entry_is_addressable :
  forall items n, good n -> resolve items n = sub_of items ++ [n].
Proof. exact resolve_listed_name. Qed.

(* the list shows a complete entry under its own name (only a TRAILING ".incomplete" is cut) and a partial upload
   under its final name *)
Theorem C11_complete_name_listed_unchanged :
  forall n, ends_with INCOMPLETE n = false -> strip_incomplete n = n.
Proof. exact complete_name_listed_unchanged. Qed.
Theorem C11_partial_listed_under_final_name :
  forall n, strip_incomplete (incomplete_name n) = n.
Proof. exact partial_listed_under_final_name. Qed.

(* what the list shows: for every folder, exactly the rows of the entries that are not ignored, in name order *)
Theorem C11_list_exact :
  forall (w : world) d x, (d = [] \/ w !! d = Some NDir) ->
    list_dir w d = Some x -> x = concat (map (row_of w d) (sort_by fst (children w d))).
Proof.
  intros w d x Hd H. unfold list_dir in H. destruct d as [|c r]; [now injection H as <-|].
  destruct Hd as [Hd|Hd]; [discriminate|]. rewrite Hd in H. now injection H as <-.
Qed.
Theorem C11_ignored_entries_not_listed :
  forall (w : world) d n x, ignored n = true -> row_of w d (n, x) = [].
Proof. intros w d n x H. unfold row_of. now rewrite H. Qed.

(* sizes agree: a file without resource fork shows its length on disk in the list row, in get-info and in the
   download reply *)
Theorem C11_sizes_agree :
  forall (w : world) items d n b,
    sub_of items = d -> good n -> ignored n = false ->
    w !! (d ++ [n]) = Some (NFile b) -> w !! (d ++ [rsrc_name n]) = None ->
    (exists ty cr, row_of w d (n, NFile b) = [mk_row (strip_incomplete n) ty cr (len b)]) /\
    (exists nm ty c, get_info w items n = Some (nm, ty, c, if bytes_eqb ty FLDR then None else Some (len b))) /\
    download_size w items n = Some (len b).
Proof. exact sizes_agree. Qed.

(* delete: exactly the group - data, partial data, resource fork, info fork - vanishes; nothing else changes *)
Theorem C11_delete_removes_group :
  forall (w : world) items fname d n b,
    resolve items fname = d ++ [n] -> w !! (d ++ [n]) = Some (NFile b) ->
    not_a_folder w (d ++ [incomplete_name n]) -> not_a_folder w (d ++ [rsrc_name n]) -> not_a_folder w (d ++ [info_name n]) ->
    delete_file w items fname =
      (delete (d ++ [info_name n]) (delete (d ++ [rsrc_name n]) (delete (d ++ [incomplete_name n]) (delete (d ++ [n]) w))), Replied).
Proof. exact delete_removes_group. Qed.
Theorem C11_delete_changes_nothing_else :
  forall (w : world) d n q, ~ In q (group d n) ->
    delete (d ++ [info_name n]) (delete (d ++ [rsrc_name n]) (delete (d ++ [incomplete_name n]) (delete (d ++ [n]) w))) !! q = w !! q.
Proof. exact delete_frame. Qed.

(* rename / move of a file WITH its side files: the whole group - data, partial data, resource fork, info fork -
   is found under the new name, the old names are free, and nothing else changes.  Hypotheses: the file exists, its
   side entries are not folders, the eight names involved are pairwise different, the new names are free, the
   destination folder exists and is none of the old names. *)
Theorem C11_move_carries_group :
  forall (w : world) d d' n n' b,
    w !! (d ++ [n]) = Some (NFile b) ->
    (forall k x, In k [d ++ [incomplete_name n]; d ++ [rsrc_name n]; d ++ [info_name n]] -> w !! k = Some x -> x <> NDir) ->
    (forall a, In a (group d n) -> In a (group d' n') -> False) ->
    (forall k, In k (group d' n') -> w !! k = None) ->
    (is_prefix (d ++ [n]) (d' ++ [n']) = false /\ is_prefix (d ++ [incomplete_name n]) (d' ++ [incomplete_name n']) = false /\
     is_prefix (d ++ [rsrc_name n]) (d' ++ [rsrc_name n']) = false /\ is_prefix (d ++ [info_name n]) (d' ++ [info_name n']) = false) ->
    (d' = [] \/ w !! d' = Some NDir) -> ~ In d' (group d n) ->
    wrapper_move w d n d' n' = Some (moved w d d' n n') /\
    (moved w d d' n n' !! (d' ++ [n']) = Some (NFile b) /\
     moved w d d' n n' !! (d' ++ [incomplete_name n']) = w !! (d ++ [incomplete_name n]) /\
     moved w d d' n n' !! (d' ++ [rsrc_name n']) = w !! (d ++ [rsrc_name n]) /\
     moved w d d' n n' !! (d' ++ [info_name n']) = w !! (d ++ [info_name n]) /\
     moved w d d' n n' !! (d ++ [n]) = None /\ moved w d d' n n' !! (d ++ [incomplete_name n]) = None /\
     moved w d d' n n' !! (d ++ [rsrc_name n]) = None /\ moved w d d' n n' !! (d ++ [info_name n]) = None) /\
    (forall q, ~ In q (group d n) -> ~ In q (group d' n') -> moved w d d' n n' !! q = w !! q).
Proof.
  intros w d d' n n' b H1 H2 H3 H4 H5 H6 H7. split; [|split].
  - now apply wrapper_move_group with (b := b).
  - now apply moved_members.
  - intros q. now apply moved_frame.
Qed.
(* the special case of a file without side files, stated on its own *)
Theorem C11_move_plain_file :
  forall (w : world) d n d' n' b,
    w !! (d ++ [n]) = Some (NFile b) ->
    w !! (d ++ [incomplete_name n]) = None -> w !! (d ++ [rsrc_name n]) = None -> w !! (d ++ [info_name n]) = None ->
    ~ In (d' ++ [n']) (group d n) -> is_prefix (d ++ [n]) (d' ++ [n']) = false ->
    w !! (d' ++ [n']) <> Some NDir -> (d' = [] \/ w !! d' = Some NDir) ->
    wrapper_move w d n d' n' = Some (<[d' ++ [n'] := NFile b]> (delete (d ++ [n]) w)).
Proof. exact move_plain_file_partial. Qed.

(* creating a folder never replaces an existing entry *)
Theorem C11_mkdir_never_replaces :
  forall (w : world) items fname x,
    w !! (sub_of items ++ clean_rooted (split_slash fname)) = Some x -> new_folder w items fname = (w, ErrReplied).
Proof. exact mkdir_never_replaces. Qed.

(* non-vacuity: a small tree where a forked file is listed, moved into a folder with all its side files, and gone *)
Definition nm (s : list N) : name := s.
Definition w0 : world :=
  {[ [nm [97]] := NFile [1; 2; 3];                       (* "a" *)
     [info_name [97]] := NInfo [84;69;88;84] [116;116;120;116] [99];
     [rsrc_name [97]] := NFile [9; 9];
     [nm [100]] := NDir ]}.                              (* "d" *)
Example C11_nonvacuous :
  (exists rows, list_dir w0 [] = Some rows /\ List.length rows = 2%nat) /\
  (fst (move_file w0 [] [97] [[100]])) !! [[100]; [97]] = Some (NFile [1; 2; 3]) /\
  (fst (move_file w0 [] [97] [[100]])) !! [[100]; rsrc_name [97]] = Some (NFile [9; 9]) /\
  (fst (move_file w0 [] [97] [[100]])) !! [rsrc_name [97]] = None.
Proof. vm_compute. split; [eexists; split; reflexivity|repeat split]. Qed.

Print Assumptions C11_listed_name_round_trips.
Print Assumptions C11_listed_entry_is_addressable.
Print Assumptions C11_complete_name_listed_unchanged.
Print Assumptions C11_partial_listed_under_final_name.
Print Assumptions C11_list_exact.
Print Assumptions C11_ignored_entries_not_listed.
Print Assumptions C11_sizes_agree.
Print Assumptions C11_delete_removes_group.
Print Assumptions C11_delete_changes_nothing_else.
Print Assumptions C11_move_carries_group.
Print Assumptions C11_move_plain_file.
Print Assumptions C11_mkdir_never_replaces.
