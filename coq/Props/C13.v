(* C13 — Presence converges and user IDs address one live user.  Property theorems only. *)
From stdpp Require Import gmap.
From Coq Require Import NArith List.
From Verif Require Import Srv.Registry Srv.RegistryProofs Srv.Presence Srv.PresenceProofs.
Local Open Scope N_scope.

(* A new connection never receives an ID that a connected user holds (as long as one of the 65,536 IDs is free);
   the counter may have wrapped any number of times. *)
Theorem C13_new_id_is_free :
  forall r tok r' id, next r < 4294967296 -> (exists j, j < ID_SPACE /\ clients r !! j = None) ->
    add r tok = (r', id) -> clients r !! id = None.
Proof. exact add_fresh. Qed.

(* In every state reachable by any history of connects and disconnects (any length), no two connected users
   share an ID ... *)
Theorem C13_ids_unique :
  forall h t1 t2 id, oks world0 h ->
    w_ids (wrun h) !! t1 = Some id -> w_ids (wrun h) !! t2 = Some id -> t1 = t2.
Proof. exact ids_unique. Qed.

(* ... and an ID resolves to the connection that currently holds it (what Get(id) returns is that user). *)
Theorem C13_id_addresses_holder :
  forall h id tok, oks world0 h -> clients (w_reg (wrun h)) !! id = Some tok -> w_ids (wrun h) !! tok = Some id.
Proof. exact id_addresses_holder. Qed.

(* ... conversely every connected user is the one its own ID resolves to (a message addressed to the ID a user
   holds does reach that user), and every ID in use fits the protocol's 16-bit field *)
Theorem C13_holder_is_addressed_by_its_id :
  forall h tok id, oks world0 h -> w_ids (wrun h) !! tok = Some id ->
    clients (w_reg (wrun h)) !! id = Some tok /\ id < ID_SPACE.
Proof.
  intros h tok id Hok A. destruct (Inv_run h world0 Inv0 Hok) as (H1 & _ & H3 & _).
  pose proof (H1 _ _ A) as B. split; [exact B | exact (H3 _ _ B)].
Qed.

(* the allocation of the pinned tree is refuted by a concrete history (first user stays, 65,535 more
   connections come and go, the next connection gets the first user's ID and replaces its entry) *)
Theorem C13_pinned_allocation_refuted : pinned_witness = true.
Proof. exact pinned_ids_collide. Qed.

(* A client that fetched the user list at any point of any history and applies every later change-user and
   delete-user notification in order ends up, once nobody is between login and first announcement, with
   exactly the server's current list (ID, name, icon, flags). *)
Theorem C13_roster_converges :
  forall r0 h, poks r0 h -> let '(r, ro) := prun r0 (listed r0) h in settled r -> ro = listed r.
Proof. exact roster_converges. Qed.

(* Private messages: only the sender and the holder of the addressed ID ever receive anything; refuse-messages
   is honoured (recipient gets nothing, sender is told); otherwise delivered once, automatic reply returned. *)
Theorem C13_pm_only_sender_and_holder :
  forall r sender target o, In o (send_pm r sender target) ->
    pm_recipient o = sender \/ (pm_recipient o = target /\ is_Some (r !! target)).
Proof. exact pm_only_sender_and_holder. Qed.
Theorem C13_pm_respects_refuse_flag :
  forall r sender target e, r !! target = Some e -> N.testbit (i_flags (e_info e)) FLAG_REFUSE_PM = true ->
    In (PmRefused sender target) (send_pm r sender target) /\
    forall o, In o (send_pm r sender target) -> sender <> target -> pm_recipient o <> target.
Proof. exact pm_refused. Qed.
Theorem C13_pm_delivered_with_auto_reply :
  forall r sender target e, r !! target = Some e -> N.testbit (i_flags (e_info e)) FLAG_REFUSE_PM = false ->
    send_pm r sender target =
      [PmDeliver target sender] ++ (match e_auto e with [] => [] | a => [PmAuto sender target a] end) ++ [PmReply sender].
Proof. exact pm_delivered. Qed.
Theorem C13_pm_to_unused_id_reaches_nobody :
  forall r sender target, r !! target = None -> send_pm r sender target = [].
Proof. exact pm_nobody. Qed.

(* non-vacuity: a history that meets the hypotheses; the roster theorem's premise on a concrete history *)
Example C13_nonvacuous_history : oks world0 [Connect 7; Connect 8; Disconnect 7; Connect 9].
Proof.
  cbn. repeat split; try (vm_compute; reflexivity); try (exists 60000; split; vm_compute; reflexivity).
Qed.
Example C13_nonvacuous_roster :
  let i := mk_info [65] [0;1] 0 in
  poks ∅ [LoginNamed 1 i; LoginLimbo 2 i; Announce 2 i None; Leave 1].
Proof. cbn. repeat split; try reflexivity. rewrite lookup_insert. eauto. Qed.

Print Assumptions C13_new_id_is_free.
Print Assumptions C13_ids_unique.
Print Assumptions C13_id_addresses_holder.
Print Assumptions C13_roster_converges.
Print Assumptions C13_pm_only_sender_and_holder.
Print Assumptions C13_pm_respects_refuse_flag.
Print Assumptions C13_holder_is_addressed_by_its_id.
