(* C10 — Folder transfers reproduce the tree, item by item.  Property theorems only (model: FS/Folder.v). *)
From stdpp Require Import gmap.
From Coq Require Import NArith List.
From Verif Require Import Base.Bytes Lib.Path FS.Namespace FS.Folder FS.FolderProofs.
Local Open Scope N_scope.

(* the announced item count equals the number of item headers then sent, whatever the client answers *)
Theorem C10_count_matches_headers :
  forall (fuel : nat) (w : world) (root : list name) (acts : list action),
    len (items_of fuel w root) < 65536 ->
    item_count fuel w root = len (download root (items_of fuel w root) acts).
Proof. exact count_matches_headers. Qed.
(* the headers are the items, in walk order, each with its path relative to the requested folder and its kind *)
Theorem C10_headers_are_the_items :
  forall root items acts,
    map s_path (download root items acts) = map (fun e => rel root (fst e)) items /\
    map s_isdir (download root items acts) = map (fun e => match snd e with NDir => true | _ => false end) items.
Proof. exact headers_are_the_items. Qed.
(* the items are EXACTLY the entries below the folder whose own name has no leading dot and whose ancestors (down to
   the folder) are folders, each ONCE: sound, complete and without repetition; the order is the walk's (a folder
   before its content, names in byte order) *)
Theorem C10_items_are_visible_entries :
  forall (fuel : nat) (w : world) (root q : list name) (x : node),
    In (q, x) (items_of fuel w root) ->
    w !! q = Some x /\ firstn (List.length root) q = root /\ dotted (last q []) = false.
Proof. exact items_are_visible_entries. Qed.
Theorem C10_every_visible_entry_is_an_item :
  forall (fuel : nat) (w : world) (root rest : list name) (x : node),
    rest <> [] -> (List.length rest <= fuel)%nat ->
    w !! (root ++ rest) = Some x ->
    (forall k, (0 < k < List.length rest)%nat -> w !! (root ++ firstn k rest) = Some NDir) ->
    dotted (last (root ++ rest) []) = false ->
    In (root ++ rest, x) (items_of fuel w root).
Proof.
  intros fuel w root rest x Hne Hf Hq Hanc Hv. unfold items_of. apply filter_In. split.
  - now apply walk_complete.
  - unfold visible. cbn. now rewrite Hv.
Qed.
Theorem C10_no_item_twice :
  forall (fuel : nat) (w : world) (root : list name), base.NoDup (map fst (items_of fuel w root)).
Proof.
  intros fuel w root. unfold items_of. pose proof (walk_nodup fuel w root) as H.
  induction (walk fuel w root) as [|e l IH]; [constructor|]. cbn [List.filter map] in *.
  inversion H as [|? ? Hn Hr]; subst. destruct (visible e); cbn [map]; [constructor|]; auto.
  intros Hin. apply Hn. apply elem_of_list_In in Hin. apply elem_of_list_In. apply in_map_iff in Hin as (y & Hy & Hin).
  apply filter_In in Hin as [Hin _]. apply in_map_iff. now exists y.
Qed.
(* the client's choice per file is honoured: the size prefix counts exactly the bytes that follow; a resumed file
   continues at the offset; a skipped file sends nothing *)
Theorem C10_action_respected :
  forall root p d a,
    let s := send_item root (p, NFile d) a in
    match a with
    | Send => s_data s = d /\ s_prefix s = Some ((PAYLOAD + len (last p []) + len (s_data s)) mod 4294967296)
    | Resume k => k <= len d ->
                  s_data s = dropN k d /\ s_prefix s = Some ((PAYLOAD + len (last p []) + len (s_data s)) mod 4294967296)
    | Skip => s_data s = [] /\ s_prefix s = None
    end.
Proof. exact action_respected. Qed.

(* upload, item by item: complete files are skipped and left alone, partial files are resumed at their length and
   published whole, new files get exactly the streamed bytes, folders are created; a connection that dies inside a
   file never publishes it *)
Theorem C10_upload_skips_complete :
  forall (w : world) t it x,
    u_isdir it = false -> w !! (t ++ u_path it) = Some x ->
    w !! (parent (t ++ u_path it) ++ [incomplete_name (last (t ++ u_path it) [])]) = None ->
    upload_step w t it = (w, UNext).
Proof. exact upload_skips_complete. Qed.
Theorem C10_upload_resumes_partial :
  forall (w : world) t it part,
    u_isdir it = false ->
    w !! (parent (t ++ u_path it) ++ [incomplete_name (last (t ++ u_path it) [])]) = Some (NFile part) ->
    upload_step w t it =
      (<[t ++ u_path it := NFile (part ++ dropN (len part) (u_data it))]>
         (delete (parent (t ++ u_path it) ++ [incomplete_name (last (t ++ u_path it) [])]) w), UResume (len part)).
Proof. exact upload_resumes_partial. Qed.
Theorem C10_resumed_prefix_gives_whole_file :
  forall (part data : bytes), part = takeN (len part) data -> len part <= len data -> part ++ dropN (len part) data = data.
Proof. exact resumed_prefix_gives_whole_file. Qed.
Theorem C10_upload_writes_new_file :
  forall (w : world) t it,
    u_isdir it = false -> w !! (t ++ u_path it) = None ->
    w !! (parent (t ++ u_path it) ++ [incomplete_name (last (t ++ u_path it) [])]) = None ->
    w !! parent (t ++ u_path it) = Some NDir ->
    upload_step w t it = (<[t ++ u_path it := NFile (u_data it)]> w, USend).
Proof. exact upload_writes_new_file. Qed.
Theorem C10_upload_creates_folder :
  forall (w : world) t it,
    u_isdir it = true -> w !! (t ++ u_path it) = None -> w !! parent (t ++ u_path it) = Some NDir ->
    upload_step w t it = (<[t ++ u_path it := NDir]> w, UNext).
Proof. exact upload_creates_folder. Qed.
Theorem C10_cut_never_publishes :
  forall (w : world) t it m, u_isdir it = false ->
    upload_cut_step w t it m !! (t ++ u_path it) = w !! (t ++ u_path it).
Proof. exact cut_never_publishes. Qed.

(* non-vacuity + round trip on a concrete tree: uploading a streamed tree into an empty folder and downloading it
   gives back the same items (paths, kinds, bytes) *)
Definition src : world :=
  {[ [[115]] := NDir; [[115]; [97]] := NFile [1; 2; 3]; [[115]; [100]] := NDir; [[115]; [100]; [98]] := NFile [];
     [[115]; [46; 104]] := NFile [9] ]}.
Example C10_round_trip_nonvacuous :
  let st := stream_of 8 src [[115]] in
  let '(w', _) := upload {[ [[116]] := NDir ]} [[116]] st in
  List.length st = 3%nat /\
  map (fun s => (s_path s, s_isdir s, s_data s)) (download [[116]] (items_of 8 w' [[116]]) []) =
  map (fun u => (u_path u, u_isdir u, u_data u)) st.
Proof. vm_compute. split; reflexivity. Qed.

Print Assumptions C10_count_matches_headers.
Print Assumptions C10_headers_are_the_items.
Print Assumptions C10_items_are_visible_entries.
Print Assumptions C10_every_visible_entry_is_an_item.
Print Assumptions C10_no_item_twice.
Print Assumptions C10_action_respected.
Print Assumptions C10_upload_skips_complete.
Print Assumptions C10_upload_resumes_partial.
Print Assumptions C10_resumed_prefix_gives_whole_file.
Print Assumptions C10_upload_writes_new_file.
Print Assumptions C10_upload_creates_folder.
Print Assumptions C10_cut_never_publishes.
