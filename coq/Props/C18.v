(* C18 — Threaded news keeps every article and threads new ones correctly.  Property theorems only. *)
From stdpp Require Import gmap.
From Coq Require Import NArith List.
From Verif Require Import Base.Bytes Wire.Parse Wire.Types Wire.Impl Wire.Proofs Srv.News Srv.NewsProofs.
Import ListNotations.
Local Open Scope N_scope.

(* posting gives the article an ID not used by any article present in its category (IDs below 2^32 - 1) *)
Theorem C18_post_fresh_id : forall m, max_key m < 4294967295 -> m !! next_id m = None.
Proof. exact post_fresh_id. Qed.

(* what a successful post changes, and what it must not change: the new article records the requested parent
   and is linked after the previously newest one; every other article keeps title, poster, date and body (and
   all link fields except the previous newest's next and - if it had none - the parent's first child); nothing
   else in the tree changes *)
Theorem C18_post_effect :
  forall s p0 ps parent title poster date data s' nd,
    let p := p0 :: ps in
    s !! p = Some nd -> n_nil nd = false -> max_key (n_arts nd) < 4294967295 ->
    post s p parent title poster date data = (s', Done) ->
    exists nd', s' !! p = Some nd' /\
      let id := next_id (n_arts nd) in
      n_arts nd !! id = None /\
      n_arts nd' !! id = Some (mk_article title poster date
                                 (if decide (n_arts nd = ∅) then 0 else max_key (n_arts nd)) 0 parent 0 data) /\
      (forall k a, k <> id -> n_arts nd !! k = Some a ->
         exists a', n_arts nd' !! k = Some a' /\ ar_title a' = ar_title a /\ ar_poster a' = ar_poster a /\
                    ar_date a' = ar_date a /\ ar_data a' = ar_data a /\ ar_prev a' = ar_prev a /\ ar_parent a' = ar_parent a /\
                    (k <> max_key (n_arts nd) -> ar_next a' = ar_next a) /\
                    (k = max_key (n_arts nd) -> ar_next a' = id) /\
                    (k <> parent -> ar_first a' = ar_first a)) /\
      (forall k, k <> id -> n_arts nd !! k = None -> n_arts nd' !! k = None) /\
      (forall q, q <> p -> s' !! q = s !! q) /\ n_type nd' = n_type nd /\ n_name nd' = n_name nd.
Proof. exact post_effect. Qed.

(* deleting an article removes exactly that article *)
Theorem C18_delete_article_exact :
  forall s p0 ps id nd, let p := p0 :: ps in s !! p = Some nd ->
    exists nd', (delete_article s p id).1 !! p = Some nd' /\ (delete_article s p id).2 = Done /\
      n_arts nd' !! id = None /\ (forall k, k <> id -> n_arts nd' !! k = n_arts nd !! k) /\
      (forall q, q <> p -> (delete_article s p id).1 !! q = s !! q).
Proof. exact delete_article_exact. Qed.

(* deleting a category/bundle removes exactly that item (with what is below it) *)
Theorem C18_delete_item_exact :
  forall s p0 ps q, let p := p0 :: ps in
    (delete_item s p).1 !! q =
      if is_prefix_of p q then (if parent_exists s (removelast p) then None else s !! q) else s !! q.
Proof. exact delete_item_exact. Qed.

Theorem C18_create_exact :
  forall s p name ty q, parent_exists s p = true ->
    (create s p name ty).2 = Done /\
    (create s p name ty).1 !! (p ++ [name]) = Some (mk_node ty name ∅ false) /\
    (is_prefix_of (p ++ [name]) q = false -> (create s p name ty).1 !! q = s !! q).
Proof. exact create_exact. Qed.

(* category listings show exactly the children of a path *)
Theorem C18_categories_exact :
  forall s p q nd, children s p !! q = Some nd <-> s !! q = Some nd /\ length q = S (length p) /\ p = firstn (length p) q.
Proof. exact children_exact. Qed.

(* the article list is a parseable encoding: the reference decoder recovers every entry (titles and poster
   names up to 255 bytes), in the order given *)
Theorem C18_list_parseable :
  forall l r, al_wf l -> spec_dec_al (impl_bytes_al l ++ r) = Some (l, r).
Proof. intros l r H. rewrite impl_spec_al by exact H. now apply spec_dec_enc_al. Qed.

(* every successful update is written to the file: a restart reproduces the tree *)
Theorem C18_reload_same :
  forall st o st', nstep st o = (st', Done) -> ns_disk st' = reloaded (ns_mem st') \/ o = NReload.
Proof. exact reload_same. Qed.

Example C18_nonvacuous :
  let s0 : gmap (list (list N)) node := ∅ in
  let s1 := (create s0 [] [98] 2).1 in let s2 := (create s1 [[98]] [99] 3).1 in
  let s3 := (post s2 [[98]; [99]] 0 [116] [112] [] [100]).1 in
  let s4 := (post s3 [[98]; [99]] 1 [117] [112] [] [101]).1 in
  match s4 !! [[98]; [99]] with
  | Some nd => option_map ar_first (n_arts nd !! 1) = Some 2 /\ option_map ar_next (n_arts nd !! 1) = Some 2 /\
               option_map ar_prev (n_arts nd !! 2) = Some 1 /\ option_map ar_parent (n_arts nd !! 2) = Some 1 /\
               n_arts nd !! 3 = None
  | None => False
  end.
Proof. vm_compute. repeat split; reflexivity. Qed.

Print Assumptions C18_post_fresh_id.
Print Assumptions C18_post_effect.
Print Assumptions C18_delete_article_exact.
Print Assumptions C18_delete_item_exact.
Print Assumptions C18_list_parseable.
