(* C08 — Downloads deliver exactly the file's bytes.  Property theorems only. *)
From Verif Require Import Base.Bytes Wire.Parse Wire.Types FS.Transfer FS.TransferProofs.

(* for all contents, names, fork combinations and resume offsets 0 <= k <= size: the stream is the header
   (unless preview), then EXACTLY the data fork from k to the end, then the resource-fork part *)
Theorem C08_data_exact :
  forall f k resuming preview, k <= len (df_data f) ->
    dl_stream f k resuming preview =
      (if preview then [] else dl_header f (len (df_data f) mod 4294967296)) ++ dropN k (df_data f) ++
      (if resuming || preview then [] else rsrc_header f) ++
      (if preview then [] else match df_rsrc f with Some r => r | None => [] end).
Proof. exact dl_data_exact. Qed.

(* a preview request gets the bare data only *)
Theorem C08_preview_bare :
  forall f k resuming, k <= len (df_data f) -> dl_stream f k resuming true = dropN k (df_data f).
Proof. exact dl_preview_bare. Qed.

(* the reply announces the remaining data as the file size; without a stored resource fork the transfer size is
   header + remaining data; for a preview the transfer size is the remaining data *)
Theorem C08_reply_sizes :
  forall f k, k <= len (df_data f) -> len (df_data f) < 4294967296 -> df_rsrc f = None ->
    snd (dl_reply f k false) = be32 (len (df_data f) - k) /\
    fst (dl_reply f k false) = be32 (len (dl_header f (len (df_data f) - k)) + (len (df_data f) - k)) /\
    fst (dl_reply f k true) = be32 (len (df_data f) - k).
Proof. exact dl_reply_sizes. Qed.

(* the header's own length fields are consistent: the INFO fork size field is the length of the information
   fork that follows (stored or synthesised), and a synthesised fork's name-size field is the name's length *)
Theorem C08_header_info_size_consistent :
  forall f n rest, len (info_bytes f) < 4294967296 ->
    (_ <- p_raw 24 ;; _ <- p_lit INFO ;; _ <- p_raw 8 ;; sz <- p_u32 ;; body <- p_rawN sz ;; ret body)
      (dl_header f n ++ rest) = Some (info_bytes f, [68;65;84;65] ++ repeat 0 8 ++ be32 n ++ rest).
Proof. exact dl_header_info_size. Qed.
Theorem C08_header_name_size_consistent :
  forall f rest, len (df_name f) < 65536 ->
    List.length (df_type f) = 4%nat -> List.length (df_creator f) = 4%nat -> List.length (df_mtime f) = 8%nat ->
    (_ <- p_raw 70 ;; nm <- p_len16 ;; ret nm) (synth_info f ++ rest) = Some (df_name f, [0; 0] ++ rest).
Proof. exact synth_info_name. Qed.

Example C08_nonvacuous :
  let f := mk_dfile [97] [1;2;3;4;5] None None [84;69;88;84] [116;116;120;116] (repeat 0 8) in
  dl_stream f 2 true false = dl_header f 5 ++ [3;4;5] /\ dl_stream f 0 false true = [1;2;3;4;5].
Proof. vm_compute. split; reflexivity. Qed.

Print Assumptions C08_data_exact.
Print Assumptions C08_preview_bare.
Print Assumptions C08_reply_sizes.
Print Assumptions C08_header_info_size_consistent.
