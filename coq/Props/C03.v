(* C03 — Hostile input is contained to the offending connection (PARTIAL: the logic of the resource brackets and
   the structural obligations; scheduling, timeliness and memory are the runtime's and are only searched).
   Gen/Structure.v is REGENERATED from the sources on every run. *)
From Coq Require Import List String ZArith Bool Lia.
From Verif Require Import Srv.Contain Gen.Structure.
Import ListNotations.
Local Open Scope string_scope.

(* ---- structural obligations over the code as it is now ---- *)
Fixpoint assoc_all (k : string) (l : list (string * string)) : list string :=
  match l with [] => [] | (k', v) :: r => if String.eqb k k' then v :: assoc_all k r else assoc_all k r end.
(* is [b] the statement right after [a] ("if-return" guards in between are allowed: they cannot panic)? *)
Fixpoint follows (a b : string) (l : list string) : bool :=
  match l with
  | [] => false
  | x :: r => if String.eqb x a
              then (fix skip (l' : list string) : bool :=
                      match l' with
                      | [] => false
                      | y :: r' => if String.eqb y b then true
                                   else if String.prefix "if-return" y then skip r' else false
                      end) r
              else follows a b r
  end.

(* 1. panic recovery is installed before anything else in both connection handlers *)
Theorem C03_recover_first :
  hd "" (assoc_all "handleNewConnection" conn_stmts) = "defer dontPanic(s.Logger)" /\
  hd "" (assoc_all "handleFileTransfer" conn_stmts) = "defer dontPanic(s.Logger)".
Proof. vm_compute. split; reflexivity. Qed.

(* 2. every acquisition is immediately followed by its deferred release *)
Definition bracket_ok (fn acquire release : string) : bool := follows acquire release (assoc_all fn conn_stmts).
Theorem C03_acquisitions_are_bracketed :
  bracket_ok "handleNewConnection" "s.ClientMgr.Add(c)" "defer c.Disconnect()" = true /\
  bracket_ok "handleNewConnection" "c.Server.Stats.Increment(StatConnectionCounter, StatCurrentlyConnected)"
                                   "defer c.Server.Stats.Decrement(StatCurrentlyConnected)" = true /\
  bracket_ok "handleFileTransfer" "fileTransfer := s.FileTransferMgr.Get(t.ReferenceNumber)"
                                  "defer func() { s.FileTransferMgr.Delete(t.ReferenceNumber) time.Sleep(3 * time.Second) }()" = true /\
  forallb (fun k => bracket_ok ("handleFileTransfer/" ++ fst k) (fst (snd k)) (snd (snd k)))
    [("FileDownload", ("s.Stats.Increment(StatDownloadCounter, StatDownloadsInProgress)", "defer func() { s.Stats.Decrement(StatDownloadsInProgress) }()"));
     ("FolderDownload", ("s.Stats.Increment(StatDownloadCounter, StatDownloadsInProgress)", "defer func() { s.Stats.Decrement(StatDownloadsInProgress) }()"));
     ("FileUpload", ("s.Stats.Increment(StatUploadCounter, StatUploadsInProgress)", "defer func() { s.Stats.Decrement(StatUploadsInProgress) }()"));
     ("FolderUpload", ("s.Stats.Increment(StatUploadCounter, StatUploadsInProgress)", "defer func() { s.Stats.Decrement(StatUploadsInProgress) }()"))] = true.
Proof. vm_compute. repeat split. Qed.

(* 3. the maps shared by connection goroutines are only touched with a mutex held (a concurrent map write aborts
      the whole process and cannot be recovered); the handler table is written before serving starts *)
Theorem C03_shared_maps_locked :
  forallb (fun u => snd u || String.eqb (snd (fst u)) "handlers") map_uses = true.
Proof. vm_compute. reflexivity. Qed.

(* 4. goroutines: exactly the known set (a panic in a goroutine without its own recovery ends the process, so a
      new `go` statement has to be looked at) *)
Definition known_goroutines : list (string * string) :=
  [("ShutdownHandler", "srv.hlServer.Shutdown"); ("Connect", "func-literal");
   ("ListenAndServe", "s.registerWithTrackers"); ("ListenAndServe", "s.keepaliveHandler"); ("ListenAndServe", "s.processOutbox");
   ("ListenAndServe", "func-literal"); ("ListenAndServe", "func-literal"); ("ServeFileTransfers", "func-literal");
   ("processOutbox", "func-literal"); ("Serve", "func-literal");
   ("HandleUpdateUser", "func-literal"); ("HandleDeleteUser", "func-literal"); ("HandleDisconnectUser", "func-literal")].
Theorem C03_goroutines_are_the_known_ones :
  forallb (fun g => existsb (fun k => String.eqb (fst g) (fst k) && String.eqb (snd g) (snd k)) known_goroutines) go_stmts = true.
Proof. vm_compute. reflexivity. Qed.

(* 5. a recovered panic never leaves a mutex held: every Lock()/RLock() is directly followed by the matching deferred
      unlock, except the reviewed sections whose bodies cannot panic (a map lookup + insert of a fresh limiter; Seek +
      ReadAll / Write on the text stores; the idle ticker, which is not a connection goroutine) *)
Definition reviewed_sections : list (string * string) :=
  [("*Server.Serve", "s.rateLimitersMu"); ("*Server.keepaliveHandler", "c.mu"); ("*Server.handleNewConnection", "s.agreementMu");
   ("HandleGetMsgs", "messageBoardMu"); ("HandleTranOldPostNews", "messageBoardMu")].
Theorem C03_locks_released_on_panic :
  forallb (fun l => snd l || existsb (fun k => String.eqb (fst (fst l)) (fst k) && String.eqb (snd (fst l)) (snd k)) reviewed_sections)
          lock_sites = true.
Proof. vm_compute. reflexivity. Qed.

(* ---- the bracket: whatever the peer sends and however the handler ends, the connection's footprint is gone ---- *)
Lemma remove_id_cons id l : ~ In id l -> remove_id id (id :: l) = remove_id id l.
Proof. intros _. unfold remove_id. cbn. now rewrite Nat.eqb_refl. Qed.
Lemma remove_id_notin id l : ~ In id l -> remove_id id l = l.
Proof.
  induction l as [|x l IH]; intros H; [reflexivity|]. cbn. destruct (Nat.eqb_spec x id) as [->|Hne]; cbn.
  - exfalso. apply H. now left.
  - f_equal. apply IH. intros Hi. apply H. now right.
Qed.
Lemma remove_id_in_iff id x l : In x (remove_id id l) <-> In x l /\ x <> id.
Proof.
  unfold remove_id. rewrite filter_In. rewrite negb_true_iff, Nat.eqb_neq. reflexivity.
Qed.
Theorem C03_control_bracket_restores :
  forall s id body e, ~ In id (registry s) -> respects id body ->
    let '(s', alive) := control_conn s id body e in
    alive = true /\ ctr s' = ctr s /\ ~ In id (registry s') /\
    (forall x, x <> id -> (In x (registry s') <-> In x (registry (body (mk_ss (id :: registry s)
        (mk_ctr (connected (ctr s) + 1) (downloads (ctr s)) (uploads (ctr s))) (pending s)))))).
Proof.
  intros s id body e Hfresh Hresp. unfold control_conn. cbn [registry ctr pending].
  set (s2 := mk_ss (id :: registry s) (mk_ctr (connected (ctr s) + 1) (downloads (ctr s)) (uploads (ctr s))) (pending s)).
  destruct (Hresp s2) as [Hreg Hctr].
  repeat split.
  - rewrite Hctr. cbn. destruct (ctr s) as [c d u]. cbn. f_equal. lia.
  - intros Hin. apply remove_id_in_iff in Hin as [_ Hne]. now apply Hne.
  - intros Hin. apply remove_id_in_iff in Hin as [Hin _]. exact Hin.
  - intros Hin. apply remove_id_in_iff. split; assumption.
Qed.
Theorem C03_rejected_connection_leaves_no_trace : forall s, rejected_conn s = (s, true).
Proof. reflexivity. Qed.
Theorem C03_transfer_bracket_restores :
  forall s ref is_upload e,
    let '(s', alive) := transfer_conn s ref is_upload e in
    alive = true /\ ctr s' = ctr s /\ registry s' = registry s /\ ~ In ref (pending s').
Proof.
  intros s ref up e. unfold transfer_conn. destruct (existsb (Nat.eqb ref) (pending s)) eqn:Ex; cbn [negb].
  - repeat split.
    + destruct (ctr s) as [c d u]. destruct up; cbn; f_equal; lia.
    + cbn. intros Hin. apply remove_id_in_iff in Hin as [_ Hne]. now apply Hne.
  - repeat split. intros Hin. assert (existsb (Nat.eqb ref) (pending s) = true); [|congruence].
    apply existsb_exists. exists ref. split; [exact Hin|apply Nat.eqb_refl].
Qed.

Print Assumptions C03_recover_first.
Print Assumptions C03_acquisitions_are_bracketed.
Print Assumptions C03_shared_maps_locked.
Print Assumptions C03_goroutines_are_the_known_ones.
Print Assumptions C03_locks_released_on_panic.
Print Assumptions C03_control_bracket_restores.
Print Assumptions C03_rejected_connection_leaves_no_trace.
Print Assumptions C03_transfer_bracket_restores.
