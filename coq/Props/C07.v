(* C07 — All filesystem effects stay inside the file root / config dir.  Property theorems only.
   "inside root p": p = root ++ suffix where every suffix component names a directory entry
   (non-empty, not "." or "..", contains no '/'). *)
From Verif Require Import Base.Bytes Base.MacRoman Lib.Path Lib.PathProofs.

(* ReadPath - the path expression behind get-info, set-info, delete, move (both ends), alias (both ends),
   list, download, upload, folder download/upload and every transfer - for ALL path-item byte strings, any item
   count, and ALL names *)
Theorem C07_ReadPath_inside :
  forall rootc items fname, inside rootc (read_path_comps rootc items fname).
Proof. exact read_path_inside. Qed.

(* the lexical core: cleaning a rooted path never leaves a "..", "." or empty component, whatever the input *)
Theorem C07_clean_rooted_good :
  forall cs, Forall (fun c => ~ In SLASH c) cs -> Forall good (clean_rooted cs).
Proof. exact clean_rooted_good. Qed.

(* folder upload: the item path taken from the transfer stream (as repaired) stays below the upload folder *)
Theorem C07_folder_item_inside :
  forall upc segs, inside upc (upc ++ formatted_path_comps segs).
Proof. exact formatted_path_inside. Qed.
Theorem C07_folder_item_pinned_refuted :
  formatted_path_pinned_comps [[DOT; DOT]; [DOT; DOT]; [120]] = [[DOT; DOT]; [DOT; DOT]; [120]].
Proof. exact formatted_path_pinned_escapes. Qed.

(* rename with a client-chosen new name (as repaired): the target is inside the root *)
Theorem C07_rename_target_inside :
  forall rootc items newname, inside rootc (rename_target_comps rootc items newname).
Proof. exact rename_target_inside. Qed.

(* the fork side files and the partial-upload file of an entry are entries of the same directory *)
Theorem C07_side_files_inside :
  forall c, good c -> good (info_name c) /\ good (rsrc_name c) /\ good (incomplete_name c).
Proof. exact side_files_good. Qed.

(* account files: create / delete / rename source and target, and the write after a rename (as repaired) *)
Theorem C07_account_path_inside : forall dirc login, inside dirc (account_path_comps dirc login).
Proof. exact account_path_inside. Qed.
Theorem C07_account_update_path_inside : forall dirc login, inside dirc (account_update_path_comps dirc login).
Proof. exact account_update_path_inside. Qed.

(* the Mac Roman decoder (table compared with x/text on every run) keeps bytes < 128 and maps the others to
   bytes >= 128: it can neither create nor remove '/' or '.' *)
Theorem C07_macroman_preserves_separators :
  forallb (fun b => if b <? 128 then bytes_eqb (macroman_byte b) [b]
                    else negb (is_empty (macroman_byte b)) && forallb (fun x => 128 <=? x) (macroman_byte b))
          (map N.of_nat (seq 0 256)) = true.
Proof. exact macroman_table_ok. Qed.

Example C07_nonvacuous :
  read_path_comps [[114]] [[DOT; DOT]; [97; SLASH; DOT; DOT; SLASH; DOT; DOT]; [98]] [DOT; DOT; SLASH; 99]
  = [[114]; [98]; [99]].
Proof. vm_compute. reflexivity. Qed.

Print Assumptions C07_ReadPath_inside.
Print Assumptions C07_folder_item_inside.
Print Assumptions C07_rename_target_inside.
Print Assumptions C07_account_update_path_inside.
Print Assumptions C07_side_files_inside.
