(* C14 — Each client receives whole, well-formed, correlated transactions.  Property theorems only. *)
From Coq Require Import List Permutation String.
From Verif Require Import Base.Bytes Wire.Parse Wire.Types Wire.Impl Wire.Proofs Srv.Outbox Srv.OutboxProofs Gen.Handlers.
Import ListNotations.

(* The connection is TCP-like: every Write call is atomic, calls of different writers arrive in any order.
   Whatever the number of concurrent senders and whatever the schedule, the chunks a client receives are a
   permutation of the chunks written to it ... *)
Theorem C14_any_schedule_is_a_permutation_of_the_writes :
  forall (ws : list (list bytes)) out, interleave ws out -> Permutation out (concat ws).
Proof. exact (@interleave_perm bytes). Qed.

(* ... and since every transaction is handed to the connection in ONE Write (sendTransaction), the received
   stream is a concatenation of whole transactions, which the receiver's framing recovers exactly - each with
   consistent size/count/field-length prefixes (the reference decoder trusts them all). *)
Theorem C14_whole_frames :
  forall ts out, Forall tran_wf ts -> interleave (map chunks_fixed ts) out ->
    exists ts', Permutation ts ts' /\ out = map spec_enc_tran ts' /\
                parse_all (List.length ts') (concat out) = Some ts'.
Proof. exact whole_frames. Qed.

Theorem C14_concatenated_frames_parse :
  forall ts, Forall tran_wf ts -> parse_all (List.length ts) (concat (map spec_enc_tran ts)) = Some ts.
Proof. exact parse_all_concat. Qed.

(* replies carry the reply flag and the request's ID and go to the requester *)
Theorem C14_reply_correlated :
  forall cc req fields msg,
    let r := new_reply cc req fields in let e := new_err_reply cc req msg in
    ad_to r = cc /\ t_isreply (ad_tran r) = 1 /\ t_id (ad_tran r) = t_id req /\
    ad_to e = cc /\ t_isreply (ad_tran e) = 1 /\ t_id (ad_tran e) = t_id req /\ t_err (ad_tran e) = 1.
Proof. exact reply_correlated. Qed.

(* at most one reply per request: on every path through every handler (table regenerated from the source:
   maximum number of reply constructions on any path; 999 = inside a loop) *)
Lemma handlers_reply_bound : forallb (fun h => (snd h <=? 1)%nat) handler_max_replies = true.
Proof. vm_compute. reflexivity. Qed.
Theorem C14_at_most_one_reply_per_request :
  forall name n, In (name, n) handler_max_replies -> (n <= 1)%nat.
Proof.
  intros name n Hin. pose proof handlers_reply_bound as H. rewrite forallb_forall in H.
  specialize (H _ Hin). cbn in H. now apply Nat.leb_le.
Qed.
Theorem C14_every_registered_handler_is_analysed :
  forallb (fun r => existsb (fun h => String.eqb (fst h) (snd r)) handler_max_replies) registered = true.
Proof. vm_compute. reflexivity. Qed.

(* the chunked sender of the pinned tree (io.Copy through a 32 KiB buffer) is refuted *)
Theorem C14_pinned_sender_torn :
  interleave [chunks_pinned big_tran; chunks_pinned small_tran] [big_c1; impl_bytes_tran small_tran; big_c2] /\
  torn_parses_to_sent = false.
Proof. exact (conj torn_is_an_interleaving torn_does_not_parse). Qed.

Example C14_nonvacuous :
  interleave (map chunks_fixed [small_tran; small_tran]) [impl_bytes_tran small_tran; impl_bytes_tran small_tran].
Proof.
  cbn [map chunks_fixed].
  apply (il_step [] _ [] [[impl_bytes_tran small_tran]]). apply (il_step [[]] _ [] []).
  apply il_nil. repeat constructor.
Qed.

Print Assumptions C14_whole_frames.
Print Assumptions C14_any_schedule_is_a_permutation_of_the_writes.
Print Assumptions C14_at_most_one_reply_per_request.
Print Assumptions C14_pinned_sender_torn.
