(* C06 — No privilege amplification; protected users cannot be kicked.
   This file contains only the property theorems, each closed by [exact], and their assumptions. *)
From Verif Require Import Base.Bytes Auth.Access Auth.AccessProofs.

(* An account created through either creation request (NewUser: via = false; the create branch of
   UpdateUser: via = true) holds exactly the requested bitmap (Go copy semantics into [8]byte) and no
   privilege its creator lacks — for all creator bitmaps and all request field contents. *)
Theorem C06_no_amplification :
  forall (via : bool) (creator : bitmap) (req : bytes) (absent : bool) (stored : bitmap),
    create_account via creator req absent = (StDone, Some stored) ->
    stored = copy8 (if absent then [] else req) /\
    forall i, (i < 64)%nat -> IsSet stored i = true -> IsSet creator i = true.
Proof. exact create_account_no_amplification. Qed.

Theorem C06_created_only_when_accepted :
  forall via creator req absent st stored,
    create_account via creator req absent = (st, Some stored) -> st = StDone.
Proof. exact create_account_only_when_done. Qed.

Theorem C06_excess_refused :
  forall via creator req i,
    (i < 64)%nat -> IsSet (copy8 req) i = true -> IsSet creator i = false ->
    snd (create_account via creator req false) = None.
Proof. exact create_account_refuses_excess. Qed.

Theorem C06_subset_accepted :
  forall via creator req,
    IsSet creator ACCESS_CREATE_USER = true ->
    (forall i, (i < 64)%nat -> IsSet (copy8 req) i = true -> IsSet creator i = true) ->
    create_account via creator req false = (StDone, Some (copy8 req)).
Proof. exact create_account_accepts_subset. Qed.

(* A target whose account has cannot-be-disconnected is neither closed nor banned, whatever the
   requester's privileges and whatever ban option (absent, temporary, permanent, malformed). *)
Theorem C06_protected_never_disconnected :
  forall requester target opt absent,
    IsSet target ACCESS_CANNOT_BE_DISCON = true ->
    let r := disconnect_user requester target opt absent in
    d_closed r = false /\ d_ban r = NoBan /\ d_status r <> StDone.
Proof. exact protected_never_disconnected. Qed.

Theorem C06_unprotected_disconnected :
  forall requester target o0 o1 rest,
    IsSet requester ACCESS_DISCON_USER = true -> IsSet target ACCESS_CANNOT_BE_DISCON = false ->
    let r := disconnect_user requester target (o0 :: o1 :: rest) false in
    d_closed r = true /\ d_status r = StDone /\
    d_ban r = (if o1 =? 1 then TempBan else if o1 =? 2 then PermBan else NoBan).
Proof. exact unprotected_disconnected. Qed.

(* the bit numbering itself: Set i then IsSet j, for all positions and all byte values *)
Theorem C06_bit_numbering :
  forall b i j, (i < 64)%nat -> (j < 64)%nat -> List.length b = 8%nat ->
    IsSet (SetBit b i) j = (i =? j)%nat || IsSet b j.
Proof. exact IsSet_SetBit. Qed.

(* non-vacuity: concrete states meeting the hypotheses *)
Example C06_nonvacuous_create :
  create_account true [255;255;255;255;0;0;0;0] [0;2;1] false = (StDone, Some [0;2;1;0;0;0;0;0]).
Proof. vm_compute. reflexivity. Qed.
Example C06_nonvacuous_refuse :
  create_account false [0;2;0;0;0;0;0;0] [0;2;1] false = (StDenied, None).
Proof. vm_compute. reflexivity. Qed.
Example C06_nonvacuous_protected :
  IsSet [0;0;1;0;0;0;0;0] ACCESS_CANNOT_BE_DISCON = true.
Proof. vm_compute. reflexivity. Qed.

Print Assumptions C06_no_amplification.
Print Assumptions C06_created_only_when_accepted.
Print Assumptions C06_excess_refused.
Print Assumptions C06_subset_accepted.
Print Assumptions C06_protected_never_disconnected.
Print Assumptions C06_unprotected_disconnected.
Print Assumptions C06_bit_numbering.
