(* C02 — Segmentation-independent parsing of client byte streams.
   Only property theorems and their assumptions. *)
From Verif Require Import Base.Bytes Lib.Scanner Lib.ScannerProofs Net.Session Net.SessionProofs.

(* Every run of bufio.Scanner + transactionScanner — whatever non-empty pieces the bytes arrive in, and however
   the scanner re-chunks them through its 64 KiB buffer — hands the handlers exactly frames(bytes). *)
Theorem C02_scan_independent :
  forall pend unread out, scans pend unread out -> out = frames (pend ++ unread).
Proof. exact scan_independent. Qed.

Theorem C02_two_segmentations_same_tokens :
  forall bs out1 out2, scans [] bs out1 -> scans [] bs out2 -> out1 = out2.
Proof. exact scan_two_runs. Qed.

(* A fixed-size stage (handshake 12, transfer preamble 16, flattened-file headers; io.ReadFull / binary.Read)
   consumes exactly its bytes under every chunking and leaves the rest of the stream untouched. *)
Theorem C02_stage_exact_consumption :
  forall chunks n, (n <= List.length (concat chunks))%nat ->
    exists rest, read_full n chunks = Some (firstn n (concat chunks), rest) /\
                 concat rest = skipn n (concat chunks).
Proof. exact read_full_exact. Qed.

Theorem C02_stage_short_stream :
  forall chunks n, (List.length (concat chunks) < n)%nat -> read_full n chunks = None.
Proof. exact read_full_short. Qed.

(* Control connection: handshake bytes and the token sequence are functions of the byte string. *)
Theorem C02_control_session_independent :
  forall chunks1 chunks2 hs1 r1 out1 hs2 r2 out2,
    concat chunks1 = concat chunks2 ->
    read_full 12 chunks1 = Some (hs1, r1) -> scans [] (concat r1) out1 ->
    read_full 12 chunks2 = Some (hs2, r2) -> scans [] (concat r2) out2 ->
    hs1 = hs2 /\ out1 = out2.
Proof. exact session_independent. Qed.

Theorem C02_control_session_is_function_of_bytes :
  forall chunks hs rest out,
    read_full 12 chunks = Some (hs, rest) -> scans [] (concat rest) out ->
    control_bytes (concat chunks) = {| cv_handshake := Some hs; cv_tokens := out |}.
Proof. exact control_independent. Qed.

(* Transfer connection (upload): preamble, headers and the bytes written to the partial file are functions
   of the byte string; the data fork receives exactly the declared number of bytes, or everything that
   arrived when the stream ends early. *)
Theorem C02_upload_independent : forall chunks, upload_chunks chunks = upload_bytes (concat chunks).
Proof. exact upload_independent. Qed.
(* ... including the decision that the whole upload has arrived when a third (resource) fork is announced *)
Theorem C02_upload_done_independent : forall chunks, upload_done_chunks chunks = upload_done_bytes (concat chunks).
Proof. exact upload_done_independent. Qed.

(* ... and a FOLDER upload: the item headers (2 + 2 + 2 + path bytes, io.ReadFull each), the size word and the
   flattened file of every file item are parsed into the same items with the same data under every segmentation,
   for every announced item count - also when a read returns the tail of one file together with the next item's
   header *)
Theorem C02_folder_upload_independent :
  forall n chunks, folder_upload_chunks n chunks = folder_upload_bytes n (concat chunks).
Proof. exact folder_upload_independent. Qed.
Example C02_folder_upload_nonvacuous :   (* preamble, a folder "d" and a file "f" with data [7; 8], split in odd places *)
  let pre := repeat 0 16 in
  let dirh := [0;8; 0;1; 0;1; 0;0;1;100] ++ [] in
  let fh := [0;8; 0;0; 0;1; 0;0;1;102] ++ [0;0;0;0] ++
            repeat 0 22 ++ [0;2] ++ repeat 0 12 ++ [0;0;0;1] ++ [9] ++ repeat 0 12 ++ [0;0;0;2] ++ [7;8] in
  let s := pre ++ dirh ++ fh in
  folder_upload_bytes 2 s = Some [mk_fitem [0;0;1;100] true []; mk_fitem [0;0;1;102] false [7;8]] /\
  folder_upload_chunks 2 [firstn 21 s; firstn 30 (skipn 21 s); skipn 51 s] = folder_upload_bytes 2 s.
Proof. vm_compute. split; reflexivity. Qed.

Theorem C02_payload_written_is_prefix :
  forall chunks n, let '(w, rest, ok) := copy_n n chunks in
    w = firstn n (concat chunks) /\
    (ok = true -> concat rest = skipn n (concat chunks)) /\
    (ok = (n <=? List.length (concat chunks))%nat).
Proof. exact copy_n_written. Qed.

(* non-vacuity: a two-transaction stream split in the middle of a header *)
Example C02_nonvacuous :
  let t := [0;0;1;244;0;0;0;2;0;0;0;0;0;0;0;2;0;0;0;2;0;0] in
  scans [] (t ++ t) [t; t] /\ frames (t ++ t) = [t; t] /\ read_full 3 [[1]; [2;3;4]; [5]] = Some ([1;2;3], [[4]; [5]]).
Proof.
  cbn zeta. split; [|split; vm_compute; reflexivity].
  eapply (sc_read [] [0;0;1;244;0]); [reflexivity|discriminate|vm_compute; discriminate|].
  eapply (sc_read _ [0;0;2;0;0;0;0;0;0;0;2;0;0;0;2;0;0;0;0;1]); [reflexivity|discriminate|vm_compute; discriminate|].
  eapply sc_emit; [vm_compute; reflexivity|].
  eapply (sc_read _ [244;0;0;0;2;0;0;0;0;0;0;0;2;0;0;0;2;0;0]); [reflexivity|discriminate|vm_compute; discriminate|].
  eapply sc_emit; [vm_compute; reflexivity|]. apply sc_eof. reflexivity.
Qed.

Print Assumptions C02_scan_independent.
Print Assumptions C02_stage_exact_consumption.
Print Assumptions C02_control_session_independent.
Print Assumptions C02_upload_independent.
Print Assumptions C02_payload_written_is_prefix.
Print Assumptions C02_upload_done_independent.
Print Assumptions C02_folder_upload_independent.
