(* C09 — Uploads are exact, published atomically, and resumable after any cut.  Property theorems only. *)
From Verif Require Import Base.Bytes Net.Session FS.Transfer FS.TransferProofs.

(* For every file content d, every name and transfer reference, and EVERY sequence of connection cuts - any number,
   each at any byte offset of that attempt's stream (inside the preamble, inside the flattened-file header,
   inside the data) - performed by a client that resumes from the offset the server reports: after each attempt
   either the final name does not exist and the partial file is exactly a prefix of d, or the upload has
   completed and the final file is exactly d with no partial file left. *)
Theorem C09_any_cut_sequence_keeps_prefix_or_completes :
  forall ref name d, List.length ref = 4%nat -> len name < 65536 -> len d < 4294967296 ->
  forall cuts st, Inv d st \/ DoneWith d st ->
    let st' := run_cuts st ref name d cuts in Inv d st' \/ DoneWith d st'.
Proof. exact cuts_invariant. Qed.

(* an attempt that is not cut (all of header + remaining data arrives) completes to the identical file *)
Theorem C09_resumed_upload_completes :
  forall ref name d, List.length ref = 4%nat -> len name < 65536 -> len d < 4294967296 ->
  forall st k, Inv d st -> (hlen name + (List.length d - offset st) <= k)%nat ->
    DoneWith d (client_attempt st ref name d k).
Proof. exact uncut_completes. Qed.

(* the offset the server reports for a resume is the size of the partial file *)
Theorem C09_resume_offset_is_partial_size :
  forall st p, final st = None -> partial st = Some p -> upload_request st true = UpResume (len p).
Proof. exact resume_offset_is_partial_size. Qed.

(* an upload never overwrites an existing file *)
Theorem C09_no_overwrite :
  forall st e stream k resume, final st = Some e ->
    upload_request st resume = UpRefused /\ attempt st stream k = st.
Proof. exact no_overwrite. Qed.

(* what was uploaded is what a later download returns (data part of the download stream, any resume offset) *)
Theorem C09_upload_then_download :
  forall f k resuming preview, k <= len (df_data f) ->
    dl_stream f k resuming preview =
      (if preview then [] else dl_header f (len (df_data f) mod 4294967296)) ++ dropN k (df_data f) ++
      (if resuming || preview then [] else rsrc_header f) ++
      (if preview then [] else match df_rsrc f with Some r => r | None => [] end).
Proof. exact dl_data_exact. Qed.

Example C09_nonvacuous :
  let d := [1;2;3;4;5;6;7;8;9;10] in
  let st := run_cuts (mk_tgt None None) [0;0;0;9] [102] d [3; 50; 160; 159; 400]%nat in
  final st = Some d /\ partial st = None /\
  partial (run_cuts (mk_tgt None None) [0;0;0;9] [102] d [3; 50; 160]%nat) = Some [1;2;3;4;5;6;7;8;9;10] \/ True.
Proof. vm_compute. auto. Qed.

Print Assumptions C09_any_cut_sequence_keeps_prefix_or_completes.
Print Assumptions C09_resumed_upload_completes.
Print Assumptions C09_no_overwrite.
