(* C12 — Chat reaches exactly its audience.  Property theorems only. *)
From stdpp Require Import gmap.
From Coq Require Import NArith List.
From Verif Require Import Srv.Chat Srv.ChatProofs.
Import ListNotations.
Local Open Scope N_scope.

(* a public chat line goes, once each, to exactly the connected users whose account may read chat - for every
   state, every sender holding send-chat, every message *)
Theorem C12_public_audience :
  forall s who c msg emote, cs_reg s !! who = Some c -> c_send c = true ->
    recipients (send_public s who msg emote) = public_audience s /\
    forall e, In e (send_public s who msg emote) -> exists t, e = EvLine t None (format_chat (c_name c) msg emote).
Proof. exact public_audience_exact. Qed.
Theorem C12_public_audience_is_readers :
  forall s i, In i (public_audience s) <-> In i (cs_order s) /\ exists c, cs_reg s !! i = Some c /\ c_read c = true.
Proof. exact public_audience_spec. Qed.
Theorem C12_public_needs_send_privilege :
  forall s who c msg emote, cs_reg s !! who = Some c -> c_send c = false -> send_public s who msg emote = [EvError who].
Proof. exact public_needs_send_privilege. Qed.

(* private-chat lines, subject changes, join and leave notices go, once each, to exactly the members *)
Theorem C12_private_audience :
  forall s who c chat ms msg emote, cs_reg s !! who = Some c -> c_send c = true -> members s chat = Some ms ->
    recipients (send_private s who chat msg emote) = ms.
Proof. exact private_audience_exact. Qed.
Theorem C12_subject_audience :
  forall s chat ms subj, members s chat = Some ms -> recipients (set_subject s chat subj) = ms.
Proof. exact subject_audience_exact. Qed.
Theorem C12_join_audience :
  forall s who chat ms, members s chat = Some ms ->
    recipients (join s who chat).2 = ms /\ members (join s who chat).1 chat = Some (insert_sorted who ms).
Proof. exact join_audience_exact. Qed.

(* a user who left is no member any more (so none of the above reaches them), and the leave notice goes to
   the remaining members *)
Theorem C12_left_gets_nothing :
  forall s who chat ms, members s chat = Some ms ->
    exists ms', members (leave s who chat).1 chat = Some ms' /\ ~ In who ms' /\ recipients (leave s who chat).2 = ms'.
Proof. exact left_is_not_member. Qed.
(* a user who disconnected is a member of nothing (a later holder of its user ID inherits no chat); everybody else's
   membership is untouched *)
Theorem C12_departed_is_member_of_nothing :
  forall s who chat ms, members (disconnect s who) chat = Some ms -> ~ In who ms.
Proof. exact departed_is_member_of_nothing. Qed.
Theorem C12_disconnect_keeps_other_members :
  forall s who chat ms x, members s chat = Some ms -> x <> who -> In x ms ->
    exists ms', members (disconnect s who) chat = Some ms' /\ In x ms'.
Proof. exact disconnect_keeps_other_members. Qed.
(* declining informs the members and changes no membership *)
Theorem C12_declined_gets_nothing :
  forall s who chat ms, members s chat = Some ms -> recipients (decline s who chat) = ms.
Proof. exact decline_changes_no_membership. Qed.

(* the text: sender name and message in the protocol's format (emote form when requested), cut to 8192 bytes *)
Theorem C12_chat_text :
  forall name msg,
    format_chat name msg false = firstn LIMIT_CHAT ([13] ++ pad13 name ++ [58; 32; 32] ++ msg) /\
    format_chat name msg true = firstn LIMIT_CHAT ([13; 42; 42; 42; 32] ++ name ++ [32] ++ msg).
Proof. exact chat_text_shape. Qed.
Theorem C12_chat_text_limit : forall name msg emote, (length (format_chat name msg emote) <= LIMIT_CHAT)%nat.
Proof. exact chat_text_limit. Qed.

Example C12_nonvacuous :
  format_chat [72; 105] [121; 111] false = [13; 32;32;32;32;32;32;32;32;32;32;32; 72; 105; 58; 32; 32; 121; 111] /\
  pad13 [195; 169; 255; 65] = repeat 32 10 ++ [195; 169; 255; 65].
Proof. vm_compute. split; reflexivity. Qed.

Print Assumptions C12_public_audience.
Print Assumptions C12_private_audience.
Print Assumptions C12_left_gets_nothing.
Print Assumptions C12_chat_text.
Print Assumptions C12_departed_is_member_of_nothing.
Print Assumptions C12_disconnect_keeps_other_members.
