(* Single-file transfers: UploadHandler + receiveFile + HandleUploadFile (resume offset), and
   HandleDownloadFile + DownloadHandler.  Model only. *)
From Verif Require Import Base.Bytes Wire.Parse Wire.Types Wire.Impl Net.Session.

(* ------------------------------------------------------------------------------------------ upload *)
(* the target of an upload: the final file and the .incomplete file (fork side files are not kept unless
   PreserveResourceForks is configured; the model is for the default configuration) *)
Record tgt := mk_tgt { final : option bytes; partial : option bytes }.

(* what the server does with the first k bytes of a transfer stream followed by a connection cut
   (k >= |stream|: the whole stream arrived).  The preamble is read by handleFileTransfer; UploadHandler
   refuses when the final name exists, opens/creates <name>.incomplete in append mode, parses the flattened
   file header, appends the data-fork bytes that arrive (at most the declared number) and renames the
   partial file to the final name once all of them arrived. *)
Definition attempt (st : tgt) (stream : bytes) (k : nat) : tgt :=
  if (k <? 16)%nat then st                       (* cut inside the 16-byte preamble: no handler runs *)
  else match final st with
       | Some _ => st                            (* existing file found: refused, nothing touched *)
       | None =>
           let p0 := match partial st with Some p => p | None => [] end in
           match upload_bytes (firstn k stream) with
           | None => mk_tgt None (Some p0)       (* header incomplete: the partial file exists, unchanged *)
           | Some v => if uv_complete v then mk_tgt (Some (p0 ++ uv_written v)) None
                       else mk_tgt None (Some (p0 ++ uv_written v))
           end
       end.

(* HandleUploadFile: refused when the final name exists; with the resume option the reply carries the size of
   the partial file (field 203); without a partial file a resume request gets no reply *)
Inductive upreply := UpRefused | UpFresh | UpResume (offset : N) | UpNoReply.
Definition upload_request (st : tgt) (resume : bool) : upreply :=
  match final st with
  | Some _ => UpRefused
  | None => if resume then match partial st with Some p => UpResume (len p) | None => UpNoReply end
            else UpFresh
  end.

(* the transfer stream an honest client sends for the data r it still has to deliver *)
Definition HTXF_ : bytes := [72; 84; 88; 70].
Definition client_header (ref : bytes) (name : bytes) (n : N) : bytes :=
  let info := [65;77;65;67] ++ [84;69;88;84;116;116;120;116] ++ repeat 0 58 ++ be16 (len name) ++ name ++ [0; 0] in
  let ffo := [70;73;76;80] ++ [0; 1] ++ repeat 0 16 ++ [0; 2] ++
             INFO ++ repeat 0 8 ++ be32 (len info) ++ info ++
             [68;65;84;65] ++ repeat 0 8 ++ be32 n in
  HTXF_ ++ ref ++ be32 (len ffo + n) ++ [0;0;0;0] ++ ffo.
Definition client_stream (ref name r : bytes) : bytes := client_header ref name (len r) ++ r.

(* the honest resuming client: asks for the offset when a partial file exists, sends the rest *)
Definition offset (st : tgt) : nat := match partial st with Some p => List.length p | None => 0 end.
Definition client_attempt (st : tgt) (ref name d : bytes) (k : nat) : tgt :=
  attempt st (client_stream ref name (skipn (offset st) d)) k.
Fixpoint run_cuts (st : tgt) (ref name d : bytes) (cuts : list nat) : tgt :=
  match cuts with [] => st | k :: ks => run_cuts (client_attempt st ref name d k) ref name d ks end.

(* ---------------------------------------------------------------------------------------- download *)
Record dfile := mk_dfile {
  df_name : bytes;                 (* file name as stored *)
  df_data : bytes;                 (* data fork *)
  df_info : option bytes;          (* stored .info_<name> fork, if any *)
  df_rsrc : option bytes;          (* stored .rsrc_<name> fork, if any *)
  df_type : bytes; df_creator : bytes; df_mtime : bytes   (* what the header shows for a file without .info_ *)
}.

(* the information fork sent: the stored one, or one synthesised from the file *)
Definition synth_info (f : dfile) : bytes :=
  [65;77;65;67] ++ df_type f ++ df_creator f ++ [0;0;0;0] ++ [0;0;1;0] ++ repeat 0 32 ++
  df_mtime f ++ df_mtime f ++ [0; 0] ++ be16 (len (df_name f)) ++ df_name f ++ [0; 0].
Definition info_bytes (f : dfile) : bytes :=
  match df_info f with Some i => i | None => synth_info f end.
Definition rsrc_len (f : dfile) : N := match df_rsrc f with Some r => len r | None => 0 end.

(* header as sent by DownloadHandler (wrapper built with offset 0: the DATA fork size field is the file size) *)
Definition dl_header (f : dfile) (datasize : N) : bytes :=
  [70;73;76;80] ++ [0; 1] ++ repeat 0 16 ++ [0; if df_info f then 3 else 2] ++
  INFO ++ repeat 0 8 ++ be32 (len (info_bytes f)) ++ info_bytes f ++
  [68;65;84;65] ++ repeat 0 8 ++ be32 datasize.
Definition MACR_ : bytes := [77; 65; 67; 82].
Definition rsrc_header (f : dfile) : bytes := MACR_ ++ repeat 0 8 ++ be32 (rsrc_len f).

(* HandleDownloadFile's reply: (transfer size field 108, file size field 207) *)
Definition dl_reply (f : dfile) (off : N) (preview : bool) : bytes * bytes :=
  let dsz := (len (df_data f) + 4294967296 - off mod 4294967296) mod 4294967296 in     (* uint32(size - off) *)
  let hdr := len (dl_header f dsz) in
  (if preview then be32 dsz else be32 (dsz + rsrc_len f + hdr), be32 dsz).

(* the bytes DownloadHandler writes: header unless preview; data from the offset; then, unless the client is
   resuming or previewing, the resource fork header; then the resource fork if one is stored *)
Definition dl_stream (f : dfile) (off : N) (resuming preview : bool) : bytes :=
  (if preview then [] else dl_header f (len (df_data f) mod 4294967296)) ++
  (if off <=? len (df_data f)
   then dropN off (df_data f) ++
        (if resuming || preview then [] else rsrc_header f) ++
        (if preview then [] else match df_rsrc f with Some r => r | None => [] end)
   else []).
