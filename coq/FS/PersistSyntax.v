(* Syntax of the table the translator writes to Gen/Persist.v (translator/persist.go): the calls of
   internal/mobius that change the file system. *)
From Coq Require Import List String Bool.
Import ListNotations.

Inductive pexpr :=
| PVar (src : string)                       (* a source expression, opaque *)
| PSuffix (e : pexpr) (lit : string).       (* e + "lit" *)

Record pcall := mk_pcall {
  pc_fn : string;
  pc_args : list pexpr;
  pc_deferred : bool;
  pc_guard : string
}.
