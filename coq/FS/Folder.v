(* Folder transfers (C10): DownloadFolderHandler / UploadFolderHandler (hotline/file_transfer.go), CalcItemCount
   (hotline/files.go), on the world of FS/Namespace.v.  Model only.
   Scope: trees of folders and plain files (no aliases, no stored forks), ASCII names (the decoder is C07/C11's). *)
From stdpp Require Import gmap.
From Verif Require Import Base.Bytes Lib.Path FS.Namespace.
Local Open Scope N_scope.

(* ---- filepath.Walk below a folder: pre-order, children in byte order of their names ---- *)
Fixpoint walk (fuel : nat) (w : world) (p : list name) : list (list name * node) :=
  match fuel with
  | O => []
  | S f => concat (map (fun '(n, x) => (p ++ [n], x) :: match x with NDir => walk f w (p ++ [n]) | _ => [] end)
                       (sort_by fst (children w p)))
  end.
Definition dotted (n : name) : bool := match n with 46 :: _ => true | _ => false end.
Definition visible (e : list name * node) : bool := negb (dotted (last (fst e) [])).
(* the items of a folder transfer: every entry below the folder whose OWN name has no leading dot *)
Definition items_of (fuel : nat) (w : world) (root : list name) : list (list name * node) :=
  List.filter visible (walk fuel w root).
(* CalcItemCount (uint16), for a folder whose own name is visible *)
Definition item_count (fuel : nat) (w : world) (root : list name) : N := len (items_of fuel w root) mod 65536.

(* ---- download: what the server sends for one item, given the client's answer to its header ---- *)
Inductive action := Send | Resume (offset : N) | Skip.
Definition PAYLOAD : N := 130.         (* flattened-file header 24 + INFO fork header 16 + info fork 74 (+ name) + DATA fork header 16 *)
Record sent := mk_sent { s_path : list name; s_isdir : bool; s_prefix : option N; s_data : bytes }.
Definition rel (root p : list name) : list name := skipn (List.length root) p.
Definition send_item (root : list name) (e : list name * node) (a : action) : sent :=
  let '(p, x) := e in
  match x with
  | NDir => mk_sent (rel root p) true None []
  | NFile d =>
      match a with
      | Skip => mk_sent (rel root p) false None []
      | Send => mk_sent (rel root p) false (Some ((PAYLOAD + len (last p []) + len d) mod 4294967296)) d
      | Resume k => mk_sent (rel root p) false (Some ((PAYLOAD + len (last p []) + len d - k) mod 4294967296)) (dropN k d)
      end
  | _ => mk_sent (rel root p) false None []
  end.
Fixpoint download (root : list name) (items : list (list name * node)) (acts : list action) : list sent :=
  match items with
  | [] => []
  | e :: r => match acts with
              | a :: ar => send_item root e a :: download root r ar
              | [] => send_item root e Send :: download root r []
              end
  end.

(* ---- upload: the client streams items; the server answers each header with an action ---- *)
Record up_item := mk_up { u_path : list name; u_isdir : bool; u_data : bytes }.
Inductive up_reply := UNext | USend | UResume (offset : N) | UFail.
(* one item arriving for the target folder [t] *)
Definition upload_step (w : world) (t : list name) (it : up_item) : world * up_reply :=
  let p := t ++ u_path it in
  if u_isdir it then
    match w !! p with
    | Some _ => (w, UNext)
    | None => match w !! (parent p) with
              | Some NDir => (<[p := NDir]> w, UNext)
              | _ => match parent p with [] => (<[p := NDir]> w, UNext) | _ => (w, UFail) end
              end
    end
  else
    let pi := parent p ++ [incomplete_name (last p [])] in
    match w !! pi with
    | Some (NFile part) =>                               (* a partial upload is there: the client sends the rest *)
        (<[p := NFile (part ++ dropN (len part) (u_data it))]> (delete pi w), UResume (len part))
    | Some _ => (w, UFail)
    | None =>
        match w !! p with
        | Some _ => (w, UNext)                            (* already complete: skipped *)
        | None => match w !! (parent p) with
                  | Some NDir => (<[p := NFile (u_data it)]> w, USend)
                  | _ => (w, UFail)
                  end
        end
    end.
Fixpoint upload (w : world) (t : list name) (its : list up_item) : world * list up_reply :=
  match its with
  | [] => (w, [])
  | it :: r => let '(w1, a) := upload_step w t it in
               match a with
               | UFail => (w1, [UFail])
               | _ => let '(w2, as_) := upload w1 t r in (w2, a :: as_)
               end
  end.
(* the connection dies while the data of item [it] is arriving, after m of the bytes the client still had to send:
   what arrived is kept in the partial file; NOTHING is published under the final name (as repaired) *)
Definition upload_cut_step (w : world) (t : list name) (it : up_item) (m : nat) : world :=
  let p := t ++ u_path it in
  let pi := parent p ++ [incomplete_name (last p [])] in
  if u_isdir it then fst (upload_step w t it) else
  match w !! pi with
  | Some (NFile part) => <[pi := NFile (part ++ firstn m (dropN (len part) (u_data it)))]> w
  | Some _ => w
  | None => match w !! p with
            | Some _ => w
            | None => match w !! (parent p) with
                      | Some NDir => <[pi := NFile (firstn m (u_data it))]> w
                      | _ => w
                      end
            end
  end.
(* the stream a client sends for a tree: its items in walk order *)
Definition stream_of (fuel : nat) (w : world) (root : list name) : list up_item :=
  map (fun '(p, x) => mk_up (rel root p) (match x with NDir => true | _ => false end)
                            (match x with NFile d => d | _ => [] end)) (items_of fuel w root).
