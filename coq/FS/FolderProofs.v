(* Proofs for FS/Folder.v (C10). *)
From stdpp Require Import gmap.
From Coq Require Import Lia Permutation.
From Verif Require Import Base.Bytes Lib.Path FS.Namespace FS.NamespaceProofs FS.Folder.
Local Open Scope N_scope.

(* ---- download ---- *)
(* one header per item, whatever the client answers: the announced count is the number of headers *)
Theorem headers_match_items root items : forall acts, List.length (download root items acts) = List.length items.
Proof. induction items as [|e r IH]; intros acts; [reflexivity|]. destruct acts; cbn; now rewrite IH. Qed.
Theorem count_matches_headers (fuel : nat) (w : world) (root : list name) (acts : list action) :
  len (items_of fuel w root) < 65536 ->
  item_count fuel w root = len (download root (items_of fuel w root) acts).
Proof.
  intros H. unfold item_count, len in *. rewrite headers_match_items. now apply N.mod_small.
Qed.
(* the headers are the items, in order, with their paths relative to the requested folder *)
Theorem headers_are_the_items root items : forall acts,
  map s_path (download root items acts) = map (fun e => rel root (fst e)) items /\
  map s_isdir (download root items acts) = map (fun e => match snd e with NDir => true | _ => false end) items.
Proof.
  induction items as [|[p x] r IH]; intros acts; [split; reflexivity|].
  destruct acts as [|a ar]; cbn [download map].
  - destruct (IH []) as [H3 H4]. rewrite H3, H4. split; f_equal; destruct x; reflexivity.
  - destruct (IH ar) as [H1 H2]. rewrite H1, H2. split; f_equal; destruct x; try destruct a; reflexivity.
Qed.

(* the client's choice is honoured: the size prefix is the number of bytes that follow (payload + data sent),
   a resumed file continues at the offset, a skipped file sends nothing *)
Theorem action_respected root p d a :
  let s := send_item root (p, NFile d) a in
  match a with
  | Send => s_data s = d /\ s_prefix s = Some ((PAYLOAD + len (last p []) + len (s_data s)) mod 4294967296)
  | Resume k => k <= len d ->
                s_data s = dropN k d /\ s_prefix s = Some ((PAYLOAD + len (last p []) + len (s_data s)) mod 4294967296)
  | Skip => s_data s = [] /\ s_prefix s = None
  end.
Proof.
  cbn zeta. destruct a as [|k|]; cbn [send_item s_data s_prefix]; [split; reflexivity| |split; reflexivity].
  intros Hk. split; [reflexivity|]. f_equal. f_equal.
  unfold dropN, len in *. rewrite skipn_length. lia.
Qed.

(* every entry the walk reports is an entry of the tree, below the folder *)
Lemma ins_by_in {A} (key : A -> bytes) x y (l : list A) : In y (ins_by key x l) <-> y = x \/ In y l.
Proof.
  induction l as [|z l IH]; cbn; [intuition|]. destruct (bytes_ltb (key x) (key z)); cbn; [intuition|].
  rewrite IH. intuition.
Qed.
Lemma sort_by_in {A} (key : A -> bytes) y (l : list A) : In y (sort_by key l) <-> In y l.
Proof.
  induction l as [|x l IH]; cbn; [reflexivity|]. rewrite ins_by_in, IH. intuition.
Qed.
Lemma children_in (w : world) d n x : In (n, x) (children w d) -> w !! (d ++ [n]) = Some x.
Proof.
  unfold children. intros H. apply in_concat in H as (l & Hl & Hin). apply in_map_iff in Hl as ([p y] & <- & Hp).
  apply elem_of_list_In, elem_of_map_to_list in Hp.
  destruct (rev p) as [|n0 rd] eqn:Er; [destruct Hin|].
  case_bool_decide as Hd; [|destruct Hin]. destruct Hin as [[= <- <-]|[]].
  assert (p = rev rd ++ [n0]) as -> by (rewrite <- (rev_involutive p), Er; reflexivity).
  now rewrite Hd in Hp.
Qed.
Theorem walk_sound (fuel : nat) : forall (w : world) (p q : list name) (x : node),
  In (q, x) (walk fuel w p) -> w !! q = Some x /\ firstn (List.length p) q = p /\ (List.length p < List.length q)%nat.
Proof.
  induction fuel as [|f IH]; intros w p q x H; [destruct H|].
  cbn [walk] in H. apply in_concat in H as (l & Hl & Hin). apply in_map_iff in Hl as ([n y] & <- & Hc).
  apply sort_by_in in Hc. pose proof (children_in w p n y Hc) as Hw.
  destruct Hin as [[= <- <-]|Hin].
  - split; [exact Hw|]. rewrite firstn_app, Nat.sub_diag, firstn_all. cbn. rewrite app_nil_r. split; [reflexivity|].
    rewrite app_length. cbn. lia.
  - destruct y; try destruct Hin. apply IH in Hin as (H1 & H2 & H3). split; [exact H1|].
    rewrite app_length in H2, H3. cbn in H2, H3. split; [|lia].
    assert (Hq : firstn (List.length p) q = firstn (List.length p) (firstn (List.length p + 1) q)).
    { rewrite firstn_firstn. f_equal. lia. }
    rewrite Hq, H2, firstn_app, Nat.sub_diag, firstn_all. cbn. now rewrite app_nil_r.
Qed.
(* the items sent are entries of the tree whose OWN name has no leading dot *)
Theorem items_are_visible_entries (fuel : nat) (w : world) (root q : list name) (x : node) :
  In (q, x) (items_of fuel w root) ->
  w !! q = Some x /\ firstn (List.length root) q = root /\ dotted (last q []) = false.
Proof.
  unfold items_of. intros H. apply filter_In in H as [H Hv]. apply walk_sound in H as (H1 & H2 & _).
  repeat split; auto. unfold visible in Hv. cbn in Hv. now apply negb_true_iff in Hv.
Qed.

(* ---- upload: what one arriving item does ---- *)
(* a file that is already complete is skipped and left alone *)
Theorem upload_skips_complete (w : world) t it x :
  u_isdir it = false -> w !! (t ++ u_path it) = Some x ->
  w !! (parent (t ++ u_path it) ++ [incomplete_name (last (t ++ u_path it) [])]) = None ->
  upload_step w t it = (w, UNext).
Proof. intros Hd Hp Hi. unfold upload_step. now rewrite Hd, Hi, Hp. Qed.
(* a partial file is resumed from its length and then published complete; no partial file is left *)
Theorem upload_resumes_partial (w : world) t it part :
  u_isdir it = false ->
  w !! (parent (t ++ u_path it) ++ [incomplete_name (last (t ++ u_path it) [])]) = Some (NFile part) ->
  upload_step w t it =
    (<[t ++ u_path it := NFile (part ++ dropN (len part) (u_data it))]>
       (delete (parent (t ++ u_path it) ++ [incomplete_name (last (t ++ u_path it) [])]) w), UResume (len part)).
Proof. intros Hd Hi. unfold upload_step. now rewrite Hd, Hi. Qed.
Corollary resumed_prefix_gives_whole_file (part data : bytes) :
  part = takeN (len part) data -> len part <= len data -> part ++ dropN (len part) data = data.
Proof. intros H _. rewrite H at 1. unfold takeN, dropN. apply firstn_skipn. Qed.
(* a new file is written with exactly the bytes streamed; a new folder is created; nothing else changes *)
Theorem upload_writes_new_file (w : world) t it :
  u_isdir it = false -> w !! (t ++ u_path it) = None ->
  w !! (parent (t ++ u_path it) ++ [incomplete_name (last (t ++ u_path it) [])]) = None ->
  w !! parent (t ++ u_path it) = Some NDir ->
  upload_step w t it = (<[t ++ u_path it := NFile (u_data it)]> w, USend).
Proof. intros Hd Hp Hi Hpar. unfold upload_step. now rewrite Hd, Hi, Hp, Hpar. Qed.
Theorem upload_creates_folder (w : world) t it :
  u_isdir it = true -> w !! (t ++ u_path it) = None -> w !! parent (t ++ u_path it) = Some NDir ->
  upload_step w t it = (<[t ++ u_path it := NDir]> w, UNext).
Proof. intros Hd Hp Hpar. unfold upload_step. now rewrite Hd, Hp, Hpar. Qed.
(* a connection that dies inside a file never publishes it: the final name is exactly as before *)
Theorem cut_never_publishes (w : world) t it m :
  u_isdir it = false ->
  upload_cut_step w t it m !! (t ++ u_path it) = w !! (t ++ u_path it).
Proof.
  intros Hd. unfold upload_cut_step. rewrite Hd.
  set (p := t ++ u_path it). set (pi := parent p ++ [incomplete_name (last p [])]).
  assert (Hne : pi <> p).
  { unfold pi. intros E. destruct p as [|c r] eqn:Ep using rev_ind.
    - destruct (parent []); discriminate.
    - clear IHr. unfold parent in E. rewrite removelast_last, last_app_single in E.
      apply app_inv_head in E. injection E as E. symmetry in E. now apply name_ne_incomplete in E. }
  destruct (w !! pi) as [[| | |]|]; try reflexivity; try (now rewrite lookup_insert_ne).
  destruct (w !! p) eqn:Ew; [now rewrite Ew|]. destruct (w !! parent p) as [[| | |]|]; try (now rewrite Ew).
  rewrite lookup_insert_ne by assumption. exact Ew.
Qed.

(* ---- the walk is complete and reports nothing twice ---- *)
Lemma children_complete (w : world) d n x : w !! (d ++ [n]) = Some x -> In (n, x) (children w d).
Proof.
  intros H. unfold children. apply in_concat. exists [(n, x)]. split; [|now left].
  apply in_map_iff. exists (d ++ [n], x). split.
  - rewrite rev_app_distr. cbn. rewrite bool_decide_eq_true_2; [reflexivity|apply rev_involutive].
  - apply elem_of_list_In, elem_of_map_to_list. exact H.
Qed.

(* every entry below p all of whose ancestors (down to p) are folders is reported by the walk *)
Theorem walk_complete : forall (fuel : nat) (w : world) (p rest : list name) (x : node),
  rest <> [] -> (List.length rest <= fuel)%nat ->
  w !! (p ++ rest) = Some x ->
  (forall k, (0 < k < List.length rest)%nat -> w !! (p ++ firstn k rest) = Some NDir) ->
  In (p ++ rest, x) (walk fuel w p).
Proof.
  induction fuel as [|f IH]; intros w p rest x Hne Hf Hq Hanc; [destruct rest; [congruence|cbn in Hf; lia]|].
  destruct rest as [|n1 r]; [congruence|]. cbn [walk]. apply in_concat.
  destruct r as [|n2 r'].
  - exists ((p ++ [n1], x) :: match x with NDir => walk f w (p ++ [n1]) | _ => [] end). split; [|now left].
    apply in_map_iff. exists (n1, x). split; [reflexivity|]. apply sort_by_in. now apply children_complete.
  - assert (Hd : w !! (p ++ [n1]) = Some NDir).
    { specialize (Hanc 1%nat). cbn in Hanc. apply Hanc. lia. }
    exists ((p ++ [n1], NDir) :: walk f w (p ++ [n1])). split.
    + apply in_map_iff. exists (n1, NDir). split; [reflexivity|]. apply sort_by_in. now apply children_complete.
    + right. replace (p ++ n1 :: n2 :: r') with ((p ++ [n1]) ++ n2 :: r') by (rewrite <- app_assoc; reflexivity).
      apply IH; [discriminate|cbn in *; lia| |].
      * rewrite <- app_assoc. exact Hq.
      * intros k Hk. rewrite <- app_assoc. cbn [app]. specialize (Hanc (S k)). cbn [firstn] in Hanc. apply Hanc. cbn in *. lia.
Qed.

Lemma ins_by_perm {A} (key : A -> bytes) x (l : list A) : Permutation (ins_by key x l) (x :: l).
Proof.
  induction l as [|y l IH]; cbn; [reflexivity|]. destruct (bytes_ltb (key x) (key y)); [reflexivity|].
  rewrite IH. apply perm_swap.
Qed.
Lemma sort_by_perm {A} (key : A -> bytes) (l : list A) : Permutation (sort_by key l) l.
Proof. induction l as [|x l IH]; cbn; [reflexivity|]. rewrite ins_by_perm. now rewrite IH. Qed.

(* the names of a folder's entries are pairwise different (they are keys of one map) *)
Lemma children_names_nodup (w : world) d : base.NoDup (map fst (children w d)).
Proof.
  unfold children.
  pose proof (NoDup_fst_map_to_list w) as Hk. change (fmap fst (map_to_list w)) with (map fst (map_to_list w)) in Hk.
  induction (map_to_list w) as [|[p x] l IH]; cbn [map concat]; [constructor|].
  inversion Hk as [|? ? Hnotin Hrest]; subst. specialize (IH Hrest).
  destruct (rev p) as [|n rd] eqn:Er; [exact IH|].
  case_bool_decide as Hd; [|exact IH]. cbn [app map]. constructor; [|exact IH].
  intros Hin. apply elem_of_list_In in Hin. apply in_map_iff in Hin as ([n' y] & Hn & Hin). cbn in Hn. subst n'.
  apply in_concat in Hin as (blk & Hblk & Hin). apply in_map_iff in Hblk as ([p' x'] & <- & Hp').
  destruct (rev p') as [|n0 rd'] eqn:Er'; [destruct Hin|].
  case_bool_decide as Hd'; [|destruct Hin]. destruct Hin as [[= -> ->]|[]].
  assert (p' = p).
  { rewrite <- (rev_involutive p'), <- (rev_involutive p), Er, Er'. cbn. now rewrite Hd, Hd'. }
  subst p'. apply Hnotin. apply elem_of_list_In. apply in_map_iff. exists (p, y). split; [reflexivity|exact Hp'].
Qed.

(* the walk reports no path twice *)
Theorem walk_nodup : forall (fuel : nat) (w : world) (p : list name), base.NoDup (map fst (walk fuel w p)).
Proof.
  induction fuel as [|f IH]; intros w p; [constructor|]. cbn [walk].
  assert (Hn : base.NoDup (map fst (sort_by fst (children w p)))).
  { rewrite (Permutation_map fst (sort_by_perm fst (children w p))). apply children_names_nodup. }
  induction (sort_by fst (children w p)) as [|[n x] cs IHc]; cbn [map concat]; [constructor|].
  inversion Hn as [|? ? Hnot Hrest]; subst. specialize (IHc Hrest).
  rewrite map_app. apply NoDup_app. repeat split.
  - (* the block of one entry *)
    cbn [map fst]. constructor.
    + intros Hin. apply elem_of_list_In in Hin. destruct x; try destruct Hin.
      apply in_map_iff in Hin as ([q y] & Hq & Hin). cbn in Hq. subst q.
      apply walk_sound in Hin as (_ & _ & Hlen). lia.
    + destruct x; try constructor. apply IH.
  - (* blocks of different entries share no path: all paths of a block begin with p ++ [name] *)
    intros q Hq1 Hq2. apply elem_of_list_In in Hq1, Hq2.
    assert (P1 : firstn (S (List.length p)) q = p ++ [n]).
    { cbn [map fst] in Hq1. destruct Hq1 as [<-|Hq1].
      - replace (S (List.length p)) with (List.length (p ++ [n])) by (rewrite app_length; cbn; lia). apply firstn_all.
      - destruct x; try destruct Hq1. apply in_map_iff in Hq1 as ([q' y] & Hq' & Hin). cbn in Hq'. subst q'.
        apply walk_sound in Hin as (_ & Hpre & _). rewrite app_length in Hpre. cbn in Hpre.
        now replace (List.length p + 1)%nat with (S (List.length p)) in Hpre by lia. }
    apply in_map_iff in Hq2 as ([q' y] & Hq' & Hin). cbn in Hq'. subst q'.
    apply in_concat in Hin as (blk & Hblk & Hin). apply in_map_iff in Hblk as ([n2 x2] & <- & Hc2).
    assert (P2 : firstn (S (List.length p)) q = p ++ [n2]).
    { destruct Hin as [[= <- <-]|Hin].
      - replace (S (List.length p)) with (List.length (p ++ [n2])) by (rewrite app_length; cbn; lia). apply firstn_all.
      - destruct x2; try destruct Hin. apply walk_sound in Hin as (_ & Hpre & _). rewrite app_length in Hpre. cbn in Hpre.
        now replace (List.length p + 1)%nat with (S (List.length p)) in Hpre by lia. }
    rewrite P1 in P2. apply app_inv_head in P2. injection P2 as ->.
    apply Hnot. apply elem_of_list_In. apply in_map_iff. exists (n2, x2). split; [reflexivity|exact Hc2].
  - exact IHc.
Qed.
