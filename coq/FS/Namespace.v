(* The file namespace (C11): what the file handlers (internal/mobius/transaction_handlers.go: GetFileNameList,
   GetFileInfo, SetFileInfo, DeleteFile, MoveFile, NewFolder, MakeAlias, DownloadFile) and hotline/files.go,
   file_wrapper.go do to the tree under the file root.  Model only.

   Names are the WIRE (Mac Roman) names; the disk holds their UTF-8 decodings (ReadPath decodes the joined path,
   the listing encodes each name back; Base/MacRoman.v, FS/NamespaceProofs.v: the two are inverse on every name).
   A world maps the component list of a path below the file root to what is there. *)
From stdpp Require Import gmap.
From Verif Require Import Base.Bytes Lib.Path Gen.FileTypes.
Local Open Scope N_scope.

Inductive node :=
| NFile (data : bytes)
| NInfo (ty cr comment : bytes)          (* an info fork side file: type, creator, comment *)
| NDir
| NLink (target : list name).            (* alias: symbolic link to a path below the root *)
#[global] Instance node_eq_dec : EqDecision node. Proof. solve_decision. Defined.
Notation world := (gmap (list name) node).

(* ---- names ---- *)
Definition INCOMPLETE : bytes := [46;105;110;99;111;109;112;108;101;116;101].
Fixpoint ends_with (suffix s : bytes) : bool :=
  bytes_eqb s suffix || match s with [] => false | _ :: r => ends_with suffix r end.
(* strings.TrimSuffix(name, ".incomplete") - the listing as repaired *)
Definition strip_incomplete (n : name) : name :=
  if ends_with INCOMPLETE n then firstn (List.length n - List.length INCOMPLETE) n else n.
(* default IgnoreFiles: ^\. and ^@ *)
Definition ignored (n : name) : bool := match n with 46 :: _ => true | 64 :: _ => true | _ => false end.

(* filepath.Ext + strings.ToLower + the extension table *)
Definition lower (c : N) : N := if (65 <=? c) && (c <=? 90) then c + 32 else c.
Fixpoint ext_of (n : name) : bytes :=          (* from the LAST dot on *)
  match n with
  | [] => []
  | c :: r => match ext_of r with
              | [] => if c =? 46 then c :: r else []
              | e => e
              end
  end.
Definition type_of_name (n : name) : bytes * bytes :=
  match List.filter (fun e => bytes_eqb (fst e) (map lower (ext_of n))) ext_types with
  | e :: _ => snd e
  | [] => default_type
  end.
Definition FLDR : bytes := [102; 108; 100; 114].

(* ---- looking at the tree ---- *)
Definition parent (p : list name) : list name := removelast p.
Definition children (w : world) (d : list name) : list (name * node) :=
  concat (map (fun '(p, x) => match rev p with
                              | n :: rd => if bool_decide (rev rd = d) then [(n, x)] else []
                              | [] => []
                              end) (map_to_list w)).
Fixpoint bytes_ltb (x y : bytes) : bool :=
  match x, y with
  | [], [] => false
  | [], _ => true
  | _, [] => false
  | a :: x', b :: y' => if a <? b then true else if b <? a then false else bytes_ltb x' y'
  end.
Fixpoint ins_by {A} (key : A -> bytes) (x : A) (l : list A) : list A :=
  match l with
  | [] => [x]
  | y :: r => if bytes_ltb (key x) (key y) then x :: l else y :: ins_by key x r
  end.
Definition sort_by {A} (key : A -> bytes) (l : list A) : list A := fold_right (ins_by key) [] l.

(* os.Stat of a path: aliases are followed (chains too); a chain that does not end is ELOOP *)
(* does the path run through something that is not a folder? *)
Definition through_file (w : world) (p : list name) : bool :=
  existsb (fun k => match w !! (firstn k p) with Some (NFile _) | Some (NInfo _ _ _) => true | _ => false end)
          (seq 1 (List.length p - 1)).
Inductive stat_result := Found (at_ : list name) (x : node) | Missing | Loop.
Fixpoint stat_fuel (fuel : nat) (w : world) (p : list name) : stat_result :=
  match fuel with
  | O => Loop
  | S f => match w !! p with
           | None => match p with
                     | [] => Found [] NDir
                     | _ => if through_file w p then Loop else Missing     (* ENOTDIR is not "does not exist" either *)
                     end
           | Some (NLink t) => stat_fuel f w t
           | Some x => Found p x
           end
  end.
Definition stat (w : world) (p : list name) : stat_result := stat_fuel 40 w p.
Definition deref (w : world) (x : node) : option node :=
  match x with
  | NLink t => match stat w t with Found _ y => Some y | _ => None end
  | _ => Some x
  end.
Definition visible_count (w : world) (d : list name) : N :=
  len (List.filter (fun e => negb (ignored (fst e))) (children w d)).

(* the file wrapper's view of a file named n in directory d *)
Definition file_size (w : world) (p : list name) : N :=      (* os.Stat follows an alias *)
  match stat w p with Found _ (NFile b) => len b | _ => 0 end.
Definition total_size (w : world) (d : list name) (n : name) : N :=
  file_size w (d ++ [n]) + file_size w (d ++ [rsrc_name n]).
Definition type_creator (w : world) (d : list name) (n : name) (is_dir : bool) : bytes * bytes :=
  match w !! (d ++ [info_name n]) with
  | Some (NInfo ty cr _) => (ty, cr)
  | _ => if is_dir then (FLDR, [110; 47; 97; 32]) else type_of_name n       (* "n/a " *)
  end.
Definition comment_of (w : world) (d : list name) (n : name) : bytes :=
  match w !! (d ++ [info_name n]) with Some (NInfo _ _ c) => c | _ => [] end.

(* ---- GetFileNameList: one row per entry that is not ignored, in name order ---- *)
Record row := mk_row { r_name : name; r_type : bytes; r_creator : bytes; r_size : N }.
Definition row_of (w : world) (d : list name) (e : name * node) : list row :=
  let '(n, x) := e in
  if ignored n then [] else
  match x with
  | NDir => [mk_row (strip_incomplete n) FLDR [0;0;0;0] (visible_count w (d ++ [n]))]
  | NFile _ | NInfo _ _ _ =>
      let '(ty, cr) := type_creator w d n false in
      [mk_row (strip_incomplete n) ty cr (total_size w d n)]
  | NLink t =>
      match stat w t with
      | Found t' NDir => [mk_row (strip_incomplete n) FLDR [0;0;0;0] (visible_count w t')]
      | Found _ _ => let '(ty, cr) := type_of_name (last t []) in
                     [mk_row (strip_incomplete n) ty cr (file_size w t)]
      | _ => []                                               (* cannot be resolved: left out *)
      end
  end.
Definition list_dir (w : world) (d : list name) : option (list row) :=
  match d, w !! d with
  | [], _ | _, Some NDir => Some (concat (map (row_of w d) (sort_by fst (children w d))))
  | _, Some (NLink t) => match stat w t with
                         | Found t' NDir => Some (concat (map (row_of w t') (sort_by fst (children w t'))))
                         | _ => None
                         end
  | _, _ => None
  end.

(* ---- addressing: ReadPath below the root ---- *)
Definition resolve (items : list bytes) (fname : bytes) : list name := sub_of items ++ clean_rooted (split_slash fname).

Definition data_file (w : world) (d : list name) (n : name) : option node :=
  match stat w (d ++ [n]) with
  | Found _ x => Some x
  | _ => match stat w (d ++ [incomplete_name n]) with Found _ x => Some x | _ => None end
  end.
(* NewFileWrapper fails (and the handler stays silent) only when the path runs into an alias loop *)
Definition wrapper_fails (w : world) (p : list name) : bool :=
  match stat w p with Loop => true | _ => false end.
(* ---- GetFileInfo: (name, type, comment, size or none for folders) ---- *)
Definition get_info (w : world) (items : list bytes) (fname : bytes) : option (name * bytes * bytes * option N) :=
  let p := resolve items fname in
  if wrapper_fails w p then None else Some (
  let d := parent p in let n := last p [] in
  let is_dir := match stat w p with Found _ NDir => true | _ => false end in
  let '(ty, _) := match w !! (d ++ [info_name n]) with
                  | Some (NInfo ty cr _) => (ty, cr)
                  | _ => if is_dir then (FLDR, [])
                         else match stat w p with
                              | Found _ _ => type_of_name n
                              | _ => match stat w (d ++ [incomplete_name n]) with
                                     | Found _ NDir => (FLDR, [])
                                     | Found _ _ => type_of_name (incomplete_name n)
                                     | _ => default_type
                                     end
                              end
                  end in
  (n, ty, comment_of w d n, if bytes_eqb ty FLDR then None else Some (total_size w d n))).

(* ---- the group of a file: data, partial data, resource fork, info fork ---- *)
Definition group (d : list name) (n : name) : list (list name) :=
  [d ++ [n]; d ++ [incomplete_name n]; d ++ [rsrc_name n]; d ++ [info_name n]].

Inductive status := Replied | ErrReplied | NoReply.

(* everything below (and including) p *)
Definition is_prefix (p q : list name) : bool := bool_decide (firstn (List.length p) q = p).
Definition remove_tree (w : world) (p : list name) : world := base.filter (fun kv => is_prefix p (fst kv) = false) w.
Definition move_tree (w : world) (p q : list name) : world :=
  let moved := kmap (fun k => q ++ skipn (List.length p) k) (base.filter (fun kv => is_prefix p (fst kv) = true) w) in
  moved ∪ remove_tree w p.
Definition move_key (w : world) (p q : list name) : world :=
  match w !! p with Some x => <[q := x]> (delete p w) | None => w end.
Definition has_children (w : world) (p : list name) : bool :=
  negb (bool_decide (children w p = [])).

(* os.Rename of one path (file, link or whole folder) onto q; None = the call fails.  Go's os.Rename refuses an
   existing FOLDER as the new name (EEXIST) whatever the old name is; otherwise POSIX: a file or link replaces a file
   or link, a folder cannot replace a file, nothing moves into a missing folder or into itself *)
Definition os_rename (w : world) (p q : list name) : option world :=
  match w !! p with
  | None => None
  | Some x =>
      match w !! q with
      | Some NDir => None
      | tq =>
          if bool_decide (p = q) then Some w else
          if is_prefix p q then None else
          let parent_ok := match parent q with [] => true | pq => match w !! pq with Some NDir => true | _ => false end end in
          if negb parent_ok then None else
          match x, tq with
          | NDir, Some _ => None
          | NDir, None => Some (move_tree w p q)
          | _, _ => Some (move_key w p q)
          end
      end
  end.
(* side files follow if they exist; a missing one is not an error *)
Definition rename_if_present (w : world) (p q : list name) : world :=
  match w !! p with Some _ => match os_rename w p q with Some w' => w' | None => w end | None => w end.

(* fileWrapper.Move(newdir) with the wrapper's (possibly new) name n' *)
Definition wrapper_move (w : world) (d : list name) (n : name) (d' : list name) (n' : name) : option world :=
  match os_rename w (d ++ [n]) (d' ++ [n']) with
  | None => None
  | Some w1 =>
      let w2 := rename_if_present w1 (d ++ [incomplete_name n]) (d' ++ [incomplete_name n']) in
      let w3 := rename_if_present w2 (d ++ [rsrc_name n]) (d' ++ [rsrc_name n']) in
      Some (rename_if_present w3 (d ++ [info_name n]) (d' ++ [info_name n']))
  end.

(* ---- the requests ---- *)
Definition os_remove (w : world) (q : list name) : option world :=
  match w !! q with
  | None => Some w
  | Some NDir => if has_children w q then None else Some (delete q w)
  | Some _ => Some (delete q w)
  end.
Definition delete_file (w : world) (items : list bytes) (fname : bytes) : world * status :=
  let p := resolve items fname in let d := parent p in let n := last p [] in
  match p with [] => (w, NoReply) | _ =>
  if wrapper_fails w p then (w, NoReply) else
  match data_file w d n with
  | None => (w, ErrReplied)
  | Some _ =>
      let w1 := match w !! p with Some NDir => remove_tree w p | _ => delete p w end in         (* RemoveAll *)
      (* os.Remove of each side file: a missing one is fine, a non-empty folder of that name stops the request *)
      match os_remove w1 (d ++ [incomplete_name n]) with
      | None => (w1, NoReply)
      | Some w2 => match os_remove w2 (d ++ [rsrc_name n]) with
                   | None => (w2, NoReply)
                   | Some w3 => match os_remove w3 (d ++ [info_name n]) with
                                | None => (w3, NoReply)
                                | Some w4 => (w4, Replied)
                                end
                   end
      end
  end end.

Definition move_file (w : world) (items : list bytes) (fname : bytes) (newitems : list bytes) : world * status :=
  let p := resolve items fname in let d := parent p in let n := last p [] in
  let d' := sub_of newitems in
  match p with [] => (w, NoReply) | _ =>
  if wrapper_fails w p then (w, NoReply) else
  match data_file w d n with
  | None => (w, ErrReplied)
  | Some _ => match wrapper_move w d n d' n with Some w' => (w', Replied) | None => (w, NoReply) end
  end end.

Definition rename_file (w : world) (items : list bytes) (fname newname : bytes) : world * status :=
  let p := resolve items fname in let d := parent p in let n := last p [] in
  let q := resolve items newname in
  match p with [] => (w, ErrReplied) | _ =>
  match w !! p with
  | None => (w, NoReply)
  | Some x =>
      match deref w x with
      | None => (w, NoReply)
      | Some NDir => match os_rename w p q with Some w' => (w', Replied) | None => (w, Replied) end
      | Some _ => match q with
                  | [] => (w, NoReply)
                  | _ => match wrapper_move w d n (parent q) (last q []) with
                         | Some w' => (w', Replied)
                         | None => (w, NoReply)
                         end
                  end
      end
  end end.

Definition set_comment (w : world) (items : list bytes) (fname comment : bytes) : world * status :=
  let p := resolve items fname in let d := parent p in let n := last p [] in
  match p with [] => (w, ErrReplied) | _ =>
  match w !! p with
  | None => (w, NoReply)
  | Some x =>
      match deref w x with
      | None => (w, NoReply)
      | Some y =>
          let is_dir := match y with NDir => true | _ => false end in
          let '(ty, cr) := type_creator w d n is_dir in
          (<[d ++ [info_name n] := NInfo ty cr comment]> w, Replied)
      end
  end end.

Definition new_folder (w : world) (items : list bytes) (fname : bytes) : world * status :=
  let q := sub_of items ++ clean_rooted (split_slash fname) in
  match q with [] => (w, ErrReplied) | _ =>
  match w !! q with
  | Some _ => (w, ErrReplied)                                  (* never replaces an existing entry *)
  | None => match parent q, w !! (parent q) with
            | [], _ | _, Some NDir => (<[q := NDir]> w, Replied)
            | _, _ => (w, ErrReplied)
            end
  end end.

Definition make_alias (w : world) (items : list bytes) (fname : bytes) (newitems : list bytes) : world * status :=
  let p := resolve items fname in let q := resolve newitems fname in
  match q with [] => (w, ErrReplied) | _ =>
  match w !! q with
  | Some _ => (w, ErrReplied)
  | None => match parent q, w !! (parent q) with
            | [], _ | _, Some NDir => (<[q := NLink p]> w, Replied)
            | _, _ => (w, ErrReplied)
            end
  end end.

(* download reply: the data fork size announced *)
Definition download_size (w : world) (items : list bytes) (fname : bytes) : option N :=
  let p := resolve items fname in
  if wrapper_fails w p then None else
  match stat w p with
  | Found _ (NFile b) => Some (len b)
  | Found _ _ => Some 0
  | _ => Some (file_size w (parent p ++ [incomplete_name (last p [])]))
  end.
