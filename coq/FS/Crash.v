(* Crash atomicity of the persistent stores (C20): an update is the list of system calls it issues on the
   configuration directory; a crash (SIGKILL) at a system-call boundary leaves the directory as the calls made so
   far left it; recovery is what the loaders see.  Model only.

   Files are named relative to the configuration directory.  A single write(2) is all-or-nothing (the process is
   killed, the kernel keeps its page cache); power loss / fsync ordering is outside the statement.
   Scripts are those of the code AS REPAIRED (temporary file + rename everywhere; account creation publishes the
   complete file with link(2), which fails if the name exists). *)
From stdpp Require Import gmap.
From Verif Require Import Base.Bytes.
Local Open Scope N_scope.

Inductive sc :=
| ScCreate (p : bytes)              (* openat O_WRONLY|O_CREAT|O_TRUNC: the file exists and is empty *)
| ScCreateExcl (p : bytes)          (* openat O_CREAT|O_EXCL: as above, only if the name was free *)
| ScWrite (p data : bytes)          (* write(2) at the file's end *)
| ScRename (a b : bytes)
| ScLink (a b : bytes)              (* new name for the same file; fails if b exists *)
| ScUnlink (p : bytes).
Notation fs := (gmap bytes bytes).

Definition apply1 (s : fs) (c : sc) : fs :=
  match c with
  | ScCreate p => <[p := []]> s
  | ScCreateExcl p => match s !! p with None => <[p := []]> s | Some _ => s end
  | ScWrite p d => match s !! p with Some c => <[p := c ++ d]> s | None => s end
  | ScRename a b => match s !! a with Some c => <[b := c]> (delete a s) | None => s end
  | ScLink a b => match s !! a, s !! b with Some c, None => <[b := c]> s | _, _ => s end
  | ScUnlink p => delete p s
  end.
Definition apply (s : fs) (l : list sc) : fs := fold_left apply1 l s.
(* the state a crash at boundary k leaves behind *)
Definition crash_at (k : nat) (s : fs) (l : list sc) : fs := apply s (firstn k l).

Definition TMP : bytes := [46; 116; 109; 112].                    (* ".tmp" *)
Definition tmp_of (p : bytes) : bytes := p ++ TMP.
(* write the complete new content beside the file, then move it into place *)
Definition atomic_write (p data : bytes) : list sc :=
  [ScCreate (tmp_of p); ScWrite (tmp_of p) data; ScRename (tmp_of p) p].

(* ---- the updates ---- *)
Definition board_post (p new : bytes) : list sc := atomic_write p new.        (* FlatNews.Write *)
Definition news_save (p new : bytes) : list sc := atomic_write p new.         (* ThreadedNewsYAML.writeFile *)
Definition ban_save (p new : bytes) : list sc := atomic_write p new.          (* BanFile.Add *)
Definition acct_create (f data : bytes) : list sc :=                          (* YAMLAccountManager.Create *)
  [ScCreate (tmp_of f); ScWrite (tmp_of f) data; ScLink (tmp_of f) f; ScUnlink (tmp_of f)].
Definition acct_update (fold fnew data : bytes) : list sc :=                  (* YAMLAccountManager.Update *)
  atomic_write fold data ++ (if bool_decide (fold = fnew) then [] else [ScRename fold fnew]).
Definition acct_delete (f : bytes) : list sc := [ScUnlink f].                 (* YAMLAccountManager.Delete *)

(* ---- recovery: what the loaders make of a directory ----
   The three single-file stores hold what their file holds.  The account directory is read file by file
   (Users/*.yaml); an account is known by the login INSIDE its file; [key_of] stands for the YAML decoder: the
   login of a complete account file, None for anything that is not one (empty, truncated). *)
Section Accounts.
  Variable key_of : bytes -> option bytes.
  Variable live : bytes -> bool.                   (* is this file name one the loader reads (Users/<x>.yaml)? *)

  Definition holds (s : fs) (k c : bytes) : Prop :=
    exists f, live f = true /\ s !! f = Some c /\ key_of c = Some k.
  Definition loads (s : fs) : Prop :=
    forall f c, live f = true -> s !! f = Some c -> key_of c <> None.
  Definition same_accounts (s1 s2 : fs) : Prop := forall k c, holds s1 k c <-> holds s2 k c.

  (* The managers address an account's file by its login (Users/<login>.yaml): [name_of].  A directory is well named
     when every account file the loader reads is the file of the login inside it.  An update that changes the login
     passes through ONE state that is not: the new record under the old name.  The loader finishes that move
     (NewYAMLAccountManager: a complete record whose file is not the file of its login is renamed there when that
     name is free), looking at each file it reads; [recover1 s f] is what it does with file f. *)
  Variable name_of : bytes -> bytes.
  Definition well_named (s : fs) : Prop :=
    forall f c k, live f = true -> s !! f = Some c -> key_of c = Some k -> f = name_of k.
  Definition recover1 (s : fs) (f : bytes) : fs :=
    match s !! f with
    | Some c =>
        match key_of c with
        | Some k =>
            if bool_decide (f = name_of k) then s
            else match s !! name_of k with None => <[name_of k := c]> (delete f s) | Some _ => s end
        | None => s
        end
    | None => s
    end.
End Accounts.
