(* Proofs for FS/Namespace.v (C11). *)
From stdpp Require Import gmap.
From Coq Require Import Lia.
From Verif Require Import Base.Bytes Base.MacRoman Lib.Path Lib.PathProofs FS.Namespace.
Local Open Scope N_scope.

(* ---- names: a component without '/' that is not empty, "." or ".." resolves to itself ---- *)
Lemma split_slash_single c : ~ In SLASH c -> split_slash c = [c].
Proof.
  induction c as [|b r IH]; intros H; [reflexivity|]. cbn [split_slash].
  assert (Hb : b <> SLASH) by (intros ->; apply H; now left).
  apply N.eqb_neq in Hb. rewrite Hb. rewrite IH; [reflexivity|]. intros Hi. apply H. now right.
Qed.
Lemma clean_rooted_single c : good c -> clean_rooted (split_slash c) = [c].
Proof.
  intros (He & Hd & Hdd & Hs). rewrite split_slash_single by assumption.
  unfold clean_rooted. cbn [fold_left]. unfold step_rooted. now rewrite He, Hd, Hdd.
Qed.
(* every listed entry with such a name is found again by its name, in the folder it was listed in *)
Theorem resolve_listed_name items n : good n -> resolve items n = sub_of items ++ [n].
Proof. intros H. unfold resolve. now rewrite clean_rooted_single. Qed.

(* ---- the .incomplete marker ---- *)
Lemma ends_with_app suffix s : ends_with suffix (s ++ suffix) = true.
Proof.
  induction s as [|x r IH]; cbn [app ends_with].
  - destruct suffix as [|y t]; cbn [ends_with]; rewrite bytes_eqb_refl; reflexivity.
  - rewrite IH. apply orb_true_r.
Qed.
Theorem partial_listed_under_final_name n : strip_incomplete (incomplete_name n) = n.
Proof.
  unfold strip_incomplete, incomplete_name. fold INCOMPLETE. rewrite ends_with_app.
  rewrite app_length. replace (List.length n + List.length INCOMPLETE - List.length INCOMPLETE)%nat with (List.length n) by lia.
  rewrite firstn_app, firstn_all, Nat.sub_diag. cbn. apply app_nil_r.
Qed.
Theorem complete_name_listed_unchanged n : ends_with INCOMPLETE n = false -> strip_incomplete n = n.
Proof. intros H. unfold strip_incomplete. now rewrite H. Qed.

(* ---- the listing's encoder is the inverse of ReadPath's decoder, on every name ----
   [macroman] (Base/MacRoman.v) is the decoder: wire byte -> UTF-8 bytes.  The encoder reads the UTF-8 text back:
   an ASCII byte stands for itself, otherwise the (only) table entry that starts the text gives the byte. *)
Fixpoint pref (p s : bytes) : bool :=
  match p, s with
  | [], _ => true
  | x :: p', y :: s' => (x =? y) && pref p' s'
  | _ :: _, [] => false
  end.
Fixpoint find_entry (tbl : list bytes) (i : N) (u : bytes) : option (N * bytes) :=
  match tbl with
  | [] => None
  | e :: r => if negb (is_empty e) && pref e u then Some (i, skipn (List.length e) u) else find_entry r (i + 1) u
  end.
Definition enc_one_t (tbl : list bytes) (u : bytes) : option (N * bytes) :=
  match u with
  | [] => None
  | x :: r => if x <? 128 then Some (x, r) else find_entry tbl 128 u
  end.
Definition enc_one : bytes -> option (N * bytes) := enc_one_t macroman_high.
Definition mbyte_t (tbl : list bytes) (b : N) : bytes := if b <? 128 then [b] else nth (N.to_nat (b - 128)) tbl [b].
Fixpoint mac_encode (fuel : nat) (u : bytes) : option bytes :=
  match u with
  | [] => Some []
  | _ => match fuel with
         | O => None
         | S f => match enc_one u with
                  | Some (b, rest) => match mac_encode f rest with Some r => Some (b :: r) | None => None end
                  | None => None
                  end
         end
  end.

Lemma pref_app_split x : forall e u, pref x (e ++ u) = true -> pref x e = true \/ pref e x = true.
Proof.
  induction x as [|a x IH]; intros e u H; [now left|].
  destruct e as [|b e]; [now right|]. cbn in H. apply andb_true_iff in H as [Hab H].
  cbn. rewrite Hab. cbn. destruct (IH e u H) as [H1|H1]; [left|right]; auto.
  apply N.eqb_eq in Hab. subst. now rewrite N.eqb_refl.
Qed.
Lemma pref_self_app e u : pref e (e ++ u) = true.
Proof. induction e as [|a e IH]; cbn; [reflexivity|]. now rewrite N.eqb_refl. Qed.
Lemma skipn_self_app {A} (e u : list A) : skipn (List.length e) (e ++ u) = u.
Proof. induction e; cbn; auto. Qed.

Lemma find_entry_hit pre : forall k e post u,
  is_empty e = false ->
  Forall (fun x => pref x e = false /\ pref e x = false) pre ->
  find_entry (pre ++ e :: post) k (e ++ u) = Some (k + N.of_nat (List.length pre), u).
Proof.
  induction pre as [|x pre IH]; intros k e post u He Hpre.
  - cbn [app find_entry List.length]. rewrite He, pref_self_app. cbn. rewrite skipn_self_app. f_equal. f_equal. lia.
  - inversion Hpre as [|? ? [H1 H2] Hrest]; subst. cbn [app find_entry].
    replace (negb (is_empty x) && pref x (e ++ u)) with false.
    + rewrite IH by assumption. f_equal. f_equal. cbn [List.length]. lia.
    + symmetry. apply andb_false_iff. right. destruct (pref x (e ++ u)) eqn:E; [|reflexivity].
      apply pref_app_split in E as [E|E]; congruence.
Qed.

Lemma nth_firstn_lt {A} (d : A) : forall (l : list A) i j, (j < i)%nat -> nth j (firstn i l) d = nth j l d.
Proof.
  induction l as [|x l IH]; intros i j H; destruct i; try lia; [now destruct j|].
  destruct j; cbn; [reflexivity|]. apply IH. lia.
Qed.
Lemma split_at {A} (d : A) : forall (l : list A) i, (i < List.length l)%nat ->
  l = firstn i l ++ nth i l d :: skipn (S i) l.
Proof.
  induction l as [|x l IH]; intros i H; [cbn in H; lia|].
  destruct i; cbn; [reflexivity|]. f_equal. apply IH. cbn in H. lia.
Qed.

(* the table: 128 entries, none empty, no entry a prefix of another (UTF-8 sequences of distinct characters) *)
Definition table_ok_t (tbl : list bytes) : bool :=
  (List.length tbl =? 128)%nat &&
  forallb (fun e => negb (is_empty e)) tbl &&
  forallb (fun i => forallb (fun j => if (j <? i)%nat
                                       then negb (pref (nth j tbl []) (nth i tbl [])) &&
                                            negb (pref (nth i tbl []) (nth j tbl []))
                                       else true) (seq 0 128)) (seq 0 128).
Lemma table_ok_true : table_ok_t macroman_high = true. Proof. vm_compute. reflexivity. Qed.

Lemma enc_one_byte_t tbl b rest : table_ok_t tbl = true ->
  b < 256 -> (forall x, In x (mbyte_t tbl b) -> b < 128 \/ 128 <= x) ->
  enc_one_t tbl (mbyte_t tbl b ++ rest) = Some (b, rest).
Proof.
  intros T Hb Hhigh. unfold mbyte_t in *. destruct (b <? 128) eqn:E.
  - cbn. now rewrite E.
  - assert (Hi : (N.to_nat (b - 128) < 128)%nat) by lia.
    unfold table_ok_t in T.
    apply andb_true_iff in T as [T Tp]. apply andb_true_iff in T as [Tl Tn]. apply Nat.eqb_eq in Tl.
    remember (N.to_nat (b - 128)) as i eqn:Ei.
    assert (He : nth i tbl [b] = nth i tbl []) by (apply nth_indep; lia).
    rewrite He in *.
    remember (nth i tbl []) as e eqn:Ee.
    assert (Hne : is_empty e = false).
    { rewrite forallb_forall in Tn. apply negb_true_iff. apply Tn. subst e. apply nth_In. lia. }
    assert (Hsplit : tbl = firstn i tbl ++ e :: skipn (S i) tbl).
    { subst e. apply split_at. lia. }
    destruct e as [|x0 e0]; [discriminate|].
    assert (Hx0 : x0 <? 128 = false).
    { destruct (Hhigh x0) as [H|H]; [now left| lia | lia]. }
    cbn [app enc_one_t]. rewrite Hx0. change (x0 :: e0 ++ rest) with ((x0 :: e0) ++ rest).
    rewrite Hsplit at 1. rewrite find_entry_hit.
    + f_equal. f_equal. rewrite firstn_length, Tl. rewrite Nat.min_l by lia. lia.
    + reflexivity.
    + rewrite Forall_forall. intros y Hy. apply In_nth with (d := []) in Hy as (j & Hj & Hyj).
      rewrite firstn_length, Tl, Nat.min_l in Hj by lia.
      rewrite nth_firstn_lt in Hyj by lia.
      rewrite forallb_forall in Tp. specialize (Tp i ltac:(apply in_seq; lia)).
      rewrite forallb_forall in Tp. specialize (Tp j ltac:(apply in_seq; lia)).
      replace (j <? i)%nat with true in Tp by (symmetry; apply Nat.ltb_lt; lia).
      apply andb_true_iff in Tp as [P1 P2]. rewrite <- Ee, Hyj in *. apply negb_true_iff in P1, P2. auto.
Qed.
Lemma enc_one_byte b rest : b < 256 -> (forall x, In x (macroman_byte b) -> b < 128 \/ 128 <= x) ->
  enc_one (macroman_byte b ++ rest) = Some (b, rest).
Proof. intros Hb Hh. exact (enc_one_byte_t macroman_high b rest table_ok_true Hb Hh). Qed.

(* every decoded byte stays >= 128 unless it is ASCII (so the encoder's first test cannot misfire) *)
Lemma macroman_byte_high b x : b < 256 -> In x (macroman_byte b) -> b < 128 \/ 128 <= x.
Proof.
  intros Hb Hx. pose proof macroman_table_ok as T. rewrite forallb_forall in T.
  specialize (T b). destruct (b <? 128) eqn:E; [left; lia|]. right.
  assert (Hin : In b (map N.of_nat (seq 0 256))).
  { apply in_map_iff. exists (N.to_nat b). split; [lia|]. apply in_seq. lia. }
  specialize (T Hin). apply andb_true_iff in T as [_ T]. rewrite forallb_forall in T.
  specialize (T x Hx). lia.
Qed.

Lemma macroman_byte_nonempty b : b < 256 -> macroman_byte b <> [].
Proof.
  intros Hb. pose proof macroman_table_ok as T. rewrite forallb_forall in T. specialize (T b).
  assert (Hin : In b (map N.of_nat (seq 0 256))).
  { apply in_map_iff. exists (N.to_nat b). split; [lia|]. apply in_seq. lia. }
  specialize (T Hin). cbv beta in T. destruct (b <? 128) eqn:E.
  - apply bytes_eqb_eq in T. rewrite T. discriminate.
  - apply andb_true_iff in T as [T _]. intros Hnil. rewrite Hnil in T. discriminate.
Qed.

Theorem mac_encode_decode s : Forall (fun b => b < 256) s ->
  forall fuel, (List.length s <= fuel)%nat -> mac_encode fuel (macroman s) = Some s.
Proof.
  induction s as [|b r IH]; intros Hs fuel Hf; [destruct fuel; reflexivity|].
  inversion Hs as [|? ? Hb Hr]; subst. destruct fuel as [|f]; [cbn in Hf; lia|].
  unfold macroman. cbn [map concat]. fold (macroman r).
  pose proof (macroman_byte_nonempty b Hb) as Hne.
  assert (Hstep : forall u, u <> [] -> mac_encode (S f) u =
            match enc_one u with
            | Some (b0, rest) => match mac_encode f rest with Some r0 => Some (b0 :: r0) | None => None end
            | None => None
            end) by (intros [|? ?] Hu; [congruence|reflexivity]).
  rewrite Hstep by (intros Hnil; apply app_eq_nil in Hnil as [Hnil _]; congruence).
  rewrite enc_one_byte; [|assumption|intros x Hx; now apply macroman_byte_high].
  rewrite IH; [reflexivity|assumption|cbn in Hf; lia].
Qed.

(* ---- the group of a file: data, partial data, resource fork, info fork ---- *)
Lemma last_app_single {A} (d : list A) n x : last (d ++ [n]) x = n.
Proof. induction d as [|y d IH]; [reflexivity|]. cbn [app]. destruct (d ++ [n]) eqn:E; [destruct d; discriminate|]. cbn. exact IH. Qed.
Lemma parent_app_single (d : list name) n : parent (d ++ [n]) = d.
Proof. unfold parent. apply removelast_last. Qed.
Lemma app_single_ne_nil {A} (d : list A) n : d ++ [n] <> [].
Proof. destruct d; discriminate. Qed.
Lemma sibling_ne (d : list name) a b : a <> b -> d ++ [a] <> d ++ [b].
Proof. intros H E. apply app_inv_head in E. congruence. Qed.
Lemma name_ne_incomplete n : n <> incomplete_name n.
Proof. unfold incomplete_name. intros E. apply (f_equal (@List.length N)) in E. rewrite app_length in E. cbn in E. lia. Qed.
Lemma name_ne_rsrc n : n <> rsrc_name n.
Proof. unfold rsrc_name. intros E. apply (f_equal (@List.length N)) in E. rewrite app_length in E. cbn in E. lia. Qed.
Lemma name_ne_info n : n <> info_name n.
Proof. unfold info_name. intros E. apply (f_equal (@List.length N)) in E. rewrite app_length in E. cbn in E. lia. Qed.
Lemma incomplete_ne_rsrc n : incomplete_name n <> rsrc_name n.
Proof. unfold incomplete_name, rsrc_name. intros E. apply (f_equal (@List.length N)) in E. rewrite !app_length in E. cbn in E. lia. Qed.
Lemma incomplete_ne_info n : incomplete_name n <> info_name n.
Proof. unfold incomplete_name, info_name. intros E. apply (f_equal (@List.length N)) in E. rewrite !app_length in E. cbn in E. lia. Qed.
Lemma rsrc_ne_info n : rsrc_name n <> info_name n.
Proof. unfold rsrc_name, info_name. cbn. intros E. discriminate. Qed.

Lemma stat_plain (w : world) p x :
  w !! p = Some x -> (forall t, x <> NLink t) -> stat w p = Found p x.
Proof. intros H Hl. unfold stat. cbn [stat_fuel]. rewrite H. destruct x; try reflexivity. exfalso. now apply (Hl target). Qed.

Definition not_a_folder (w : world) (q : list name) : Prop := w !! q <> Some NDir.
Lemma os_remove_plain (w : world) q : not_a_folder w q -> os_remove w q = Some (delete q w).
Proof.
  unfold not_a_folder, os_remove. intros H. destruct (w !! q) as [[| | |]|] eqn:E; try reflexivity; try congruence.
  now rewrite delete_notin.
Qed.

(* DELETE of a file: exactly the group vanishes - the data, its partial data, its resource fork, its info fork -
   and nothing else changes *)
Theorem delete_removes_group (w : world) items fname d n b :
  resolve items fname = d ++ [n] -> w !! (d ++ [n]) = Some (NFile b) ->
  not_a_folder w (d ++ [incomplete_name n]) -> not_a_folder w (d ++ [rsrc_name n]) -> not_a_folder w (d ++ [info_name n]) ->
  delete_file w items fname =
    (delete (d ++ [info_name n]) (delete (d ++ [rsrc_name n]) (delete (d ++ [incomplete_name n]) (delete (d ++ [n]) w))), Replied).
Proof.
  intros Hr Hp H1 H2 H3. unfold delete_file. rewrite Hr, parent_app_single, last_app_single.
  destruct (d ++ [n]) as [|x0 r0] eqn:Ep; [exfalso; eapply app_single_ne_nil; eauto|]. rewrite <- Ep in *.
  unfold wrapper_fails. rewrite (stat_plain w _ _ Hp) by discriminate.
  unfold data_file. rewrite (stat_plain w _ _ Hp) by discriminate. rewrite Hp.
  pose proof (sibling_ne d _ _ (name_ne_incomplete n)) as N1.
  pose proof (sibling_ne d _ _ (name_ne_rsrc n)) as N2.
  pose proof (sibling_ne d _ _ (name_ne_info n)) as N3.
  pose proof (sibling_ne d _ _ (incomplete_ne_rsrc n)) as N4.
  pose proof (sibling_ne d _ _ (incomplete_ne_info n)) as N5.
  pose proof (sibling_ne d _ _ (rsrc_ne_info n)) as N6.
  rewrite os_remove_plain by (unfold not_a_folder in *; now rewrite lookup_delete_ne).
  rewrite os_remove_plain by (unfold not_a_folder in *; rewrite !lookup_delete_ne by congruence; assumption).
  rewrite os_remove_plain by (unfold not_a_folder in *; rewrite !lookup_delete_ne by congruence; assumption).
  reflexivity.
Qed.
Corollary delete_frame (w : world) d n q :
  ~ In q (group d n) ->
  delete (d ++ [info_name n]) (delete (d ++ [rsrc_name n]) (delete (d ++ [incomplete_name n]) (delete (d ++ [n]) w))) !! q = w !! q.
Proof.
  unfold group. cbn [In]. intros H. rewrite !lookup_delete_ne; [reflexivity| | | |]; intros E; apply H; subst; auto.
Qed.

(* NEW FOLDER never replaces an existing entry *)
Theorem mkdir_never_replaces (w : world) items fname x :
  w !! (sub_of items ++ clean_rooted (split_slash fname)) = Some x ->
  new_folder w items fname = (w, ErrReplied).
Proof.
  intros H. unfold new_folder. destruct (sub_of items ++ clean_rooted (split_slash fname)) eqn:E; [reflexivity|].
  now rewrite H.
Qed.

(* sizes: a file without resource fork shows the same size - its length on disk - in the list row, in get-info
   and in the download reply *)
Theorem sizes_agree (w : world) items d n b :
  sub_of items = d -> good n -> ignored n = false ->
  w !! (d ++ [n]) = Some (NFile b) -> w !! (d ++ [rsrc_name n]) = None ->
  (exists ty cr, row_of w d (n, NFile b) = [mk_row (strip_incomplete n) ty cr (len b)]) /\
  (exists nm ty c, get_info w items n = Some (nm, ty, c, if bytes_eqb ty FLDR then None else Some (len b))) /\
  download_size w items n = Some (len b).
Proof.
  intros Hd Hg Hi Hp Hr.
  assert (Hres : resolve items n = d ++ [n]) by (rewrite resolve_listed_name by assumption; now rewrite Hd).
  assert (Hts : total_size w d n = len b).
  { unfold total_size, file_size. rewrite (stat_plain w _ _ Hp) by discriminate.
    unfold stat. cbn [stat_fuel]. rewrite Hr.
    destruct (d ++ [rsrc_name n]) as [|q0 qr] eqn:E; [exfalso; eapply app_single_ne_nil; eauto|].
    destruct (through_file w (q0 :: qr)); lia. }
  repeat split.
  - unfold row_of. rewrite Hi. destruct (type_creator w d n false) as [ty cr]. exists ty, cr. now rewrite Hts.
  - unfold get_info. rewrite Hres. unfold wrapper_fails. rewrite (stat_plain w _ _ Hp) by discriminate.
    rewrite parent_app_single, last_app_single, Hts.
    destruct (match w !! (d ++ [info_name n]) with Some (NInfo ty0 cr _) => (ty0, cr) | _ => type_of_name n end) as [ty0 cr0].
    eauto.
  - unfold download_size. rewrite Hres. unfold wrapper_fails. now rewrite (stat_plain w _ _ Hp) by discriminate.
Qed.

(* ---- rename / move: one os.Rename of something that is not a folder ---- *)
Lemma os_rename_file (w : world) p q x :
  w !! p = Some x -> x <> NDir -> p <> q -> is_prefix p q = false ->
  w !! q <> Some NDir -> (parent q = [] \/ w !! (parent q) = Some NDir) ->
  os_rename w p q = Some (<[q := x]> (delete p w)).
Proof.
  intros Hp Hx Hne Hpre Hq Hpar. unfold os_rename. rewrite Hp.
  assert (Hmk : move_key w p q = <[q := x]> (delete p w)) by (unfold move_key; now rewrite Hp).
  assert (Hpar' : match parent q with
                  | [] => true
                  | n :: l => match w !! (n :: l) with Some NDir => true | _ => false end
                  end = true).
  { destruct (parent q) as [|pn pl] eqn:Epq; [reflexivity|]. destruct Hpar as [E|E]; [discriminate|]. now rewrite E. }
  destruct (w !! q) as [y|] eqn:Eq.
  - destruct y; try congruence; rewrite bool_decide_eq_false_2 by assumption; rewrite Hpre, Hpar'; cbn [negb];
      rewrite Hmk; destruct x; congruence.
  - rewrite bool_decide_eq_false_2 by assumption. rewrite Hpre, Hpar'. cbn [negb]. rewrite Hmk. destruct x; congruence.
Qed.
Lemma rename_if_present_absent (w : world) p q : w !! p = None -> rename_if_present w p q = w.
Proof. intros H. unfold rename_if_present. now rewrite H. Qed.

(* MOVE / RENAME of a file that has no side files: the file is found under the new name with its bytes, the old
   name is free, nothing else changes.  (With side files present the same step is repeated for each of them:
   wrapper_move is four such renames; that composition is covered by the correspondence, not by a theorem.) *)
Theorem move_plain_file_partial (w : world) d n d' n' b :
  w !! (d ++ [n]) = Some (NFile b) ->
  w !! (d ++ [incomplete_name n]) = None -> w !! (d ++ [rsrc_name n]) = None -> w !! (d ++ [info_name n]) = None ->
  ~ In (d' ++ [n']) (group d n) -> is_prefix (d ++ [n]) (d' ++ [n']) = false ->
  w !! (d' ++ [n']) <> Some NDir -> (d' = [] \/ w !! d' = Some NDir) ->
  wrapper_move w d n d' n' = Some (<[d' ++ [n'] := NFile b]> (delete (d ++ [n]) w)).
Proof.
  intros Hp H1 H2 H3 Hng Hpre Hq Hpar. unfold group in Hng. cbn [In] in Hng. unfold wrapper_move.
  rewrite (os_rename_file w _ _ (NFile b)); try assumption; try discriminate.
  2:{ intros E. apply Hng. left. exact E. }
  2:{ now rewrite parent_app_single. }
  pose proof (sibling_ne d _ _ (name_ne_incomplete n)) as N1.
  pose proof (sibling_ne d _ _ (name_ne_rsrc n)) as N2.
  pose proof (sibling_ne d _ _ (name_ne_info n)) as N3.
  assert (S1 : forall k, k <> d ++ [n] -> w !! k = None -> k <> d' ++ [n'] ->
                 (<[d' ++ [n'] := NFile b]> (delete (d ++ [n]) w)) !! k = None).
  { intros k Hk1 Hk2 Hk3. rewrite lookup_insert_ne by congruence. now rewrite lookup_delete_ne by congruence. }
  set (w1 := <[d' ++ [n'] := NFile b]> (delete (d ++ [n]) w)) in *.
  rewrite (rename_if_present_absent w1 (d ++ [incomplete_name n])) by (apply S1; [congruence | assumption | intros E; apply Hng; auto]).
  rewrite (rename_if_present_absent w1 (d ++ [rsrc_name n])) by (apply S1; [congruence | assumption | intros E; apply Hng; auto]).
  rewrite (rename_if_present_absent w1 (d ++ [info_name n])) by (apply S1; [congruence | assumption | intros E; apply Hng; auto 6]).
  reflexivity.
Qed.
