(* Proofs for FS/Namespace.v (C11). *)
From stdpp Require Import gmap.
From Coq Require Import Lia.
From Verif Require Import Base.Bytes Base.MacRoman Lib.Path Lib.PathProofs FS.Namespace.
Local Open Scope N_scope.

(* ---- names: a component without '/' that is not empty, "." or ".." resolves to itself ---- *)
Lemma split_slash_single c : ~ In SLASH c -> split_slash c = [c].
Proof.
  induction c as [|b r IH]; intros H; [reflexivity|]. cbn [split_slash].
  assert (Hb : b <> SLASH) by (intros ->; apply H; now left).
  apply N.eqb_neq in Hb. rewrite Hb. rewrite IH; [reflexivity|]. intros Hi. apply H. now right.
Qed.
Lemma clean_rooted_single c : good c -> clean_rooted (split_slash c) = [c].
Proof.
  intros (He & Hd & Hdd & Hs). rewrite split_slash_single by assumption.
  unfold clean_rooted. cbn [fold_left]. unfold step_rooted. now rewrite He, Hd, Hdd.
Qed.
(* every listed entry with such a name is found again by its name, in the folder it was listed in *)
Theorem resolve_listed_name items n : good n -> resolve items n = sub_of items ++ [n].
Proof. intros H. unfold resolve. now rewrite clean_rooted_single. Qed.

(* ---- the .incomplete marker ---- *)
Lemma ends_with_app suffix s : ends_with suffix (s ++ suffix) = true.
Proof.
  induction s as [|x r IH]; cbn [app ends_with].
  - destruct suffix as [|y t]; cbn [ends_with]; rewrite bytes_eqb_refl; reflexivity.
  - rewrite IH. apply orb_true_r.
Qed.
Theorem partial_listed_under_final_name n : strip_incomplete (incomplete_name n) = n.
Proof.
  unfold strip_incomplete, incomplete_name. fold INCOMPLETE. rewrite ends_with_app.
  rewrite app_length. replace (List.length n + List.length INCOMPLETE - List.length INCOMPLETE)%nat with (List.length n) by lia.
  rewrite firstn_app, firstn_all, Nat.sub_diag. cbn. apply app_nil_r.
Qed.
Theorem complete_name_listed_unchanged n : ends_with INCOMPLETE n = false -> strip_incomplete n = n.
Proof. intros H. unfold strip_incomplete. now rewrite H. Qed.

(* ---- the listing's encoder is the inverse of ReadPath's decoder, on every name ----
   [macroman] (Base/MacRoman.v) is the decoder: wire byte -> UTF-8 bytes.  The encoder reads the UTF-8 text back:
   an ASCII byte stands for itself, otherwise the (only) table entry that starts the text gives the byte. *)
Fixpoint pref (p s : bytes) : bool :=
  match p, s with
  | [], _ => true
  | x :: p', y :: s' => (x =? y) && pref p' s'
  | _ :: _, [] => false
  end.
Fixpoint find_entry (tbl : list bytes) (i : N) (u : bytes) : option (N * bytes) :=
  match tbl with
  | [] => None
  | e :: r => if negb (is_empty e) && pref e u then Some (i, skipn (List.length e) u) else find_entry r (i + 1) u
  end.
Definition enc_one_t (tbl : list bytes) (u : bytes) : option (N * bytes) :=
  match u with
  | [] => None
  | x :: r => if x <? 128 then Some (x, r) else find_entry tbl 128 u
  end.
Definition enc_one : bytes -> option (N * bytes) := enc_one_t macroman_high.
Definition mbyte_t (tbl : list bytes) (b : N) : bytes := if b <? 128 then [b] else nth (N.to_nat (b - 128)) tbl [b].
Fixpoint mac_encode (fuel : nat) (u : bytes) : option bytes :=
  match u with
  | [] => Some []
  | _ => match fuel with
         | O => None
         | S f => match enc_one u with
                  | Some (b, rest) => match mac_encode f rest with Some r => Some (b :: r) | None => None end
                  | None => None
                  end
         end
  end.

Lemma pref_app_split x : forall e u, pref x (e ++ u) = true -> pref x e = true \/ pref e x = true.
Proof.
  induction x as [|a x IH]; intros e u H; [now left|].
  destruct e as [|b e]; [now right|]. cbn in H. apply andb_true_iff in H as [Hab H].
  cbn. rewrite Hab. cbn. destruct (IH e u H) as [H1|H1]; [left|right]; auto.
  apply N.eqb_eq in Hab. subst. now rewrite N.eqb_refl.
Qed.
Lemma pref_self_app e u : pref e (e ++ u) = true.
Proof. induction e as [|a e IH]; cbn; [reflexivity|]. now rewrite N.eqb_refl. Qed.
Lemma skipn_self_app {A} (e u : list A) : skipn (List.length e) (e ++ u) = u.
Proof. induction e; cbn; auto. Qed.

Lemma find_entry_hit pre : forall k e post u,
  is_empty e = false ->
  Forall (fun x => pref x e = false /\ pref e x = false) pre ->
  find_entry (pre ++ e :: post) k (e ++ u) = Some (k + N.of_nat (List.length pre), u).
Proof.
  induction pre as [|x pre IH]; intros k e post u He Hpre.
  - cbn [app find_entry List.length]. rewrite He, pref_self_app. cbn. rewrite skipn_self_app. f_equal. f_equal. lia.
  - inversion Hpre as [|? ? [H1 H2] Hrest]; subst. cbn [app find_entry].
    replace (negb (is_empty x) && pref x (e ++ u)) with false.
    + rewrite IH by assumption. f_equal. f_equal. cbn [List.length]. lia.
    + symmetry. apply andb_false_iff. right. destruct (pref x (e ++ u)) eqn:E; [|reflexivity].
      apply pref_app_split in E as [E|E]; congruence.
Qed.

Lemma nth_firstn_lt {A} (d : A) : forall (l : list A) i j, (j < i)%nat -> nth j (firstn i l) d = nth j l d.
Proof.
  induction l as [|x l IH]; intros i j H; destruct i; try lia; [now destruct j|].
  destruct j; cbn; [reflexivity|]. apply IH. lia.
Qed.
Lemma split_at {A} (d : A) : forall (l : list A) i, (i < List.length l)%nat ->
  l = firstn i l ++ nth i l d :: skipn (S i) l.
Proof.
  induction l as [|x l IH]; intros i H; [cbn in H; lia|].
  destruct i; cbn; [reflexivity|]. f_equal. apply IH. cbn in H. lia.
Qed.

(* the table: 128 entries, none empty, no entry a prefix of another (UTF-8 sequences of distinct characters) *)
Definition table_ok_t (tbl : list bytes) : bool :=
  (List.length tbl =? 128)%nat &&
  forallb (fun e => negb (is_empty e)) tbl &&
  forallb (fun i => forallb (fun j => if (j <? i)%nat
                                       then negb (pref (nth j tbl []) (nth i tbl [])) &&
                                            negb (pref (nth i tbl []) (nth j tbl []))
                                       else true) (seq 0 128)) (seq 0 128).
Lemma table_ok_true : table_ok_t macroman_high = true. Proof. vm_compute. reflexivity. Qed.

Lemma enc_one_byte_t tbl b rest : table_ok_t tbl = true ->
  b < 256 -> (forall x, In x (mbyte_t tbl b) -> b < 128 \/ 128 <= x) ->
  enc_one_t tbl (mbyte_t tbl b ++ rest) = Some (b, rest).
Proof.
  intros T Hb Hhigh. unfold mbyte_t in *. destruct (b <? 128) eqn:E.
  - cbn. now rewrite E.
  - assert (Hi : (N.to_nat (b - 128) < 128)%nat) by lia.
    unfold table_ok_t in T.
    apply andb_true_iff in T as [T Tp]. apply andb_true_iff in T as [Tl Tn]. apply Nat.eqb_eq in Tl.
    remember (N.to_nat (b - 128)) as i eqn:Ei.
    assert (He : nth i tbl [b] = nth i tbl []) by (apply nth_indep; lia).
    rewrite He in *.
    remember (nth i tbl []) as e eqn:Ee.
    assert (Hne : is_empty e = false).
    { rewrite forallb_forall in Tn. apply negb_true_iff. apply Tn. subst e. apply nth_In. lia. }
    assert (Hsplit : tbl = firstn i tbl ++ e :: skipn (S i) tbl).
    { subst e. apply split_at. lia. }
    destruct e as [|x0 e0]; [discriminate|].
    assert (Hx0 : x0 <? 128 = false).
    { destruct (Hhigh x0) as [H|H]; [now left| lia | lia]. }
    cbn [app enc_one_t]. rewrite Hx0. change (x0 :: e0 ++ rest) with ((x0 :: e0) ++ rest).
    rewrite Hsplit at 1. rewrite find_entry_hit.
    + f_equal. f_equal. rewrite firstn_length, Tl. rewrite Nat.min_l by lia. lia.
    + reflexivity.
    + rewrite Forall_forall. intros y Hy. apply In_nth with (d := []) in Hy as (j & Hj & Hyj).
      rewrite firstn_length, Tl, Nat.min_l in Hj by lia.
      rewrite nth_firstn_lt in Hyj by lia.
      rewrite forallb_forall in Tp. specialize (Tp i ltac:(apply in_seq; lia)).
      rewrite forallb_forall in Tp. specialize (Tp j ltac:(apply in_seq; lia)).
      replace (j <? i)%nat with true in Tp by (symmetry; apply Nat.ltb_lt; lia).
      apply andb_true_iff in Tp as [P1 P2]. rewrite <- Ee, Hyj in *. apply negb_true_iff in P1, P2. auto.
Qed.
Lemma enc_one_byte b rest : b < 256 -> (forall x, In x (macroman_byte b) -> b < 128 \/ 128 <= x) ->
  enc_one (macroman_byte b ++ rest) = Some (b, rest).
Proof. intros Hb Hh. exact (enc_one_byte_t macroman_high b rest table_ok_true Hb Hh). Qed.

(* every decoded byte stays >= 128 unless it is ASCII (so the encoder's first test cannot misfire) *)
Lemma macroman_byte_high b x : b < 256 -> In x (macroman_byte b) -> b < 128 \/ 128 <= x.
Proof.
  intros Hb Hx. pose proof macroman_table_ok as T. rewrite forallb_forall in T.
  specialize (T b). destruct (b <? 128) eqn:E; [left; lia|]. right.
  assert (Hin : In b (map N.of_nat (seq 0 256))).
  { apply in_map_iff. exists (N.to_nat b). split; [lia|]. apply in_seq. lia. }
  specialize (T Hin). apply andb_true_iff in T as [_ T]. rewrite forallb_forall in T.
  specialize (T x Hx). lia.
Qed.

Lemma macroman_byte_nonempty b : b < 256 -> macroman_byte b <> [].
Proof.
  intros Hb. pose proof macroman_table_ok as T. rewrite forallb_forall in T. specialize (T b).
  assert (Hin : In b (map N.of_nat (seq 0 256))).
  { apply in_map_iff. exists (N.to_nat b). split; [lia|]. apply in_seq. lia. }
  specialize (T Hin). cbv beta in T. destruct (b <? 128) eqn:E.
  - apply bytes_eqb_eq in T. rewrite T. discriminate.
  - apply andb_true_iff in T as [T _]. intros Hnil. rewrite Hnil in T. discriminate.
Qed.

Theorem mac_encode_decode s : Forall (fun b => b < 256) s ->
  forall fuel, (List.length s <= fuel)%nat -> mac_encode fuel (macroman s) = Some s.
Proof.
  induction s as [|b r IH]; intros Hs fuel Hf; [destruct fuel; reflexivity|].
  inversion Hs as [|? ? Hb Hr]; subst. destruct fuel as [|f]; [cbn in Hf; lia|].
  unfold macroman. cbn [map concat]. fold (macroman r).
  pose proof (macroman_byte_nonempty b Hb) as Hne.
  assert (Hstep : forall u, u <> [] -> mac_encode (S f) u =
            match enc_one u with
            | Some (b0, rest) => match mac_encode f rest with Some r0 => Some (b0 :: r0) | None => None end
            | None => None
            end) by (intros [|? ?] Hu; [congruence|reflexivity]).
  rewrite Hstep by (intros Hnil; apply app_eq_nil in Hnil as [Hnil _]; congruence).
  rewrite enc_one_byte; [|assumption|intros x Hx; now apply macroman_byte_high].
  rewrite IH; [reflexivity|assumption|cbn in Hf; lia].
Qed.

(* ---- the group of a file: data, partial data, resource fork, info fork ---- *)
Lemma last_app_single {A} (d : list A) n x : last (d ++ [n]) x = n.
Proof. induction d as [|y d IH]; [reflexivity|]. cbn [app]. destruct (d ++ [n]) eqn:E; [destruct d; discriminate|]. cbn. exact IH. Qed.
Lemma parent_app_single (d : list name) n : parent (d ++ [n]) = d.
Proof. unfold parent. apply removelast_last. Qed.
Lemma app_single_ne_nil {A} (d : list A) n : d ++ [n] <> [].
Proof. destruct d; discriminate. Qed.
Lemma sibling_ne (d : list name) a b : a <> b -> d ++ [a] <> d ++ [b].
Proof. intros H E. apply app_inv_head in E. congruence. Qed.
Lemma name_ne_incomplete n : n <> incomplete_name n.
Proof. unfold incomplete_name. intros E. apply (f_equal (@List.length N)) in E. rewrite app_length in E. cbn in E. lia. Qed.
Lemma name_ne_rsrc n : n <> rsrc_name n.
Proof. unfold rsrc_name. intros E. apply (f_equal (@List.length N)) in E. rewrite app_length in E. cbn in E. lia. Qed.
Lemma name_ne_info n : n <> info_name n.
Proof. unfold info_name. intros E. apply (f_equal (@List.length N)) in E. rewrite app_length in E. cbn in E. lia. Qed.
Lemma incomplete_ne_rsrc n : incomplete_name n <> rsrc_name n.
Proof. unfold incomplete_name, rsrc_name. intros E. apply (f_equal (@List.length N)) in E. rewrite !app_length in E. cbn in E. lia. Qed.
Lemma incomplete_ne_info n : incomplete_name n <> info_name n.
Proof. unfold incomplete_name, info_name. intros E. apply (f_equal (@List.length N)) in E. rewrite !app_length in E. cbn in E. lia. Qed.
Lemma rsrc_ne_info n : rsrc_name n <> info_name n.
Proof. unfold rsrc_name, info_name. cbn. intros E. discriminate. Qed.

Lemma stat_plain (w : world) p x :
  w !! p = Some x -> (forall t, x <> NLink t) -> stat w p = Found p x.
Proof. intros H Hl. unfold stat. cbn [stat_fuel]. rewrite H. destruct x; try reflexivity. exfalso. now apply (Hl target). Qed.

Definition not_a_folder (w : world) (q : list name) : Prop := w !! q <> Some NDir.
Lemma os_remove_plain (w : world) q : not_a_folder w q -> os_remove w q = Some (delete q w).
Proof.
  unfold not_a_folder, os_remove. intros H. destruct (w !! q) as [[| | |]|] eqn:E; try reflexivity; try congruence.
  now rewrite delete_notin.
Qed.

(* DELETE of a file: exactly the group vanishes - the data, its partial data, its resource fork, its info fork -
   and nothing else changes *)
Theorem delete_removes_group (w : world) items fname d n b :
  resolve items fname = d ++ [n] -> w !! (d ++ [n]) = Some (NFile b) ->
  not_a_folder w (d ++ [incomplete_name n]) -> not_a_folder w (d ++ [rsrc_name n]) -> not_a_folder w (d ++ [info_name n]) ->
  delete_file w items fname =
    (delete (d ++ [info_name n]) (delete (d ++ [rsrc_name n]) (delete (d ++ [incomplete_name n]) (delete (d ++ [n]) w))), Replied).
Proof.
  intros Hr Hp H1 H2 H3. unfold delete_file. rewrite Hr, parent_app_single, last_app_single.
  destruct (d ++ [n]) as [|x0 r0] eqn:Ep; [exfalso; eapply app_single_ne_nil; eauto|]. rewrite <- Ep in *.
  unfold wrapper_fails. rewrite (stat_plain w _ _ Hp) by discriminate.
  unfold data_file. rewrite (stat_plain w _ _ Hp) by discriminate. rewrite Hp.
  pose proof (sibling_ne d _ _ (name_ne_incomplete n)) as N1.
  pose proof (sibling_ne d _ _ (name_ne_rsrc n)) as N2.
  pose proof (sibling_ne d _ _ (name_ne_info n)) as N3.
  pose proof (sibling_ne d _ _ (incomplete_ne_rsrc n)) as N4.
  pose proof (sibling_ne d _ _ (incomplete_ne_info n)) as N5.
  pose proof (sibling_ne d _ _ (rsrc_ne_info n)) as N6.
  rewrite os_remove_plain by (unfold not_a_folder in *; now rewrite lookup_delete_ne).
  rewrite os_remove_plain by (unfold not_a_folder in *; rewrite !lookup_delete_ne by congruence; assumption).
  rewrite os_remove_plain by (unfold not_a_folder in *; rewrite !lookup_delete_ne by congruence; assumption).
  reflexivity.
Qed.
Corollary delete_frame (w : world) d n q :
  ~ In q (group d n) ->
  delete (d ++ [info_name n]) (delete (d ++ [rsrc_name n]) (delete (d ++ [incomplete_name n]) (delete (d ++ [n]) w))) !! q = w !! q.
Proof.
  unfold group. cbn [In]. intros H. rewrite !lookup_delete_ne; [reflexivity| | | |]; intros E; apply H; subst; auto.
Qed.

(* NEW FOLDER never replaces an existing entry *)
Theorem mkdir_never_replaces (w : world) items fname x :
  w !! (sub_of items ++ clean_rooted (split_slash fname)) = Some x ->
  new_folder w items fname = (w, ErrReplied).
Proof.
  intros H. unfold new_folder. destruct (sub_of items ++ clean_rooted (split_slash fname)) eqn:E; [reflexivity|].
  now rewrite H.
Qed.

(* sizes: a file without resource fork shows the same size - its length on disk - in the list row, in get-info
   and in the download reply *)
Theorem sizes_agree (w : world) items d n b :
  sub_of items = d -> good n -> ignored n = false ->
  w !! (d ++ [n]) = Some (NFile b) -> w !! (d ++ [rsrc_name n]) = None ->
  (exists ty cr, row_of w d (n, NFile b) = [mk_row (strip_incomplete n) ty cr (len b)]) /\
  (exists nm ty c, get_info w items n = Some (nm, ty, c, if bytes_eqb ty FLDR then None else Some (len b))) /\
  download_size w items n = Some (len b).
Proof.
  intros Hd Hg Hi Hp Hr.
  assert (Hres : resolve items n = d ++ [n]) by (rewrite resolve_listed_name by assumption; now rewrite Hd).
  assert (Hts : total_size w d n = len b).
  { unfold total_size, file_size. rewrite (stat_plain w _ _ Hp) by discriminate.
    unfold stat. cbn [stat_fuel]. rewrite Hr.
    destruct (d ++ [rsrc_name n]) as [|q0 qr] eqn:E; [exfalso; eapply app_single_ne_nil; eauto|].
    destruct (through_file w (q0 :: qr)); lia. }
  repeat split.
  - unfold row_of. rewrite Hi. destruct (type_creator w d n false) as [ty cr]. exists ty, cr. now rewrite Hts.
  - unfold get_info. rewrite Hres. unfold wrapper_fails. rewrite (stat_plain w _ _ Hp) by discriminate.
    rewrite parent_app_single, last_app_single, Hts.
    destruct (match w !! (d ++ [info_name n]) with Some (NInfo ty0 cr _) => (ty0, cr) | _ => type_of_name n end) as [ty0 cr0].
    eauto.
  - unfold download_size. rewrite Hres. unfold wrapper_fails. now rewrite (stat_plain w _ _ Hp) by discriminate.
Qed.

(* ---- rename / move: one os.Rename of something that is not a folder ---- *)
Lemma os_rename_file (w : world) p q x :
  w !! p = Some x -> x <> NDir -> p <> q -> is_prefix p q = false ->
  w !! q <> Some NDir -> (parent q = [] \/ w !! (parent q) = Some NDir) ->
  os_rename w p q = Some (<[q := x]> (delete p w)).
Proof.
  intros Hp Hx Hne Hpre Hq Hpar. unfold os_rename. rewrite Hp.
  assert (Hmk : move_key w p q = <[q := x]> (delete p w)) by (unfold move_key; now rewrite Hp).
  assert (Hpar' : match parent q with
                  | [] => true
                  | n :: l => match w !! (n :: l) with Some NDir => true | _ => false end
                  end = true).
  { destruct (parent q) as [|pn pl] eqn:Epq; [reflexivity|]. destruct Hpar as [E|E]; [discriminate|]. now rewrite E. }
  destruct (w !! q) as [y|] eqn:Eq.
  - destruct y; try congruence; rewrite bool_decide_eq_false_2 by assumption; rewrite Hpre, Hpar'; cbn [negb];
      rewrite Hmk; destruct x; congruence.
  - rewrite bool_decide_eq_false_2 by assumption. rewrite Hpre, Hpar'. cbn [negb]. rewrite Hmk. destruct x; congruence.
Qed.
Lemma rename_if_present_absent (w : world) p q : w !! p = None -> rename_if_present w p q = w.
Proof. intros H. unfold rename_if_present. now rewrite H. Qed.

(* MOVE / RENAME of a file that has no side files: the file is found under the new name with its bytes, the old
   name is free, nothing else changes.  (With side files present the same step is repeated for each of them:
   wrapper_move is four such renames; that composition is covered by the correspondence, not by a theorem.) *)
Theorem move_plain_file_partial (w : world) d n d' n' b :
  w !! (d ++ [n]) = Some (NFile b) ->
  w !! (d ++ [incomplete_name n]) = None -> w !! (d ++ [rsrc_name n]) = None -> w !! (d ++ [info_name n]) = None ->
  ~ In (d' ++ [n']) (group d n) -> is_prefix (d ++ [n]) (d' ++ [n']) = false ->
  w !! (d' ++ [n']) <> Some NDir -> (d' = [] \/ w !! d' = Some NDir) ->
  wrapper_move w d n d' n' = Some (<[d' ++ [n'] := NFile b]> (delete (d ++ [n]) w)).
Proof.
  intros Hp H1 H2 H3 Hng Hpre Hq Hpar. unfold group in Hng. cbn [In] in Hng. unfold wrapper_move.
  rewrite (os_rename_file w _ _ (NFile b)); try assumption; try discriminate.
  2:{ intros E. apply Hng. left. exact E. }
  2:{ now rewrite parent_app_single. }
  pose proof (sibling_ne d _ _ (name_ne_incomplete n)) as N1.
  pose proof (sibling_ne d _ _ (name_ne_rsrc n)) as N2.
  pose proof (sibling_ne d _ _ (name_ne_info n)) as N3.
  assert (S1 : forall k, k <> d ++ [n] -> w !! k = None -> k <> d' ++ [n'] ->
                 (<[d' ++ [n'] := NFile b]> (delete (d ++ [n]) w)) !! k = None).
  { intros k Hk1 Hk2 Hk3. rewrite lookup_insert_ne by congruence. now rewrite lookup_delete_ne by congruence. }
  set (w1 := <[d' ++ [n'] := NFile b]> (delete (d ++ [n]) w)) in *.
  rewrite (rename_if_present_absent w1 (d ++ [incomplete_name n])) by (apply S1; [congruence | assumption | intros E; apply Hng; auto]).
  rewrite (rename_if_present_absent w1 (d ++ [rsrc_name n])) by (apply S1; [congruence | assumption | intros E; apply Hng; auto]).
  rewrite (rename_if_present_absent w1 (d ++ [info_name n])) by (apply S1; [congruence | assumption | intros E; apply Hng; auto 6]).
  reflexivity.
Qed.

(* ---- MOVE / RENAME of a file WITH its side files: the whole group travels ---- *)
(* one rename of something that may be absent *)
Definition mv (w : world) (p q : list name) : world :=
  match w !! p with Some x => <[q := x]> (delete p w) | None => w end.
Lemma mv_lookup (w : world) p q k : p <> q ->
  mv w p q !! k = match w !! p with
                  | Some x => if decide (k = q) then Some x else if decide (k = p) then None else w !! k
                  | None => w !! k
                  end.
Proof.
  intros Hne. unfold mv. destruct (w !! p) as [x|] eqn:E; [|reflexivity].
  destruct (decide (k = q)) as [->|Hq]; [now rewrite lookup_insert|]. rewrite lookup_insert_ne by congruence.
  destruct (decide (k = p)) as [->|Hp]; [now rewrite lookup_delete|]. now rewrite lookup_delete_ne by congruence.
Qed.
Lemma rename_if_present_mv (w : world) p q :
  (forall x, w !! p = Some x -> x <> NDir) -> p <> q -> is_prefix p q = false ->
  w !! q <> Some NDir -> (parent q = [] \/ w !! (parent q) = Some NDir) ->
  rename_if_present w p q = mv w p q.
Proof.
  intros Hx Hne Hpre Hq Hpar. unfold rename_if_present, mv. destruct (w !! p) as [x|] eqn:E; [|reflexivity].
  rewrite (os_rename_file w p q x); auto.
Qed.
Lemma mv_other (w : world) p q k : k <> p -> k <> q -> mv w p q !! k = w !! k.
Proof.
  intros Hp Hq. unfold mv. destruct (w !! p); [|reflexivity].
  rewrite lookup_insert_ne by congruence. now rewrite lookup_delete_ne by congruence.
Qed.
Lemma mv_dst (w : world) p q : p <> q -> w !! q = None -> mv w p q !! q = w !! p.
Proof. intros Hne Hq. unfold mv. destruct (w !! p) eqn:E; [now rewrite lookup_insert|exact Hq]. Qed.
Lemma mv_src (w : world) p q : p <> q -> mv w p q !! p = None.
Proof.
  intros Hne. unfold mv. destruct (w !! p) eqn:E; [|exact E]. rewrite lookup_insert_ne by congruence. apply lookup_delete.
Qed.

Section Group.
  Variables (w : world) (d d' : list name) (n n' : name) (b : bytes).
  Let s0 := d ++ [n]. Let s1 := d ++ [incomplete_name n]. Let s2 := d ++ [rsrc_name n]. Let s3 := d ++ [info_name n].
  Let t0 := d' ++ [n']. Let t1 := d' ++ [incomplete_name n']. Let t2 := d' ++ [rsrc_name n']. Let t3 := d' ++ [info_name n'].
  Hypothesis Hfile : w !! s0 = Some (NFile b).
  Hypothesis Hside : forall k x, In k [s1; s2; s3] -> w !! k = Some x -> x <> NDir.
  Hypothesis Hdisj : forall a, In a (group d n) -> In a (group d' n') -> False.
  Hypothesis Hfree : forall k, In k (group d' n') -> w !! k = None.
  Hypothesis Hpre : is_prefix s0 t0 = false /\ is_prefix s1 t1 = false /\ is_prefix s2 t2 = false /\ is_prefix s3 t3 = false.
  Hypothesis Hpar : d' = [] \/ w !! d' = Some NDir.
  Hypothesis Hd' : ~ In d' (group d n).

  Lemma names_distinct :
    NoDup [s0; s1; s2; s3; t0; t1; t2; t3].
  Proof.
    (* the sixteen + twelve inequalities between the eight names *)
    assert (G : group d n = [s0; s1; s2; s3]) by reflexivity.
    assert (G' : group d' n' = [t0; t1; t2; t3]) by reflexivity.
    assert (X : forall a c, In a [s0; s1; s2; s3] -> In c [t0; t1; t2; t3] -> a <> c).
    { intros a c Ha Hc E. subst c. eapply Hdisj; [rewrite G; exact Ha | rewrite G'; exact Hc]. }
    assert (S01 : s0 <> s1) by apply sibling_ne, name_ne_incomplete.
    assert (S02 : s0 <> s2) by apply sibling_ne, name_ne_rsrc.
    assert (S03 : s0 <> s3) by apply sibling_ne, name_ne_info.
    assert (S12 : s1 <> s2) by apply sibling_ne, incomplete_ne_rsrc.
    assert (S13 : s1 <> s3) by apply sibling_ne, incomplete_ne_info.
    assert (S23 : s2 <> s3) by apply sibling_ne, rsrc_ne_info.
    assert (T01 : t0 <> t1) by apply sibling_ne, name_ne_incomplete.
    assert (T02 : t0 <> t2) by apply sibling_ne, name_ne_rsrc.
    assert (T03 : t0 <> t3) by apply sibling_ne, name_ne_info.
    assert (T12 : t1 <> t2) by apply sibling_ne, incomplete_ne_rsrc.
    assert (T13 : t1 <> t3) by apply sibling_ne, incomplete_ne_info.
    assert (T23 : t2 <> t3) by apply sibling_ne, rsrc_ne_info.
    assert (X00 := X s0 t0 ltac:(cbn; auto) ltac:(cbn; auto)). assert (X01 := X s0 t1 ltac:(cbn; auto) ltac:(cbn; auto)).
    assert (X02 := X s0 t2 ltac:(cbn; auto) ltac:(cbn; auto)). assert (X03 := X s0 t3 ltac:(cbn; auto) ltac:(cbn; auto)).
    assert (X10 := X s1 t0 ltac:(cbn; auto) ltac:(cbn; auto)). assert (X11 := X s1 t1 ltac:(cbn; auto) ltac:(cbn; auto)).
    assert (X12 := X s1 t2 ltac:(cbn; auto) ltac:(cbn; auto)). assert (X13 := X s1 t3 ltac:(cbn; auto) ltac:(cbn; auto)).
    assert (X20 := X s2 t0 ltac:(cbn; auto) ltac:(cbn; auto)). assert (X21 := X s2 t1 ltac:(cbn; auto) ltac:(cbn; auto)).
    assert (X22 := X s2 t2 ltac:(cbn; auto) ltac:(cbn; auto)). assert (X23 := X s2 t3 ltac:(cbn; auto) ltac:(cbn; auto)).
    assert (X30 := X s3 t0 ltac:(cbn; auto) ltac:(cbn; auto)). assert (X31 := X s3 t1 ltac:(cbn; auto) ltac:(cbn; auto)).
    assert (X32 := X s3 t2 ltac:(cbn; auto) ltac:(cbn; auto)). assert (X33 := X s3 t3 ltac:(cbn; auto) ltac:(cbn; auto)).
    repeat constructor; cbn; intuition congruence.
  Qed.

  Definition moved : world := mv (mv (mv (mv w s0 t0) s1 t1) s2 t2) s3 t3.

  Theorem wrapper_move_group : wrapper_move w d n d' n' = Some moved.
  Proof.
    (* the sixteen + twelve inequalities between the eight names *)
    assert (G : group d n = [s0; s1; s2; s3]) by reflexivity.
    assert (G' : group d' n' = [t0; t1; t2; t3]) by reflexivity.
    assert (X : forall a c, In a [s0; s1; s2; s3] -> In c [t0; t1; t2; t3] -> a <> c).
    { intros a c Ha Hc E. subst c. eapply Hdisj; [rewrite G; exact Ha | rewrite G'; exact Hc]. }
    assert (S01 : s0 <> s1) by apply sibling_ne, name_ne_incomplete.
    assert (S02 : s0 <> s2) by apply sibling_ne, name_ne_rsrc.
    assert (S03 : s0 <> s3) by apply sibling_ne, name_ne_info.
    assert (S12 : s1 <> s2) by apply sibling_ne, incomplete_ne_rsrc.
    assert (S13 : s1 <> s3) by apply sibling_ne, incomplete_ne_info.
    assert (S23 : s2 <> s3) by apply sibling_ne, rsrc_ne_info.
    assert (T01 : t0 <> t1) by apply sibling_ne, name_ne_incomplete.
    assert (T02 : t0 <> t2) by apply sibling_ne, name_ne_rsrc.
    assert (T03 : t0 <> t3) by apply sibling_ne, name_ne_info.
    assert (T12 : t1 <> t2) by apply sibling_ne, incomplete_ne_rsrc.
    assert (T13 : t1 <> t3) by apply sibling_ne, incomplete_ne_info.
    assert (T23 : t2 <> t3) by apply sibling_ne, rsrc_ne_info.
    assert (X00 := X s0 t0 ltac:(cbn; auto) ltac:(cbn; auto)). assert (X01 := X s0 t1 ltac:(cbn; auto) ltac:(cbn; auto)).
    assert (X02 := X s0 t2 ltac:(cbn; auto) ltac:(cbn; auto)). assert (X03 := X s0 t3 ltac:(cbn; auto) ltac:(cbn; auto)).
    assert (X10 := X s1 t0 ltac:(cbn; auto) ltac:(cbn; auto)). assert (X11 := X s1 t1 ltac:(cbn; auto) ltac:(cbn; auto)).
    assert (X12 := X s1 t2 ltac:(cbn; auto) ltac:(cbn; auto)). assert (X13 := X s1 t3 ltac:(cbn; auto) ltac:(cbn; auto)).
    assert (X20 := X s2 t0 ltac:(cbn; auto) ltac:(cbn; auto)). assert (X21 := X s2 t1 ltac:(cbn; auto) ltac:(cbn; auto)).
    assert (X22 := X s2 t2 ltac:(cbn; auto) ltac:(cbn; auto)). assert (X23 := X s2 t3 ltac:(cbn; auto) ltac:(cbn; auto)).
    assert (X30 := X s3 t0 ltac:(cbn; auto) ltac:(cbn; auto)). assert (X31 := X s3 t1 ltac:(cbn; auto) ltac:(cbn; auto)).
    assert (X32 := X s3 t2 ltac:(cbn; auto) ltac:(cbn; auto)). assert (X33 := X s3 t3 ltac:(cbn; auto) ltac:(cbn; auto)).
    (* the destination folder is none of the eight names *)
    assert (D : forall k, In k [s0; s1; s2; s3; t0; t1; t2; t3] -> d' <> k).
    { intros k Hk E. cbn in Hk. destruct Hk as [<-|[<-|[<-|[<-|Hk]]]]; try (apply Hd'; rewrite G; cbn; auto; fail).
      destruct Hk as [<-|[<-|[<-|[<-|[]]]]]; unfold t0, t1, t2, t3 in E;
        apply (f_equal (@List.length name)) in E; rewrite app_length in E; cbn in E; lia. }
    assert (F0 := Hfree t0 ltac:(rewrite G'; cbn; auto)). assert (F1 := Hfree t1 ltac:(rewrite G'; cbn; auto)).
    assert (F2 := Hfree t2 ltac:(rewrite G'; cbn; auto)). assert (F3 := Hfree t3 ltac:(rewrite G'; cbn; auto)).
    destruct Hpre as (P0 & P1 & P2 & P3).
    assert (PAR : forall (w' : world) t, In t [t0; t1; t2; t3] -> w' !! d' = w !! d' -> parent t = [] \/ w' !! parent t = Some NDir).
    { intros w' t Ht Hw. assert (parent t = d') as ->.
      { cbn in Ht. destruct Ht as [<-|[<-|[<-|[<-|[]]]]]; apply parent_app_single. }
      destruct Hpar as [->|Hp]; [now left|right; now rewrite Hw]. }
    unfold wrapper_move. fold s0 s1 s2 s3 t0 t1 t2 t3.
    rewrite (os_rename_file w s0 t0 (NFile b)); auto; try discriminate; try (rewrite F0; discriminate).
    2:{ apply (PAR w t0); [cbn; auto|reflexivity]. }
    change (<[t0:=NFile b]> (delete s0 w)) with (match Some (NFile b) with Some x => <[t0:=x]> (delete s0 w) | None => w end).
    rewrite <- Hfile. fold (mv w s0 t0).
    set (w1 := mv w s0 t0).
    assert (A1 : forall x, w1 !! s1 = Some x -> x <> NDir).
    { intros x Hx. unfold w1 in Hx. rewrite mv_other in Hx by congruence. eapply Hside; eauto. cbn; auto. }
    assert (B1 : w1 !! t1 <> Some NDir).
    { unfold w1. rewrite mv_other by congruence. rewrite F1. discriminate. }
    assert (C1 : parent t1 = [] \/ w1 !! parent t1 = Some NDir).
    { apply PAR; [cbn; auto|]. unfold w1. apply mv_other; apply D; cbn; auto 10. }
    rewrite (rename_if_present_mv w1 s1 t1 A1 X11 P1 B1 C1).
    set (w2 := mv w1 s1 t1).
    assert (A2 : forall x, w2 !! s2 = Some x -> x <> NDir).
    { intros x Hx. unfold w2, w1 in Hx. rewrite !mv_other in Hx by congruence. eapply Hside; eauto. cbn; auto. }
    assert (B2 : w2 !! t2 <> Some NDir).
    { unfold w2, w1. rewrite !mv_other by congruence. rewrite F2. discriminate. }
    assert (C2 : parent t2 = [] \/ w2 !! parent t2 = Some NDir).
    { apply PAR; [cbn; auto|]. unfold w2, w1. rewrite !mv_other; auto; apply D; cbn; auto 10. }
    rewrite (rename_if_present_mv w2 s2 t2 A2 X22 P2 B2 C2).
    set (w3 := mv w2 s2 t2).
    assert (A3 : forall x, w3 !! s3 = Some x -> x <> NDir).
    { intros x Hx. unfold w3, w2, w1 in Hx. rewrite !mv_other in Hx by congruence. eapply Hside; eauto. cbn; auto. }
    assert (B3 : w3 !! t3 <> Some NDir).
    { unfold w3, w2, w1. rewrite !mv_other by congruence. rewrite F3. discriminate. }
    assert (C3 : parent t3 = [] \/ w3 !! parent t3 = Some NDir).
    { apply PAR; [cbn; auto|]. unfold w3, w2, w1. rewrite !mv_other; auto; apply D; cbn; auto 10. }
    rewrite (rename_if_present_mv w3 s3 t3 A3 X33 P3 B3 C3).
    reflexivity.
  Qed.

  (* what the group move did: every member that existed is under the new name, the old names are free, nothing else
     changed *)
  Ltac nd := pose proof names_distinct as ND; repeat (apply NoDup_cons_iff in ND as [? ND]); cbn in *.
  Theorem moved_frame q : ~ In q (group d n) -> ~ In q (group d' n') -> moved !! q = w !! q.
  Proof.
    intros H1 H2. unfold moved. unfold group in H1, H2. cbn in H1, H2. fold s0 s1 s2 s3 in H1. fold t0 t1 t2 t3 in H2.
    rewrite !mv_other; auto; intros E; subst; intuition congruence.
  Qed.
  Theorem moved_members :
    moved !! t0 = Some (NFile b) /\ moved !! t1 = w !! s1 /\ moved !! t2 = w !! s2 /\ moved !! t3 = w !! s3 /\
    moved !! s0 = None /\ moved !! s1 = None /\ moved !! s2 = None /\ moved !! s3 = None.
  Proof.
    nd.
    assert (F0 := Hfree t0 ltac:(cbn; auto)). assert (F1 := Hfree t1 ltac:(cbn; auto)).
    assert (F2 := Hfree t2 ltac:(cbn; auto)). assert (F3 := Hfree t3 ltac:(cbn; auto 6)).
    assert (N : forall a c : list name, (a = c -> False) -> a <> c) by auto.
    unfold moved. repeat split.
    - rewrite !mv_other by intuition congruence. rewrite mv_dst by (assumption || intuition congruence). exact Hfile.
    - rewrite !mv_other by intuition congruence.
      rewrite mv_dst; [now rewrite mv_other by intuition congruence|intuition congruence|]. now rewrite mv_other by intuition congruence.
    - rewrite !mv_other by intuition congruence.
      rewrite mv_dst; [now rewrite !mv_other by intuition congruence|intuition congruence|]. now rewrite !mv_other by intuition congruence.
    - rewrite mv_dst; [now rewrite !mv_other by intuition congruence|intuition congruence|]. now rewrite !mv_other by intuition congruence.
    - rewrite !mv_other by intuition congruence. apply mv_src. intuition congruence.
    - rewrite !mv_other by intuition congruence. apply mv_src. intuition congruence.
    - rewrite !mv_other by intuition congruence. apply mv_src. intuition congruence.
    - apply mv_src. intuition congruence.
  Qed.
End Group.
