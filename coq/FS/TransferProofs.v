From Verif Require Import Base.Bytes Wire.Parse Wire.Types Wire.Impl Wire.Proofs Net.Session FS.Transfer.

(* ------------------------------------------------------------------ a stage over a cut stream *)
Lemma firstn_app_le {A} k (a b : list A) : (k <= List.length a)%nat -> firstn k (a ++ b) = firstn k a.
Proof. intros H. rewrite firstn_app. replace (k - List.length a)%nat with 0%nat by lia. cbn. apply app_nil_r. Qed.
Lemma firstn_app_ge {A} k (a b : list A) : (List.length a <= k)%nat -> firstn k (a ++ b) = a ++ firstn (k - List.length a) b.
Proof. intros H. rewrite firstn_app. now rewrite firstn_all2 by lia. Qed.

Lemma take_exact_cut (a rest : bytes) (k : nat) :
  take_exact (len a) (firstn k (a ++ rest)) =
  if (List.length a <=? k)%nat then Some (a, firstn (k - List.length a) rest) else None.
Proof.
  unfold take_exact. destruct (Nat.leb_spec (List.length a) k) as [H|H].
  - rewrite firstn_app_ge by lia. unfold len. rewrite app_length.
    replace (N.of_nat (List.length a) <=? N.of_nat (List.length a + List.length (firstn (k - List.length a) rest))) with true by lia.
    fold (len a). now rewrite takeN_len_app, dropN_len_app.
  - rewrite firstn_app_le by lia. unfold len. rewrite firstn_length.
    replace (N.of_nat (List.length a) <=? N.of_nat (Nat.min k (List.length a))) with false by lia. reflexivity.
Qed.

Lemma dbe_be32 n : n < 4294967296 -> dbe (be32 n) = n.
Proof.
  intros H. destruct (be32_parts n H) as (a & b & c & d & -> & _ & _ & _ & _ & E). unfold dbe. cbn.
  unfold dbe32 in E. lia.
Qed.

(* ------------------------------------------------------------------ the client's header, stage by stage *)
Section Client.
Variables (ref name : bytes) (n : N).
Hypothesis Href : List.length ref = 4%nat.
Hypothesis Hname : len name < 65536.
Hypothesis Hn : n < 4294967296.

Definition c_pre : bytes := HTXF_ ++ ref ++ be32 (len (
  [70;73;76;80] ++ [0; 1] ++ repeat 0 16 ++ [0; 2] ++ INFO ++ repeat 0 8 ++
  be32 (len ([65;77;65;67] ++ [84;69;88;84;116;116;120;116] ++ repeat 0 58 ++ be16 (len name) ++ name ++ [0; 0])) ++
  ([65;77;65;67] ++ [84;69;88;84;116;116;120;116] ++ repeat 0 58 ++ be16 (len name) ++ name ++ [0; 0]) ++
  [68;65;84;65] ++ repeat 0 8 ++ be32 n) + n) ++ [0;0;0;0].
Definition c_info : bytes := [65;77;65;67] ++ [84;69;88;84;116;116;120;116] ++ repeat 0 58 ++ be16 (len name) ++ name ++ [0; 0].
Definition c_h24 : bytes := [70;73;76;80] ++ [0; 1] ++ repeat 0 16 ++ [0; 2].
Definition c_ih : bytes := INFO ++ repeat 0 8 ++ be32 (len c_info).
Definition c_dh : bytes := [68;65;84;65] ++ repeat 0 8 ++ be32 n.

Lemma client_header_parts : client_header ref name n = c_pre ++ c_h24 ++ c_ih ++ c_info ++ c_dh.
Proof. unfold client_header, c_pre, c_h24, c_ih, c_info, c_dh. cbv zeta. now rewrite <- !app_assoc. Qed.

Lemma c_info_len : len c_info = 74 + len name.
Proof. unfold c_info. rewrite !len_app, len_be16. unfold len. cbn [List.length repeat]. lia. Qed.
Lemma c_pre_length : List.length c_pre = 16%nat.
Proof. unfold c_pre. rewrite !app_length, Href, be32_length. reflexivity. Qed.
Lemma c_h24_length : List.length c_h24 = 24%nat. Proof. reflexivity. Qed.
Lemma c_ih_length : List.length c_ih = 16%nat. Proof. unfold c_ih. rewrite !app_length, be32_length. reflexivity. Qed.
Lemma c_dh_length : List.length c_dh = 16%nat. Proof. unfold c_dh. rewrite !app_length, be32_length. reflexivity. Qed.
Lemma c_ih_size : size_of_forkhdr c_ih = len c_info.
Proof.
  unfold size_of_forkhdr, c_ih, INFO. cbn [app repeat skipn]. apply dbe_be32. rewrite c_info_len. lia.
Qed.
Lemma c_dh_size : size_of_forkhdr c_dh = n.
Proof. unfold size_of_forkhdr, c_dh. cbn [app repeat skipn]. now apply dbe_be32. Qed.

Definition hlen : nat := (16 + 24 + 16 + List.length c_info + 16)%nat.
Lemma client_header_length : List.length (client_header ref name n) = hlen.
Proof.
  rewrite client_header_parts, !app_length, c_pre_length, c_h24_length, c_ih_length, c_dh_length. unfold hlen. lia.
Qed.

(* what the server parses from the first k bytes of header ++ r *)
Lemma upload_bytes_cut (r : bytes) (k : nat) : len r = n ->
  upload_bytes (firstn k (client_header ref name n ++ r)) =
  if (hlen <=? k)%nat
  then Some {| uv_preamble := c_pre; uv_header := c_h24; uv_infohdr := c_ih; uv_info := c_info; uv_datahdr := c_dh;
               uv_written := firstn (k - hlen) r; uv_complete := (List.length r <=? k - hlen)%nat |}
  else None.
Proof.
  intros Hr. rewrite client_header_parts. rewrite <- !app_assoc. unfold upload_bytes.
  pose proof c_pre_length as L1. pose proof c_h24_length as L2. pose proof c_ih_length as L3. pose proof c_dh_length as L5.
  change 16 with (N.of_nat 16) at 1. rewrite <- L1 at 1. fold (len c_pre). rewrite take_exact_cut. rewrite L1.
  destruct (Nat.leb_spec 16 k) as [K1|K1]; [|replace (hlen <=? k)%nat with false by (unfold hlen; symmetry; apply Nat.leb_gt; lia); reflexivity].
  change 24 with (N.of_nat 24). rewrite <- L2 at 1. fold (len c_h24). rewrite take_exact_cut. rewrite L2.
  destruct (Nat.leb_spec 24 (k - 16)) as [K2|K2]; [|replace (hlen <=? k)%nat with false by (unfold hlen; symmetry; apply Nat.leb_gt; lia); reflexivity].
  change 16 with (N.of_nat 16) at 1. rewrite <- L3 at 1. fold (len c_ih). rewrite take_exact_cut. rewrite L3.
  destruct (Nat.leb_spec 16 (k - 16 - 24)) as [K3|K3]; [|replace (hlen <=? k)%nat with false by (unfold hlen; symmetry; apply Nat.leb_gt; lia); reflexivity].
  rewrite c_ih_size. rewrite take_exact_cut.
  destruct (Nat.leb_spec (List.length c_info) (k - 16 - 24 - 16)) as [K4|K4]; [|replace (hlen <=? k)%nat with false by (unfold hlen; symmetry; apply Nat.leb_gt; lia); reflexivity].
  change 16 with (N.of_nat 16) at 1. rewrite <- L5 at 1. fold (len c_dh). rewrite take_exact_cut. rewrite L5.
  destruct (Nat.leb_spec 16 (k - 16 - 24 - 16 - List.length c_info)) as [K5|K5]; [|replace (hlen <=? k)%nat with false by (unfold hlen; symmetry; apply Nat.leb_gt; lia); reflexivity].
  replace (hlen <=? k)%nat with true by (unfold hlen; symmetry; apply Nat.leb_le; lia).
  rewrite c_dh_size.
  replace (k - 16 - 24 - 16 - List.length c_info - 16)%nat with (k - hlen)%nat by (unfold hlen; lia).
  f_equal. unfold len. rewrite firstn_length.
  assert (Hrn : N.of_nat (List.length r) = n) by exact Hr.
  destruct (Nat.leb_spec (List.length r) (k - hlen)) as [Q|Q].
  - replace (n <=? N.of_nat (Nat.min (k - hlen) (List.length r))) with true by lia.
    f_equal. unfold takeN. rewrite <- Hrn, Nat2N.id. rewrite (firstn_all2 r) by lia. apply firstn_all.
  - replace (n <=? N.of_nat (Nat.min (k - hlen) (List.length r))) with false by lia. reflexivity.
Qed.
End Client.

(* ------------------------------------------------------------------ invariant over any sequence of cuts *)
Definition Inv (d : bytes) (st : tgt) : Prop :=
  final st = None /\ (partial st = None \/ exists m, (m <= List.length d)%nat /\ partial st = Some (firstn m d)).
Definition DoneWith (d : bytes) (st : tgt) : Prop := final st = Some d /\ partial st = None.

Lemma firstn_firstn_skipn {A} (d : list A) m j :
  (m <= List.length d)%nat -> firstn m d ++ firstn j (skipn m d) = firstn (m + j) d.
Proof.
  revert d j. induction m as [|m IH]; intros d j Hm; simpl; auto.
  destruct d as [|x d]; simpl in *; [lia|]. f_equal. apply IH. lia.
Qed.

Lemma hlen_ge16 nm : (16 <= hlen nm)%nat.
Proof. unfold hlen. lia. Qed.
Opaque hlen.
Section Cuts.
Variables (ref name d : bytes).
Hypothesis Href : List.length ref = 4%nat.
Hypothesis Hname : len name < 65536.
Hypothesis Hd : len d < 4294967296.

Lemma step st k : Inv d st -> Inv d (client_attempt st ref name d k) \/ DoneWith d (client_attempt st ref name d k).
Proof.
  intros [Hf Hp]. unfold client_attempt, attempt.
  destruct (k <? 16)%nat; [left; split; auto|]. rewrite Hf.
  assert (Hp0 : exists m, (m <= List.length d)%nat /\
            match partial st with Some p => p | None => [] end = firstn m d /\ offset st = m).
  { unfold offset. destruct Hp as [->|[m [Hm ->]]].
    - exists 0%nat. simpl. split; [lia|auto].
    - exists m. rewrite firstn_length. repeat split; auto. lia. }
  destruct Hp0 as [m [Hm [-> ->]]].
  unfold client_stream.
  assert (Hr : len (skipn m d) < 4294967296).
  { unfold len in *. rewrite skipn_length. lia. }
  rewrite (upload_bytes_cut ref name (len (skipn m d)) Href Hname Hr (skipn m d) k eq_refl).
  set (H := hlen name).
  destruct (H <=? k)%nat.
  - cbn [uv_complete uv_written]. rewrite skipn_length.
    destruct (Nat.leb_spec (List.length d - m) (k - H)) as [Q|Q].
    + right. split; cbn [final partial]; auto. f_equal. rewrite firstn_firstn_skipn by auto.
      rewrite firstn_all2; [reflexivity|]. lia.
    + left. split; cbn [final partial]; auto. right. exists (m + (k - H))%nat. split; [lia|].
      f_equal. apply firstn_firstn_skipn. auto.
  - left. split; cbn [final partial]; auto. right. eauto.
Qed.

Lemma done_absorbing st k : DoneWith d st -> client_attempt st ref name d k = st.
Proof.
  intros [Hf _]. unfold client_attempt, attempt. destruct (k <? 16)%nat; [reflexivity|]. now rewrite Hf.
Qed.

(* after ANY sequence of cuts (any offsets, any number) the final name does not exist and the partial file is
   a prefix of the data - or the upload has completed with exactly the data *)
Theorem cuts_invariant : forall cuts st,
  Inv d st \/ DoneWith d st ->
  let st' := run_cuts st ref name d cuts in Inv d st' \/ DoneWith d st'.
Proof.
  induction cuts as [|k ks IH]; intros st H; simpl; auto.
  apply IH. destruct H as [H|H].
  - now apply step.
  - right. now rewrite (done_absorbing _ _ H).
Qed.

(* an attempt that is not cut completes from any invariant state: final = d, no partial file left *)
Theorem uncut_completes st k :
  Inv d st -> (hlen name + (List.length d - offset st) <= k)%nat -> DoneWith d (client_attempt st ref name d k).
Proof.
  intros HI Hk. destruct (step st k HI) as [[Hf Hp]|HD]; auto. exfalso.
  destruct HI as [Hf0 Hp0]. unfold client_attempt, attempt in Hf.
  assert (K16 : (k <? 16)%nat = false) by (apply Nat.ltb_ge; pose proof (hlen_ge16 name); lia).
  rewrite K16, Hf0 in Hf. unfold client_stream in Hf.
  set (m := offset st) in *.
  assert (Hm : (m <= List.length d)%nat).
  { unfold m, offset. destruct Hp0 as [->|[j [Hj ->]]]; simpl; [lia|]. rewrite firstn_length; lia. }
  assert (Hr : len (skipn m d) < 4294967296) by (unfold len in *; rewrite skipn_length; lia).
  rewrite (upload_bytes_cut ref name (len (skipn m d)) Href Hname Hr (skipn m d) k eq_refl) in Hf.
  replace (hlen name <=? k)%nat with true in Hf by (symmetry; apply Nat.leb_le; lia).
  cbn [uv_complete] in Hf. rewrite skipn_length in Hf.
  replace (List.length d - m <=? k - hlen name)%nat with true in Hf by (symmetry; apply Nat.leb_le; lia).
  cbn in Hf. discriminate.
Qed.

(* resume offset reported by the server = size of the partial file = number of data bytes already stored *)
Theorem resume_offset_is_partial_size st p :
  final st = None -> partial st = Some p -> upload_request st true = UpResume (len p).
Proof. intros Hf Hp. unfold upload_request. now rewrite Hf, Hp. Qed.
End Cuts.

(* an upload never overwrites an existing file: request refused, transfer refused, nothing touched *)
Theorem no_overwrite st e stream k resume :
  final st = Some e -> upload_request st resume = UpRefused /\ attempt st stream k = st.
Proof.
  intros Hf. split; [unfold upload_request; now rewrite Hf|].
  unfold attempt. destruct (k <? 16)%nat; [reflexivity|]. now rewrite Hf.
Qed.

(* ------------------------------------------------------------------ download *)
(* for 0 <= k <= size: header (unless preview), then exactly the data fork from k, then the trailer *)
Theorem dl_data_exact f k resuming preview :
  k <= len (df_data f) ->
  dl_stream f k resuming preview =
    (if preview then [] else dl_header f (len (df_data f) mod 4294967296)) ++
    dropN k (df_data f) ++
    (if resuming || preview then [] else rsrc_header f) ++
    (if preview then [] else match df_rsrc f with Some r => r | None => [] end).
Proof. intros H. unfold dl_stream. replace (k <=? len (df_data f)) with true by lia. reflexivity. Qed.

Theorem dl_preview_bare f k resuming : k <= len (df_data f) -> dl_stream f k resuming true = dropN k (df_data f).
Proof. intros H. rewrite dl_data_exact by exact H. rewrite orb_true_r. cbn. now rewrite app_nil_r. Qed.

(* the reply: file-size field = remaining data; without a stored resource fork the transfer size is header +
   remaining data *)
Theorem dl_reply_sizes f k :
  k <= len (df_data f) -> len (df_data f) < 4294967296 -> df_rsrc f = None ->
  snd (dl_reply f k false) = be32 (len (df_data f) - k) /\
  fst (dl_reply f k false) = be32 (len (dl_header f (len (df_data f) - k)) + (len (df_data f) - k)) /\
  fst (dl_reply f k true) = be32 (len (df_data f) - k).
Proof.
  intros Hk Hs Hr. unfold dl_reply, rsrc_len. rewrite Hr.
  assert (E : (len (df_data f) + 4294967296 - k mod 4294967296) mod 4294967296 = len (df_data f) - k).
  { rewrite (N.mod_small k) by lia.
    replace (len (df_data f) + 4294967296 - k) with ((len (df_data f) - k) + 1 * 4294967296) by lia.
    rewrite N.mod_add by lia. apply N.mod_small. lia. }
  rewrite E. cbn [fst snd]. repeat split. f_equal. lia.
Qed.

(* the header is a well-formed flattened file object: its INFO fork size field equals the length of the
   information fork that follows, for every file (synthesised fork) *)
Lemma dl_header_info_size f n rest :
  len (info_bytes f) < 4294967296 ->
  (_ <- p_raw 24 ;; _ <- p_lit INFO ;; _ <- p_raw 8 ;; sz <- p_u32 ;; body <- p_rawN sz ;; ret body)
    (dl_header f n ++ rest) = Some (info_bytes f, [68;65;84;65] ++ repeat 0 8 ++ be32 n ++ rest).
Proof.
  intros H. unfold dl_header. rewrite <- !app_assoc.
  replace ([70;73;76;80] ++ [0; 1] ++ repeat 0 16 ++ [0; if df_info f then 3 else 2] ++ INFO ++ repeat 0 8 ++
           be32 (len (info_bytes f)) ++ info_bytes f ++ [68;65;84;65] ++ repeat 0 8 ++ be32 n ++ rest)
    with (([70;73;76;80] ++ [0; 1] ++ repeat 0 16 ++ [0; if df_info f then 3 else 2]) ++ INFO ++ repeat 0 8 ++
           be32 (len (info_bytes f)) ++ info_bytes f ++ [68;65;84;65] ++ repeat 0 8 ++ be32 n ++ rest)
    by (now rewrite <- !app_assoc).
  unfold bind at 1. rewrite p_raw_app by (destruct (df_info f); reflexivity).
  unfold bind at 1. rewrite p_lit_app.
  unfold bind at 1. rewrite p_raw_app by reflexivity.
  unfold bind at 1. rewrite p_u32_be32 by exact H.
  unfold bind at 1. rewrite p_rawN_app. reflexivity.
Qed.

(* the name-size field of a synthesised information fork equals the length of the name that follows *)
Lemma synth_info_name f rest : len (df_name f) < 65536 ->
  List.length (df_type f) = 4%nat -> List.length (df_creator f) = 4%nat -> List.length (df_mtime f) = 8%nat ->
  (_ <- p_raw 70 ;; nm <- p_len16 ;; ret nm) (synth_info f ++ rest) = Some (df_name f, [0; 0] ++ rest).
Proof.
  intros Hn Ht Hc Hm. unfold synth_info.
  replace (([65;77;65;67] ++ df_type f ++ df_creator f ++ [0;0;0;0] ++ [0;0;1;0] ++ repeat 0 32 ++ df_mtime f ++
            df_mtime f ++ [0; 0] ++ be16 (len (df_name f)) ++ df_name f ++ [0; 0]) ++ rest)
    with (([65;77;65;67] ++ df_type f ++ df_creator f ++ [0;0;0;0] ++ [0;0;1;0] ++ repeat 0 32 ++ df_mtime f ++
            df_mtime f ++ [0; 0]) ++ be16 (len (df_name f)) ++ df_name f ++ [0; 0] ++ rest)
    by (now rewrite <- !app_assoc).
  unfold bind at 1. rewrite p_raw_app.
  2:{ rewrite !app_length, Ht, Hc, Hm. reflexivity. }
  unfold bind at 1. rewrite p_len16_enc by exact Hn. reflexivity.
Qed.
