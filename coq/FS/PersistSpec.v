(* From the calls the translator found in the source (Gen/Persist.v) to system-call scripts (FS/Crash.v):
   os.WriteFile = create/truncate + one write; os.Rename, os.Link, os.Remove = rename, link, unlink; a deferred call
   runs when the function returns (last deferred first); a call inside the body of an if runs when the condition
   holds; a call inside a loop, an else branch or a closure is refused (None) - no persistent update of the tree has
   one, and a new one must be looked at.  writeFileAtomic is expanded to atomic_write, which is what its own entry of
   the table derives to (Props/C20.v: C20_writeFileAtomic_is_atomic_write). *)
From stdpp Require Import gmap.
From Coq Require Import String Ascii.
From Verif Require Import Base.Bytes FS.Crash FS.PersistSyntax.
Local Open Scope N_scope.

Fixpoint bytes_of_string (s : string) : bytes :=
  match s with EmptyString => [] | String c r => N_of_ascii c :: bytes_of_string r end.

Section Derive.
  Variable rho : string -> bytes.        (* the value of each source expression *)
  Variable gamma : string -> bool.       (* the truth of each if condition *)

  Fixpoint eval (e : pexpr) : bytes :=
    match e with PVar s => rho s | PSuffix e' l => eval e' ++ bytes_of_string l end.

  Definition call_script (c : pcall) : option (list sc) :=
    let f := pc_fn c in
    match pc_args c with
    | [p] => if String.eqb f "os.Remove" then Some [ScUnlink (eval p)] else None
    | [a; b] => if String.eqb f "os.Rename" then Some [ScRename (eval a) (eval b)]
                else if String.eqb f "os.Link" then Some [ScLink (eval a) (eval b)] else None
    | [p; d; _] => if String.eqb f "os.WriteFile" then Some [ScCreate (eval p); ScWrite (eval p) (eval d)]
                   else if String.eqb f "writeFileAtomic" then Some (atomic_write (eval p) (eval d)) else None
    | _ => None
    end.

  Definition guarded (c : pcall) : option (list sc) :=
    let g := pc_guard c in
    if String.eqb g "" then call_script c
    else if String.prefix "<" g then None      (* "<loop>", "<else>", "<closure>", alone or before a condition *)
    else if gamma g then call_script c else Some [].

  Fixpoint seq_scripts (l : list pcall) : option (list sc) :=
    match l with
    | [] => Some []
    | c :: r => match guarded c, seq_scripts r with Some x, Some y => Some (x ++ y) | _, _ => None end
    end.

  Definition derive (cs : list pcall) : option (list sc) :=
    let now := List.filter (fun c => negb (pc_deferred c)) cs in
    let later := rev (List.filter pc_deferred cs) in
    seq_scripts (now ++ later).
End Derive.

Fixpoint calls_of (name : string) (t : list (string * list pcall)) : list pcall :=
  match t with [] => [] | (n, cs) :: r => if String.eqb n name then cs else calls_of name r end.

(* the functions of internal/mobius that may change the file system: the seven persistent-state updates the crash
   theorems are about, the helper they share, the account loader (which finishes an interrupted move: FS/Crash.v
   recover1) and the one file-tree rename of the handlers (the file tree is C11's) *)
Definition persist_functions : list string :=
  ["BanFile.Add"; "FlatNews.Write"; "HandleSetFileInfo"; "NewYAMLAccountManager"; "ThreadedNewsYAML.writeFile";
   "YAMLAccountManager.Create"; "YAMLAccountManager.Delete"; "YAMLAccountManager.Update"; "writeFileAtomic"]%string.
(* the loader's only call: for each account file it reads, one rename of that file to the file of the login inside
   it, when that does not exist - the step [recover1] of FS/Crash.v *)
Definition loader_calls : list pcall :=
  [mk_pcall "os.Rename" [PVar "filePath"; PVar "wantPath"] false "<loop> <else> os.IsNotExist(err)"]%string.
