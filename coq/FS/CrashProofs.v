(* Proofs for FS/Crash.v: every crash point of every update leaves the old or the new value, loadable. *)
From stdpp Require Import gmap.
From Coq Require Import Lia.
From Verif Require Import Base.Bytes FS.Crash.
Local Open Scope N_scope.

Lemma tmp_neq p : tmp_of p <> p.
Proof.
  unfold tmp_of, TMP. intros H. apply (f_equal (@List.length N)) in H. rewrite app_length in H. cbn in H. lia.
Qed.

(* the prefixes of a three-call script *)
Lemma firstn_cases3 {A} (a b c : A) k :
  firstn k [a; b; c] = [] \/ firstn k [a; b; c] = [a] \/ firstn k [a; b; c] = [a; b] \/ firstn k [a; b; c] = [a; b; c].
Proof. destruct k as [|[|[|k]]]; cbn; auto. destruct k; auto. Qed.

Ltac fs_simpl :=
  repeat first [ rewrite lookup_insert | rewrite lookup_insert_ne by congruence
               | rewrite lookup_delete_ne by congruence | rewrite lookup_delete | progress cbn [app] ].

(* ---- temporary file + rename: a single file, every crash point ---- *)
Theorem atomic_write_crash (s : fs) p data k :
  let s' := crash_at k s (atomic_write p data) in
  (s' !! p = s !! p \/ s' !! p = Some data) /\
  (forall q, q <> p -> q <> tmp_of p -> s' !! q = s !! q).
Proof.
  cbn zeta. unfold crash_at, atomic_write.
  pose proof (tmp_neq p) as Ht.
  destruct (firstn_cases3 (ScCreate (tmp_of p)) (ScWrite (tmp_of p) data) (ScRename (tmp_of p) p) k) as [-> | [-> | [-> | ->]]];
    cbn [apply fold_left apply1]; (split; [|intros q H1 H2]); fs_simpl; auto.
Qed.
(* once the update has returned (all calls made) the new value is there *)
Theorem atomic_write_durable (s : fs) p data k :
  (3 <= k)%nat -> crash_at k s (atomic_write p data) !! p = Some data.
Proof.
  intros Hk. unfold crash_at, atomic_write. rewrite firstn_all2 by (cbn; lia).
  cbn [apply fold_left apply1]. fs_simpl. reflexivity.
Qed.

(* ---- account creation: the complete file is published with link(2) ---- *)
Lemma firstn_cases4 {A} (a b c d : A) k :
  firstn k [a; b; c; d] = [] \/ firstn k [a; b; c; d] = [a] \/ firstn k [a; b; c; d] = [a; b] \/
  firstn k [a; b; c; d] = [a; b; c] \/ firstn k [a; b; c; d] = [a; b; c; d].
Proof. destruct k as [|[|[|[|k]]]]; cbn; auto 6. destruct k; auto 6. Qed.
Theorem acct_create_crash (s : fs) f data k :
  s !! f = None ->
  let s' := crash_at k s (acct_create f data) in
  (s' !! f = None \/ s' !! f = Some data) /\
  (forall q, q <> f -> q <> tmp_of f -> s' !! q = s !! q).
Proof.
  intros Hf. cbn zeta. unfold crash_at, acct_create. pose proof (tmp_neq f) as Ht.
  destruct (firstn_cases4 (ScCreate (tmp_of f)) (ScWrite (tmp_of f) data) (ScLink (tmp_of f) f) (ScUnlink (tmp_of f)) k)
    as [-> | [-> | [-> | [-> | ->]]]]; cbn [apply fold_left apply1]; fs_simpl; rewrite ?Hf; fs_simpl;
    (split; [|intros q H1 H2]); fs_simpl; auto.
Qed.
Theorem acct_create_durable (s : fs) f data k :
  s !! f = None -> (3 <= k)%nat -> crash_at k s (acct_create f data) !! f = Some data.
Proof.
  intros Hf Hk. unfold crash_at, acct_create. pose proof (tmp_neq f) as Ht.
  destruct (firstn_cases4 (ScCreate (tmp_of f)) (ScWrite (tmp_of f) data) (ScLink (tmp_of f) f) (ScUnlink (tmp_of f)) k)
    as [E | [E | [E | [E | E]]]]; rewrite E;
    try (apply (f_equal (@List.length sc)) in E; rewrite firstn_length in E; cbn in E; lia);
    cbn [apply fold_left apply1]; fs_simpl; rewrite ?Hf; fs_simpl; reflexivity.
Qed.
(* an existing account is never overwritten by a creation *)
Theorem acct_create_exclusive (s : fs) f data old k :
  s !! f = Some old -> crash_at k s (acct_create f data) !! f = Some old.
Proof.
  intros Hf. unfold crash_at, acct_create. pose proof (tmp_neq f) as Ht.
  destruct (firstn_cases4 (ScCreate (tmp_of f)) (ScWrite (tmp_of f) data) (ScLink (tmp_of f) f) (ScUnlink (tmp_of f)) k)
    as [-> | [-> | [-> | [-> | ->]]]]; cbn [apply fold_left apply1]; fs_simpl; rewrite ?Hf; fs_simpl; auto.
Qed.

(* ---- the account directory as the loader sees it ---- *)
Section Accounts.
  Variable key_of : bytes -> option bytes.
  Variable live : bytes -> bool.
  Notation holds := (holds key_of live).
  Notation loads := (loads key_of live).
  Notation same_accounts := (same_accounts key_of live).

  Lemma same_refl s : same_accounts s s. Proof. intros k c. reflexivity. Qed.
  (* files the loader does not read do not matter *)
  Lemma same_accounts_ext s1 s2 :
    (forall f, live f = true -> s1 !! f = s2 !! f) -> same_accounts s1 s2.
  Proof.
    intros H k c. split; intros (f & Hl & Hs & Hk); exists f; repeat split; auto; [rewrite <- H | rewrite H]; auto.
  Qed.
  Lemma loads_ext s1 s2 : (forall f, live f = true -> s1 !! f = s2 !! f) -> loads s1 -> loads s2.
  Proof. intros H L f c Hl Hs. apply (L f c Hl). now rewrite H. Qed.

  (* UPDATE of an account, possibly under a new login: the record is replaced in one step under its old file
     name, then the file is renamed.  At every crash point the directory loads, and it holds either exactly the
     old accounts or exactly the new ones. *)
  Theorem acct_update_crash (s : fs) fold fnew old data k :
    live fold = true -> live fnew = true -> live (tmp_of fold) = false ->
    s !! fold = Some old -> (fold <> fnew -> s !! fnew = None) ->
    key_of data <> None -> loads s ->
    let s' := crash_at k s (acct_update fold fnew data) in
    let s_new := apply s (acct_update fold fnew data) in
    loads s' /\ (same_accounts s' s \/ same_accounts s' s_new).
  Proof.
    intros Lo Ln Lt Ho Hn Kd L. cbn zeta. pose proof (tmp_neq fold) as Ht.
    assert (Ltn : tmp_of fold <> fnew) by (intros E; rewrite E in Lt; congruence).
    unfold crash_at, acct_update, atomic_write.
    (* states reached, by number of calls made *)
    set (s1 := <[tmp_of fold := []]> s).
    set (s2 := <[tmp_of fold := [] ++ data]> s1).
    set (s3 := <[fold := [] ++ data]> (delete (tmp_of fold) s2)).
    assert (E1 : forall f, live f = true -> s1 !! f = s !! f).
    { intros f Hf. unfold s1. rewrite lookup_insert_ne; auto. intros E; rewrite <- E in Hf; congruence. }
    assert (E2 : forall f, live f = true -> s2 !! f = s !! f).
    { intros f Hf. unfold s2. rewrite lookup_insert_ne; auto. intros E; rewrite <- E in Hf; congruence. }
    assert (L3 : loads s3).
    { intros f c Hf Hs. unfold s3 in Hs. destruct (decide (f = fold)) as [->|Nf].
      - rewrite lookup_insert in Hs. injection Hs as <-. exact Kd.
      - rewrite lookup_insert_ne in Hs by congruence. rewrite lookup_delete_ne in Hs by (intros E; rewrite <- E in Hf; congruence).
        rewrite E2 in Hs by assumption. eapply L; eauto. }
    set (c1 := ScCreate (tmp_of fold)). set (c2 := ScWrite (tmp_of fold) data). set (c3 := ScRename (tmp_of fold) fold).
    assert (A1 : apply s [c1] = s1) by reflexivity.
    assert (A2 : apply s [c1; c2] = s2).
    { unfold c1, c2. cbn [apply fold_left apply1]. fold s1. unfold s1 at 1. rewrite lookup_insert. reflexivity. }
    assert (A3 : apply s [c1; c2; c3] = s3).
    { change (apply s [c1; c2; c3]) with (apply1 (apply s [c1; c2]) c3). rewrite A2. unfold c3. cbn [apply1].
      unfold s2 at 1. rewrite lookup_insert. reflexivity. }
    destruct (bool_decide (fold = fnew)) eqn:Ed.
    - (* same login: three calls *)
      rewrite app_nil_r. rewrite A3.
      destruct (firstn_cases3 c1 c2 c3 k) as [-> | [-> | [-> | ->]]]; rewrite ?A1, ?A2, ?A3.
      + split; [exact L | left; apply same_refl].
      + split; [eapply loads_ext; [|exact L]; intros; symmetry; auto | left; apply same_accounts_ext; auto].
      + split; [eapply loads_ext; [|exact L]; intros; symmetry; auto | left; apply same_accounts_ext; auto].
      + split; [exact L3 | right; apply same_refl].
    - (* new login: a fourth call renames the file *)
      apply bool_decide_eq_false in Ed. specialize (Hn Ed).
      set (c4 := ScRename fold fnew).
      set (s4 := <[fnew := [] ++ data]> (delete fold s3)).
      assert (A4 : apply s [c1; c2; c3; c4] = s4).
      { change (apply s [c1; c2; c3; c4]) with (apply1 (apply s [c1; c2; c3]) c4). rewrite A3. unfold c4. cbn [apply1].
        unfold s3 at 1. rewrite lookup_insert. reflexivity. }
      change ([c1; c2; c3] ++ [c4]) with [c1; c2; c3; c4]. rewrite A4.
      (* the directory after the third call already holds exactly the new accounts: the login is read from the file *)
      assert (S34 : same_accounts s3 s4).
      { intros kk c. split; intros (f & Hf & Hs & Hk).
        - destruct (decide (f = fold)) as [->|Nf].
          + unfold s3 in Hs. rewrite lookup_insert in Hs. injection Hs as <-.
            exists fnew. repeat split; auto. unfold s4. now rewrite lookup_insert.
          + exists f. repeat split; auto. unfold s4.
            destruct (decide (f = fnew)) as [->|Nn].
            * exfalso. unfold s3 in Hs. rewrite lookup_insert_ne in Hs by congruence.
              rewrite lookup_delete_ne in Hs by congruence. rewrite E2 in Hs by assumption. congruence.
            * rewrite lookup_insert_ne by congruence. now rewrite lookup_delete_ne by congruence.
        - destruct (decide (f = fnew)) as [->|Nn].
          + unfold s4 in Hs. rewrite lookup_insert in Hs. injection Hs as <-.
            exists fold. repeat split; auto. unfold s3. now rewrite lookup_insert.
          + unfold s4 in Hs. rewrite lookup_insert_ne in Hs by congruence.
            destruct (decide (f = fold)) as [->|Nf]; [now rewrite lookup_delete in Hs|].
            rewrite lookup_delete_ne in Hs by congruence. exists f. repeat split; auto. }
      assert (L4 : loads s4).
      { intros f c Hf Hs. unfold s4 in Hs. destruct (decide (f = fnew)) as [->|Nn].
        - rewrite lookup_insert in Hs. injection Hs as <-. exact Kd.
        - rewrite lookup_insert_ne in Hs by congruence. destruct (decide (f = fold)) as [->|Nf]; [now rewrite lookup_delete in Hs|].
          rewrite lookup_delete_ne in Hs by congruence. eapply L3; eauto. }
      destruct (firstn_cases4 c1 c2 c3 c4 k) as [-> | [-> | [-> | [-> | ->]]]]; rewrite ?A1, ?A2, ?A3, ?A4.
      + split; [exact L | left; apply same_refl].
      + split; [eapply loads_ext; [|exact L]; intros; symmetry; auto | left; apply same_accounts_ext; auto].
      + split; [eapply loads_ext; [|exact L]; intros; symmetry; auto | left; apply same_accounts_ext; auto].
      + split; [exact L3 | right; exact S34].
      + split; [exact L4 | right; apply same_refl].
  Qed.

  (* DELETE is one call *)
  Theorem acct_delete_crash (s : fs) f k :
    crash_at k s (acct_delete f) = s \/ crash_at k s (acct_delete f) = apply s (acct_delete f).
  Proof. unfold crash_at, acct_delete. destruct k as [|k]; [left; reflexivity|right; destruct k; reflexivity]. Qed.
End Accounts.
