(* Proofs for FS/Crash.v: every crash point of every update leaves the old or the new value, loadable. *)
From stdpp Require Import gmap.
From Coq Require Import Lia.
From Verif Require Import Base.Bytes FS.Crash.
Local Open Scope N_scope.

Lemma tmp_neq p : tmp_of p <> p.
Proof.
  unfold tmp_of, TMP. intros H. apply (f_equal (@List.length N)) in H. rewrite app_length in H. cbn in H. lia.
Qed.

(* the prefixes of a three-call script *)
Lemma firstn_cases3 {A} (a b c : A) k :
  firstn k [a; b; c] = [] \/ firstn k [a; b; c] = [a] \/ firstn k [a; b; c] = [a; b] \/ firstn k [a; b; c] = [a; b; c].
Proof. destruct k as [|[|[|k]]]; cbn; auto. destruct k; auto. Qed.

Ltac fs_simpl :=
  repeat first [ rewrite lookup_insert | rewrite lookup_insert_ne by congruence
               | rewrite lookup_delete_ne by congruence | rewrite lookup_delete | progress cbn [app] ].

(* ---- temporary file + rename: a single file, every crash point ---- *)
Theorem atomic_write_crash (s : fs) p data k :
  let s' := crash_at k s (atomic_write p data) in
  (s' !! p = s !! p \/ s' !! p = Some data) /\
  (forall q, q <> p -> q <> tmp_of p -> s' !! q = s !! q).
Proof.
  cbn zeta. unfold crash_at, atomic_write.
  pose proof (tmp_neq p) as Ht.
  destruct (firstn_cases3 (ScCreate (tmp_of p)) (ScWrite (tmp_of p) data) (ScRename (tmp_of p) p) k) as [-> | [-> | [-> | ->]]];
    cbn [apply fold_left apply1]; (split; [|intros q H1 H2]); fs_simpl; auto.
Qed.
(* once the update has returned (all calls made) the new value is there *)
Theorem atomic_write_durable (s : fs) p data k :
  (3 <= k)%nat -> crash_at k s (atomic_write p data) !! p = Some data.
Proof.
  intros Hk. unfold crash_at, atomic_write. rewrite firstn_all2 by (cbn; lia).
  cbn [apply fold_left apply1]. fs_simpl. reflexivity.
Qed.

(* ---- account creation: the complete file is published with link(2) ---- *)
Lemma firstn_cases4 {A} (a b c d : A) k :
  firstn k [a; b; c; d] = [] \/ firstn k [a; b; c; d] = [a] \/ firstn k [a; b; c; d] = [a; b] \/
  firstn k [a; b; c; d] = [a; b; c] \/ firstn k [a; b; c; d] = [a; b; c; d].
Proof. destruct k as [|[|[|[|k]]]]; cbn; auto 6. destruct k; auto 6. Qed.
Theorem acct_create_crash (s : fs) f data k :
  s !! f = None ->
  let s' := crash_at k s (acct_create f data) in
  (s' !! f = None \/ s' !! f = Some data) /\
  (forall q, q <> f -> q <> tmp_of f -> s' !! q = s !! q).
Proof.
  intros Hf. cbn zeta. unfold crash_at, acct_create. pose proof (tmp_neq f) as Ht.
  destruct (firstn_cases4 (ScCreate (tmp_of f)) (ScWrite (tmp_of f) data) (ScLink (tmp_of f) f) (ScUnlink (tmp_of f)) k)
    as [-> | [-> | [-> | [-> | ->]]]]; cbn [apply fold_left apply1]; fs_simpl; rewrite ?Hf; fs_simpl;
    (split; [|intros q H1 H2]); fs_simpl; auto.
Qed.
Theorem acct_create_durable (s : fs) f data k :
  s !! f = None -> (3 <= k)%nat -> crash_at k s (acct_create f data) !! f = Some data.
Proof.
  intros Hf Hk. unfold crash_at, acct_create. pose proof (tmp_neq f) as Ht.
  destruct (firstn_cases4 (ScCreate (tmp_of f)) (ScWrite (tmp_of f) data) (ScLink (tmp_of f) f) (ScUnlink (tmp_of f)) k)
    as [E | [E | [E | [E | E]]]]; rewrite E;
    try (apply (f_equal (@List.length sc)) in E; rewrite firstn_length in E; cbn in E; lia);
    cbn [apply fold_left apply1]; fs_simpl; rewrite ?Hf; fs_simpl; reflexivity.
Qed.
(* an existing account is never overwritten by a creation *)
Theorem acct_create_exclusive (s : fs) f data old k :
  s !! f = Some old -> crash_at k s (acct_create f data) !! f = Some old.
Proof.
  intros Hf. unfold crash_at, acct_create. pose proof (tmp_neq f) as Ht.
  destruct (firstn_cases4 (ScCreate (tmp_of f)) (ScWrite (tmp_of f) data) (ScLink (tmp_of f) f) (ScUnlink (tmp_of f)) k)
    as [-> | [-> | [-> | [-> | ->]]]]; cbn [apply fold_left apply1]; fs_simpl; rewrite ?Hf; fs_simpl; auto.
Qed.

(* ---- the account directory as the loader sees it ---- *)
Section Accounts.
  Variable key_of : bytes -> option bytes.
  Variable live : bytes -> bool.
  Notation holds := (holds key_of live).
  Notation loads := (loads key_of live).
  Notation same_accounts := (same_accounts key_of live).

  Lemma same_refl s : same_accounts s s. Proof. intros k c. reflexivity. Qed.
  (* files the loader does not read do not matter *)
  Lemma same_accounts_ext s1 s2 :
    (forall f, live f = true -> s1 !! f = s2 !! f) -> same_accounts s1 s2.
  Proof.
    intros H k c. split; intros (f & Hl & Hs & Hk); exists f; repeat split; auto; [rewrite <- H | rewrite H]; auto.
  Qed.
  Lemma loads_ext s1 s2 : (forall f, live f = true -> s1 !! f = s2 !! f) -> loads s1 -> loads s2.
  Proof. intros H L f c Hl Hs. apply (L f c Hl). now rewrite H. Qed.

  (* UPDATE of an account, possibly under a new login: the record is replaced in one step under its old file
     name, then the file is renamed.  At every crash point the directory loads, and it holds either exactly the
     old accounts or exactly the new ones. *)
  Theorem acct_update_crash (s : fs) fold fnew old data k :
    live fold = true -> live fnew = true -> live (tmp_of fold) = false ->
    s !! fold = Some old -> (fold <> fnew -> s !! fnew = None) ->
    key_of data <> None -> loads s ->
    let s' := crash_at k s (acct_update fold fnew data) in
    let s_new := apply s (acct_update fold fnew data) in
    loads s' /\ (same_accounts s' s \/ same_accounts s' s_new).
  Proof.
    intros Lo Ln Lt Ho Hn Kd L. cbn zeta. pose proof (tmp_neq fold) as Ht.
    assert (Ltn : tmp_of fold <> fnew) by (intros E; rewrite E in Lt; congruence).
    unfold crash_at, acct_update, atomic_write.
    (* states reached, by number of calls made *)
    set (s1 := <[tmp_of fold := []]> s).
    set (s2 := <[tmp_of fold := [] ++ data]> s1).
    set (s3 := <[fold := [] ++ data]> (delete (tmp_of fold) s2)).
    assert (E1 : forall f, live f = true -> s1 !! f = s !! f).
    { intros f Hf. unfold s1. rewrite lookup_insert_ne; auto. intros E; rewrite <- E in Hf; congruence. }
    assert (E2 : forall f, live f = true -> s2 !! f = s !! f).
    { intros f Hf. unfold s2. rewrite lookup_insert_ne; auto. intros E; rewrite <- E in Hf; congruence. }
    assert (L3 : loads s3).
    { intros f c Hf Hs. unfold s3 in Hs. destruct (decide (f = fold)) as [->|Nf].
      - rewrite lookup_insert in Hs. injection Hs as <-. exact Kd.
      - rewrite lookup_insert_ne in Hs by congruence. rewrite lookup_delete_ne in Hs by (intros E; rewrite <- E in Hf; congruence).
        rewrite E2 in Hs by assumption. eapply L; eauto. }
    set (c1 := ScCreate (tmp_of fold)). set (c2 := ScWrite (tmp_of fold) data). set (c3 := ScRename (tmp_of fold) fold).
    assert (A1 : apply s [c1] = s1) by reflexivity.
    assert (A2 : apply s [c1; c2] = s2).
    { unfold c1, c2. cbn [apply fold_left apply1]. fold s1. unfold s1 at 1. rewrite lookup_insert. reflexivity. }
    assert (A3 : apply s [c1; c2; c3] = s3).
    { change (apply s [c1; c2; c3]) with (apply1 (apply s [c1; c2]) c3). rewrite A2. unfold c3. cbn [apply1].
      unfold s2 at 1. rewrite lookup_insert. reflexivity. }
    destruct (bool_decide (fold = fnew)) eqn:Ed.
    - (* same login: three calls *)
      rewrite app_nil_r. rewrite A3.
      destruct (firstn_cases3 c1 c2 c3 k) as [-> | [-> | [-> | ->]]]; rewrite ?A1, ?A2, ?A3.
      + split; [exact L | left; apply same_refl].
      + split; [eapply loads_ext; [|exact L]; intros; symmetry; auto | left; apply same_accounts_ext; auto].
      + split; [eapply loads_ext; [|exact L]; intros; symmetry; auto | left; apply same_accounts_ext; auto].
      + split; [exact L3 | right; apply same_refl].
    - (* new login: a fourth call renames the file *)
      apply bool_decide_eq_false in Ed. specialize (Hn Ed).
      set (c4 := ScRename fold fnew).
      set (s4 := <[fnew := [] ++ data]> (delete fold s3)).
      assert (A4 : apply s [c1; c2; c3; c4] = s4).
      { change (apply s [c1; c2; c3; c4]) with (apply1 (apply s [c1; c2; c3]) c4). rewrite A3. unfold c4. cbn [apply1].
        unfold s3 at 1. rewrite lookup_insert. reflexivity. }
      change ([c1; c2; c3] ++ [c4]) with [c1; c2; c3; c4]. rewrite A4.
      (* the directory after the third call already holds exactly the new accounts: the login is read from the file *)
      assert (S34 : same_accounts s3 s4).
      { intros kk c. split; intros (f & Hf & Hs & Hk).
        - destruct (decide (f = fold)) as [->|Nf].
          + unfold s3 in Hs. rewrite lookup_insert in Hs. injection Hs as <-.
            exists fnew. repeat split; auto. unfold s4. now rewrite lookup_insert.
          + exists f. repeat split; auto. unfold s4.
            destruct (decide (f = fnew)) as [->|Nn].
            * exfalso. unfold s3 in Hs. rewrite lookup_insert_ne in Hs by congruence.
              rewrite lookup_delete_ne in Hs by congruence. rewrite E2 in Hs by assumption. congruence.
            * rewrite lookup_insert_ne by congruence. now rewrite lookup_delete_ne by congruence.
        - destruct (decide (f = fnew)) as [->|Nn].
          + unfold s4 in Hs. rewrite lookup_insert in Hs. injection Hs as <-.
            exists fold. repeat split; auto. unfold s3. now rewrite lookup_insert.
          + unfold s4 in Hs. rewrite lookup_insert_ne in Hs by congruence.
            destruct (decide (f = fold)) as [->|Nf]; [now rewrite lookup_delete in Hs|].
            rewrite lookup_delete_ne in Hs by congruence. exists f. repeat split; auto. }
      assert (L4 : loads s4).
      { intros f c Hf Hs. unfold s4 in Hs. destruct (decide (f = fnew)) as [->|Nn].
        - rewrite lookup_insert in Hs. injection Hs as <-. exact Kd.
        - rewrite lookup_insert_ne in Hs by congruence. destruct (decide (f = fold)) as [->|Nf]; [now rewrite lookup_delete in Hs|].
          rewrite lookup_delete_ne in Hs by congruence. eapply L3; eauto. }
      destruct (firstn_cases4 c1 c2 c3 c4 k) as [-> | [-> | [-> | [-> | ->]]]]; rewrite ?A1, ?A2, ?A3, ?A4.
      + split; [exact L | left; apply same_refl].
      + split; [eapply loads_ext; [|exact L]; intros; symmetry; auto | left; apply same_accounts_ext; auto].
      + split; [eapply loads_ext; [|exact L]; intros; symmetry; auto | left; apply same_accounts_ext; auto].
      + split; [exact L3 | right; exact S34].
      + split; [exact L4 | right; apply same_refl].
  Qed.

  (* ---- recovery finishes an interrupted move ---- *)
  Variable name_of : bytes -> bytes.
  Notation well_named := (well_named key_of live name_of).
  Notation recover1 := (recover1 key_of name_of).

  Definition u1 (s : fs) (fold : bytes) : fs := <[tmp_of fold := []]> s.
  Definition u2 (s : fs) (fold data : bytes) : fs := <[tmp_of fold := data]> (u1 s fold).
  Definition u3 (s : fs) (fold data : bytes) : fs := <[fold := data]> (delete (tmp_of fold) (u2 s fold data)).
  Definition u4 (s : fs) (fold fnew data : bytes) : fs := <[fnew := data]> (delete fold (u3 s fold data)).
  Lemma update_states (s : fs) fold fnew data k : fold <> fnew ->
    crash_at k s (acct_update fold fnew data) =
      match k with
      | O => s | 1 => u1 s fold | 2 => u2 s fold data | 3 => u3 s fold data | _ => u4 s fold fnew data
      end%nat.
  Proof.
    intros Hne. unfold crash_at, acct_update, atomic_write.
    rewrite bool_decide_eq_false_2 by exact Hne. cbn [app].
    assert (A2 : apply s [ScCreate (tmp_of fold); ScWrite (tmp_of fold) data] = u2 s fold data).
    { unfold apply. cbn [fold_left apply1]. rewrite lookup_insert. cbn [app]. unfold u2, u1.
      now rewrite insert_insert. }
    assert (A3 : apply s [ScCreate (tmp_of fold); ScWrite (tmp_of fold) data; ScRename (tmp_of fold) fold] = u3 s fold data).
    { change (apply s [ScCreate (tmp_of fold); ScWrite (tmp_of fold) data; ScRename (tmp_of fold) fold])
        with (apply1 (apply s [ScCreate (tmp_of fold); ScWrite (tmp_of fold) data]) (ScRename (tmp_of fold) fold)).
      rewrite A2. cbn [apply1]. unfold u2 at 1. rewrite lookup_insert. reflexivity. }
    assert (A4 : apply s [ScCreate (tmp_of fold); ScWrite (tmp_of fold) data; ScRename (tmp_of fold) fold; ScRename fold fnew]
                 = u4 s fold fnew data).
    { change (apply s [ScCreate (tmp_of fold); ScWrite (tmp_of fold) data; ScRename (tmp_of fold) fold; ScRename fold fnew])
        with (apply1 (apply s [ScCreate (tmp_of fold); ScWrite (tmp_of fold) data; ScRename (tmp_of fold) fold]) (ScRename fold fnew)).
      rewrite A3. cbn [apply1]. unfold u3 at 1. rewrite lookup_insert. reflexivity. }
    destruct k as [|[|[|[|[|k]]]]]; cbn [firstn]; rewrite ?A2, ?A3, ?A4; reflexivity.
  Qed.

  (* what the loader's step does at every crash point of a login-changing update of a well-named directory: nothing,
     except in the one state where the new record still lies under the old name - there it produces exactly the
     state the completed update would have left *)
  Theorem acct_update_recovered (s : fs) fold fnew old data knew k :
    live fold = true -> live fnew = true -> live (tmp_of fold) = false ->
    s !! fold = Some old -> fold <> fnew -> s !! fnew = None ->
    key_of data = Some knew -> fnew = name_of knew -> key_of old <> None -> well_named s ->
    let U := acct_update fold fnew data in
    recover1 (crash_at k s U) fold = (if Nat.eqb k 3 then apply s U else crash_at k s U) /\
    well_named (recover1 (crash_at k s U) fold).
  Proof.
    intros Lo Ln Lt Ho Hne Hn Kd Nn Ko W. cbn zeta. pose proof (tmp_neq fold) as Ht.
    assert (Ltn : tmp_of fold <> fnew) by (intros E; rewrite E in Lt; congruence).
    assert (Hfin : apply s (acct_update fold fnew data) = u4 s fold fnew data).
    { pose proof (update_states s fold fnew data 4 Hne) as H4. unfold crash_at in H4.
      rewrite firstn_all2 in H4; [exact H4|]. unfold acct_update, atomic_write.
      rewrite bool_decide_eq_false_2 by exact Hne. cbn. lia. }
    destruct (key_of old) as [ko|] eqn:Eko; [|congruence].
    assert (Fo : fold = name_of ko) by (eapply W; eauto).
    (* live files of the first three states are those of s *)
    assert (E1 : forall f, live f = true -> u1 s fold !! f = s !! f).
    { intros f Hf. unfold u1. rewrite lookup_insert_ne; auto. intros E; rewrite <- E in Hf; congruence. }
    assert (E2 : forall f, live f = true -> u2 s fold data !! f = s !! f).
    { intros f Hf. unfold u2. rewrite lookup_insert_ne; auto. intros E; rewrite <- E in Hf; congruence. }
    assert (Wext : forall s', (forall f, live f = true -> s' !! f = s !! f) -> well_named s').
    { intros s' Hs f c kk Hf Hc Hk. rewrite Hs in Hc by assumption. eapply W; eauto. }
    assert (R0 : forall s', (forall f, live f = true -> s' !! f = s !! f) -> recover1 s' fold = s').
    { intros s' Hs. unfold recover1. rewrite Hs by assumption. rewrite Ho, Eko.
      rewrite bool_decide_eq_true_2 by exact Fo. reflexivity. }
    assert (W4 : well_named (u4 s fold fnew data)).
    { intros f c kk Hf Hc Hk. unfold u4 in Hc. destruct (decide (f = fnew)) as [->|Nf].
      - rewrite lookup_insert in Hc. injection Hc as <-. rewrite Kd in Hk. injection Hk as <-. exact Nn.
      - rewrite lookup_insert_ne in Hc by congruence.
        destruct (decide (f = fold)) as [->|Nf2]; [now rewrite lookup_delete in Hc|].
        rewrite lookup_delete_ne in Hc by congruence. unfold u3 in Hc.
        rewrite lookup_insert_ne in Hc by congruence.
        rewrite lookup_delete_ne in Hc by (intros E; rewrite <- E in Hf; congruence).
        rewrite E2 in Hc by assumption. eapply W; eauto. }
    rewrite (update_states s fold fnew data k Hne).
    destruct k as [|[|[|[|k]]]]; cbn [Nat.eqb].
    - rewrite (R0 s) by reflexivity. split; [reflexivity|exact W].
    - rewrite (R0 _ E1). split; [reflexivity|exact (Wext _ E1)].
    - rewrite (R0 _ E2). split; [reflexivity|exact (Wext _ E2)].
    - (* the new record under the old name: the move is finished *)
      assert (R3 : recover1 (u3 s fold data) fold = u4 s fold fnew data).
      { unfold recover1. unfold u3 at 1. rewrite lookup_insert. rewrite Kd.
        rewrite bool_decide_eq_false_2 by (rewrite <- Nn; exact Hne). rewrite <- Nn.
        assert (Hf : u3 s fold data !! fnew = None).
        { unfold u3. rewrite lookup_insert_ne by congruence. rewrite lookup_delete_ne by congruence.
          rewrite E2 by assumption. exact Hn. }
        rewrite Hf. reflexivity. }
      rewrite R3, Hfin. split; [reflexivity|exact W4].
    - assert (R4 : recover1 (u4 s fold fnew data) fold = u4 s fold fnew data).
      { unfold recover1. unfold u4 at 1. rewrite lookup_insert_ne by congruence. now rewrite lookup_delete. }
      destruct k; cbn [Nat.eqb]; rewrite R4; (split; [reflexivity|exact W4]).
  Qed.

  (* DELETE is one call *)
  Theorem acct_delete_crash (s : fs) f k :
    crash_at k s (acct_delete f) = s \/ crash_at k s (acct_delete f) = apply s (acct_delete f).
  Proof. unfold crash_at, acct_delete. destruct k as [|k]; [left; reflexivity|right; destruct k; reflexivity]. Qed.
End Accounts.
