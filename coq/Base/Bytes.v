(* Base: bytes as N, big-endian integers, hex decoding, list helpers.
   Stdlib only.  No proofs about the model here beyond arithmetic facts. *)
From Coq Require Export List NArith ZArith Arith Lia Bool.
From Coq Require Export ZifyN ZifyNat ZifyBool.
From Coq Require Import String Ascii.
Export ListNotations.
Open Scope N_scope.
Ltac Zify.zify_post_hook ::= Z.div_mod_to_equations.

#[global] Arguments N.add : simpl never.
#[global] Arguments N.mul : simpl never.
#[global] Arguments N.div : simpl never.
#[global] Arguments N.modulo : simpl never.
#[global] Arguments N.leb : simpl never.
#[global] Arguments N.ltb : simpl never.
#[global] Arguments N.sub : simpl never.
#[global] Arguments N.pow : simpl never.

Notation byte := N (only parsing).
Notation bytes := (list N) (only parsing).
Definition bytes_ok (l : bytes) : Prop := Forall (fun b => b < 256) l.
Definition bytes_okb (l : bytes) : bool := forallb (fun b => b <? 256) l.
Definition len {A} (l : list A) : N := N.of_nat (List.length l).

Definition takeN {A} (n : N) (l : list A) := firstn (N.to_nat n) l.
Definition dropN {A} (n : N) (l : list A) := skipn (N.to_nat n) l.

(* ---- big endian ---- *)
Definition be16 (n : N) : bytes := [(n / 256) mod 256; n mod 256].
Definition be32 (n : N) : bytes :=
  [(n / 16777216) mod 256; (n / 65536) mod 256; (n / 256) mod 256; n mod 256].
Definition dbe16 (a b : byte) : N := a * 256 + b.
Definition dbe32 (a b c d : byte) : N := ((a * 256 + b) * 256 + c) * 256 + d.

(* decode a whole byte list as a big-endian natural number (any length) *)
Definition dbe (l : bytes) : N := fold_left (fun acc b => acc * 256 + b) l 0.

Lemma bytes_okb_ok l : bytes_okb l = true <-> bytes_ok l.
Proof.
  unfold bytes_okb, bytes_ok. rewrite forallb_forall, Forall_forall.
  split; intros H x Hx; specialize (H x Hx); lia.
Qed.

Lemma be16_parts n : n < 65536 ->
  exists a b, be16 n = [a; b] /\ a < 256 /\ b < 256 /\ dbe16 a b = n.
Proof.
  intros H. exists ((n / 256) mod 256), (n mod 256). unfold be16, dbe16.
  split; [reflexivity|].
  pose proof (N.div_mod n 256 ltac:(lia)). pose proof (N.mod_lt n 256 ltac:(lia)).
  assert (n / 256 < 256) by (apply N.div_lt_upper_bound; lia).
  rewrite (N.mod_small (n / 256)) by lia. repeat split; lia.
Qed.

Lemma be16_trunc n : exists a b, be16 n = [a; b] /\ a < 256 /\ b < 256 /\ dbe16 a b = n mod 65536.
Proof.
  exists ((n / 256) mod 256), (n mod 256). unfold be16, dbe16. split; [reflexivity|].
  pose proof (N.mod_lt n 256 ltac:(lia)). pose proof (N.mod_lt (n/256) 256 ltac:(lia)).
  repeat split; lia.
Qed.

Lemma be32_parts n : n < 4294967296 ->
  exists a b c d, be32 n = [a; b; c; d] /\ a < 256 /\ b < 256 /\ c < 256 /\ d < 256 /\ dbe32 a b c d = n.
Proof.
  intros H. unfold be32, dbe32. do 4 eexists. split; [reflexivity|].
  repeat split; lia.
Qed.

Lemma be16_ok n : bytes_ok (be16 n).
Proof. unfold be16, bytes_ok. repeat constructor; apply N.mod_lt; lia. Qed.
Lemma be32_ok n : bytes_ok (be32 n).
Proof. unfold be32, bytes_ok. repeat constructor; apply N.mod_lt; lia. Qed.
Lemma be16_length n : List.length (be16 n) = 2%nat. Proof. reflexivity. Qed.
Lemma be32_length n : List.length (be32 n) = 4%nat. Proof. reflexivity. Qed.

Lemma bytes_ok_app a b : bytes_ok (a ++ b) <-> bytes_ok a /\ bytes_ok b.
Proof. unfold bytes_ok. apply Forall_app. Qed.

(* ---- equality on byte lists ---- *)
Fixpoint bytes_eqb (a b : bytes) : bool :=
  match a, b with
  | [], [] => true
  | x :: a', y :: b' => (x =? y) && bytes_eqb a' b'
  | _, _ => false
  end.
Lemma bytes_eqb_eq a : forall b, bytes_eqb a b = true <-> a = b.
Proof.
  induction a as [|x a IH]; intros [|y b]; simpl; split; intros H; try congruence; try discriminate.
  - apply andb_prop in H as [H1 H2]. apply N.eqb_eq in H1. apply IH in H2. congruence.
  - injection H as -> ->. rewrite N.eqb_refl. simpl. now apply IH.
Qed.
Lemma bytes_eqb_refl a : bytes_eqb a a = true.
Proof. now apply bytes_eqb_eq. Qed.

Fixpoint list_eqb {A} (eqb : A -> A -> bool) (a b : list A) : bool :=
  match a, b with
  | [], [] => true
  | x :: a', y :: b' => eqb x y && list_eqb eqb a' b'
  | _, _ => false
  end.

(* ---- hex ---- *)
Definition hexval (a : ascii) : N :=
  let n := N_of_ascii a in
  if (48 <=? n) && (n <=? 57) then n - 48
  else if (97 <=? n) && (n <=? 102) then n - 87 else 0.
Fixpoint unhex (s : string) : bytes :=
  match s with
  | String a (String b r) => (hexval a * 16 + hexval b) :: unhex r
  | _ => []
  end.
Definition hexdigit (n : N) : ascii :=
  ascii_of_N (if n <? 10 then 48 + n else 87 + n).
Fixpoint hex (l : bytes) : string :=
  match l with
  | [] => EmptyString
  | b :: r => String (hexdigit (b / 16)) (String (hexdigit (b mod 16)) (hex r))
  end.

(* skipn facts missing from 8.16 *)
Lemma skipn_skipn' {A} : forall (x y : nat) (l : list A), skipn x (skipn y l) = skipn (x + y) l.
Proof.
  intros x y. revert x. induction y as [|y IH]; intros x l.
  - now rewrite Nat.add_0_r.
  - destruct l as [|a l]; [now rewrite !skipn_nil|].
    rewrite Nat.add_succ_r. cbn [skipn]. apply IH.
Qed.

Lemma firstn_app_exact {A} (a b : list A) : firstn (List.length a) (a ++ b) = a.
Proof. rewrite firstn_app, firstn_all, Nat.sub_diag. cbn [firstn]. apply app_nil_r. Qed.
Lemma skipn_app_exact {A} (a b : list A) : skipn (List.length a) (a ++ b) = b.
Proof. rewrite skipn_app, skipn_all, Nat.sub_diag. reflexivity. Qed.

Lemma nth_error_ext' {A} : forall (l l' : list A), (forall n, nth_error l n = nth_error l' n) -> l = l'.
Proof.
  induction l as [|a l IH]; intros [|b l'] H; auto.
  - specialize (H 0%nat); discriminate.
  - specialize (H 0%nat); discriminate.
  - f_equal.
    + specialize (H 0%nat). simpl in H. congruence.
    + apply IH. intros n. apply (H (S n)).
Qed.

Lemma takeN_len {A} (l : list A) : takeN (len l) l = l.
Proof. unfold takeN, len. rewrite Nat2N.id. apply firstn_all. Qed.
Lemma takeN_len_app {A} (a b : list A) : takeN (len a) (a ++ b) = a.
Proof. unfold takeN, len. rewrite Nat2N.id. apply firstn_app_exact. Qed.
Lemma dropN_len_app {A} (a b : list A) : dropN (len a) (a ++ b) = b.
Proof. unfold dropN, len. rewrite Nat2N.id. apply skipn_app_exact. Qed.

(* ---- compact transport of large byte strings between the harness and the model ----
   pattern bytes (inputs) and a Fletcher-style checksum (two 32-bit accumulators) (observations); used only by the
   correspondence evaluation, never in theorems. *)
(* byte i of the pattern is (seed + 31*i + i/256) mod 256; generated incrementally (no division) *)
Fixpoint pat_from (n : nat) (v c : N) : bytes :=
  match n with
  | O => []
  | S k => let wrap := c =? 255 in
           let v1 := v + (if wrap then 32 else 31) in
           v :: pat_from k (if 256 <=? v1 then v1 - 256 else v1) (if wrap then 0 else c + 1)
  end.
Definition pattern (n seed : N) : bytes := pat_from (N.to_nat n) (seed mod 256) 0.

Definition DIGM : N := 4294967295.   (* 2^32 - 1, used as a mask *)
(* Fletcher-style checksum with two 32-bit accumulators (additions and masks only: cheap under vm_compute) *)
Definition digest (l : bytes) : N :=
  let '(s1, s2) := fold_left (fun '(s1, s2) b => let s1' := N.land (s1 + b + 1) DIGM in
                                                (s1', N.land (s2 + s1') DIGM)) l (0, 0) in
  s2 * 4294967296 + s1.
(* an observation is either the bytes themselves or [256; length; digest] (256 is not a byte) *)
Definition bytes_match (m o : bytes) : bool :=
  match o with
  | [256; l; h] => (len m =? l) && (digest m =? h)
  | _ => bytes_eqb m o
  end.
