From Verif Require Import Base.Bytes Auth.Access.

Lemma nth_error_upd_eq b k f x : nth_error b k = Some x -> nth_error (upd b k f) k = Some (f x).
Proof.
  revert k; induction b as [|y r IH]; intros [|k] H; simpl in *; try discriminate.
  - injection H as ->. reflexivity.
  - auto.
Qed.
Lemma nth_error_upd_neq b k k' f : k <> k' -> nth_error (upd b k f) k' = nth_error b k'.
Proof. revert k k'; induction b as [|y r IH]; intros [|k] [|k'] H; simpl; auto; try lia. Qed.
Lemma upd_length b k f : List.length (upd b k f) = List.length b.
Proof. revert k; induction b as [|y r IH]; intros [|k]; simpl; auto. Qed.

Lemma IsSet_SetBit b i j : (i < 64)%nat -> (j < 64)%nat -> List.length b = 8%nat ->
  IsSet (SetBit b i) j = (i =? j)%nat || IsSet b j.
Proof.
  intros Hi Hj Hl. unfold IsSet, SetBit.
  destruct (Nat.eq_dec (i / 8) (j / 8)) as [E|E].
  - assert (Hn : exists x, nth_error b (i / 8) = Some x).
    { destruct (nth_error b (i / 8)) eqn:N1; eauto. apply nth_error_None in N1.
      assert (i / 8 < 8)%nat by (apply Nat.div_lt_upper_bound; lia). lia. }
    destruct Hn as [x Hx]. rewrite <- E. rewrite (nth_error_upd_eq _ _ _ _ Hx), Hx.
    rewrite N.lor_spec, N.shiftl_1_l, N.pow2_bits_eqb.
    rewrite orb_comm. f_equal.
    assert (i mod 8 < 8 /\ j mod 8 < 8)%nat by (split; apply Nat.mod_upper_bound; lia).
    pose proof (Nat.div_mod i 8). pose proof (Nat.div_mod j 8).
    destruct (Nat.eqb_spec i j) as [->|Hne].
    + apply N.eqb_refl.
    + apply N.eqb_neq. lia.
  - rewrite nth_error_upd_neq by auto.
    destruct (Nat.eqb_spec i j) as [->|Hne]; [congruence|]. reflexivity.
Qed.

Lemma copy8_length src : List.length (copy8 src) = 8%nat.
Proof. unfold copy8. rewrite firstn_length, app_length. unfold zero8. rewrite repeat_length. lia. Qed.

Lemma copy8_id b : List.length b = 8%nat -> copy8 b = b.
Proof. intros H. unfold copy8. rewrite <- H. apply firstn_app_exact. Qed.

Lemma Forall_firstn' {A} (P : A -> Prop) n : forall l, Forall P l -> Forall P (firstn n l).
Proof. induction n as [|n IH]; intros [|x l] H; simpl; auto. inversion H; subst. constructor; auto. Qed.

Lemma copy8_ok src : bytes_ok src -> bytes_ok (copy8 src).
Proof.
  intros H. unfold copy8, bytes_ok. apply Forall_firstn'.
  apply Forall_app. split; auto. unfold zero8. repeat constructor.
Qed.

Lemma create_ok_spec creator req :
  create_ok creator req = true <-> (forall i, (i < 64)%nat -> IsSet req i = true -> IsSet creator i = true).
Proof.
  unfold create_ok. rewrite forallb_forall. split.
  - intros H i Hi Hr. specialize (H i). rewrite in_seq in H. specialize (H ltac:(lia)).
    rewrite Hr in H. exact H.
  - intros H i Hi. apply in_seq in Hi. destruct (IsSet req i) eqn:E; simpl; auto. apply H; auto; lia.
Qed.

(* ---- C06, first half: no privilege amplification, both creation requests ---- *)
Lemma create_account_no_amplification via creator req absent stored :
  create_account via creator req absent = (StDone, Some stored) ->
  stored = copy8 (if absent then [] else req) /\
  forall i, (i < 64)%nat -> IsSet stored i = true -> IsSet creator i = true.
Proof.
  unfold create_account.
  destruct (negb (IsSet creator ACCESS_CREATE_USER)); [discriminate|].
  destruct (via && absent); [discriminate|].
  destruct (create_ok creator _) eqn:E; [|discriminate].
  intros H. injection H as <-. split; [reflexivity|]. now apply create_ok_spec.
Qed.

(* nothing is created unless the status is StDone *)
Lemma create_account_only_when_done via creator req absent st stored :
  create_account via creator req absent = (st, Some stored) -> st = StDone.
Proof.
  unfold create_account.
  destruct (negb (IsSet creator ACCESS_CREATE_USER)); [discriminate|].
  destruct (via && absent); [discriminate|].
  destruct (create_ok creator _); [|discriminate]. congruence.
Qed.

(* conversely a request exceeding the creator is refused and creates nothing *)
Lemma create_account_refuses_excess via creator req i :
  (i < 64)%nat -> IsSet (copy8 req) i = true -> IsSet creator i = false ->
  snd (create_account via creator req false) = None.
Proof.
  intros Hi Hr Hc. unfold create_account.
  destruct (negb (IsSet creator ACCESS_CREATE_USER)); [reflexivity|].
  rewrite andb_false_r.
  destruct (create_ok creator (copy8 req)) eqn:E; [|reflexivity].
  rewrite create_ok_spec in E. rewrite (E i Hi Hr) in Hc. discriminate.
Qed.

(* and a request within the creator's privileges is never refused for amplification *)
Lemma create_account_accepts_subset via creator req :
  IsSet creator ACCESS_CREATE_USER = true ->
  (forall i, (i < 64)%nat -> IsSet (copy8 req) i = true -> IsSet creator i = true) ->
  create_account via creator req false = (StDone, Some (copy8 req)).
Proof.
  intros Hc H. unfold create_account. rewrite Hc. cbn [negb]. rewrite andb_false_r.
  apply create_ok_spec in H. now rewrite H.
Qed.

(* ---- C06, second half: a protected user is never disconnected or banned ---- *)
Lemma protected_never_disconnected requester target opt absent :
  IsSet target ACCESS_CANNOT_BE_DISCON = true ->
  let r := disconnect_user requester target opt absent in
  d_closed r = false /\ d_ban r = NoBan /\ d_status r <> StDone.
Proof.
  intros Ht. unfold disconnect_user. rewrite Ht.
  destruct (negb (IsSet requester ACCESS_DISCON_USER)); cbn; repeat split; discriminate.
Qed.

(* sanity: an unprotected user IS disconnected by an authorised request (the property is not met by
   a handler that refuses everything) *)
Lemma unprotected_disconnected requester target o0 o1 rest :
  IsSet requester ACCESS_DISCON_USER = true -> IsSet target ACCESS_CANNOT_BE_DISCON = false ->
  let r := disconnect_user requester target (o0 :: o1 :: rest) false in
  d_closed r = true /\ d_status r = StDone /\
  d_ban r = (if o1 =? 1 then TempBan else if o1 =? 2 then PermBan else NoBan).
Proof. intros Hr Ht. unfold disconnect_user. rewrite Hr, Ht. cbn. auto. Qed.
