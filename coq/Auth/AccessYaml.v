(* C16 model: the named-flag account-file form of the access bitmap, parameterised by the tables the
   translator extracts from hotline/access.go (Gen/AccessTables.v). Model only. *)
From Verif Require Import Base.Bytes Auth.Access.
From Coq Require Import String.

Definition doc := list (string * bool).       (* the YAML mapping stored under "Access:" *)

Fixpoint lookup (k : string) (d : doc) : option bool :=
  match d with
  | [] => None
  | (k', v) :: r => if String.eqb k' k then Some v else lookup k r
  end.

Fixpoint assoc {B} (k : string) (l : list (string * B)) : option B :=
  match l with
  | [] => None
  | (k', v) :: r => if String.eqb k' k then Some v else assoc k r
  end.

Section Tables.
  Variable load_table : list (string * nat).     (* yaml key -> bit (UnmarshalYAML) *)
  Variable save_fields : list (string * nat).    (* struct field -> bit (MarshalYAML literal) *)
  Variable save_tags : list (string * string).   (* struct field -> yaml key (accessFlags tags) *)

  (* MarshalYAML: every field of the accessFlags struct is written, in struct order; a field that the
     composite literal does not mention is false *)
  Definition field_value (b : bitmap) (f : string) : bool :=
    match assoc f save_fields with Some bit => IsSet b bit | None => false end.
  Definition save_named (b : bitmap) : doc :=
    map (fun ft => (snd ft, field_value b (fst ft))) save_tags.

  (* UnmarshalYAML, mapping form: if f, ok := v[key].(bool); ok && f { bits.Set(bit) } *)
  Definition load_step (d : doc) (acc : bitmap) (e : string * nat) : bitmap :=
    match lookup (fst e) d with Some true => SetBit acc (snd e) | _ => acc end.
  Definition load_named (d : doc) : bitmap := fold_left (load_step d) load_table zero8.

  (* legacy sequence form: bits[i] = byte(v.(int)) for the i-th entry (more than 8 entries: index panic) *)
  Definition load_array (ints : list N) : option bitmap :=
    if (List.length ints <=? 8)%nat then Some (firstn 8 (map (fun v => v mod 256) ints ++ zero8)) else None.

  (* which bit a yaml key is saved from *)
  Fixpoint field_of_key (k : string) (tags : list (string * string)) : option string :=
    match tags with
    | [] => None
    | (f, t) :: r => if String.eqb t k then Some f else field_of_key k r
    end.
  Definition key_bit (k : string) : option nat :=
    match field_of_key k save_tags with
    | Some f => assoc f save_fields
    | None => None
    end.

  (* the finite consistency condition on the tables (checked by computation on the generated tables) *)
  Definition tables_consistent : bool :=
    forallb (fun e => (snd e <? 64)%nat &&
                      match key_bit (fst e) with Some sb => (sb =? snd e)%nat | None => false end) load_table.

  Definition defined_gen (i : nat) : bool := existsb (fun e => (snd e =? i)%nat) load_table.

  (* keys written as true, in file order (observable of the harness) *)
  Definition true_keys (b : bitmap) : list string := map fst (filter snd (save_named b)).
End Tables.
