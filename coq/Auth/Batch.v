(* HandleUpdateUser over a BATCH of account edits (internal/mobius/transaction_handlers.go, HandleUpdateUser):
   every field of the transaction is one edit; the edits are judged and applied one after another, each against
   the account table as the earlier edits of the same transaction left it; the first edit whose governing
   privilege is missing ends the batch with an error reply (the earlier edits stay applied - each of them held
   its own privilege).  Model only; proofs are in Auth/BatchProofs.v. *)
From Verif Require Import Base.Bytes Auth.Access.
Local Open Scope N_scope.

Inductive edit :=
| EDelete (login : N)                 (* one sub-field: FieldData = login *)
| EUpsert (login : N) (tag : N).      (* FieldUserLogin (+ name, password, access): modify if it exists, else create *)

(* logins that exist, each with the tag of the edit that last wrote it (0 = untouched by the batch) *)
Definition table := list (N * N).
Fixpoint lookup (t : table) (l : N) : option N :=
  match t with [] => None | (k, v) :: r => if k =? l then Some v else lookup r l end.
Definition remove (t : table) (l : N) : table := filter (fun p => negb (fst p =? l)) t.

Definition ACCESS_DELETE_USER := 15%nat.
Definition ACCESS_MODIFY_USER := 17%nat.

(* the privilege the protocol assigns to the effect the edit has ON THIS table *)
Definition governing_edit (t : table) (e : edit) : nat :=
  match e with
  | EDelete _ => ACCESS_DELETE_USER
  | EUpsert l _ => match lookup t l with Some _ => ACCESS_MODIFY_USER | None => ACCESS_CREATE_USER end
  end.

(* AccountManager.Delete on a login that does not exist fails: the handler returns without any reply *)
Definition edit_fails (t : table) (e : edit) : bool :=
  match e with EDelete l => match lookup t l with None => true | Some _ => false end | EUpsert _ _ => false end.

Definition apply_edit (t : table) (e : edit) : table :=
  match e with
  | EDelete l => remove t l
  | EUpsert l tag => (l, tag) :: remove t l
  end.

Inductive outcome := Replied | Refused | Silent.
Definition outcome_code (o : outcome) : N := match o with Replied => 0 | Refused => 1 | Silent => 2 end.

Fixpoint run_batch (b : bitmap) (t : table) (es : list edit) : table * outcome :=
  match es with
  | [] => (t, Replied)
  | e :: r =>
      if negb (IsSet b (governing_edit t e)) then (t, Refused)
      else if edit_fails t e then (t, Silent)
      else run_batch b (apply_edit t e) r
  end.

(* the edits that were applied, each with the table it was applied to *)
Fixpoint applied (b : bitmap) (t : table) (es : list edit) : list (table * edit) :=
  match es with
  | [] => []
  | e :: r =>
      if negb (IsSet b (governing_edit t e)) then []
      else if edit_fails t e then []
      else (t, e) :: applied b (apply_edit t e) r
  end.
