From Coq Require Import List NArith Bool Lia.
From Verif Require Import Base.Bytes Auth.Access Auth.Batch.
Import ListNotations.
Local Open Scope N_scope.

(* every applied edit held the privilege governing the effect it had on the table it was applied to *)
Lemma applied_privileged b : forall es t t' e,
  In (t', e) (applied b t es) -> IsSet b (governing_edit t' e) = true.
Proof.
  induction es as [|e0 r IH]; intros t t' e Hin; cbn in Hin; [contradiction|].
  destruct (IsSet b (governing_edit t e0)) eqn:Hp; cbn in Hin; [|contradiction].
  destruct (edit_fails t e0); [contradiction|].
  destruct Hin as [Heq|Hin].
  - inversion Heq; subst. exact Hp.
  - eapply IH; exact Hin.
Qed.

(* the resulting table is the initial one changed by exactly the applied edits, in order *)
Lemma run_is_applied b : forall es t,
  fst (run_batch b t es) = fold_left apply_edit (map snd (applied b t es)) t.
Proof.
  induction es as [|e r IH]; intros t; cbn; [reflexivity|].
  destruct (IsSet b (governing_edit t e)); cbn; [|reflexivity].
  destruct (edit_fails t e); cbn; [reflexivity|]. apply IH.
Qed.

(* the applied edits are a prefix of the batch, and each is applied to the table its predecessors produced *)
Lemma applied_prefix b : forall es t, exists rest, es = map snd (applied b t es) ++ rest.
Proof.
  induction es as [|e r IH]; intros t; cbn; [exists []; reflexivity|].
  destruct (IsSet b (governing_edit t e)); cbn; [|eexists; reflexivity].
  destruct (edit_fails t e); cbn; [eexists; reflexivity|].
  destruct (IH (apply_edit t e)) as [rest H]. exists rest. f_equal. exact H.
Qed.

(* refused exactly when the first edit that is not applied lacks its governing privilege on the table reached *)
Lemma refused_iff b : forall es t,
  snd (run_batch b t es) = Refused <->
  exists pre e post, es = pre ++ e :: post /\ pre = map snd (applied b t es) /\
                     IsSet b (governing_edit (fold_left apply_edit pre t) e) = false.
Proof.
  induction es as [|e r IH]; intros t; cbn.
  - split; [discriminate|]. intros (pre & e & post & H & _). destruct pre; discriminate.
  - destruct (IsSet b (governing_edit t e)) eqn:Hp; cbn.
    + destruct (edit_fails t e) eqn:Hf; cbn.
      * split; [discriminate|]. intros (pre & e' & post & H & Hpre & Hb). subst pre. cbn in *.
        inversion H; subst. congruence.
      * rewrite IH. split.
        -- intros (pre & e' & post & H & Hpre & Hb). exists (e :: pre), e', post.
           split; [cbn; now rewrite H|]. split; [cbn; now rewrite <- Hpre|]. cbn. exact Hb.
        -- intros (pre & e' & post & H & Hpre & Hb). destruct pre as [|p pre]; [discriminate|].
           cbn in Hpre. injection Hpre as Hp0 Hpre'. subst p. cbn in H. injection H as H.
           exists pre, e', post. split; [exact H|]. split; [exact Hpre'|]. exact Hb.
    + split; [|reflexivity]. intros _. exists [], e, r. repeat split. exact Hp.
Qed.

(* with create, delete and modify all held, no batch is ever refused *)
Lemma never_refused_when_held b : IsSet b ACCESS_CREATE_USER = true -> IsSet b ACCESS_DELETE_USER = true ->
  IsSet b ACCESS_MODIFY_USER = true -> forall es t, snd (run_batch b t es) <> Refused.
Proof.
  intros Hc Hd Hm. induction es as [|e r IH]; intros t; cbn; [discriminate|].
  assert (Hg : IsSet b (governing_edit t e) = true).
  { destruct e as [l|l tag]; cbn; [exact Hd|]. destruct (lookup t l); assumption. }
  rewrite Hg. cbn. destruct (edit_fails t e); [discriminate|]. apply IH.
Qed.

(* frame: a login no applied edit names keeps its entry *)
Lemma lookup_remove_other t l l' : l <> l' -> lookup (remove t l) l' = lookup t l'.
Proof.
  intros Hne. induction t as [|[k v] r IH]; cbn; [reflexivity|].
  destruct (k =? l) eqn:E; cbn.
  - apply N.eqb_eq in E. subst k. destruct (l =? l') eqn:E2; [apply N.eqb_eq in E2; contradiction|exact IH].
  - destruct (k =? l'); [reflexivity|exact IH].
Qed.
Definition edit_login (e : edit) : N := match e with EDelete l | EUpsert l _ => l end.
Lemma apply_edit_frame t e l : edit_login e <> l -> lookup (apply_edit t e) l = lookup t l.
Proof.
  destruct e as [k|k tag]; cbn; intros Hne.
  - now apply lookup_remove_other.
  - destruct (k =? l) eqn:E; [apply N.eqb_eq in E; contradiction|]. now apply lookup_remove_other.
Qed.
Lemma batch_frame b : forall es t l, (forall e, In e es -> edit_login e <> l) ->
  lookup (fst (run_batch b t es)) l = lookup t l.
Proof.
  induction es as [|e r IH]; intros t l H; cbn; [reflexivity|].
  destruct (IsSet b (governing_edit t e)); cbn; [|reflexivity].
  destruct (edit_fails t e); cbn; [reflexivity|].
  rewrite IH; [|intros e' He'; apply H; now right]. apply apply_edit_frame. apply H. now left.
Qed.

(* the two-edit batch that a pre-pass over the ORIGINAL table would let through: create then modify the same login
   needs both privileges *)
Lemma create_then_modify_needs_modify b l t1 t2 :
  IsSet b ACCESS_MODIFY_USER = false ->
  run_batch b [] [EUpsert l t1; EUpsert l t2] =
    if IsSet b ACCESS_CREATE_USER then ([(l, t1)], Refused) else ([], Refused).
Proof.
  intros Hm. cbn. destruct (IsSet b ACCESS_CREATE_USER); cbn; [|reflexivity].
  rewrite N.eqb_refl. cbn. rewrite Hm. reflexivity.
Qed.
