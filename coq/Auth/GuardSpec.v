(* C05 reference tables, written from the protocol document's "Access:" lines and the property text
   (spec/privileges.md section 2), independent of the Go code. *)
From Coq Require Import List String NArith Bool.
From Verif Require Import Base.Bytes Auth.Access.
Import ListNotations.
Local Open Scope string_scope.

(* per handler: the privileges it is expected to test (as Access* constant names).  Besides the governing
   privilege of the request these include: the recipients' read-chat bit (ChatSend), the target's
   cannot-be-disconnected bit (DisconnectUser), the admin-flag refresh (SetUser) and the amplification loop
   over all bits ("<expr i>", C06). *)
Definition handler_guard_spec : list (string * list string) := [
  ("HandleChatSend", ["AccessSendChat"; "AccessReadChat"]);
  ("HandleDelNewsArt", ["AccessNewsDeleteArt"]);
  ("HandleDelNewsItem", ["AccessNewsDeleteCat"; "AccessNewsDeleteFldr"]);
  ("HandleDeleteFile", ["AccessDeleteFolder"; "AccessDeleteFile"]);
  ("HandleDeleteUser", ["AccessDeleteUser"]);
  ("HandleDisconnectUser", ["AccessDisconUser"; "AccessCannotBeDiscon"]);
  ("HandleDownloadBanner", []);
  ("HandleDownloadFile", ["AccessDownloadFile"]);
  ("HandleDownloadFolder", ["AccessDownloadFolder"]);
  ("HandleGetClientInfoText", ["AccessGetClientInfo"]);
  ("HandleGetFileInfo", []);
  ("HandleGetFileNameList", ["AccessViewDropBoxes"]);
  ("HandleGetMsgs", ["AccessNewsReadArt"]);
  ("HandleGetNewsArtData", ["AccessNewsReadArt"]);
  ("HandleGetNewsArtNameList", ["AccessNewsReadArt"]);
  ("HandleGetNewsCatNameList", ["AccessNewsReadArt"]);
  ("HandleGetUser", ["AccessOpenUser"]);
  ("HandleGetUserNameList", []);
  ("HandleInviteNewChat", ["AccessOpenChat"]);
  ("HandleInviteToChat", ["AccessOpenChat"]);
  ("HandleJoinChat", []);
  ("HandleKeepAlive", []);
  ("HandleLeaveChat", []);
  ("HandleListUsers", ["AccessOpenUser"]);
  ("HandleMakeAlias", ["AccessMakeAlias"]);
  ("HandleMoveFile", ["AccessMoveFolder"; "AccessMoveFile"]);
  ("HandleNewFolder", ["AccessCreateFolder"]);
  ("HandleNewNewsCat", ["AccessNewsCreateCat"]);
  ("HandleNewNewsFldr", ["AccessNewsCreateFldr"]);
  ("HandleNewUser", ["AccessCreateUser"; "<expr i>"]);
  ("HandlePostNewsArt", ["AccessNewsPostArt"]);
  ("HandleRejectChatInvite", []);
  ("HandleSendInstantMsg", ["AccessSendPrivMsg"]);
  ("HandleSetChatSubject", []);
  ("HandleSetClientUserInfo", ["AccessAnyName"]);
  ("HandleSetFileInfo", ["AccessSetFolderComment"; "AccessSetFileComment"; "AccessRenameFolder"; "AccessRenameFile"]);
  ("HandleSetUser", ["AccessModifyUser"; "AccessDisconUser"]);
  ("HandleTranAgreed", ["AccessAnyName"]);
  ("HandleTranOldPostNews", ["AccessNewsPostArt"]);
  ("HandleUpdateUser", ["AccessDeleteUser"; "AccessModifyUser"; "AccessCreateUser"; "<expr i>"]);
  ("HandleUploadFile", ["AccessUploadFile"; "AccessUploadAnywhere"]);
  ("HandleUploadFolder", ["AccessUploadFolder"; "AccessUploadAnywhere"]);
  ("HandleUserBroadcast", ["AccessBroadcast"])
].

(* request classes (transaction type x kind of target x request shape) and the privileges that govern them:
   (class code, handler, privilege numbers that must ALL be held) *)
Definition class_table : list (nat * string * list nat) := [
  (1,  "HandleChatSend", [10]);
  (2,  "HandleSendInstantMsg", [40]);
  (3,  "HandleDeleteFile", [0]);            (* target is a file *)
  (4,  "HandleDeleteFile", [6]);            (* target is a folder *)
  (5,  "HandleMoveFile", [4]);
  (6,  "HandleMoveFile", [8]);
  (7,  "HandleSetFileInfo", [28]);          (* comment on a file *)
  (8,  "HandleSetFileInfo", [29]);          (* comment on a folder *)
  (9,  "HandleSetFileInfo", [3]);           (* rename a file *)
  (10, "HandleSetFileInfo", [7]);           (* rename a folder *)
  (11, "HandleNewFolder", [5]);
  (12, "HandleMakeAlias", [31]);
  (13, "HandleDownloadFile", [2]);
  (14, "HandleDownloadFolder", [39]);
  (15, "HandleUploadFile", [1]);            (* into an upload / drop box folder *)
  (16, "HandleUploadFile", [1; 25]);        (* anywhere else *)
  (17, "HandleUploadFolder", [38]);
  (18, "HandleUploadFolder", [38; 25]);
  (19, "HandleGetFileNameList", [30]);      (* listing a drop box *)
  (20, "HandleGetFileNameList", []);
  (21, "HandleGetFileInfo", []);
  (22, "HandleNewUser", [14]);
  (23, "HandleDeleteUser", [15]);
  (24, "HandleGetUser", [16]);
  (25, "HandleListUsers", [16]);
  (26, "HandleSetUser", [17]);
  (27, "HandleUpdateUser", [15]);           (* delete sub-record *)
  (28, "HandleUpdateUser", [17]);           (* modify / rename sub-record *)
  (29, "HandleUpdateUser", [14]);           (* create sub-record *)
  (30, "HandleDisconnectUser", [22]);
  (31, "HandleGetClientInfoText", [24]);
  (32, "HandleUserBroadcast", [32]);
  (33, "HandleGetMsgs", [20]);
  (34, "HandleTranOldPostNews", [21]);
  (35, "HandleGetNewsCatNameList", [20]);
  (36, "HandleGetNewsArtNameList", [20]);
  (37, "HandleGetNewsArtData", [20]);
  (38, "HandlePostNewsArt", [21]);
  (39, "HandleDelNewsArt", [33]);
  (40, "HandleNewNewsCat", [34]);
  (41, "HandleNewNewsFldr", [36]);
  (42, "HandleDelNewsItem", [35]);          (* category *)
  (43, "HandleDelNewsItem", [37]);          (* bundle *)
  (44, "HandleInviteNewChat", [11]);
  (45, "HandleInviteToChat", [11]);
  (46, "HandleGetUserNameList", []);
  (47, "HandleKeepAlive", []);
  (48, "HandleJoinChat", []);
  (49, "HandleLeaveChat", []);
  (50, "HandleRejectChatInvite", []);
  (51, "HandleSetChatSubject", []);
  (52, "HandleDownloadBanner", []);
  (53, "HandleUploadFile", [1; 25]);        (* RESUMING a partial upload that lies outside upload / drop box folders *)
  (54, "HandleUploadFile", [1])             (* resuming one inside an upload folder *)
]%nat.

Definition governing (cls : N) : list nat :=
  match find (fun e => N.eqb (N.of_nat (fst (fst e))) cls) class_table with
  | Some e => snd e
  | None => []
  end.
(* the decision every handler takes for a request of class cls from an account with bitmap b *)
Definition permit (b : bitmap) (cls : N) : bool := forallb (IsSet b) (governing cls).

(* the display-name privilege: never an error, the supplied name is adopted iff bit 26 is held *)
Definition adopted_name (b : bitmap) (supplied current : bytes) : bytes := if IsSet b 26 then supplied else current.

(* ---- which directory a file path names, for the upload-folder / drop-box rules -------------------------
   The protocol's special folders are recognised by name: a folder whose name contains "upload" accepts
   uploads from accounts without upload-anywhere, a folder whose name contains "drop box" does too and may
   only be listed with view-drop-boxes.  The directory a path field names is the one its items RESOLVE to
   (Lib/Path.v: sub_of - "." and ".." items and separators inside an item are resolved exactly as ReadPath
   resolves them); the rule is judged on the last component of that directory.
   Lower-casing is ASCII-only here; Go's strings.ToLower maps only U+212A and U+0130 from outside ASCII to
   ASCII letters (k, i), and neither word contains those. *)
From Verif Require Import Lib.Path.
Local Open Scope N_scope.
Definition lower (c : N) : N := if (65 <=? c) && (c <=? 90) then c + 32 else c.
Fixpoint starts (p s : bytes) : bool :=
  match p, s with
  | [], _ => true
  | x :: p', y :: s' => (x =? y) && starts p' s'
  | _ :: _, [] => false
  end.
Fixpoint contains (p s : bytes) : bool :=
  starts p s || match s with [] => false | _ :: r => contains p r end.
Definition W_UPLOAD : bytes := [117;112;108;111;97;100].
Definition W_DROPBOX : bytes := [100;114;111;112;32;98;111;120].
Definition base_of (comps : list name) : bytes := match rev comps with [] => [SLASH] | c :: _ => c end.
(* specification: the kind of the directory the items resolve to *)
Definition dir_is (word : bytes) (items : list bytes) : bool := contains word (map lower (base_of (sub_of items))).
(* FilePath.IsUploadDir / IsDropbox as repaired (hotline/file_path.go): false for "no path" (declared count 0),
   otherwise the word is looked for in filepath.Base of the joined items *)
Definition impl_dir_is (word : bytes) (declared : N) (items : list bytes) : bool :=
  if declared =? 0 then false else contains word (map lower (base_of (sub_of items))).

(* decisions of the three handlers that apply the rules; [b] is the requester's bitmap *)
Definition may_list (b : bitmap) (declared : N) (items : list bytes) : bool :=
  negb (impl_dir_is W_DROPBOX declared items) || IsSet b 30.
Definition may_upload_to (b : bitmap) (declared : N) (items : list bytes) : bool :=
  IsSet b 25 || impl_dir_is W_UPLOAD declared items || impl_dir_is W_DROPBOX declared items.
