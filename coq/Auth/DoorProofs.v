(* Proofs about the door model (Auth/Door.v). *)
From stdpp Require Import gmap.
From Coq Require Import Lia.
From Verif Require Import Base.Bytes Lib.Scanner Lib.ScannerProofs Wire.Parse Wire.Types Wire.Impl Net.Session Srv.Accounts
  Srv.AccountsProofs Auth.Door.
Local Open Scope N_scope.

(* ---- the stream decomposes into 12 handshake bytes and the frames of the rest ---- *)
Lemma control_bytes_app hs body :
  List.length hs = 12%nat -> control_bytes (hs ++ body) = {| cv_handshake := Some hs; cv_tokens := frames body |}.
Proof.
  intros H. unfold control_bytes, take_exact.
  assert (L : len (hs ++ body) = 12 + len body) by (unfold len; rewrite app_length; lia).
  replace (12 <=? len (hs ++ body)) with true by lia.
  rewrite takeN_app_le, dropN_app_le by (unfold len; lia).
  assert (T : takeN 12 hs = hs).
  { unfold takeN. change (N.to_nat 12) with 12%nat. rewrite <- H. apply firstn_all. }
  assert (D : dropN 12 hs = []).
  { unfold dropN. change (N.to_nat 12) with 12%nat. rewrite <- H. apply skipn_all. }
  rewrite T, D. reflexivity.
Qed.
Lemma control_bytes_short s : (List.length s < 12)%nat -> cv_handshake (control_bytes s) = None.
Proof.
  intros H. unfold control_bytes, take_exact. replace (12 <=? len s) with false by (unfold len; lia). reflexivity.
Qed.

(* ---- exactly when a connection is logged in ---- *)
Theorem door_logged_in_iff db ban s l t d :
  door db ban s = OutLoggedIn l t d <->
  exists hs tok rest,
    cv_handshake (control_bytes s) = Some hs /\ impl_handshake_ok hs = true /\ ban = Admit /\
    cv_tokens (control_bytes s) = tok :: rest /\ impl_dec_tran tok = Ok t /\
    credentials_ok db t = true /\ l = effective_login t /\ d = dispatch rest.
Proof.
  unfold door. split.
  - destruct (cv_handshake (control_bytes s)) as [hs|] eqn:Eh; [|discriminate].
    destruct (impl_handshake_ok hs) eqn:Ok; cbn [negb]; [|discriminate].
    destruct ban; try discriminate.
    destruct (cv_tokens (control_bytes s)) as [|tok rest] eqn:Et; [discriminate|].
    destruct (impl_dec_tran tok) as [t'| |] eqn:Ed; try discriminate.
    destruct (credentials_ok db t') eqn:Ec; [|discriminate].
    intros H. injection H as <- <- <-. exists hs, tok, rest. repeat split; auto.
  - intros (hs & tok & rest & -> & -> & -> & -> & -> & -> & -> & ->). reflexivity.
Qed.

Theorem credentials_ok_iff db t :
  credentials_ok db t = true <->
  exists h, db !! effective_login t = Some h /\ verify h (offered_password t) = true.
Proof.
  unfold credentials_ok. destruct (db !! effective_login t) as [h|].
  - split; [intros H; exists h; auto | intros (h' & [= <-] & H); exact H].
  - split; [discriminate | intros (h' & [=] & _)].
Qed.

(* an empty login field names the guest account, anything else the account with the de-obfuscated bytes *)
Lemma effective_login_guest t : get_field 105 (t_fields t) = [] -> effective_login t = GUEST.
Proof. unfold effective_login. intros ->. reflexivity. Qed.
Lemma effective_login_named t x r :
  get_field 105 (t_fields t) = x :: r -> effective_login t = negate (x :: r).
Proof. unfold effective_login. intros ->. reflexivity. Qed.

(* ---- the stored password: bcrypt's key material determines a NUL-free password of at most 72 bytes ---- *)
Lemma cyc_app cur : forall n key, (List.length cur <= n)%nat -> cyc n key cur = cur ++ cyc (n - List.length cur) key [].
Proof.
  induction cur as [|x r IH]; intros n key H.
  - cbn. now rewrite Nat.sub_0_r.
  - destruct n as [|m]; [cbn in H; lia|]. cbn [cyc List.length Nat.sub app]. f_equal. apply IH. cbn in H. lia.
Qed.
Lemma cyc_firstn cur : forall n key, (n <= List.length cur)%nat -> cyc n key cur = firstn n cur.
Proof.
  induction cur as [|x r IH]; intros n key H.
  - destruct n; [reflexivity|cbn in H; lia].
  - destruct n as [|m]; [reflexivity|]. cbn [cyc firstn]. f_equal. apply IH. cbn in H. lia.
Qed.
Definition nulfree (p : list N) : Prop := Forall (fun x => x <> 0) p.
Lemma sep_unique p : forall q X Y, nulfree p -> nulfree q -> p ++ 0 :: X = q ++ 0 :: Y -> p = q.
Proof.
  induction p as [|a p IH]; intros q X Y Hp Hq E.
  - destruct q as [|b q]; [reflexivity|]. cbn in E. injection E as E1 _. inversion Hq; subst. congruence.
  - destruct q as [|b q].
    + cbn in E. injection E as E1 _. inversion Hp; subst. congruence.
    + cbn in E. injection E as -> E. inversion Hp; inversion Hq; subst. f_equal. eapply IH; eauto.
Qed.
Lemma nulfree_no_sep q p X : nulfree q -> q = p ++ 0 :: X -> False.
Proof.
  intros Hq ->. unfold nulfree in Hq. rewrite Forall_app in Hq. destruct Hq as [_ Hq]. inversion Hq; subst. congruence.
Qed.
Lemma key72_short p : (List.length p <= 71)%nat -> exists X, key72 p = p ++ 0 :: X.
Proof.
  intros H. unfold key72. rewrite cyc_app by (rewrite app_length; cbn; lia).
  rewrite <- app_assoc. cbn [app]. eexists. reflexivity.
Qed.
Lemma key72_full p : List.length p = 72%nat -> key72 p = p.
Proof.
  intros H. unfold key72. rewrite cyc_firstn by (rewrite app_length; cbn; lia).
  rewrite firstn_app. rewrite H. rewrite Nat.sub_diag. cbn [firstn]. rewrite app_nil_r. rewrite <- H. apply firstn_all.
Qed.
Theorem key72_injective p q :
  nulfree p -> nulfree q -> (List.length p <= 72)%nat -> (List.length q <= 72)%nat -> key72 p = key72 q -> p = q.
Proof.
  intros Hp Hq Lp Lq E.
  destruct (Nat.eq_dec (List.length p) 72) as [Ep|Np]; destruct (Nat.eq_dec (List.length q) 72) as [Eq|Nq].
  - now rewrite !key72_full in E by assumption.
  - rewrite key72_full in E by assumption. destruct (key72_short q ltac:(lia)) as [X HX]. rewrite HX in E.
    exfalso. exact (nulfree_no_sep _ _ _ Hp E).
  - rewrite (key72_full q) in E by assumption. destruct (key72_short p ltac:(lia)) as [X HX]. rewrite HX in E.
    exfalso. exact (nulfree_no_sep _ _ _ Hq (eq_sym E)).
  - destruct (key72_short p ltac:(lia)) as [X HX]. destruct (key72_short q ltac:(lia)) as [Y HY].
    rewrite HX, HY in E. eapply sep_unique; eauto.
Qed.
(* the account's current password and nothing else opens it (within bcrypt's domain) *)
Theorem verify_exact p q :
  nulfree p -> nulfree q -> (List.length p <= 72)%nat -> (List.length q <= 72)%nat ->
  verify (hash p) q = true <-> p = q.
Proof.
  intros Hp Hq Lp Lq. rewrite hash_verifies by assumption. rewrite bool_decide_eq_true. split.
  - apply key72_injective; assumption.
  - now intros ->.
Qed.

(* ---- nothing is served before a successful login ---- *)
Theorem not_logged_in_quiet db ban s :
  logged_in (door db ban s) = false ->
  served (door db ban s) = [] /\ registered (door db ban s) = false /\
  (to_peer (door db ban s) = [] \/ to_peer (door db ban s) = HS_REPLY \/
   (exists id, to_peer (door db ban s) = HS_REPLY ++ err_reply id) \/
   (exists p, to_peer (door db ban s) = HS_REPLY ++ ban_notice p)).
Proof.
  destruct (door db ban s) as [| p | | id | l t d]; cbn; intros H; try discriminate; repeat split; eauto.
Qed.

(* whatever follows a complete first transaction is irrelevant unless that transaction logs in: the appended
   requests are neither executed nor answered *)
Theorem door_ignores_what_follows db ban hs body tok rest x :
  List.length hs = 12%nat -> try_split body = Tok tok rest ->
  logged_in (door db ban (hs ++ body)) = false ->
  door db ban (hs ++ body ++ x) = door db ban (hs ++ body).
Proof.
  intros Hl Hs Hn. unfold door in *. rewrite !control_bytes_app in * by assumption. cbn [cv_handshake cv_tokens] in *.
  destruct (impl_handshake_ok hs); cbn [negb] in *; [|reflexivity].
  destruct ban; try reflexivity.
  rewrite (frames_unfold (body ++ x)), (try_split_app_tok _ _ _ x Hs).
  rewrite (frames_unfold body), Hs in *.
  destruct (impl_dec_tran tok) as [t| |]; try reflexivity.
  destruct (credentials_ok db t); [discriminate Hn|reflexivity].
Qed.
(* the same for a first token that the scanner hands over although it is too short to be a transaction *)
Theorem door_ignores_after_stop db ban hs body tok x :
  List.length hs = 12%nat -> try_split body = Stop tok ->
  door db ban (hs ++ body ++ x) = door db ban (hs ++ body).
Proof.
  intros Hl Hs. unfold door. rewrite !control_bytes_app by assumption. cbn [cv_handshake cv_tokens].
  rewrite (frames_unfold (body ++ x)), (try_split_app_stop _ _ x Hs), (frames_unfold body), Hs. reflexivity.
Qed.

(* without a valid handshake nothing at all is written, whatever follows *)
Theorem door_bad_handshake db ban hs body :
  List.length hs = 12%nat -> impl_handshake_ok hs = false -> door db ban (hs ++ body) = OutNothing.
Proof. intros Hl Hb. unfold door. rewrite control_bytes_app by assumption. cbn. now rewrite Hb. Qed.
Theorem door_short_handshake db ban s : (List.length s < 12)%nat -> door db ban s = OutNothing.
Proof. intros H. unfold door. now rewrite control_bytes_short. Qed.

(* a banned address is turned away before any login is processed: accounts and credentials play no role *)
Theorem door_banned_before_login db db' ban s :
  ban <> Admit -> door db ban s = door db' ban s /\ logged_in (door db ban s) = false.
Proof.
  intros Hb. unfold door. destruct (cv_handshake (control_bytes s)) as [hs|]; [|split; reflexivity].
  destruct (impl_handshake_ok hs); cbn [negb]; [|split; reflexivity].
  destruct ban; [congruence| |]; split; reflexivity.
Qed.
