From Verif Require Import Base.Bytes Auth.Access Auth.AccessProofs Auth.AccessYaml.
From Coq Require Import String.

Section Proofs.
  Variable lt : list (string * nat).
  Variable sf : list (string * nat).
  Variable tags : list (string * string).

  Lemma lookup_save b k :
    lookup k (save_named sf tags b) =
    match field_of_key k tags with Some f => Some (field_value sf b f) | None => None end.
  Proof.
    unfold save_named. induction tags as [|[f t] r IH]; simpl; [reflexivity|].
    destruct (String.eqb t k); [reflexivity|apply IH].
  Qed.

  Lemma SetBit_length b i : List.length (SetBit b i) = List.length b.
  Proof. unfold SetBit. apply upd_length. Qed.

  (* the fold of SetBit: bit i is set afterwards iff it was before or some table entry that fires names it *)
  Lemma load_fold d : forall (l : list (string * nat)) acc i,
    (i < 64)%nat -> List.length acc = 8%nat -> Forall (fun e => (snd e < 64)%nat) l ->
    IsSet (fold_left (load_step d) l acc) i =
    IsSet acc i || existsb (fun e => (snd e =? i)%nat && match lookup (fst e) d with Some true => true | _ => false end) l.
  Proof.
    induction l as [|[k bit] r IH]; intros acc i Hi Hl Hall; cbn [fold_left existsb].
    - now rewrite orb_false_r.
    - inversion Hall as [|? ? Hb Hr]; subst. cbn [snd fst] in *.
      rewrite IH; auto.
      + unfold load_step at 1. cbn [fst snd].
        destruct (lookup k d) as [[|]|].
        * rewrite IsSet_SetBit by auto. rewrite andb_true_r.
          destruct (bit =? i)%nat; destruct (IsSet acc i); reflexivity.
        * now rewrite andb_false_r.
        * now rewrite andb_false_r.
      + unfold load_step. cbn [fst snd]. destruct (lookup k d) as [[|]|]; auto. now rewrite SetBit_length.
  Qed.

  Lemma zero8_IsSet i : IsSet zero8 i = false.
  Proof.
    unfold IsSet. change zero8 with [0;0;0;0;0;0;0;0].
    destruct (i / 8)%nat as [|[|[|[|[|[|[|[|n]]]]]]]]; cbn [nth_error]; try apply N.bits_0.
    destruct n; reflexivity.
  Qed.

  Hypothesis Hcons : tables_consistent lt sf tags = true.

  Lemma cons_entries :
    Forall (fun e => (snd e < 64)%nat /\ key_bit sf tags (fst e) = Some (snd e)) lt.
  Proof.
    unfold tables_consistent in Hcons. rewrite forallb_forall in Hcons.
    apply Forall_forall. intros e He. specialize (Hcons e He).
    apply andb_prop in Hcons as [H1 H2]. split; [lia|].
    destruct (key_bit sf tags (fst e)) as [sb|]; [|discriminate].
    apply Nat.eqb_eq in H2. now subst.
  Qed.

  (* save then load: bit i is set iff it was set and has a name *)
  Theorem save_load_bits b i :
    (i < 64)%nat ->
    IsSet (load_named lt (save_named sf tags b)) i = IsSet b i && defined_gen lt i.
  Proof.
    intros Hi. unfold load_named.
    pose proof cons_entries as HC.
    rewrite load_fold; auto.
    2:{ eapply Forall_impl; [|exact HC]. intros e [H _]; exact H. }
    rewrite zero8_IsSet. cbn [orb]. unfold defined_gen.
    induction lt as [|[k bit] r IH]; cbn [existsb].
    - now rewrite andb_false_r.
    - inversion HC as [|? ? [Hb Hk] Hr]; subst. cbn [fst snd] in *.
      rewrite IH; auto.
      2:{ unfold tables_consistent in *. cbn [forallb] in Hcons. apply andb_prop in Hcons. tauto. }
      rewrite lookup_save. unfold key_bit in Hk.
      destruct (field_of_key k tags) as [f|]; [|discriminate].
      unfold field_value. rewrite Hk.
      destruct (Nat.eqb_spec bit i) as [->|Hne]; cbn [andb orb].
      + destruct (IsSet b i); reflexivity.
      + reflexivity.
  Qed.
End Proofs.

(* a bitmap (8 bytes < 256) is determined by its 64 bits *)
Lemma byte_eq_bits (x y : N) : x < 256 -> y < 256 ->
  (forall k, (k < 8)%nat -> N.testbit x (N.of_nat k) = N.testbit y (N.of_nat k)) -> x = y.
Proof.
  intros Hx Hy H. apply N.bits_inj. intros n.
  destruct (N.ltb_spec n 8) as [Hn|Hn].
  - specialize (H (N.to_nat n) ltac:(lia)). now rewrite N2Nat.id in H.
  - assert (Hb : forall z, z < 256 -> N.testbit z n = false).
    { intros z Hz. destruct (N.eq_dec z 0) as [->|Hz0]; [apply N.bits_0|].
      apply N.bits_above_log2. apply N.log2_lt_pow2; [lia|].
      apply N.lt_le_trans with (2 ^ 8); [exact Hz|]. apply N.pow_le_mono_r; lia. }
    now rewrite !Hb.
Qed.

Lemma bitmap_ext (a b : bitmap) : bitmap_wf a -> bitmap_wf b ->
  (forall i, (i < 64)%nat -> IsSet a i = IsSet b i) -> a = b.
Proof.
  intros [La Oa] [Lb Ob] H.
  apply nth_error_ext'. intros n.
  destruct (Nat.lt_ge_cases n 8) as [Hn|Hn].
  2:{ rewrite (proj2 (nth_error_None a n)) by lia. rewrite (proj2 (nth_error_None b n)) by lia. reflexivity. }
  destruct (nth_error a n) as [x|] eqn:Ea; [|apply nth_error_None in Ea; lia].
  destruct (nth_error b n) as [y|] eqn:Eb; [|apply nth_error_None in Eb; lia].
  f_equal. apply byte_eq_bits.
  - unfold bytes_ok in Oa. rewrite Forall_forall in Oa. apply Oa. eapply nth_error_In; eauto.
  - unfold bytes_ok in Ob. rewrite Forall_forall in Ob. apply Ob. eapply nth_error_In; eauto.
  - intros k Hk. specialize (H (n * 8 + (7 - k))%nat ltac:(lia)). unfold IsSet in H.
    replace ((n * 8 + (7 - k)) / 8)%nat with n in H.
    2:{ symmetry. rewrite Nat.add_comm, Nat.div_add by lia. rewrite Nat.div_small by lia. reflexivity. }
    replace ((n * 8 + (7 - k)) mod 8)%nat with (7 - k)%nat in H.
    2:{ symmetry. rewrite Nat.add_comm, Nat.mod_add by lia. apply Nat.mod_small. lia. }
    rewrite Ea, Eb in H. replace (7 - (7 - k))%nat with k in H by lia. exact H.
Qed.

(* ---- well-formedness of the loaded bitmap, and the masked form ---- *)
Lemma lt256_bits x : x < 256 <-> (forall n, 8 <= n -> N.testbit x n = false).
Proof.
  split.
  - intros Hx n Hn. destruct (N.eq_dec x 0) as [->|Hz]; [apply N.bits_0|].
    apply N.bits_above_log2. apply N.lt_le_trans with 8; [|exact Hn].
    apply N.log2_lt_pow2; [lia|]. exact Hx.
  - intros H. destruct (N.eq_dec x 0) as [->|Hz]; [lia|].
    destruct (N.lt_ge_cases x 256) as [|Hge]; [assumption|exfalso].
    assert (Hl : 8 <= N.log2 x) by (apply N.log2_le_pow2; lia).
    specialize (H (N.log2 x) Hl). rewrite N.bit_log2 in H by exact Hz. discriminate.
Qed.

Lemma lor_lt_256 x y : x < 256 -> y < 256 -> N.lor x y < 256.
Proof.
  rewrite !lt256_bits. intros Hx Hy n Hn. rewrite N.lor_spec, Hx, Hy by exact Hn. reflexivity.
Qed.
Lemma land_lt_256 x y : x < 256 -> N.land x y < 256.
Proof.
  rewrite !lt256_bits. intros Hx n Hn. rewrite N.land_spec, Hx by exact Hn. reflexivity.
Qed.

Lemma upd_ok b k f : bytes_ok b -> (forall x, x < 256 -> f x < 256) -> bytes_ok (upd b k f).
Proof.
  unfold bytes_ok. revert k. induction b as [|y r IH]; intros [|k] Hb Hf; simpl; auto;
    inversion Hb; subst; constructor; auto.
Qed.

Lemma SetBit_ok b i : bytes_ok b -> bytes_ok (SetBit b i).
Proof.
  intros Hb. unfold SetBit. apply upd_ok; auto. intros x Hx. apply lor_lt_256; auto.
  rewrite N.shiftl_1_l. assert (7 - i mod 8 <= 7)%nat by lia.
  apply N.lt_le_trans with (2 ^ 8); [|reflexivity]. apply N.pow_lt_mono_r; lia.
Qed.

Lemma load_named_wf lt d : bitmap_wf (load_named lt d).
Proof.
  unfold load_named.
  assert (G : forall l acc, bitmap_wf acc -> bitmap_wf (fold_left (load_step d) l acc)).
  { induction l as [|e r IH]; intros acc Hacc; cbn [fold_left]; auto. apply IH.
    unfold load_step. destruct (lookup (fst e) d) as [[|]|]; auto.
    destruct Hacc as [Hl Ho]. split; [now rewrite SetBit_length|now apply SetBit_ok]. }
  apply G. split; [reflexivity|]. unfold zero8, bytes_ok. repeat constructor.
Qed.

Lemma land_bytes_nth a : forall m n,
  nth_error (land_bytes a m) n =
  match nth_error a n, nth_error m n with Some x, Some y => Some (N.land x y) | _, _ => None end.
Proof.
  induction a as [|x a IH]; intros [|y m] [|n]; cbn [land_bytes nth_error]; auto;
    try (destruct (nth_error a n); reflexivity).
Qed.

Lemma IsSet_land a m i : List.length a = 8%nat -> List.length m = 8%nat -> (i < 64)%nat ->
  IsSet (land_bytes a m) i = IsSet a i && IsSet m i.
Proof.
  intros La Lm Hi. unfold IsSet. rewrite land_bytes_nth.
  assert (Hn : (i / 8 < 8)%nat) by (apply Nat.div_lt_upper_bound; lia).
  destruct (nth_error a (i / 8)) as [x|] eqn:Ea; [|apply nth_error_None in Ea; lia].
  destruct (nth_error m (i / 8)) as [y|] eqn:Em; [|apply nth_error_None in Em; lia].
  apply N.land_spec.
Qed.

Lemma land_bytes_length a : forall m, List.length a = List.length m -> List.length (land_bytes a m) = List.length a.
Proof. induction a as [|x a IH]; intros [|y m] H; simpl in *; auto; try discriminate. Qed.

Lemma land_bytes_ok a : forall m, bytes_ok a -> bytes_ok (land_bytes a m).
Proof.
  unfold bytes_ok. induction a as [|x a IH]; intros [|y m] H; simpl; auto.
  inversion H; subst. constructor; auto. now apply land_lt_256.
Qed.

Lemma mask_defined_wf b : bitmap_wf b -> bitmap_wf (mask_defined b).
Proof.
  intros [Hl Ho]. unfold mask_defined. split.
  - rewrite land_bytes_length; auto.
  - now apply land_bytes_ok.
Qed.

Lemma defined_mask_bits i : (i < 64)%nat -> IsSet defined_mask i = defined_bit i.
Proof.
  intros Hi.
  assert (H : forallb (fun i => Bool.eqb (IsSet defined_mask i) (defined_bit i)) (seq 0 64) = true)
    by (vm_compute; reflexivity).
  rewrite forallb_forall in H. specialize (H i). rewrite in_seq in H.
  apply Bool.eqb_prop. apply H. lia.
Qed.

Lemma IsSet_mask_defined b i : List.length b = 8%nat -> (i < 64)%nat ->
  IsSet (mask_defined b) i = IsSet b i && defined_bit i.
Proof.
  intros Hl Hi. unfold mask_defined. rewrite IsSet_land by auto. now rewrite defined_mask_bits.
Qed.
