(* The door: what Server.handleNewConnection (hotline/server.go) does with the bytes of a new control
   connection until the transaction loop runs - handshake, ban check, login - and which of the following
   transactions are dispatched.  Model only.

   The connection is a byte string [stream] (everything the peer sends before it closes); how the bytes are
   chunked does not matter (C02: Net/SessionProofs.control_independent).  [db] maps a login to the stored
   password hash (Srv/Accounts.v: bcrypt abstracted to agreement of the 72 key bytes). *)
From stdpp Require Import gmap.
From Verif Require Import Base.Bytes Lib.Scanner Wire.Parse Wire.Types Wire.Impl Net.Session Srv.Accounts.
Local Open Scope N_scope.

Definition negate (b : bytes) : bytes := map (fun x => 255 - x) b.        (* EncodeString: 255 - byte *)
Definition GUEST : bytes := [103; 117; 101; 115; 116].
(* Transaction.GetField: the first field of that type; an absent field reads as empty data *)
Definition get_field (t : N) (fs : list field) : bytes :=
  match List.filter (fun f => f_type f =? t) fs with f :: _ => f_data f | [] => [] end.

Inductive ban_verdict := Admit | RefusePerm | RefuseTemp.

Inductive outcome :=
| OutNothing                       (* handshake incomplete or invalid: nothing is written at all *)
| OutBanned (perm : bool)          (* handshake reply, one ban notice, close *)
| OutSilent                        (* handshake reply only: no complete first transaction, or it does not decode *)
| OutRefused (id : N)              (* handshake reply, one error reply, close *)
| OutLoggedIn (login : bytes) (first : transaction) (dispatched : list transaction).

Definition effective_login (t : transaction) : bytes :=
  let l := negate (get_field 105 (t_fields t)) in
  match l with [] => GUEST | _ => l end.
Definition offered_password (t : transaction) : bytes := get_field 106 (t_fields t).
Definition credentials_ok (db : gmap bytes pw) (t : transaction) : bool :=
  match db !! effective_login t with
  | Some h => verify h (offered_password t)
  | None => false
  end.

(* the transaction loop: every further token that decodes is dispatched; the first that does not ends the loop *)
Fixpoint dispatch (toks : list bytes) : list transaction :=
  match toks with
  | [] => []
  | tok :: r => match impl_dec_tran tok with Ok t => t :: dispatch r | _ => [] end
  end.

Definition door (db : gmap bytes pw) (ban : ban_verdict) (stream : bytes) : outcome :=
  let v := control_bytes stream in
  match cv_handshake v with
  | None => OutNothing
  | Some hs =>
      if negb (impl_handshake_ok hs) then OutNothing else
      match ban with
      | RefusePerm => OutBanned true
      | RefuseTemp => OutBanned false
      | Admit =>
          match cv_tokens v with
          | [] => OutSilent
          | tok :: rest =>
              match impl_dec_tran tok with
              | Ok t => if credentials_ok db t then OutLoggedIn (effective_login t) t (dispatch rest)
                        else OutRefused (t_id t)
              | _ => OutSilent
              end
          end
      end
  end.

(* ---- what the outcome means for the peer, for everybody else and for the server's state ---- *)
Definition HS_REPLY : bytes := TRTP ++ [0; 0; 0; 0].
Definition MSG_INCORRECT : bytes := [73;110;99;111;114;114;101;99;116;32;108;111;103;105;110;46].   (* "Incorrect login." *)
Definition MSG_PERM : bytes :=   (* "You are permanently banned on this server" *)
  [89;111;117;32;97;114;101;32;112;101;114;109;97;110;101;110;116;108;121;32;98;97;110;110;101;100;32;111;110;32;116;104;105;115;32;115;101;114;118;101;114].
Definition MSG_TEMP : bytes :=   (* "You are temporarily banned on this server" *)
  [89;111;117;32;97;114;101;32;116;101;109;112;111;114;97;114;105;108;121;32;98;97;110;110;101;100;32;111;110;32;116;104;105;115;32;115;101;114;118;101;114].
Definition err_reply (id : N) : bytes := impl_bytes_tran (mk_tran 0 1 0 id 1 [NewField 100 MSG_INCORRECT]).
(* the notice's transaction ID is random in the code; the harness zeroes it before comparing *)
Definition ban_notice (perm : bool) : bytes :=
  impl_bytes_tran (mk_tran 0 0 104 0 0 [NewField 101 (if perm then MSG_PERM else MSG_TEMP); NewField 109 [0; 0]]).

(* every byte written to a connection that does not get in *)
Definition to_peer (o : outcome) : bytes :=
  match o with
  | OutNothing => []
  | OutBanned p => HS_REPLY ++ ban_notice p
  | OutSilent => HS_REPLY
  | OutRefused id => HS_REPLY ++ err_reply id
  | OutLoggedIn _ _ _ => HS_REPLY          (* followed by the login reply etc.: not part of this model *)
  end.
(* requests handed to the handlers *)
Definition served (o : outcome) : list transaction :=
  match o with OutLoggedIn _ _ d => d | _ => [] end.
(* does the connection ever appear in the client registry (user list, notifications to others)? *)
Definition registered (o : outcome) : bool :=
  match o with OutLoggedIn _ _ _ => true | _ => false end.
Definition logged_in (o : outcome) : bool := registered o.
