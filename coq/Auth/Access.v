(* Access bitmap (hotline/access.go:50-56) and the C06 decision logic, as coded.
   Model only; proofs are in Auth/AccessProofs.v. *)
From Verif Require Import Base.Bytes.

Definition bitmap := bytes.                         (* Go: [8]byte *)
Definition bitmap_wf (b : bitmap) : Prop := List.length b = 8%nat /\ bytes_ok b.

(* Go: bits[i/8] & (1 << (7 - i%8)) != 0  (i is a Go int; callers use 0 <= i < 64) *)
Definition IsSet (b : bitmap) (i : nat) : bool :=
  match nth_error b (i / 8) with
  | Some x => N.testbit x (N.of_nat (7 - i mod 8))
  | None => false            (* Go would panic for i >= 64; never reached with i < 64 *)
  end.

Fixpoint upd (b : bitmap) (k : nat) (f : byte -> byte) : bitmap :=
  match b, k with
  | [], _ => []
  | x :: r, O => f x :: r
  | x :: r, S k' => x :: upd r k' f
  end.
(* Go: bits[i/8] |= 1 << (7 - i%8) *)
Definition SetBit (b : bitmap) (i : nat) : bitmap :=
  upd b (i / 8) (fun x => N.lor x (N.shiftl 1 (N.of_nat (7 - i mod 8)))).

(* the 40 privileges that have a name in the account file (hotline/access.go:202-288): 0-18, 20-40;
   an account written to disk keeps exactly these (tied to the generated tables in Props/C16.v) *)
Definition defined_bit (i : nat) : bool := ((i <=? 18) || ((20 <=? i) && (i <=? 40)))%nat.
Definition defined_mask : bitmap := [255; 255; 239; 255; 255; 128; 0; 0].
Fixpoint land_bytes (a m : bytes) : bytes :=
  match a, m with
  | x :: a', y :: m' => N.land x y :: land_bytes a' m'
  | _, _ => []
  end.
Definition mask_defined (b : bitmap) : bitmap := land_bytes b defined_mask.

Definition zero8 : bitmap := repeat 0 8.
(* Go: var a AccessBitmap; copy(a[:], src) — shorter input zero padded, longer cut *)
Definition copy8 (src : bytes) : bitmap := firstn 8 (src ++ zero8).

(* the amplification loop of HandleNewUser (transaction_handlers.go:733-743) and of the create
   branch of HandleUpdateUser (691-701): for i in 0..63: if new.IsSet(i) && !cc.Authorize(i) -> error *)
Definition create_ok (creator req : bitmap) : bool :=
  forallb (fun i => implb (IsSet req i) (IsSet creator i)) (seq 0 64).

Definition ACCESS_CREATE_USER := 14%nat.
Definition ACCESS_DISCON_USER := 22%nat.
Definition ACCESS_CANNOT_BE_DISCON := 23%nat.

Inductive status := StDenied | StDone | StOtherErr | StPanic.
Definition status_code (s : status) : N :=
  match s with StDenied => 0 | StDone => 1 | StOtherErr => 2 | StPanic => 3 end.

(* account creation on a login that does not exist yet.
   via_update = the create branch of HandleUpdateUser; field_absent = no access field in the request
   (HandleNewUser: t.GetField gives an empty field -> zero bitmap; HandleUpdateUser: GetField on the
   sub-field list returns nil -> nil dereference -> panic, recovered by the connection loop). *)
Definition create_account (via_update : bool) (creator : bitmap) (req_field : bytes) (field_absent : bool)
  : status * option bitmap :=
  if negb (IsSet creator ACCESS_CREATE_USER) then (StOtherErr, None)
  else if via_update && field_absent then (StPanic, None)
  else let req := copy8 (if field_absent then [] else req_field) in
       if create_ok creator req then (StDone, Some req) else (StDenied, None).

(* HandleDisconnectUser (transaction_handlers.go:933-995) on an existing target *)
Inductive ban := NoBan | TempBan | PermBan.
Definition ban_code (b : ban) : N := match b with NoBan => 0 | TempBan => 1 | PermBan => 2 end.
Record disc_result := { d_status : status; d_ban : ban; d_closed : bool }.

Definition disconnect_user (requester target : bitmap) (opt : bytes) (opt_absent : bool) : disc_result :=
  if negb (IsSet requester ACCESS_DISCON_USER) then {| d_status := StOtherErr; d_ban := NoBan; d_closed := false |}
  else if IsSet target ACCESS_CANNOT_BE_DISCON then {| d_status := StDenied; d_ban := NoBan; d_closed := false |}
  else if opt_absent then {| d_status := StDone; d_ban := NoBan; d_closed := true |}
  else match opt with
       | _ :: o1 :: _ =>
           {| d_status := StDone;
              d_ban := if o1 =? 1 then TempBan else if o1 =? 2 then PermBan else NoBan;
              d_closed := true |}
       | _ => {| d_status := StPanic; d_ban := NoBan; d_closed := false |}   (* Data[1] out of range *)
       end.
