(* Reference table written from the protocol document's privilege list (spec/privileges.md section 1),
   independent of the Go code: privilege number -> the key it must be stored under in the account file. *)
From Coq Require Import List String.
Import ListNotations.
Local Open Scope string_scope.

Definition priv_spec : list (nat * string) := [
  (0, "DeleteFile"); (1, "UploadFile"); (2, "DownloadFile"); (3, "RenameFile"); (4, "MoveFile");
  (5, "CreateFolder"); (6, "DeleteFolder"); (7, "RenameFolder"); (8, "MoveFolder"); (9, "ReadChat");
  (10, "SendChat"); (11, "OpenChat"); (12, "CloseChat"); (13, "ShowInList"); (14, "CreateUser");
  (15, "DeleteUser"); (16, "OpenUser"); (17, "ModifyUser"); (18, "ChangeOwnPass");
  (20, "NewsReadArt"); (21, "NewsPostArt"); (22, "DisconnectUser"); (23, "CannotBeDisconnected");
  (24, "GetClientInfo"); (25, "UploadAnywhere"); (26, "AnyName"); (27, "NoAgreement");
  (28, "SetFileComment"); (29, "SetFolderComment"); (30, "ViewDropBoxes"); (31, "MakeAlias");
  (32, "Broadcast"); (33, "NewsDeleteArt"); (34, "NewsCreateCat"); (35, "NewsDeleteCat");
  (36, "NewsCreateFldr"); (37, "NewsDeleteFldr"); (38, "UploadFolder"); (39, "DownloadFolder");
  (40, "SendPrivMsg")
]%nat.
