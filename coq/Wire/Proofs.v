(* Proofs about the wire model: the code's encoders equal the reference layouts on well-formed values,
   the reference decoders invert the reference encoders (so every length / size / count prefix is
   consistent with what follows), and the code's decoders invert the code's encoders. *)
From Verif Require Import Base.Bytes Wire.Parse Wire.Types Wire.Impl.

Ltac pstep :=
  unfold bind at 1;
  first [ rewrite p_raw_app by (first [assumption | reflexivity | lia])
        | rewrite p_u16_be16 by lia
        | rewrite p_u32_be32 by lia
        | rewrite p_len16_enc by lia
        | rewrite p_len8_enc by lia
        | rewrite p_len8_cons by lia
        | rewrite p_lit_app
        | rewrite p_rawN_app
        | rewrite p_u8_app ].
Ltac passoc := repeat rewrite <- app_assoc.

Lemma fixed_len n b : fixed n b -> List.length b = n. Proof. intros [H _]; exact H. Qed.
Lemma fixed_ok n b : fixed n b -> bytes_ok b. Proof. intros [_ H]; exact H. Qed.
Lemma len_app {A} (a b : list A) : len (a ++ b) = len a + len b.
Proof. unfold len. rewrite app_length. lia. Qed.
Lemma len_cons {A} (x : A) l : len (x :: l) = 1 + len l.
Proof. unfold len. cbn [List.length]. lia. Qed.
Lemma len_nil {A} : len (@nil A) = 0. Proof. reflexivity. Qed.
Lemma len_be16 n : len (be16 n) = 2. Proof. reflexivity. Qed.
Lemma len_be32 n : len (be32 n) = 4. Proof. reflexivity. Qed.
Lemma len_fixed n b : fixed n b -> len b = N.of_nat n. Proof. intros [H _]. unfold len. now rewrite H. Qed.

(* ---------------------------------------------------------------- Field *)
Lemma impl_spec_field f : field_wf f -> impl_bytes_field f = spec_enc_field f.
Proof. intros (_ & Hs & _). unfold impl_bytes_field, spec_enc_field. now rewrite Hs. Qed.

Lemma NewField_wf t d : t < 65536 -> len d < 65536 -> bytes_ok d -> field_wf (NewField t d).
Proof. intros Ht Hd Ho. unfold NewField, field_wf. cbn. repeat split; auto. now apply N.mod_small. Qed.

Lemma spec_dec_enc_field f r : field_wf f -> spec_dec_field (spec_enc_field f ++ r) = Some (f, r).
Proof.
  intros (Ht & Hs & Hl & _). unfold spec_dec_field, spec_enc_field. passoc.
  pstep. pstep. unfold ret. destruct f as [t s d]; cbn in *. now subst.
Qed.

Lemma spec_enc_field_len f : len (spec_enc_field f) = 4 + len (f_data f).
Proof. unfold spec_enc_field. rewrite !len_app, !len_be16. lia. Qed.

Lemma field_token_enc f r : field_wf f -> field_token (spec_enc_field f ++ r) = Some (f, r).
Proof.
  intros (Ht & Hs & Hl & _). unfold field_token, spec_enc_field. passoc.
  pstep. pstep. pstep. unfold ret. destruct f as [t s d]; cbn in *. now subst.
Qed.

Lemma impl_dec_enc_field f : field_wf f -> impl_dec_field (impl_bytes_field f) = Ok f.
Proof.
  intros Hwf. rewrite impl_spec_field by exact Hwf. destruct Hwf as (Ht & Hs & Hl & _).
  unfold spec_enc_field, impl_dec_field.
  destruct (be16_parts _ Ht) as (a & b & -> & _ & _ & Eab).
  destruct (be16_parts _ Hl) as (c & d & -> & _ & _ & Ecd).
  cbn [app]. rewrite Eab, Ecd. replace (len (f_data f) <=? len (f_data f)) with true by lia.
  rewrite takeN_len. destruct f as [t s dd]; cbn in *. now subst.
Qed.

(* ---------------------------------------------------------------- Transaction *)
Lemma impl_size_payload fs : impl_size fs = payload_size fs.
Proof.
  unfold impl_size, payload_size. induction fs as [|f fs IH]; cbn [map sumN fold_right]; [reflexivity|].
  unfold sumN in *. lia.
Qed.

Lemma impl_spec_fields fs : Forall field_wf fs -> concat (map impl_bytes_field fs) = spec_enc_fields fs.
Proof.
  unfold spec_enc_fields. induction 1 as [|f fs Hf _ IH]; cbn [map concat]; [reflexivity|].
  now rewrite impl_spec_field, IH.
Qed.

Lemma impl_spec_tran t : tran_wf t -> impl_bytes_tran t = spec_enc_tran t.
Proof.
  intros (_ & _ & _ & _ & _ & Hf & _). unfold impl_bytes_tran, spec_enc_tran.
  now rewrite impl_size_payload, impl_spec_fields.
Qed.

Lemma spec_enc_fields_len fs : len (spec_enc_fields fs) + 2 = payload_size fs.
Proof.
  unfold spec_enc_fields, payload_size. induction fs as [|f fs IH]; cbn [map concat sumN fold_right].
  - reflexivity.
  - rewrite len_app, spec_enc_field_len. unfold sumN in *. lia.
Qed.

Lemma spec_dec_enc_tran t r : tran_wf t -> spec_dec_tran (spec_enc_tran t ++ r) = Some (t, r).
Proof.
  intros (H1 & H2 & H3 & H4 & H5 & Hf & Hn & Hp). unfold spec_dec_tran, spec_enc_tran. passoc.
  cbn [app]. pstep. pstep. pstep. pstep. pstep. pstep. pstep.
  pose proof (spec_enc_fields_len (t_fields t)) as HL.
  replace (be16 (len (t_fields t)) ++ spec_enc_fields (t_fields t) ++ r)
    with ((be16 (len (t_fields t)) ++ spec_enc_fields (t_fields t)) ++ r) by now rewrite <- app_assoc.
  unfold bind at 1.
  replace (payload_size (t_fields t)) with (len (be16 (len (t_fields t)) ++ spec_enc_fields (t_fields t)))
    by (rewrite len_app, len_be16; lia).
  rewrite p_rawN_app. rewrite N.eqb_refl.
  unfold spec_dec_body. pstep.
  unfold bind at 1.
  replace (spec_enc_fields (t_fields t)) with (spec_enc_fields (t_fields t) ++ []) by apply app_nil_r.
  unfold spec_enc_fields, len. rewrite Nat2N.id.
  rewrite (p_many_enc spec_dec_field spec_enc_field field_wf) by (auto using spec_dec_enc_field).
  unfold bind, p_end, ret. destruct t; reflexivity.
Qed.

(* the code's decoder on the code's encoding *)
Lemma impl_dec_enc_tran t : tran_wf t -> impl_dec_tran (impl_bytes_tran t) = Ok t.
Proof.
  intros Hwf. rewrite impl_spec_tran by exact Hwf.
  destruct Hwf as (H1 & H2 & H3 & H4 & H5 & Hf & Hn & Hp).
  pose proof (spec_enc_fields_len (t_fields t)) as HL.
  unfold impl_dec_tran.
  assert (Hlen : len (spec_enc_tran t) = 20 + payload_size (t_fields t)).
  { unfold spec_enc_tran. rewrite !len_app, !len_be16, !len_be32, len_cons, len_cons, len_nil. lia. }
  rewrite Hlen. replace (20 + payload_size (t_fields t) <? 22) with false by (unfold payload_size; lia).
  unfold tran_header, spec_enc_tran. cbn [app].
  pstep. pstep. pstep. pstep. pstep. pstep. pstep. pstep. unfold ret.
  rewrite N.mod_small by lia.
  replace ((20 + payload_size (t_fields t) <? 22) || (20 + payload_size (t_fields t) <? 20 + payload_size (t_fields t)))
    with false by (unfold payload_size; lia).
  replace (20 + payload_size (t_fields t) - 22) with (len (spec_enc_fields (t_fields t))) by lia.
  rewrite takeN_len.
  replace (spec_enc_fields (t_fields t)) with (spec_enc_fields (t_fields t) ++ []) by apply app_nil_r.
  unfold spec_enc_fields, len. rewrite Nat2N.id.
  rewrite (p_many_enc field_token spec_enc_field field_wf) by auto using field_token_enc.
  destruct t; reflexivity.
Qed.

(* ---------------------------------------------------------------- User *)
Lemma last2_if4_2 b : List.length b = 2%nat -> last2_if4 b = b.
Proof. intros H. unfold last2_if4. now rewrite H. Qed.

Lemma impl_spec_user u : user_wf u -> impl_bytes_user u = spec_enc_user u.
Proof.
  intros (_ & Hi & Hf & _). unfold impl_bytes_user, spec_enc_user.
  now rewrite (last2_if4_2 _ (fixed_len _ _ Hi)), (last2_if4_2 _ (fixed_len _ _ Hf)).
Qed.

Lemma spec_dec_enc_user u r : user_wf u -> spec_dec_user (spec_enc_user u ++ r) = Some (u, r).
Proof.
  intros (Hid & Hi & Hf & Hn & _). unfold spec_dec_user, spec_enc_user. passoc.
  pose proof (fixed_len _ _ Hi). pose proof (fixed_len _ _ Hf).
  pstep. pstep. pstep. pstep. unfold ret. destruct u; reflexivity.
Qed.

Lemma impl_dec_enc_user u : user_wf u -> impl_dec_user (impl_bytes_user u) = Ok u.
Proof.
  intros Hwf. rewrite impl_spec_user by exact Hwf. unfold impl_dec_user.
  replace (spec_enc_user u) with (spec_enc_user u ++ []) by apply app_nil_r.
  pose proof (spec_dec_enc_user u [] Hwf) as H. unfold spec_dec_user in H. now rewrite H.
Qed.

(* ---------------------------------------------------------------- File name with info *)
Lemma impl_spec_fnwi x : fnwi_wf x -> impl_bytes_fnwi x = spec_enc_fnwi x.
Proof. intros (_ & _ & _ & _ & _ & Hs & _). unfold impl_bytes_fnwi, spec_enc_fnwi. now rewrite Hs. Qed.

Lemma spec_dec_enc_fnwi x r : fnwi_wf x -> spec_dec_fnwi (spec_enc_fnwi x ++ r) = Some (x, r).
Proof.
  intros (H1 & H2 & H3 & H4 & H5 & Hs & Hn & _). unfold spec_dec_fnwi, spec_enc_fnwi. passoc.
  pose proof (fixed_len _ _ H1). pose proof (fixed_len _ _ H2). pose proof (fixed_len _ _ H3).
  pose proof (fixed_len _ _ H4). pose proof (fixed_len _ _ H5).
  pstep. pstep. pstep. pstep. pstep. pstep. unfold ret. destruct x; cbn in *. now subst.
Qed.

Lemma impl_dec_enc_fnwi x : fnwi_wf x -> impl_dec_fnwi (impl_bytes_fnwi x) = Ok x.
Proof.
  intros Hwf. rewrite impl_spec_fnwi by exact Hwf.
  destruct Hwf as (H1 & H2 & H3 & H4 & H5 & Hs & Hn & _). unfold impl_dec_fnwi, spec_enc_fnwi.
  pose proof (fixed_len _ _ H1). pose proof (fixed_len _ _ H2). pose proof (fixed_len _ _ H3).
  pose proof (fixed_len _ _ H4). pose proof (fixed_len _ _ H5).
  pstep. pstep. pstep. pstep. pstep. pstep. unfold ret.
  replace (len (fn_name x) <=? len (fn_name x)) with true by lia. rewrite takeN_len.
  destruct x; cbn in *. now subst.
Qed.

(* ---------------------------------------------------------------- File path, folder item header *)
Lemma u8_small n : n < 256 -> u8 n = n. Proof. intros. unfold u8. now apply N.mod_small. Qed.

Lemma impl_spec_path items : Forall path_item_wf items -> impl_enc_path items = spec_enc_path items.
Proof.
  intros H. unfold impl_enc_path, spec_enc_path. f_equal.
  induction H as [|n l [Hn _] _ IH]; cbn [map concat]; [reflexivity|].
  rewrite IH. unfold impl_enc_path_item, spec_enc_path_item. now rewrite u8_small.
Qed.

Lemma spec_dec_enc_path_item n r : path_item_wf n -> spec_dec_path_item (spec_enc_path_item n ++ r) = Some (n, r).
Proof.
  intros [Hn _]. unfold spec_dec_path_item, spec_enc_path_item. passoc.
  pstep. apply p_len8_enc. exact Hn.
Qed.

Lemma spec_dec_enc_path items r : Forall path_item_wf items -> len items < 65536 ->
  spec_dec_path (spec_enc_path items ++ r) = Some (items, r).
Proof.
  intros H Hl. unfold spec_dec_path, spec_enc_path. passoc. pstep.
  unfold len. rewrite Nat2N.id.
  apply (p_many_enc spec_dec_path_item spec_enc_path_item path_item_wf); auto using spec_dec_enc_path_item.
Qed.

(* the code's FilePath.Write on the code's path encoding (items of at most 255 bytes) *)
Lemma path_items_enc items : forall prev r, Forall path_item_wf items ->
  path_items (List.length items) (concat (map spec_enc_path_item items) ++ r) prev false = Ok items.
Proof.
  induction items as [|n l IH]; intros prev r H; cbn [List.length path_items map concat]; [reflexivity|].
  inversion H as [|? ? [Hn Ho] Hl]; subst.
  unfold spec_enc_path_item at 1. passoc. cbn [app].
  rewrite takeN_len_app, dropN_len_app.
  match goal with |- context [len n <=? len (n ++ ?Y)] =>
    assert (E : (len n <=? len (n ++ Y)) = true) by (apply N.leb_le; rewrite len_app; lia);
    rewrite E end.
  now rewrite IH.
Qed.

Lemma impl_dec_enc_path items : Forall path_item_wf items -> len items < 65536 -> items <> [] ->
  impl_dec_path (impl_enc_path items) = Ok (len items, items).
Proof.
  intros H Hl Hne. rewrite impl_spec_path by exact H. unfold spec_enc_path, impl_dec_path.
  destruct (be16_parts _ Hl) as (a & b & -> & _ & _ & E). cbn [app]. rewrite E.
  unfold len at 1. rewrite Nat2N.id.
  replace (concat (map spec_enc_path_item items)) with (concat (map spec_enc_path_item items) ++ []) by apply app_nil_r.
  now rewrite path_items_enc.
Qed.

Lemma NewFileHeader_wf items d : Forall path_item_wf items -> len items < 65536 ->
  len (spec_enc_path items) + 2 < 65536 -> fh_wf (NewFileHeader items d).
Proof.
  intros H Hl Hp. unfold NewFileHeader, fh_wf. cbn [fh_size fh_type fh_path]. rewrite impl_spec_path by exact H.
  repeat split.
  - now apply N.mod_small.
  - exact Hp.
  - destruct d; lia.
  - unfold spec_enc_path. apply bytes_ok_app. split; [apply be16_ok|].
    clear -H. induction H as [|n l [Hn Ho] _ IH]; cbn [map concat]; [constructor|].
    apply bytes_ok_app. split; auto. unfold spec_enc_path_item. cbn [app].
    repeat constructor; try lia. exact Ho.
Qed.

Lemma impl_spec_fh h : fh_wf h -> impl_bytes_fh h = spec_enc_fh h.
Proof. intros (Hs & _). unfold impl_bytes_fh, spec_enc_fh. now rewrite Hs. Qed.

Lemma spec_dec_enc_fh h r : fh_wf h -> spec_dec_fh (spec_enc_fh h ++ r) = Some (h, r).
Proof.
  intros (Hs & Hl & Ht & _). unfold spec_dec_fh, spec_enc_fh. passoc. pstep.
  replace (be16 (fh_type h) ++ fh_path h ++ r) with ((be16 (fh_type h) ++ fh_path h) ++ r) by now rewrite <- app_assoc.
  unfold bind.
  replace (len (fh_path h) + 2) with (len (be16 (fh_type h) ++ fh_path h)) by (rewrite len_app, len_be16; lia).
  rewrite p_rawN_app. destruct (be16_parts _ Ht) as (a & b & -> & _ & _ & E). cbn [app]. rewrite E.
  destruct h; cbn in *. rewrite Hs. f_equal. f_equal. f_equal. unfold len. cbn [List.length]. lia.
Qed.

(* ---------------------------------------------------------------- File resume data *)
Lemma spec_dec_enc_fork f r : fork_wf f -> spec_dec_fork (spec_enc_fork f ++ r) = Some (f, r).
Proof.
  intros (H1 & H2 & H3 & H4). unfold spec_dec_fork, spec_enc_fork. passoc.
  pose proof (fixed_len _ _ H1). pose proof (fixed_len _ _ H2). pose proof (fixed_len _ _ H3).
  pose proof (fixed_len _ _ H4). pstep. pstep. pstep. pstep. unfold ret. destruct f; reflexivity.
Qed.

Lemma impl_spec_rd x : rd_wf x -> impl_bytes_rd x = spec_enc_rd x.
Proof.
  intros (_ & _ & Hr & Hc & Hl & _). unfold impl_bytes_rd, spec_enc_rd. rewrite Hr, Hc.
  f_equal. f_equal. f_equal. f_equal. unfold be16. f_equal.
  - rewrite N.div_small by lia. reflexivity.
  - f_equal. now rewrite N.mod_small by lia.
Qed.

Lemma NewFileResumeData_wf forks : len forks < 256 -> Forall fork_wf forks -> rd_wf (NewFileResumeData forks).
Proof.
  intros Hl Hf. unfold NewFileResumeData, rd_wf. cbn. rewrite u8_small by exact Hl.
  repeat split; auto; repeat constructor.
Qed.

Lemma spec_dec_enc_rd x r : rd_wf x -> spec_dec_rd (spec_enc_rd x ++ r) = Some (x, r).
Proof.
  intros (H1 & H2 & Hr & Hc & Hl & Hf). unfold spec_dec_rd, spec_enc_rd. passoc.
  pose proof (fixed_len _ _ H1). pose proof (fixed_len _ _ H2).
  pstep. pstep. pstep. pstep. unfold bind at 1. unfold len. rewrite Nat2N.id.
  rewrite (p_many_enc spec_dec_fork spec_enc_fork fork_wf) by auto using spec_dec_enc_fork.
  unfold ret. destruct x; cbn in *. subst. f_equal. f_equal. f_equal.
  unfold be16, len. f_equal; [|f_equal]; [rewrite N.div_small by (unfold len in Hl; lia); reflexivity|].
  apply N.mod_small. unfold len in Hl. lia.
Qed.

Lemma impl_dec_enc_rd x : rd_wf x -> impl_dec_rd (impl_bytes_rd x) = Ok x.
Proof.
  intros Hwf. destruct Hwf as (H1 & H2 & Hr & Hc & Hl & Hf). unfold impl_dec_rd, impl_bytes_rd.
  pose proof (fixed_len _ _ H1). pose proof (fixed_len _ _ H2).
  rewrite Hr, Hc. pstep. pstep. pstep.
  change ([0; len (rd_forks x)] ++ concat (map spec_enc_fork (rd_forks x)))
    with ([0; len (rd_forks x)] ++ concat (map spec_enc_fork (rd_forks x))).
  unfold bind at 1. rewrite (p_raw_app 2 [0; len (rd_forks x)]) by reflexivity. unfold ret.
  cbn [nth]. unfold len. rewrite Nat2N.id.
  replace (concat (map spec_enc_fork (rd_forks x))) with (concat (map spec_enc_fork (rd_forks x)) ++ []) by apply app_nil_r.
  rewrite (p_many_enc spec_dec_fork spec_enc_fork fork_wf) by auto using spec_dec_enc_fork.
  destruct x; cbn in *. now subst.
Qed.

(* ---------------------------------------------------------------- Information fork / flattened file object *)
Lemma impl_spec_ifork x : ifork_wf x -> impl_bytes_ifork x = spec_enc_ifork x.
Proof.
  intros (_ & _ & _ & _ & _ & _ & _ & _ & _ & _ & _ & _ & Hc & _).
  unfold impl_bytes_ifork, spec_enc_ifork. now rewrite Hc.
Qed.

Lemma ifork_fixed_len x : ifork_wf x -> List.length (ifork_fixed x) = 70%nat.
Proof.
  intros (H1 & H2 & H3 & H4 & H5 & H6 & H7 & H8 & H9 & _). unfold ifork_fixed.
  rewrite !app_length.
  rewrite (fixed_len _ _ H1), (fixed_len _ _ H2), (fixed_len _ _ H3), (fixed_len _ _ H4), (fixed_len _ _ H5),
    (fixed_len _ _ H6), (fixed_len _ _ H7), (fixed_len _ _ H8), (fixed_len _ _ H9). reflexivity.
Qed.

Lemma spec_enc_ifork_len x : ifork_wf x -> len (spec_enc_ifork x) = info_size x.
Proof.
  intros H. unfold spec_enc_ifork, info_size. rewrite !len_app, !len_be16.
  unfold len at 1. rewrite (ifork_fixed_len x H). lia.
Qed.

Lemma spec_dec_enc_ifork x r : ifork_wf x -> spec_dec_ifork (spec_enc_ifork x ++ r) = Some (x, r).
Proof.
  intros (H1 & H2 & H3 & H4 & H5 & H6 & H7 & H8 & H9 & Hns & Hn & _ & Hcs & Hc & _).
  unfold spec_dec_ifork, spec_enc_ifork, ifork_fixed. passoc.
  pose proof (fixed_len _ _ H1). pose proof (fixed_len _ _ H2). pose proof (fixed_len _ _ H3).
  pose proof (fixed_len _ _ H4). pose proof (fixed_len _ _ H5). pose proof (fixed_len _ _ H6).
  pose proof (fixed_len _ _ H7). pose proof (fixed_len _ _ H8). pose proof (fixed_len _ _ H9).
  pstep. pstep. pstep. pstep. pstep. pstep. pstep. pstep. pstep. pstep. pstep. unfold ret.
  destruct x; cbn in *. now subst.
Qed.

Lemma dbe_be16 n : n < 65536 -> dbe (be16 n) = n.
Proof. intros H. destruct (be16_parts n H) as (a & b & -> & _ & _ & E). unfold dbe. cbn. unfold dbe16 in E. lia. Qed.

Lemma impl_dec_enc_ifork x : ifork_wf x -> impl_dec_ifork (impl_bytes_ifork x) = Ok x.
Proof.
  intros Hwf. rewrite impl_spec_ifork by exact Hwf. pose proof (spec_enc_ifork_len x Hwf) as HL.
  destruct Hwf as (H1 & H2 & H3 & H4 & H5 & H6 & H7 & H8 & H9 & Hns & Hn & Hno & Hcs & Hc & Hco).
  unfold impl_dec_ifork. rewrite HL. unfold info_size.
  unfold spec_enc_ifork, ifork_fixed. passoc.
  pose proof (fixed_len _ _ H1). pose proof (fixed_len _ _ H2). pose proof (fixed_len _ _ H3).
  pose proof (fixed_len _ _ H4). pose proof (fixed_len _ _ H5). pose proof (fixed_len _ _ H6).
  pose proof (fixed_len _ _ H7). pose proof (fixed_len _ _ H8). pose proof (fixed_len _ _ H9).
  pstep. pstep. pstep. pstep. pstep. pstep. pstep. pstep. pstep.
  unfold bind at 1. rewrite (p_raw_app 2 (be16 (len (ff_name x)))) by reflexivity. unfold ret.
  rewrite dbe_be16 by lia. rewrite N.mod_small by lia.
  replace ((72 + len (ff_name x) <? 72) || (len (ff_name x) + len (ff_comment x) + 74 <? 72 + len (ff_name x)))
    with false by lia.
  replace (72 + len (ff_name x) - 72) with (len (ff_name x)) by lia.
  rewrite takeN_len_app, dropN_len_app.
  replace (72 + len (ff_name x) <? len (ff_name x) + len (ff_comment x) + 74) with true by lia.
  unfold bind at 1. rewrite (p_raw_app 2 (be16 (len (ff_comment x)))) by reflexivity. unfold ret.
  rewrite dbe_be16 by lia.
  replace (len (ff_comment x) <=? len (ff_comment x)) with true by lia. rewrite takeN_len.
  destruct x; cbn in *. now subst.
Qed.

Lemma impl_spec_ffo x : ffo_wf x -> impl_bytes_ffo x = spec_enc_ffo x.
Proof.
  intros (_ & _ & _ & _ & Hi & _). unfold impl_bytes_ffo, spec_enc_ffo.
  rewrite impl_spec_ifork by exact Hi. rewrite spec_enc_ifork_len by exact Hi. reflexivity.
Qed.

Lemma spec_dec_enc_fkh h r : fkh_wf h -> spec_dec_fkh (enc_fkh h ++ r) = Some (h, r).
Proof.
  intros (H1 & H2 & H3 & H4). unfold spec_dec_fkh, enc_fkh. passoc.
  pose proof (fixed_len _ _ H1). pose proof (fixed_len _ _ H2). pose proof (fixed_len _ _ H3).
  pose proof (fixed_len _ _ H4). pstep. pstep. pstep. pstep. unfold ret. destruct h; reflexivity.
Qed.

Lemma ifork_size_bound x : ifork_wf x -> info_size x < 4294967296.
Proof. intros (_ & _ & _ & _ & _ & _ & _ & _ & _ & _ & Hn & _ & _ & Hc & _). unfold info_size. lia. Qed.

Lemma spec_dec_enc_ffo x r : ffo_wf x -> spec_dec_ffo (spec_enc_ffo x ++ r) = Some (x, r).
Proof.
  intros (H1 & H2 & H3 & H4 & Hi & Hd). unfold spec_dec_ffo, spec_enc_ffo. passoc.
  pose proof (fixed_len _ _ H1). pose proof (fixed_len _ _ H2). pose proof (fixed_len _ _ H3).
  pose proof (fixed_len _ _ H4). pose proof (ifork_size_bound _ Hi). pose proof (spec_enc_ifork_len _ Hi) as HL.
  pstep. pstep. pstep. pstep. pstep.
  change ([0; 0; 0; 0] ++ [0; 0; 0; 0] ++ ?X) with ([0;0;0;0;0;0;0;0] ++ X).
  unfold bind at 1. rewrite (p_raw_app 8 [0;0;0;0;0;0;0;0]) by reflexivity.
  pstep. pstep. unfold bind at 1. rewrite spec_dec_enc_fkh by exact Hd.
  replace (spec_enc_ifork (fo_info x)) with (spec_enc_ifork (fo_info x) ++ []) by apply app_nil_r.
  rewrite spec_dec_enc_ifork by exact Hi. destruct x; reflexivity.
Qed.

Lemma impl_dec_enc_ffo x r : ffo_wf x -> impl_dec_ffo (impl_bytes_ffo x ++ r) = Ok (x, r).
Proof.
  intros Hwf. rewrite impl_spec_ffo by exact Hwf. destruct Hwf as (H1 & H2 & H3 & H4 & Hi & Hd).
  unfold impl_dec_ffo, spec_enc_ffo. passoc.
  pose proof (fixed_len _ _ H1). pose proof (fixed_len _ _ H2). pose proof (fixed_len _ _ H3).
  pose proof (fixed_len _ _ H4). pose proof (ifork_size_bound _ Hi). pose proof (spec_enc_ifork_len _ Hi) as HL.
  pstep. pstep. pstep. pstep.
  change (INFO ++ [0; 0; 0; 0] ++ [0; 0; 0; 0] ++ ?X) with ([73;78;70;79;0;0;0;0;0;0;0;0] ++ X).
  unfold bind at 1. rewrite (p_raw_app 12 [73;78;70;79;0;0;0;0;0;0;0;0]) by reflexivity.
  pstep. pstep. unfold ret.
  destruct (spec_enc_ifork (fo_info x)) as [|b0 bs] eqn:E.
  { exfalso. unfold info_size, len in HL. cbn in HL. lia. }
  rewrite <- E. rewrite <- impl_spec_ifork by exact Hi. rewrite impl_dec_enc_ifork by exact Hi.
  rewrite spec_dec_enc_fkh by exact Hd. destruct x; reflexivity.
Qed.

(* ---------------------------------------------------------------- News *)
Lemma impl_spec_art a : art_wf a -> impl_bytes_art a = spec_enc_art a.
Proof.
  intros (_ & _ & _ & _ & Ht & _ & Hp & _). unfold impl_bytes_art, spec_enc_art.
  now rewrite !u8_small by assumption.
Qed.

Lemma spec_dec_enc_art a r : art_wf a -> spec_dec_art (spec_enc_art a ++ r) = Some (a, r).
Proof.
  intros (H1 & H2 & H3 & H4 & Ht & _ & Hp & _ & H5). unfold spec_dec_art, spec_enc_art. passoc.
  pose proof (fixed_len _ _ H1). pose proof (fixed_len _ _ H2). pose proof (fixed_len _ _ H3).
  pose proof (fixed_len _ _ H4). pose proof (fixed_len _ _ H5).
  pstep. pstep. pstep. pstep. pstep. pstep. pstep.
  replace ([10] ++ TEXT_PLAIN ++ na_size a ++ r) with (([10] ++ TEXT_PLAIN) ++ na_size a ++ r) by reflexivity.
  pstep. pstep. unfold ret. destruct a; reflexivity.
Qed.

Lemma impl_spec_arts l : Forall art_wf l -> concat (map impl_bytes_art l) = concat (map spec_enc_art l).
Proof. induction 1 as [|a l Ha _ IH]; cbn [map concat]; [reflexivity|]. now rewrite impl_spec_art, IH. Qed.

Lemma impl_spec_al l : al_wf l -> impl_bytes_al l = spec_enc_al l.
Proof.
  intros (_ & Hc & _ & Hn & _ & Hd & _ & Ha). unfold impl_bytes_al, spec_enc_al.
  now rewrite Hc, !u8_small, impl_spec_arts by assumption.
Qed.

Lemma spec_dec_enc_al l r : al_wf l -> spec_dec_al (spec_enc_al l ++ r) = Some (l, r).
Proof.
  intros (H1 & Hc & Hl & Hn & _ & Hd & _ & Ha). unfold spec_dec_al, spec_enc_al. passoc.
  pose proof (fixed_len _ _ H1). pstep. pstep. pstep. pstep.
  unfold bind at 1. unfold len at 1. rewrite Nat2N.id.
  rewrite (p_many_enc spec_dec_art spec_enc_art art_wf) by auto using spec_dec_enc_art.
  unfold ret. destruct l; cbn in *. now subst.
Qed.

Lemma impl_spec_cat c : cat_wf c -> impl_bytes_cat c = spec_enc_cat c.
Proof. intros (_ & _ & _ & _ & Hn & _). unfold impl_bytes_cat, spec_enc_cat. now rewrite u8_small. Qed.

Lemma spec_dec_enc_cat c r : cat_wf c -> spec_dec_cat (spec_enc_cat c ++ r) = Some (c, r).
Proof.
  intros (Ht & Hc & H3 & H2 & Hn & _). unfold spec_dec_cat, spec_enc_cat. passoc.
  destruct Ht as [Ht|Ht]; rewrite Ht in *.
  - pstep. pstep. cbn [N.eqb Pos.eqb app]. destruct (H2 eq_refl) as (G1 & G2 & G3).
    pstep. unfold ret. destruct c; cbn in *. now subst.
  - destruct (H3 eq_refl) as (G1 & G2 & G3).
    pose proof (fixed_len _ _ G1). pose proof (fixed_len _ _ G2). pose proof (fixed_len _ _ G3).
    pstep. pstep. cbn [N.eqb Pos.eqb]. passoc. pstep. pstep. pstep. pstep. unfold ret.
    destruct c; cbn in *. now subst.
Qed.

(* ---------------------------------------------------------------- Tracker registration *)
Lemma impl_spec_tr t : tr_wf t -> impl_bytes_tr t = spec_enc_tr t.
Proof.
  intros (_ & _ & _ & Hn & _ & Hd & _ & Hp & _). unfold impl_bytes_tr, spec_enc_tr.
  now rewrite !u8_small by assumption.
Qed.

Lemma spec_dec_enc_tr t r : tr_wf t -> spec_dec_tr (spec_enc_tr t ++ r) = Some (t, r).
Proof.
  intros (H1 & Hu & H2 & Hn & _ & Hd & _ & Hp & _). unfold spec_dec_tr, spec_enc_tr. passoc.
  pose proof (fixed_len _ _ H1). pose proof (fixed_len _ _ H2).
  pstep. pstep. pstep. pstep. pstep. pstep. pstep. pstep. unfold ret. destruct t; reflexivity.
Qed.

(* ---------------------------------------------------------------- Account record *)
Lemma NewField_eq t d : len d < 65536 -> NewField t d = mk_field t (len d) d.
Proof. intros H. unfold NewField. now rewrite N.mod_small. Qed.

Lemma acc_fields_wf a : acc_wf a -> Forall field_wf (acc_fields a).
Proof.
  intros (Hn & Hno & Hl & Hlo & Ha). pose proof (len_fixed _ _ Ha) as H8. cbn in H8.
  unfold acc_fields. apply Forall_app. split.
  - repeat constructor; cbn; try lia; auto.
    + unfold len. now rewrite obfuscate_length.
    + unfold len. rewrite obfuscate_length. exact Hl.
    + now apply obfuscate_ok.
    + now apply fixed_ok in Ha.
  - destruct (ac_haspw a); repeat constructor; cbn; lia.
Qed.

Lemma impl_acc_fields_eq a : acc_wf a -> impl_acc_fields a = acc_fields a.
Proof.
  intros (Hn & _ & Hl & _ & Ha). unfold impl_acc_fields, acc_fields.
  pose proof (len_fixed _ _ Ha) as H8. cbn in H8.
  assert (E1 : len (obfuscate (ac_login a)) = len (ac_login a)) by (unfold len; now rewrite obfuscate_length).
  assert (E2 : len [120] = 1) by reflexivity.
  rewrite !NewField_eq by (rewrite ?E1, ?H8, ?E2; lia).
  rewrite E1, H8, E2. reflexivity.
Qed.

Lemma impl_spec_acc a : acc_wf a -> impl_bytes_acc a = spec_enc_acc a.
Proof.
  intros Hwf. unfold impl_bytes_acc, spec_enc_acc. rewrite impl_acc_fields_eq by exact Hwf.
  now rewrite impl_spec_fields by (apply acc_fields_wf; exact Hwf).
Qed.

Lemma spec_dec_enc_acc a r : acc_wf a -> spec_dec_acc (spec_enc_acc a ++ r) = Some (a, r).
Proof.
  intros Hwf. pose proof (acc_fields_wf a Hwf) as HF. destruct Hwf as (Hn & Hno & Hl & Hlo & Ha).
  unfold spec_dec_acc, spec_enc_acc. passoc.
  assert (Hc : len (acc_fields a) < 65536) by (unfold acc_fields, len; destruct (ac_haspw a); cbn; lia).
  pstep. unfold bind at 1. unfold len at 1. rewrite Nat2N.id. unfold spec_enc_fields.
  rewrite (p_many_enc spec_dec_field spec_enc_field field_wf) by auto using spec_dec_enc_field.
  unfold acc_fields. destruct a as [nm lg ac pw]; cbn [ac_name ac_login ac_access ac_haspw] in *.
  destruct pw; cbn [app f_type f_data N.eqb Pos.eqb andb bytes_eqb]; rewrite obfuscate_involutive by exact Hlo; reflexivity.
Qed.
