(* The encoders (Read methods, constructors) and decoders (Write / Unmarshal methods) of package hotline
   AS CODED, including integer truncations, stored-vs-recomputed size fields and panics. Model only. *)
From Verif Require Import Base.Bytes Wire.Parse Wire.Types.

Inductive res (A : Type) := Ok (a : A) | Err | Panic.
Arguments Ok {A} a. Arguments Err {A}. Arguments Panic {A}.

(* be16 / be32 of Base.Bytes already truncate like uint16(x) / uint32(x) *)
Definition u8 (n : N) : byte := n mod 256.

(* ------------------------------------------------------------------ Field (field.go) *)
Definition NewField (t : N) (d : bytes) : field := mk_field t (len d mod 65536) d.
Definition impl_bytes_field (f : field) : bytes := be16 (f_type f) ++ be16 (f_size f) ++ f_data f.

(* Field.Write: Err when shorter than 4 or than 4 + size; trailing bytes ignored *)
Definition impl_dec_field (p : bytes) : res field :=
  match p with
  | a :: b :: c :: d :: r =>
      let sz := dbe16 c d in
      if sz <=? len r then Ok (mk_field (dbe16 a b) sz (takeN sz r)) else Err
  | _ => Err
  end.

(* one token of FieldScanner under bufio.Scanner followed by Field.Write; the scanner's token limit is
   raised to the size of the transaction (scanner.Buffer(nil, len(p)+1)), so it never bites *)
Definition MAXTOK : N := 65536.    (* bufio.MaxScanTokenSize: the limit of the CONNECTION scanner (C02) *)
Definition field_token : parser field :=
  t <- p_u16 ;; sz <- p_u16 ;; d <- p_rawN sz ;; ret (mk_field t sz d).

(* ------------------------------------------------------------------ Transaction (transaction.go) *)
Definition impl_size (fs : list field) : N := sumN (map (fun f => len (f_data f) + 4) fs) + 2.
Definition impl_bytes_tran (t : transaction) : bytes :=
  [t_flags t; t_isreply t] ++ be16 (t_type t) ++ be32 (t_id t) ++ be32 (t_err t) ++
  be32 (impl_size (t_fields t)) ++ be32 (impl_size (t_fields t)) ++
  be16 (len (t_fields t)) ++ concat (map impl_bytes_field (t_fields t)).

Definition tran_header : parser (N * N * N * N * N * N * N * N) :=
  fl <- p_u8 ;; ir <- p_u8 ;; ty <- p_u16 ;; id <- p_u32 ;; er <- p_u32 ;; tot <- p_u32 ;; dsz <- p_u32 ;;
  cnt <- p_u16 ;; ret (fl, ir, ty, id, er, tot, dsz, cnt).

(* Transaction.Write(p): p is one scanner token (cap p = len p) *)
Definition impl_dec_tran (p : bytes) : res transaction :=
  if len p <? 22 then Err else
  match tran_header p with
  | Some ((fl, ir, ty, id, er, tot, dsz, cnt), after22) =>
      let tranLen := (20 + tot) mod 4294967296 in          (* uint32 arithmetic, then int() *)
      if (tranLen <? 22) || (len p <? tranLen) then Panic   (* p[22:tranLen] out of range *)
      else match p_many (N.to_nat cnt) field_token (takeN (tranLen - 22) after22) with
           | Some (fs, _) => Ok (mk_tran fl ir ty id er fs)
           | None => Err
           end
  | None => Err
  end.

(* transactionScanner: token length, when 16 bytes are available *)
Definition tran_token_len (data : bytes) : option N :=
  match skipn 12 data with
  | a :: b :: c :: d :: _ => Some ((20 + dbe32 a b c d) mod 4294967296)
  | _ => None
  end.

(* ------------------------------------------------------------------ User (user.go) *)
Definition last2_if4 (b : bytes) : bytes := if (List.length b =? 4)%nat then skipn 2 b else b.
Definition impl_bytes_user (u : user) : bytes :=
  be16 (u_id u) ++ last2_if4 (u_icon u) ++ last2_if4 (u_flags u) ++ be16 (len (u_name u)) ++ u_name u.
(* User.Write: no length checks at all *)
Definition impl_dec_user (p : bytes) : res user :=
  match (i <- p_u16 ;; ic <- p_raw 2 ;; fl <- p_raw 2 ;; n <- p_len16 ;; ret (mk_user i ic fl n)) p with
  | Some (u, _) => Ok u
  | None => Panic
  end.

(* ------------------------------------------------------------------ FileNameWithInfo *)
Definition impl_bytes_fnwi (x : fnwi) : bytes :=
  fn_type x ++ fn_creator x ++ fn_fsize x ++ fn_rsvd x ++ fn_script x ++ be16 (fn_namesize x) ++ fn_name x.
Definition impl_dec_fnwi (p : bytes) : res fnwi :=
  match (t <- p_raw 4 ;; c <- p_raw 4 ;; s <- p_raw 4 ;; r <- p_raw 4 ;; sc <- p_raw 2 ;; n <- p_u16 ;;
         ret (t, c, s, r, sc, n)) p with
  | None => Err                                             (* binary.Read: unexpected EOF *)
  | Some ((t, c, s, r, sc, n), rest) =>
      if n <=? len rest then Ok (mk_fnwi t c s r sc n (takeN n rest)) else Panic
  end.

(* ------------------------------------------------------------------ File path (files.go, file_path.go) *)
Definition impl_enc_path_item (s : bytes) : bytes := [0; 0] ++ [u8 (len s)] ++ s.
(* EncodeFilePath on the list of sections of strings.Split(path, "/") *)
Definition impl_enc_path (sections : list bytes) : bytes :=
  be16 (len sections) ++ concat (map impl_enc_path_item sections).
Definition NewFileHeader (sections : list bytes) (is_dir : bool) : file_header :=
  let p := impl_enc_path sections in
  mk_fh ((len p + 2) mod 65536) (if is_dir then 1 else 0) p.
Definition impl_bytes_fh (h : file_header) : bytes := be16 (fh_size h) ++ be16 (fh_type h) ++ fh_path h.

(* FilePath.Write (as repaired): bufio.Scanner + fileItemScanner; an item whose declared length runs past the data,
   or fewer than 3 bytes left, makes Scan() fail and the path is rejected.  The [prev]/[stuck] arguments are
   kept for the statement of the round-trip lemma only (the pinned tree ignored Scan()'s result and re-used the
   previous token for every missing item). *)
Fixpoint path_items (n : nat) (rest : bytes) (prev : option bytes) (stuck : bool) : res (list bytes) :=
  match n with
  | O => Ok []
  | S k =>
      match rest with
      | _ :: _ :: l :: body =>
          if l <=? len body then
            let nm := takeN l body in
            match path_items k (dropN l body) (Some nm) false with Ok r => Ok (nm :: r) | e => e end
          else Err
      | _ => Err
      end
  end.
Definition impl_dec_path (b : bytes) : res (N * list bytes) :=
  match b with
  | [] => Ok (0, [])                                  (* io.EOF on the count: "no path" *)
  | [_] => Err                                        (* ErrUnexpectedEOF *)
  | a :: c :: rest =>
      match path_items (N.to_nat (dbe16 a c)) rest None false with
      | Ok l => Ok (dbe16 a c, l)
      | Err => Err
      | Panic => Panic
      end
  end.

(* ------------------------------------------------------------------ File resume data *)
Definition NewFileResumeData (forks : list fork_info) : resume_data :=
  mk_rd [82; 70; 76; 84] [0; 1] (repeat 0 34) [0; u8 (len forks)] forks.
Definition impl_bytes_rd (r : resume_data) : bytes :=
  rd_format r ++ rd_version r ++ rd_rsvd r ++ rd_forkcount r ++ concat (map spec_enc_fork (rd_forks r)).
(* UnmarshalBinary: indexes b[0..5], b[40], b[41]; ForkCount[1] forks of 16 bytes; RSVD not copied *)
Definition impl_dec_rd (b : bytes) : res resume_data :=
  match (f <- p_raw 4 ;; v <- p_raw 2 ;; _ <- p_raw 34 ;; fc <- p_raw 2 ;; ret (f, v, fc)) b with
  | None => Panic
  | Some ((f, v, fc), rest) =>
      match p_many (N.to_nat (nth 1 fc 0)) spec_dec_fork rest with
      | Some (fs, _) => Ok (mk_rd f v (repeat 0 34) fc fs)
      | None => Panic
      end
  end.

(* ------------------------------------------------------------------ Flattened file object *)
Definition impl_bytes_ifork (x : info_fork) : bytes :=
  ifork_fixed x ++ be16 (len (ff_name x)) ++ ff_name x ++ ff_commentsize x ++ ff_comment x.
Definition impl_bytes_ffo (x : ffo) : bytes :=
  fo_format x ++ fo_version x ++ fo_rsvd x ++ fo_forkcount x ++
  INFO ++ [0;0;0;0] ++ [0;0;0;0] ++ be32 (len (ff_name (fo_info x)) + len (ff_comment (fo_info x)) + 74) ++
  impl_bytes_ifork (fo_info x) ++ enc_fkh (fo_datahdr x).

(* FlatFileInformationFork.Write / UnmarshalBinary: total := 72 + nameSize in uint16 *)
Definition impl_dec_ifork (p : bytes) : res info_fork :=
  match (a <- p_raw 4 ;; b <- p_raw 4 ;; c <- p_raw 4 ;; d <- p_raw 4 ;; e <- p_raw 4 ;; r <- p_raw 32 ;;
         cd <- p_raw 8 ;; md <- p_raw 8 ;; sc <- p_raw 2 ;; ns <- p_raw 2 ;;
         ret (a, b, c, d, e, r, cd, md, sc, ns)) p with
  | None => Panic
  | Some ((a, b, c, d, e, r, cd, md, sc, ns), rest) =>
      let total := (72 + dbe (ns)) mod 65536 in
      if (total <? 72) || (len p <? total) then Panic
      else let name := takeN (total - 72) rest in
           let after := dropN (total - 72) rest in
           if total <? len p then
             match (cs <- p_raw 2 ;; ret cs) after with
             | None => Panic
             | Some (cs, rest2) =>
                 if dbe cs <=? len rest2
                 then Ok (mk_ifork a b c d e r cd md sc ns name cs (takeN (dbe cs) rest2))
                 else Panic
             end
           else Ok (mk_ifork a b c d e r cd md sc ns name [0; 0] [])
  end.

(* flattenedFileObject.ReadFrom on a byte stream (io.ReadFull / binary.Read: segmentation independent) *)
Definition impl_dec_ffo (s : bytes) : res (ffo * bytes) :=
  match (f <- p_raw 4 ;; v <- p_raw 2 ;; r <- p_raw 16 ;; fc <- p_raw 2 ;; _ <- p_raw 12 ;; sz <- p_u32 ;;
         body <- p_rawN sz ;; ret (f, v, r, fc, body)) s with
  | None => Err
  | Some ((f, v, r, fc, body), rest) =>
      let info := match body with
                  | [] => Ok (mk_ifork [] [] [] [] [] [] [] [] [] [] [] [] [])  (* no Write call at all *)
                  | _ => impl_dec_ifork body
                  end in
      match info with
      | Ok i => match spec_dec_fkh rest with
                | Some (dh, rest') => Ok (mk_ffo f v r fc i dh, rest')
                | None => Err
                end
      | Err => Err
      | Panic => Panic
      end
  end.

(* ------------------------------------------------------------------ News *)
Definition impl_bytes_art (a : news_art) : bytes :=
  na_id a ++ na_ts a ++ na_parent a ++ na_flags a ++ [0; 1] ++
  [u8 (len (na_title a))] ++ na_title a ++ [u8 (len (na_poster a))] ++ na_poster a ++
  [10] ++ TEXT_PLAIN ++ na_size a.
Definition impl_bytes_al (l : art_list) : bytes :=
  al_id l ++ be32 (al_count l) ++ [u8 (len (al_name l))] ++ al_name l ++ [u8 (len (al_desc l))] ++ al_desc l ++
  concat (map impl_bytes_art (al_arts l)).
Definition impl_bytes_cat (c : news_cat) : bytes :=
  be16 (nc_type c) ++ be16 (nc_count c) ++
  (if nc_type c =? 3 then nc_guid c ++ nc_addsn c ++ nc_delsn c else []) ++
  [u8 (len (nc_name c))] ++ nc_name c.

(* ------------------------------------------------------------------ Tracker registration *)
Definition impl_bytes_tr (t : tracker_reg) : bytes :=
  [0; 1] ++ tr_port t ++ be16 (tr_users t) ++ [0; 0] ++ tr_passid t ++
  [u8 (len (tr_name t))] ++ tr_name t ++ [u8 (len (tr_desc t))] ++ tr_desc t ++ [u8 (len (tr_pass t))] ++ tr_pass t.

(* ------------------------------------------------------------------ Account (list-users record) *)
Definition impl_acc_fields (a : account_rec) : list field :=
  [NewField 102 (ac_name a); NewField 105 (obfuscate (ac_login a)); NewField 110 (ac_access a)] ++
  (if ac_haspw a then [NewField 106 [120]] else []).
Definition impl_bytes_acc (a : account_rec) : bytes :=
  be16 (len (impl_acc_fields a)) ++ concat (map impl_bytes_field (impl_acc_fields a)).

(* ------------------------------------------------------------------ small decoders *)
Definition impl_dec_int (d : bytes) : res N :=
  match d with
  | [a; b] => Ok (dbe16 a b)
  | [a; b; c; e] => Ok (dbe32 a b c e)
  | _ => Err
  end.
Definition TRTP : bytes := [84; 82; 84; 80].
Definition HOTL : bytes := [72; 79; 84; 76].
Definition HTXF : bytes := [72; 84; 88; 70].
(* handshake.Write + Valid: exactly 12 bytes, protocol TRTP, sub-protocol HOTL (versions ignored) *)
Definition impl_handshake_ok (p : bytes) : bool :=
  (List.length p =? 12)%nat && bytes_eqb (firstn 4 p) TRTP && bytes_eqb (firstn 4 (skipn 4 p)) HOTL.
(* transfer.Write: 16 bytes via binary.Read, protocol HTXF; returns the reference number *)
Definition impl_dec_transfer (b : bytes) : res bytes :=
  if (List.length b <? 16)%nat then Err
  else if bytes_eqb (firstn 4 b) HTXF then Ok (firstn 4 (skipn 4 b)) else Err.
