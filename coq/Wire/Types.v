(* Wire objects of package hotline: records mirroring the Go structs (projected to what is observable),
   well-formedness (= "fits its wire length prefixes"), and the REFERENCE encoders/decoders written from
   the protocol document (spec/wire-layouts.md), independent of the Go code. *)
From Verif Require Import Base.Bytes Wire.Parse.

Definition sumN (l : list N) : N := fold_right N.add 0 l.
Definition fixed (n : nat) (b : bytes) : Prop := List.length b = n /\ bytes_ok b.

(* ------------------------------------------------------------------ Field *)
Record field := mk_field { f_type : N; f_size : N (* stored FieldSize *); f_data : bytes }.
Definition field_wf (f : field) : Prop :=
  f_type f < 65536 /\ f_size f = len (f_data f) /\ len (f_data f) < 65536 /\ bytes_ok (f_data f).
Definition spec_enc_field (f : field) : bytes := be16 (f_type f) ++ be16 (len (f_data f)) ++ f_data f.
Definition spec_dec_field : parser field :=
  t <- p_u16 ;; d <- p_len16 ;; ret (mk_field t (len d) d).

(* ------------------------------------------------------------------ Transaction *)
Record transaction := mk_tran {
  t_flags : N; t_isreply : N; t_type : N; t_id : N; t_err : N; t_fields : list field }.
Definition payload_size (fs : list field) : N := 2 + sumN (map (fun f => 4 + len (f_data f)) fs).
Definition tran_wf (t : transaction) : Prop :=
  t_flags t < 256 /\ t_isreply t < 256 /\ t_type t < 65536 /\ t_id t < 4294967296 /\ t_err t < 4294967296 /\
  Forall field_wf (t_fields t) /\ len (t_fields t) < 65536 /\ payload_size (t_fields t) + 20 < 4294967296.
Definition spec_enc_fields (fs : list field) : bytes := concat (map spec_enc_field fs).
Definition spec_enc_tran (t : transaction) : bytes :=
  [t_flags t; t_isreply t] ++ be16 (t_type t) ++ be32 (t_id t) ++ be32 (t_err t) ++
  be32 (payload_size (t_fields t)) ++ be32 (payload_size (t_fields t)) ++
  be16 (len (t_fields t)) ++ spec_enc_fields (t_fields t).
Definition spec_dec_body : parser (list field) :=
  n <- p_u16 ;; fs <- p_many (N.to_nat n) spec_dec_field ;; _ <- p_end ;; ret fs.
Definition spec_dec_tran : parser transaction :=
  fl <- p_u8 ;; ir <- p_u8 ;; ty <- p_u16 ;; id <- p_u32 ;; er <- p_u32 ;;
  tot <- p_u32 ;; dsz <- p_u32 ;; body <- p_rawN tot ;;
  fun rest => if tot =? dsz then
                match spec_dec_body body with
                | Some (fs, _) => Some (mk_tran fl ir ty id er fs, rest)
                | None => None
                end
              else None.

(* ------------------------------------------------------------------ User name with info *)
Record user := mk_user { u_id : N; u_icon : bytes; u_flags : bytes; u_name : bytes }.
Definition user_wf (u : user) : Prop :=
  u_id u < 65536 /\ fixed 2 (u_icon u) /\ fixed 2 (u_flags u) /\ len (u_name u) < 65536 /\ bytes_ok (u_name u).
Definition spec_enc_user (u : user) : bytes :=
  be16 (u_id u) ++ u_icon u ++ u_flags u ++ be16 (len (u_name u)) ++ u_name u.
Definition spec_dec_user : parser user :=
  i <- p_u16 ;; ic <- p_raw 2 ;; fl <- p_raw 2 ;; n <- p_len16 ;; ret (mk_user i ic fl n).

(* ------------------------------------------------------------------ File name with info *)
Record fnwi := mk_fnwi {
  fn_type : bytes; fn_creator : bytes; fn_fsize : bytes; fn_rsvd : bytes; fn_script : bytes;
  fn_namesize : N (* stored NameSize *); fn_name : bytes }.
Definition fnwi_wf (x : fnwi) : Prop :=
  fixed 4 (fn_type x) /\ fixed 4 (fn_creator x) /\ fixed 4 (fn_fsize x) /\ fixed 4 (fn_rsvd x) /\
  fixed 2 (fn_script x) /\ fn_namesize x = len (fn_name x) /\ len (fn_name x) < 65536 /\ bytes_ok (fn_name x).
Definition spec_enc_fnwi (x : fnwi) : bytes :=
  fn_type x ++ fn_creator x ++ fn_fsize x ++ fn_rsvd x ++ fn_script x ++ be16 (len (fn_name x)) ++ fn_name x.
Definition spec_dec_fnwi : parser fnwi :=
  t <- p_raw 4 ;; c <- p_raw 4 ;; s <- p_raw 4 ;; r <- p_raw 4 ;; sc <- p_raw 2 ;; n <- p_len16 ;;
  ret (mk_fnwi t c s r sc (len n) n).

(* ------------------------------------------------------------------ File path *)
Definition path_item_wf (n : bytes) : Prop := len n < 256 /\ bytes_ok n.
Definition spec_enc_path_item (n : bytes) : bytes := [0; 0] ++ [len n] ++ n.
Definition spec_enc_path (items : list bytes) : bytes :=
  be16 (len items) ++ concat (map spec_enc_path_item items).
Definition spec_dec_path_item : parser bytes := _ <- p_raw 2 ;; p_len8.
Definition spec_dec_path : parser (list bytes) := n <- p_u16 ;; p_many (N.to_nat n) spec_dec_path_item.

(* folder item header: Size(2) = n(rest) . Type(2) . path *)
Record file_header := mk_fh { fh_size : N (* stored *); fh_type : N; fh_path : bytes }.
Definition fh_wf (h : file_header) : Prop :=
  fh_size h = len (fh_path h) + 2 /\ len (fh_path h) + 2 < 65536 /\ fh_type h < 65536 /\ bytes_ok (fh_path h).
Definition spec_enc_fh (h : file_header) : bytes := be16 (len (fh_path h) + 2) ++ be16 (fh_type h) ++ fh_path h.
Definition spec_dec_fh : parser file_header :=
  sz <- p_u16 ;; body <- p_rawN sz ;;
  fun rest => match body with
              | a :: b :: p => Some (mk_fh sz (dbe16 a b) p, rest)
              | _ => None
              end.

(* ------------------------------------------------------------------ File resume data *)
Record fork_info := mk_fork { fk_type : bytes; fk_size : bytes; fk_ra : bytes; fk_rb : bytes }.
Record resume_data := mk_rd {
  rd_format : bytes; rd_version : bytes; rd_rsvd : bytes; rd_forkcount : bytes; rd_forks : list fork_info }.
Definition fork_wf (f : fork_info) : Prop :=
  fixed 4 (fk_type f) /\ fixed 4 (fk_size f) /\ fixed 4 (fk_ra f) /\ fixed 4 (fk_rb f).
Definition rd_wf (r : resume_data) : Prop :=
  fixed 4 (rd_format r) /\ fixed 2 (rd_version r) /\ rd_rsvd r = repeat 0 34 /\
  rd_forkcount r = [0; len (rd_forks r)] /\ len (rd_forks r) < 256 /\ Forall fork_wf (rd_forks r).
Definition spec_enc_fork (f : fork_info) : bytes := fk_type f ++ fk_size f ++ fk_ra f ++ fk_rb f.
Definition spec_enc_rd (r : resume_data) : bytes :=
  rd_format r ++ rd_version r ++ repeat 0 34 ++ be16 (len (rd_forks r)) ++ concat (map spec_enc_fork (rd_forks r)).
Definition spec_dec_fork : parser fork_info :=
  a <- p_raw 4 ;; b <- p_raw 4 ;; c <- p_raw 4 ;; d <- p_raw 4 ;; ret (mk_fork a b c d).
Definition spec_dec_rd : parser resume_data :=
  f <- p_raw 4 ;; v <- p_raw 2 ;; _ <- p_raw 34 ;; n <- p_u16 ;; fs <- p_many (N.to_nat n) spec_dec_fork ;;
  ret (mk_rd f v (repeat 0 34) (be16 n) fs).

(* ------------------------------------------------------------------ Flattened file object *)
Record info_fork := mk_ifork {
  ff_platform : bytes; ff_type : bytes; ff_creator : bytes; ff_flags : bytes; ff_pflags : bytes;
  ff_rsvd : bytes; ff_create : bytes; ff_modify : bytes; ff_script : bytes;
  ff_namesize : bytes (* stored NameSize, not used on output *); ff_name : bytes;
  ff_commentsize : bytes (* stored CommentSize, used on output *); ff_comment : bytes }.
Definition ifork_wf (x : info_fork) : Prop :=
  fixed 4 (ff_platform x) /\ fixed 4 (ff_type x) /\ fixed 4 (ff_creator x) /\ fixed 4 (ff_flags x) /\
  fixed 4 (ff_pflags x) /\ fixed 32 (ff_rsvd x) /\ fixed 8 (ff_create x) /\ fixed 8 (ff_modify x) /\
  fixed 2 (ff_script x) /\ ff_namesize x = be16 (len (ff_name x)) /\ len (ff_name x) + 72 < 65536 /\
  bytes_ok (ff_name x) /\ ff_commentsize x = be16 (len (ff_comment x)) /\ len (ff_comment x) < 65536 /\
  bytes_ok (ff_comment x).
Definition ifork_fixed (x : info_fork) : bytes :=
  ff_platform x ++ ff_type x ++ ff_creator x ++ ff_flags x ++ ff_pflags x ++ ff_rsvd x ++
  ff_create x ++ ff_modify x ++ ff_script x.
Definition spec_enc_ifork (x : info_fork) : bytes :=
  ifork_fixed x ++ be16 (len (ff_name x)) ++ ff_name x ++ be16 (len (ff_comment x)) ++ ff_comment x.
Definition spec_dec_ifork : parser info_fork :=
  a <- p_raw 4 ;; b <- p_raw 4 ;; c <- p_raw 4 ;; d <- p_raw 4 ;; e <- p_raw 4 ;; r <- p_raw 32 ;;
  cd <- p_raw 8 ;; md <- p_raw 8 ;; sc <- p_raw 2 ;; n <- p_len16 ;; cm <- p_len16 ;;
  ret (mk_ifork a b c d e r cd md sc (be16 (len n)) n (be16 (len cm)) cm).

Record fork_header := mk_fkh { fh_ftype : bytes; fh_comp : bytes; fh_frsvd : bytes; fh_dsize : bytes }.
Definition fkh_wf (h : fork_header) : Prop :=
  fixed 4 (fh_ftype h) /\ fixed 4 (fh_comp h) /\ fixed 4 (fh_frsvd h) /\ fixed 4 (fh_dsize h).
Definition enc_fkh (h : fork_header) : bytes := fh_ftype h ++ fh_comp h ++ fh_frsvd h ++ fh_dsize h.
Record ffo := mk_ffo {
  fo_format : bytes; fo_version : bytes; fo_rsvd : bytes; fo_forkcount : bytes;
  fo_info : info_fork; fo_datahdr : fork_header }.
Definition ffo_wf (x : ffo) : Prop :=
  fixed 4 (fo_format x) /\ fixed 2 (fo_version x) /\ fixed 16 (fo_rsvd x) /\ fixed 2 (fo_forkcount x) /\
  ifork_wf (fo_info x) /\ fkh_wf (fo_datahdr x).
Definition INFO : bytes := [73; 78; 70; 79].
Definition info_size (x : info_fork) : N := len (ff_name x) + len (ff_comment x) + 74.
Definition spec_enc_ffo (x : ffo) : bytes :=
  fo_format x ++ fo_version x ++ fo_rsvd x ++ fo_forkcount x ++
  INFO ++ [0;0;0;0] ++ [0;0;0;0] ++ be32 (len (spec_enc_ifork (fo_info x))) ++
  spec_enc_ifork (fo_info x) ++ enc_fkh (fo_datahdr x).
Definition spec_dec_fkh : parser fork_header :=
  a <- p_raw 4 ;; b <- p_raw 4 ;; c <- p_raw 4 ;; d <- p_raw 4 ;; ret (mk_fkh a b c d).
Definition spec_dec_ffo : parser ffo :=
  f <- p_raw 4 ;; v <- p_raw 2 ;; r <- p_raw 16 ;; fc <- p_raw 2 ;;
  _ <- p_lit INFO ;; _ <- p_raw 8 ;; sz <- p_u32 ;; body <- p_rawN sz ;; dh <- spec_dec_fkh ;;
  fun rest => match spec_dec_ifork body with
              | Some (i, []) => Some (mk_ffo f v r fc i dh, rest)
              | _ => None
              end.

(* ------------------------------------------------------------------ News *)
Record news_art := mk_art {
  na_id : bytes; na_ts : bytes; na_parent : bytes; na_flags : bytes;
  na_title : bytes; na_poster : bytes; na_size : bytes }.
Definition art_wf (a : news_art) : Prop :=
  fixed 4 (na_id a) /\ fixed 8 (na_ts a) /\ fixed 4 (na_parent a) /\ fixed 4 (na_flags a) /\
  len (na_title a) < 256 /\ bytes_ok (na_title a) /\ len (na_poster a) < 256 /\ bytes_ok (na_poster a) /\
  fixed 2 (na_size a).
Definition TEXT_PLAIN : bytes := [116;101;120;116;47;112;108;97;105;110].
Definition spec_enc_art (a : news_art) : bytes :=
  na_id a ++ na_ts a ++ na_parent a ++ na_flags a ++ [0; 1] ++
  [len (na_title a)] ++ na_title a ++ [len (na_poster a)] ++ na_poster a ++
  [10] ++ TEXT_PLAIN ++ na_size a.
Definition spec_dec_art : parser news_art :=
  i <- p_raw 4 ;; ts <- p_raw 8 ;; p <- p_raw 4 ;; fl <- p_raw 4 ;; _ <- p_lit [0; 1] ;;
  t <- p_len8 ;; po <- p_len8 ;; _ <- p_lit ([10] ++ TEXT_PLAIN) ;; sz <- p_raw 2 ;;
  ret (mk_art i ts p fl t po sz).

Record art_list := mk_al { al_id : bytes; al_count : N (* stored *); al_name : bytes; al_desc : bytes;
                           al_arts : list news_art }.
Definition al_wf (l : art_list) : Prop :=
  fixed 4 (al_id l) /\ al_count l = len (al_arts l) /\ len (al_arts l) < 4294967296 /\
  len (al_name l) < 256 /\ bytes_ok (al_name l) /\ len (al_desc l) < 256 /\ bytes_ok (al_desc l) /\
  Forall art_wf (al_arts l).
Definition spec_enc_al (l : art_list) : bytes :=
  al_id l ++ be32 (len (al_arts l)) ++ [len (al_name l)] ++ al_name l ++ [len (al_desc l)] ++ al_desc l ++
  concat (map spec_enc_art (al_arts l)).
Definition spec_dec_al : parser art_list :=
  i <- p_raw 4 ;; c <- p_u32 ;; n <- p_len8 ;; d <- p_len8 ;; arts <- p_many (N.to_nat c) spec_dec_art ;;
  ret (mk_al i c n d arts).

Record news_cat := mk_cat { nc_type : N; nc_count : N; nc_guid : bytes; nc_addsn : bytes; nc_delsn : bytes;
                            nc_name : bytes }.
Definition cat_wf (c : news_cat) : Prop :=
  (nc_type c = 2 \/ nc_type c = 3) /\ nc_count c < 65536 /\
  (nc_type c = 3 -> fixed 16 (nc_guid c) /\ fixed 4 (nc_addsn c) /\ fixed 4 (nc_delsn c)) /\
  (nc_type c = 2 -> nc_guid c = [] /\ nc_addsn c = [] /\ nc_delsn c = []) /\
  len (nc_name c) < 256 /\ bytes_ok (nc_name c).
Definition spec_enc_cat (c : news_cat) : bytes :=
  be16 (nc_type c) ++ be16 (nc_count c) ++
  (if nc_type c =? 3 then nc_guid c ++ nc_addsn c ++ nc_delsn c else []) ++
  [len (nc_name c)] ++ nc_name c.
Definition spec_dec_cat : parser news_cat :=
  t <- p_u16 ;; c <- p_u16 ;;
  if t =? 3 then g <- p_raw 16 ;; a <- p_raw 4 ;; d <- p_raw 4 ;; n <- p_len8 ;; ret (mk_cat t c g a d n)
  else n <- p_len8 ;; ret (mk_cat t c [] [] [] n).

(* ------------------------------------------------------------------ Tracker registration *)
Record tracker_reg := mk_tr { tr_port : bytes; tr_users : N; tr_passid : bytes; tr_name : bytes;
                              tr_desc : bytes; tr_pass : bytes }.
Definition tr_wf (t : tracker_reg) : Prop :=
  fixed 2 (tr_port t) /\ tr_users t < 65536 /\ fixed 4 (tr_passid t) /\
  len (tr_name t) < 256 /\ bytes_ok (tr_name t) /\ len (tr_desc t) < 256 /\ bytes_ok (tr_desc t) /\
  len (tr_pass t) < 256 /\ bytes_ok (tr_pass t).
Definition spec_enc_tr (t : tracker_reg) : bytes :=
  [0; 1] ++ tr_port t ++ be16 (tr_users t) ++ [0; 0] ++ tr_passid t ++
  [len (tr_name t)] ++ tr_name t ++ [len (tr_desc t)] ++ tr_desc t ++ [len (tr_pass t)] ++ tr_pass t.
Definition spec_dec_tr : parser tracker_reg :=
  _ <- p_lit [0; 1] ;; p <- p_raw 2 ;; u <- p_u16 ;; _ <- p_lit [0; 0] ;; pid <- p_raw 4 ;;
  n <- p_len8 ;; d <- p_len8 ;; pw <- p_len8 ;; ret (mk_tr p u pid n d pw).

(* ------------------------------------------------------------------ List-users record (Account) *)
Record account_rec := mk_acc { ac_name : bytes; ac_login : bytes; ac_access : bytes; ac_haspw : bool }.
Definition acc_wf (a : account_rec) : Prop :=
  len (ac_name a) < 65536 /\ bytes_ok (ac_name a) /\ len (ac_login a) < 65536 /\ bytes_ok (ac_login a) /\
  fixed 8 (ac_access a).
Definition acc_fields (a : account_rec) : list field :=
  [mk_field 102 (len (ac_name a)) (ac_name a);
   mk_field 105 (len (ac_login a)) (obfuscate (ac_login a));
   mk_field 110 8 (ac_access a)] ++
  (if ac_haspw a then [mk_field 106 1 [120]] else []).
Definition spec_enc_acc (a : account_rec) : bytes :=
  be16 (len (acc_fields a)) ++ spec_enc_fields (acc_fields a).
Definition spec_dec_acc : parser account_rec :=
  n <- p_u16 ;; fs <- p_many (N.to_nat n) spec_dec_field ;;
  fun rest => match fs with
              | f1 :: f2 :: f3 :: more =>
                  if (f_type f1 =? 102) && (f_type f2 =? 105) && (f_type f3 =? 110) then
                    match more with
                    | [] => Some (mk_acc (f_data f1) (obfuscate (f_data f2)) (f_data f3) false, rest)
                    | [f4] => if (f_type f4 =? 106) && bytes_eqb (f_data f4) [120]
                              then Some (mk_acc (f_data f1) (obfuscate (f_data f2)) (f_data f3) true, rest)
                              else None
                    | _ => None
                    end
                  else None
              | _ => None
              end.

(* ------------------------------------------------------------------ Date *)
Definition spec_enc_time (year secs : N) : bytes := be16 year ++ [0; 0] ++ be32 secs.
