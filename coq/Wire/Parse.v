(* Parser combinators over byte lists and their inversion lemmas (used by the reference decoders). *)
From Verif Require Import Base.Bytes.

Definition parser (A : Type) := bytes -> option (A * bytes).
Definition ret {A} (a : A) : parser A := fun s => Some (a, s).
Definition bind {A B} (p : parser A) (f : A -> parser B) : parser B :=
  fun s => match p s with Some (a, r) => f a r | None => None end.
Notation "x <- p ;; q" := (bind p (fun x => q)) (at level 60, p at next level, right associativity).
Notation "' pat <- p ;; q" := (bind p (fun x => match x with pat => q end))
  (at level 60, pat pattern, p at next level, right associativity).

Definition p_raw (n : nat) : parser bytes :=
  fun s => if (n <=? List.length s)%nat then Some (firstn n s, skipn n s) else None.
Definition p_rawN (n : N) : parser bytes :=
  fun s => if n <=? len s then Some (takeN n s, dropN n s) else None.
Definition p_u8 : parser N := fun s => match s with a :: r => Some (a, r) | _ => None end.
Definition p_u16 : parser N := fun s => match s with a :: b :: r => Some (dbe16 a b, r) | _ => None end.
Definition p_u32 : parser N :=
  fun s => match s with a :: b :: c :: d :: r => Some (dbe32 a b c d, r) | _ => None end.
Definition p_len8 : parser bytes := n <- p_u8 ;; p_rawN n.
Definition p_len16 : parser bytes := n <- p_u16 ;; p_rawN n.
Definition p_lit (l : bytes) : parser unit :=
  fun s => if bytes_eqb (firstn (List.length l) s) l then Some (tt, skipn (List.length l) s) else None.
Fixpoint p_many {A} (n : nat) (p : parser A) : parser (list A) :=
  match n with
  | O => ret []
  | S k => a <- p ;; r <- p_many k p ;; ret (a :: r)
  end.
Definition p_end : parser unit := fun s => match s with [] => Some (tt, []) | _ => None end.

(* ---- inversion lemmas ---- *)
Lemma p_raw_app n v r : List.length v = n -> p_raw n (v ++ r) = Some (v, r).
Proof.
  intros <-. unfold p_raw. rewrite app_length.
  replace (List.length v <=? List.length v + List.length r)%nat with true by (symmetry; apply Nat.leb_le; lia).
  now rewrite firstn_app_exact, skipn_app_exact.
Qed.

Lemma p_rawN_app v r : p_rawN (len v) (v ++ r) = Some (v, r).
Proof.
  unfold p_rawN, takeN, dropN, len. rewrite app_length, Nat2N.id.
  replace (N.of_nat (List.length v) <=? N.of_nat (List.length v + List.length r)) with true by lia.
  now rewrite firstn_app_exact, skipn_app_exact.
Qed.

Lemma p_u8_app n r : p_u8 (n :: r) = Some (n, r).
Proof. reflexivity. Qed.

Lemma p_u16_be16 n r : n < 65536 -> p_u16 (be16 n ++ r) = Some (n, r).
Proof. intros H. destruct (be16_parts n H) as (a & b & -> & _ & _ & E). cbn. now rewrite E. Qed.

Lemma p_u32_be32 n r : n < 4294967296 -> p_u32 (be32 n ++ r) = Some (n, r).
Proof. intros H. destruct (be32_parts n H) as (a & b & c & d & -> & _ & _ & _ & _ & E). cbn. now rewrite E. Qed.

Lemma p_len8_enc v r : len v < 256 -> p_len8 ([len v] ++ v ++ r) = Some (v, r).
Proof. intros H. unfold p_len8, bind. cbn [app p_u8]. apply p_rawN_app. Qed.

Lemma p_len8_cons v r : len v < 256 -> p_len8 (len v :: v ++ r) = Some (v, r).
Proof. exact (p_len8_enc v r). Qed.

Lemma p_len16_enc v r : len v < 65536 -> p_len16 (be16 (len v) ++ v ++ r) = Some (v, r).
Proof. intros H. unfold p_len16, bind. rewrite p_u16_be16 by exact H. apply p_rawN_app. Qed.

Lemma p_lit_app l r : p_lit l (l ++ r) = Some (tt, r).
Proof. unfold p_lit. now rewrite firstn_app_exact, bytes_eqb_refl, skipn_app_exact. Qed.

(* running p_many over a concatenation of encodings *)
Lemma p_many_enc {A} (p : parser A) (enc : A -> bytes) (ok : A -> Prop) :
  (forall a r, ok a -> p (enc a ++ r) = Some (a, r)) ->
  forall l r, Forall ok l -> p_many (List.length l) p (concat (map enc l) ++ r) = Some (l, r).
Proof.
  intros Hp. induction l as [|a l IH]; intros r Hl; cbn [List.length p_many map concat].
  - reflexivity.
  - inversion Hl; subst. unfold bind. rewrite <- app_assoc, Hp by assumption.
    rewrite IH by assumption. reflexivity.
Qed.

(* obfuscation: EncodeString = bytewise 255 - b *)
Definition obfuscate (l : bytes) : bytes := map (fun b => 255 - b) l.
Lemma obfuscate_involutive l : bytes_ok l -> obfuscate (obfuscate l) = l.
Proof.
  unfold obfuscate, bytes_ok. induction 1 as [|x r Hx _ IH]; cbn [map]; [reflexivity|].
  rewrite IH. f_equal. lia.
Qed.
Lemma obfuscate_length l : List.length (obfuscate l) = List.length l.
Proof. apply map_length. Qed.
Lemma obfuscate_ok l : bytes_ok l -> bytes_ok (obfuscate l).
Proof. unfold obfuscate, bytes_ok. intros H. apply Forall_map. eapply Forall_impl; [|exact H]. cbn. intros; lia. Qed.
