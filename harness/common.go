package main

import (
	"bytes"
	"crypto/sha256"
	"encoding/hex"
	"encoding/json"
	"fmt"
	"io"
	"log/slog"
	"os"
	"path/filepath"
	"sort"
	"strings"
	"sync"
	"time"

	"github.com/jhalter/mobius/hotline"
	"github.com/jhalter/mobius/internal/mobius"
)

// ---------------------------------------------------------------------------------------------
// PRNG: one splitmix64 state; every random choice of a run derives from it.

type Rng struct{ s uint64 }

func NewRng(seed uint64) *Rng { return &Rng{s: seed*0x9E3779B97F4A7C15 + 0x1234567} }
func (r *Rng) U64() uint64 {
	r.s += 0x9E3779B97F4A7C15
	z := r.s
	z = (z ^ (z >> 30)) * 0xBF58476D1CE4E5B9
	z = (z ^ (z >> 27)) * 0x94D049BB133111EB
	return z ^ (z >> 31)
}
func (r *Rng) Intn(n int) int {
	if n <= 0 {
		return 0
	}
	return int(r.U64() % uint64(n))
}
func (r *Rng) Bool() bool { return r.U64()&1 == 1 }
func (r *Rng) Bytes(n int) []byte {
	b := make([]byte, n)
	for i := range b {
		b[i] = byte(r.U64())
	}
	return b
}
func (r *Rng) Pick(xs ...int) int { return xs[r.Intn(len(xs))] }

// Perm returns a permutation of 0..n-1 (Fisher-Yates from this generator's state)
func (r *Rng) Perm(n int) []int {
	p := make([]int, n)
	for i := range p {
		p[i] = i
	}
	for i := n - 1; i > 0; i-- {
		j := r.Intn(i + 1)
		p[i], p[j] = p[j], p[i]
	}
	return p
}

// Fork derives an independent stream (so adding a generator does not shift the others).
func (r *Rng) Fork(tag string) *Rng {
	h := sha256.Sum256([]byte(fmt.Sprintf("%d/%s", r.s, tag)))
	var s uint64
	for i := 0; i < 8; i++ {
		s = s<<8 | uint64(h[i])
	}
	return &Rng{s: s}
}

// ---------------------------------------------------------------------------------------------
// Cases: generic format shared with coq/Corr/Case.v

type Op struct {
	Code    int      `json:"code"`
	Name    string   `json:"name,omitempty"`
	Args    [][]byte `json:"-"`
	ArgsHex []string `json:"args"`
}

type Case struct {
	Idx        int        `json:"idx"`
	Kind       string     `json:"kind"` // generator profile / signature class
	Ops        []Op       `json:"ops"`
	Obs        [][][]byte `json:"-"` // per op: list of observed byte strings
	ObsHex     [][]string `json:"obs"`
	NonTrivial bool       `json:"nontrivial"`
	Note       string     `json:"note,omitempty"`
}

func mkOp(code int, name string, args ...[]byte) Op {
	return Op{Code: code, Name: name, Args: args}
}

type CaseSet struct {
	Property string
	Seed     uint64
	Tier     string
	Cases    []Case
	Dist     map[string]int
	Rule     string
	Extra    map[string]interface{}
	mu       sync.Mutex
}

func NewCaseSet(prop string, seed uint64, tier string) *CaseSet {
	return &CaseSet{Property: prop, Seed: seed, Tier: tier, Dist: map[string]int{}, Extra: map[string]interface{}{}}
}

func (cs *CaseSet) Add(c Case) {
	cs.mu.Lock()
	defer cs.mu.Unlock()
	c.Idx = len(cs.Cases)
	cs.Cases = append(cs.Cases, c)
	cs.Dist["kind:"+c.Kind]++
}
func (cs *CaseSet) Count(key string) { cs.mu.Lock(); cs.Dist[key]++; cs.mu.Unlock() }

func hx(b []byte) string { return hex.EncodeToString(b) }

func coqStr(s string) string { return "\"" + s + "\"" }

// patBytes is the deterministic pattern shared with Base/Bytes.v (pattern): compact transport of large inputs.
func patBytes(n int, seed byte) []byte {
	b := make([]byte, n)
	for i := range b {
		b[i] = byte((int(seed) + 31*i + i/256) % 256)
	}
	return b
}

func isPattern(b []byte) bool {
	if len(b) < 128 {
		return false
	}
	return bytes.Equal(b, patBytes(len(b), b[0]))
}

func digest(b []byte) uint64 {
	var s1, s2 uint64
	for _, x := range b {
		s1 = (s1 + uint64(x) + 1) & 0xffffffff
		s2 = (s2 + s1) & 0xffffffff
	}
	return s2<<32 | s1
}

// argStr: inputs travel as hex, with embedded pattern runs ("!LLLLLLLLSS") where the bytes follow patBytes
func argStr(b []byte) string {
	var sb strings.Builder
	i := 0
	for i < len(b) {
		// how far does a pattern starting here (seed b[i]) extend?
		seed := int(b[i])
		j := 0
		for i+j < len(b) && int(b[i+j]) == (seed+31*j+j/256)%256 {
			j++
		}
		if j >= 128 {
			fmt.Fprintf(&sb, "!%08x%02x", j, seed)
			i += j
			continue
		}
		sb.WriteString(hex.EncodeToString(b[i : i+1]))
		i++
	}
	return sb.String()
}

// obsStr: large observations travel as length + digest
// observations longer than this travel as length + digest (VERIF_NODIGEST=1 keeps them whole, for debugging)
var digestAbove = func() int {
	if os.Getenv("VERIF_NODIGEST") != "" {
		return 1 << 30
	}
	return 1024
}()

func obsStr(b []byte) string {
	if len(b) > digestAbove {
		return fmt.Sprintf("#%08x%016x", len(b), digest(b))
	}
	return hx(b)
}

func coqStrList(bs [][]byte, f func([]byte) string) string {
	parts := make([]string, len(bs))
	for i, b := range bs {
		parts[i] = coqStr(f(b))
	}
	return "[" + strings.Join(parts, "; ") + "]"
}

// WriteCoq writes cases_<k>.v shards (at most shardSize cases each); the driver evaluates them in parallel.
const shardSize = 80

func (cs *CaseSet) WriteCoq(dir string, corrModule string) error {
	n := len(cs.Cases)
	for k := 0; k*shardSize < n || k == 0; k++ {
		lo, hi := k*shardSize, (k+1)*shardSize
		if hi > n {
			hi = n
		}
		var b bytes.Buffer
		fmt.Fprintf(&b, "From Verif Require Import Base.Bytes Corr.Case %s.\nFrom Coq Require Import String.\nOpen Scope string_scope.\n", corrModule)
		fmt.Fprintf(&b, "Definition cases : list case := [\n")
		for i := lo; i < hi; i++ {
			c := cs.Cases[i]
			ops := make([]string, len(c.Ops))
			for j, o := range c.Ops {
				ops[j] = fmt.Sprintf("Op %d %s", o.Code, coqStrList(o.Args, argStr))
			}
			obs := make([]string, len(c.Obs))
			for j, o := range c.Obs {
				obs[j] = coqStrList(o, obsStr)
			}
			sep := ";"
			if i == hi-1 {
				sep = ""
			}
			fmt.Fprintf(&b, "  mk_case %d [%s] [%s]%s\n", c.Idx, strings.Join(ops, "; "), strings.Join(obs, "; "), sep)
		}
		fmt.Fprintf(&b, "].\n")
		fmt.Fprintf(&b, "Definition M := Eval vm_compute in firstn 40 (mismatches model cases).\nPrint M.\n")
		fmt.Fprintf(&b, "Definition S := Eval vm_compute in firstn 40 (spec_failures oracle cases).\nPrint S.\n")
		fmt.Fprintf(&b, "Definition NC := Eval vm_compute in List.length cases.\nPrint NC.\n")
		if err := os.WriteFile(filepath.Join(dir, fmt.Sprintf("cases_%03d.v", k)), b.Bytes(), 0644); err != nil {
			return err
		}
	}
	return nil
}

func (cs *CaseSet) WriteJSON(path string) error {
	distinct := map[string]bool{}
	nontrivial := 0
	for i := range cs.Cases {
		c := &cs.Cases[i]
		for j := range c.Ops {
			c.Ops[j].ArgsHex = nil
			for _, a := range c.Ops[j].Args {
				c.Ops[j].ArgsHex = append(c.Ops[j].ArgsHex, argStr(a))
			}
		}
		c.ObsHex = nil
		for _, o := range c.Obs {
			var l []string
			for _, x := range o {
				l = append(l, obsStr(x))
			}
			c.ObsHex = append(c.ObsHex, l)
		}
		// distinct by canonical input
		h := sha256.New()
		for _, o := range c.Ops {
			fmt.Fprintf(h, "%d|", o.Code)
			for _, a := range o.Args {
				fmt.Fprintf(h, "%d:", len(a))
				h.Write(a)
			}
		}
		key := hx(h.Sum(nil))
		if c.NonTrivial && !distinct[key] {
			distinct[key] = true
			nontrivial++
		}
	}
	out := map[string]interface{}{
		"property":            cs.Property,
		"seed":                cs.Seed,
		"tier":                cs.Tier,
		"distribution":        cs.Dist,
		"rule":                cs.Rule,
		"evaluations":         len(cs.Cases),
		"distinct_nontrivial": nontrivial,
		"extra":               cs.Extra,
		"cases":               cs.Cases,
	}
	f, err := os.Create(path)
	if err != nil {
		return err
	}
	defer f.Close()
	enc := json.NewEncoder(f)
	return enc.Encode(out)
}

// ---------------------------------------------------------------------------------------------
// A real server wired with the real managers on a sandbox directory.

type Env struct {
	Dir       string // sandbox: Dir/cfg (config dir), Dir/cfg/Files (file root)
	Cfg       string
	FileRoot  string
	Srv       *hotline.Server
	SeqOutbox bool
	stopDrain chan struct{}
	Sent      []hotline.Transaction // transactions drained from the outbox (direct mode)
	sentMu    sync.Mutex
	drainWG   sync.WaitGroup
}

var discardLogger = slog.New(slog.NewTextHandler(io.Discard, nil))

func must(err error) {
	if err != nil {
		panic(err)
	}
}

type EnvOpts struct {
	Accounts  []hotline.Account // written as YAML (named format) before the manager loads
	Agreement string
	Board     string
	Preserve  bool
	NoGuest   bool
}

func writeAccountFile(dir string, a hotline.Account) {
	// the manager's own Create is used after construction; here only a bootstrap guest file is written by hand
	must(os.WriteFile(filepath.Join(dir, a.Login+".yaml"), mustYAML(a), 0644))
}

func NewEnv(dir string, o EnvOpts) *Env {
	must(os.RemoveAll(dir))
	cfg := filepath.Join(dir, "cfg")
	must(os.MkdirAll(filepath.Join(cfg, "Users"), 0755))
	must(os.MkdirAll(filepath.Join(cfg, "Files"), 0755))
	must(os.WriteFile(filepath.Join(cfg, "MessageBoard.txt"), []byte(o.Board), 0644))
	must(os.WriteFile(filepath.Join(cfg, "Agreement.txt"), []byte(o.Agreement), 0644))
	must(os.WriteFile(filepath.Join(cfg, "ThreadedNews.yaml"), []byte("Categories: {}\n"), 0644))
	if !o.NoGuest {
		g := hotline.NewAccount("guest", "Guest User", "", hotline.AccessBitmap{})
		writeAccountFile(filepath.Join(cfg, "Users"), *g)
	}
	for _, a := range o.Accounts {
		writeAccountFile(filepath.Join(cfg, "Users"), a)
	}
	e := &Env{Dir: dir, Cfg: cfg, FileRoot: filepath.Join(cfg, "Files")}
	e.Load(o)
	return e
}

// Load (re)constructs the server from the sandbox directory ("restart").
func (e *Env) Load(o EnvOpts) {
	conf := hotline.Config{Name: "verif", Description: "verif", FileRoot: e.FileRoot, PreserveResourceForks: o.Preserve}
	srv, err := hotline.NewServer(hotline.WithConfig(conf), hotline.WithLogger(discardLogger))
	must(err)
	srv.MessageBoard, err = mobius.NewFlatNews(filepath.Join(e.Cfg, "MessageBoard.txt"))
	must(err)
	srv.BanList, err = mobius.NewBanFile(filepath.Join(e.Cfg, "Banlist.yaml"))
	must(err)
	srv.ThreadedNewsMgr, err = mobius.NewThreadedNewsYAML(filepath.Join(e.Cfg, "ThreadedNews.yaml"))
	must(err)
	srv.AccountManager, err = mobius.NewYAMLAccountManager(filepath.Join(e.Cfg, "Users") + "/")
	must(err)
	srv.Agreement, err = mobius.NewAgreement(e.Cfg, "\r")
	must(err)
	mobius.RegisterHandlers(srv)
	e.Srv = srv
}

// StartDrain collects everything sent to the outbox (direct mode: nothing is written to connections).
func (e *Env) StartDrain() {
	e.stopDrain = make(chan struct{})
	ch := e.Srv.VerifOutbox()
	e.drainWG.Add(1)
	go func() {
		defer e.drainWG.Done()
		for {
			select {
			case t := <-ch:
				e.sentMu.Lock()
				e.Sent = append(e.Sent, t)
				e.sentMu.Unlock()
			case <-e.stopDrain:
				return
			}
		}
	}()
}

func (e *Env) StopDrain() {
	if e.stopDrain != nil {
		close(e.stopDrain)
		e.drainWG.Wait()
		e.stopDrain = nil
	}
}

// TakeSent returns and clears the drained transactions (after letting pending sends settle).
func (e *Env) TakeSent() []hotline.Transaction {
	// sends on the unbuffered outbox complete synchronously inside handlers, so once the handler returned
	// everything it queued has been received; a short yield covers goroutines spawned by handlers.
	time.Sleep(200 * time.Microsecond)
	e.sentMu.Lock()
	defer e.sentMu.Unlock()
	s := e.Sent
	e.Sent = nil
	return s
}

// nullConn is a connection that swallows writes and records Close.
type nullConn struct {
	mu     sync.Mutex
	closed bool
	wrote  bytes.Buffer
}

func (c *nullConn) Read(p []byte) (int, error) { return 0, io.EOF }
func (c *nullConn) Write(p []byte) (int, error) {
	c.mu.Lock()
	defer c.mu.Unlock()
	c.wrote.Write(p)
	return len(p), nil
}
func (c *nullConn) Close() error { c.mu.Lock(); defer c.mu.Unlock(); c.closed = true; return nil }
func (c *nullConn) Closed() bool { c.mu.Lock(); defer c.mu.Unlock(); return c.closed }

// NewClient registers a logged-in connection for direct handler calls.
func (e *Env) NewClient(login string, access hotline.AccessBitmap, addr string) (*hotline.ClientConn, *nullConn) {
	nc := &nullConn{}
	cc := e.Srv.NewClientConn(nc, addr)
	acc := e.Srv.AccountManager.Get(login)
	if acc == nil {
		acc = &hotline.Account{Login: login, Name: login}
	}
	acc.Access = access
	cc.Account = acc
	cc.Logger = discardLogger
	cc.UserName = []byte(login)
	return cc, nc
}

// handler call with panic capture (the connection loop's dontPanic would recover it)
func callHandler(h func(*hotline.ClientConn, *hotline.Transaction) []hotline.Transaction, cc *hotline.ClientConn, t *hotline.Transaction) (res []hotline.Transaction, panicked bool) {
	defer func() {
		if r := recover(); r != nil {
			panicked = true
		}
	}()
	res = h(cc, t)
	return
}

func isErrReply(ts []hotline.Transaction) bool {
	return len(ts) == 1 && ts[0].IsReply == 1 && ts[0].ErrorCode == [4]byte{0, 0, 0, 1}
}

func errText(ts []hotline.Transaction) string {
	if !isErrReply(ts) {
		return ""
	}
	return string(ts[0].GetField(hotline.FieldError).Data)
}

// snapshot of a directory tree: relative path -> "d" | "f:<sha256>" | "l:<target>"
func snapshot(root string) map[string]string {
	m := map[string]string{}
	filepath.Walk(root, func(p string, info os.FileInfo, err error) error {
		if err != nil {
			return nil
		}
		rel, _ := filepath.Rel(root, p)
		switch {
		case info.Mode()&os.ModeSymlink != 0:
			t, _ := os.Readlink(p)
			m[rel] = "l:" + t
		case info.IsDir():
			m[rel] = "d"
		default:
			b, _ := os.ReadFile(p)
			h := sha256.Sum256(b)
			m[rel] = fmt.Sprintf("f:%d:%s", len(b), hx(h[:8]))
		}
		return nil
	})
	return m
}

func snapDiff(a, b map[string]string) []string {
	var d []string
	for k, v := range a {
		if w, ok := b[k]; !ok {
			d = append(d, "-"+k)
		} else if w != v {
			d = append(d, "~"+k)
		}
	}
	for k := range b {
		if _, ok := a[k]; !ok {
			d = append(d, "+"+k)
		}
	}
	sort.Strings(d)
	return d
}

func be16(n int) []byte { return []byte{byte(n >> 8), byte(n)} }
func be32(n int) []byte { return []byte{byte(n >> 24), byte(n >> 16), byte(n >> 8), byte(n)} }
func b1(b bool) []byte {
	if b {
		return []byte{1}
	}
	return []byte{0}
}

// noLeadingLF: yaml.v3 does not round-trip strings that begin with a line feed (known finding
// "yaml-leading-newline"); ordinary generator profiles avoid them, a dedicated profile exercises exactly them.
func noLeadingLF(b []byte) []byte {
	for i := 0; i < len(b) && b[i] == '\n'; i++ {
		b[i] = 'n'
	}
	return b
}
