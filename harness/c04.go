package main

import (
	"bytes"
	"fmt"
	"os"
	"path/filepath"
	"sync"
	"time"

	"github.com/jhalter/mobius/hotline"
	"golang.org/x/crypto/bcrypt"
)

func init() { register("C04", "Corr.Run_C04", genC04) }

type c04Acct struct {
	login string
	pw    []byte // the bytes given to HashAndSalt (what a client sends in field 106)
}

// one connection attempt: the whole byte stream is written (as far as the server reads it), then the peer closes
// how long the line must stay silent before a connection that is still open is taken to be waiting for input
var quietFor = 400 * time.Millisecond

func c04Attempt(env *Env, observer *WireClient, obsSeen *int, addr string, stream []byte, expectReplies int) [][]byte {
	before := snapshot(env.Cfg)
	w := env.Connect(addr)
	wrote := make(chan struct{})
	go func() {
		defer close(wrote)
		w.c.SetWriteDeadline(time.Now().Add(4 * time.Second))
		w.c.Write(stream)
	}()
	// wait until the server is done with the connection, or it has registered the peer as logged in (then: until
	// the replies to the appended keep-alives are there), or - everything written - nothing happens for a while
	// (the server is waiting for more input)
	isRegistered := func() bool {
		for _, cc := range env.Srv.ClientMgr.List() {
			if cc.RemoteAddr == addr && cc.Account != nil {
				return true
			}
		}
		return false
	}
	emptyReplies := func() int {
		n := 0
		fs, _ := w.Frames()
		for _, f := range fs {
			if f.Reply == 1 && f.Err == 0 && len(f.Fields) == 0 {
				n++
			}
		}
		return n
	}
	dl := time.Now().Add(5 * time.Second)
	var writtenAt time.Time
	for time.Now().Before(dl) {
		select {
		case <-w.srvDone:
			dl = time.Now()
			continue
		default:
		}
		if writtenAt.IsZero() {
			select {
			case <-wrote:
				writtenAt = time.Now()
			default:
			}
		}
		if isRegistered() {
			for d2 := time.Now().Add(3 * time.Second); time.Now().Before(d2) && emptyReplies() < expectReplies; {
				time.Sleep(300 * time.Microsecond)
			}
			w.WaitQuiet(20*time.Millisecond, 500*time.Millisecond)
			break
		}
		if !writtenAt.IsZero() && time.Since(writtenAt) > quietFor {
			break
		}
		time.Sleep(200 * time.Microsecond)
	}
	// is the connection registered as a logged-in client?
	var login []byte
	delta := 0
	logged := false
	for _, cc := range env.Srv.ClientMgr.List() {
		if cc.RemoteAddr == addr {
			delta++
			if cc.Account != nil {
				logged = true
				login = []byte(cc.Account.Login)
			}
		}
	}
	// what the observer received meanwhile (its own keep-alive replies excluded); a connection that got in is
	// judged before the peer closes (its departure is announced, rightly, afterwards)
	if !logged {
		w.c.Close()
		w.WaitServerDone()
		<-wrote
	}
	observer.Ping()
	var others []byte
	fs, _ := observer.Frames()
	for _, f := range fs[*obsSeen:] {
		if f.Reply == 1 && len(f.Fields) == 0 {
			continue
		}
		others = append(others, be16(f.Type)...)
		for _, x := range f.Fields {
			others = append(others, be16(x.ID)...)
			others = append(others, len16(x.Data)...)
		}
	}
	if logged {
		w.c.Close()
		w.WaitServerDone()
		<-wrote
		observer.Ping()
		fs, _ = observer.Frames()
	}
	*obsSeen = len(fs)
	changed := byte(0)
	if len(snapDiff(before, snapshot(env.Cfg))) != 0 {
		changed = 1
	}
	rx := w.Rx()
	status := byte(9)
	out := append([]byte{}, rx...)
	switch {
	case logged:
		status = 4
		out = len16(login)
		frames, _ := w.Frames()
		first := true
		for _, f := range frames {
			if f.Reply == 1 && first { // the login reply
				first = false
				continue
			}
			if f.Reply == 1 && f.Err == 0 && len(f.Fields) == 0 {
				out = append(out, be32(int(f.ID))...)
			}
		}
	case len(rx) == 0:
		status = 0
	case len(rx) >= 8 && bytes.Equal(rx[:8], []byte{'T', 'R', 'T', 'P', 0, 0, 0, 0}):
		frames, rest := w.Frames()
		switch {
		case len(frames) == 0 && len(rest) == 0:
			status = 1
		case len(frames) == 1 && len(rest) == 0 && frames[0].Type == 104 && frames[0].Reply == 0:
			status = 3
			copy(out[8+4:8+8], []byte{0, 0, 0, 0}) // the notice carries a random transaction ID
		case len(frames) == 1 && len(rest) == 0 && frames[0].Reply == 1 && frames[0].Err != 0:
			status = 2
		}
	}
	return [][]byte{{status}, out, others, {changed}, {byte(delta)}}
}

func genC04(cs *CaseSet, rng *Rng, tier string, dir string) {
	cs.Rule = "an attempt with a valid handshake and a decodable first transaction followed by >= 1 appended request, against a table with >= 3 accounts; distinct by (table, stream)"
	nEnv, perEnv := 12, 26
	if tier == "thorough" {
		nEnv, perEnv = 48, 60
		quietFor = 800 * time.Millisecond // 12 servers share the cores
	}
	var all hotline.AccessBitmap
	for i := range all {
		all[i] = 255
	}
	type result struct {
		cases []Case
	}
	results := make([]result, nEnv)
	var wg sync.WaitGroup
	sem := make(chan struct{}, 12)
	for e := 0; e < nEnv; e++ {
		r := rng.Fork(fmt.Sprintf("env%d", e))
		wg.Add(1)
		go func(e int, rng *Rng) {
			defer wg.Done()
			sem <- struct{}{}
			defer func() { <-sem }()
			// ---- account table ----
			pws := [][]byte{{}, []byte("pw"), obfuscate([]byte("secret")), bytes.Repeat([]byte("x"), 72), {0x9e, 0x00, 0x9e}, []byte("a longer pass phrase, with spaces"), bytes.Repeat([]byte{0xab}, 71),
				// beyond bcrypt's 72-byte limit HashAndSalt stores an EMPTY hash: no password opens such an account
				bytes.Repeat([]byte("L"), 73), bytes.Repeat([]byte{0x7f}, 100)}
			logins := []string{"admin", "bob", "Bob", "zo\xc3\xab", "carol", "x"}
			var accts []c04Acct
			noGuest := rng.Intn(3) == 0
			if !noGuest {
				gp := []byte{}
				if rng.Intn(3) == 0 {
					gp = []byte("guestpw")
				}
				accts = append(accts, c04Acct{"guest", gp})
			}
			for _, l := range logins {
				if rng.Intn(4) != 0 {
					accts = append(accts, c04Acct{l, pws[rng.Intn(len(pws))]})
				}
			}
			accts = append(accts, c04Acct{"~obs~", []byte("o")})
			var has []hotline.Account
			var dbArgs [][]byte
			for _, a := range accts {
				acc := hotline.Account{Login: a.login, Name: a.login, Password: hotline.HashAndSalt(a.pw), Access: all}
				has = append(has, acc)
				dbArgs = append(dbArgs, []byte(a.login), a.pw)
			}
			env := NewEnv(fmt.Sprintf("%s-%d", dir, e), EnvOpts{Accounts: has, NoGuest: true, Agreement: "a", Board: "b"})
			env.SeqOutbox = true
			must(os.WriteFile(filepath.Join(env.FileRoot, "keep.txt"), []byte("keep"), 0644))
			observer := env.Connect("10.4.0.1:999")
			if !observer.Login("~obs~", "o", RField{102, []byte("observer")}, RField{104, []byte{0, 1}}) {
				panic("observer login failed")
			}
			observer.Ping()
			fs, _ := observer.Frames()
			obsSeen := len(fs)
			nextID := uint32(10)
			id := func() uint32 { nextID++; return nextID }
			keepalive := func() []byte { return refEncode(500, id()) }
			effectful := func() []byte {
				switch rng.Intn(7) {
				case 0:
					return refEncode(105, id(), RField{101, []byte("hello from nobody")})
				case 1:
					return refEncode(350, id(), RField{105, obfuscate([]byte("evil"))}, RField{102, []byte("e")}, RField{106, []byte("p")}, RField{110, make([]byte, 8)})
				case 2:
					return refEncode(204, id(), RField{201, []byte("keep.txt")})
				case 3:
					return refEncode(355, id(), RField{101, []byte("broadcast")})
				case 4:
					return refEncode(205, id(), RField{201, []byte("made")})
				case 5:
					return refEncode(103, id(), RField{101, []byte("board post")})
				default:
					return keepalive()
				}
			}
			forcedIdx := -1
			var stalePw []byte
			for k := 0; k < perEnv; k++ {
				// "that account's CURRENT password": every eighth attempt is a plain successful login to some account,
				// whose password is then changed through the account manager (what the account editor does); the
				// next attempt presents the old password and must be refused like any other wrong one
				forced := false
				if k%8 == 3 {
					forcedIdx = -1
					for tries := 0; tries < 8 && forcedIdx < 0; tries++ {
						if i := rng.Intn(len(accts) - 1); len(accts[i].pw) <= 72 {
							forcedIdx = i
						}
					}
					forced = forcedIdx >= 0
				} else if k%8 == 4 && forcedIdx >= 0 {
					forced = true
					old := accts[forcedIdx]
					stalePw = append([]byte{}, old.pw...)
					newPw := []byte(fmt.Sprintf("changed-%d-%d", e, k))
					acc := env.Srv.AccountManager.Get(old.login)
					if acc == nil {
						panic("forced account vanished")
					}
					upd := *acc
					upd.Password = hotline.HashAndSalt(newPw)
					must(env.Srv.AccountManager.Update(upd, old.login))
					accts[forcedIdx].pw = newPw
					dbArgs = nil
					for _, a := range accts {
						dbArgs = append(dbArgs, []byte(a.login), a.pw)
					}
				}
				// ---- handshake ----
				hs := []byte{'T', 'R', 'T', 'P', 'H', 'O', 'T', 'L', byte(rng.Intn(3)), byte(rng.Intn(3)), byte(rng.Intn(3)), byte(rng.Intn(3))}
				hsKind := "valid"
				hsr := rng.Intn(14)
				if forced {
					hsr = 13
				}
				switch hsr {
				case 0:
					hs[3] = 'Q'
					hsKind = "bad-protocol"
				case 1:
					hs[7] = 'M'
					hsKind = "bad-subprotocol"
				case 2:
					hs = hs[:rng.Intn(12)]
					hsKind = "short"
				case 3:
					hs = bytes.ToLower(hs)
					hsKind = "lowercase"
				}
				// ---- first transaction ----
				a := accts[rng.Intn(len(accts)-1)] // never the observer's own account
				login := []byte(a.login)
				pw := append([]byte{}, a.pw...)
				want := "good"
				pick := rng.Intn(13)
				if forced {
					a = accts[forcedIdx]
					login = []byte(a.login)
					pw = append([]byte{}, a.pw...)
					pick = 0
					if k%8 == 4 {
						pw = append([]byte{}, stalePw...)
						want = "bad"
						cs.Count("login:old-password-after-change")
					}
				} else if len(pw) > 72 && rng.Bool() { // an account with an empty stored hash: the empty password must not open it
					pw = []byte{}
					want = "bad"
					pick = 0
				}
				switch pick {
				case 0, 1, 2, 3: // the account's password
				case 4:
					pw = append(pw, 'x')
					want = "bad"
					if len(pw) > 72 { // beyond bcrypt's limit the extra bytes are not looked at: this one gets in
						want = "nul-variant"
					}
				case 5:
					if len(pw) > 0 {
						pw = pw[:len(pw)-1]
					} else {
						pw = []byte{'y'}
					}
					want = "bad"
				case 6:
					if len(pw) > 0 {
						pw[rng.Intn(len(pw))] ^= 1 << uint(rng.Intn(8))
					} else {
						pw = []byte{1}
					}
					want = "bad"
				case 7: // bcrypt's key schedule: password . NUL . password ... (the model knows which of these collide)
					pw = append(append(append([]byte{}, pw...), 0), pw...)
					want = "nul-variant"
				case 8:
					pw = append(pw, 0)
					want = "nul-variant"
				case 9:
					login = []byte("nobody")
					want = "bad"
				case 10:
					login = nil // empty login: the guest account
					want = "guest"
				case 12: // a login that is the account's name with path noise: it names no account
					switch rng.Intn(6) {
					case 0:
						login = append([]byte("/"), login...)
					case 1:
						login = append(login, '/')
					case 2:
						login = append([]byte("./"), login...)
					case 3:
						login = append([]byte("x/../"), login...)
					case 4:
						login = append(login, '/', '.')
					default:
						login = append([]byte("//"), login...)
					}
					want = "bad"
				default:
					login = bytes.ToUpper(login)
					want = "case-variant"
				}
				typ := 107
				if rng.Intn(8) == 0 && !forced {
					typ = rng.Pick(105, 200, 500, 0, 121)
				}
				var fields []RField
				if login != nil || rng.Bool() {
					fields = append(fields, RField{105, obfuscate(login)})
				}
				if rng.Intn(10) != 0 || forced {
					fields = append(fields, RField{106, pw})
				}
				if rng.Intn(6) == 0 && !forced { // a second login field: the first one counts
					fields = append(fields, RField{105, obfuscate([]byte("admin"))})
				}
				if rng.Bool() {
					fields = append(fields, RField{160, []byte{0, 0xbe}})
				}
				// would these credentials open an account?  (then only keep-alives may follow: what a logged-in peer's
				// other requests do is not this property's subject)
				effLogin, sentPw := "guest", []byte(nil)
				for _, f := range fields {
					if f.ID == 105 {
						if l := string(obfuscate(f.Data)); l != "" {
							effLogin = l
						}
						break
					}
				}
				for _, f := range fields {
					if f.ID == 106 {
						sentPw = f.Data
						break
					}
				}
				if acc := env.Srv.AccountManager.Get(effLogin); acc != nil && bcrypt.CompareHashAndPassword([]byte(acc.Password), sentPw) == nil {
					if want == "bad" || want == "case-variant" {
						want = "good-by-coincidence"
					}
				}
				first := refEncode(typ, id(), fields...)
				shape := "well-formed"
				shr := rng.Intn(16)
				if forced {
					shr = 15
				}
				switch shr {
				case 0: // data size differs from total size
					copy(first[16:20], be32(3))
					shape = "datasize-off"
				case 1: // parameter count above the fields present
					copy(first[20:22], be16(len(fields)+2))
					shape = "count-high"
				case 2: // total size beyond the scanner's limit: never handed over
					copy(first[12:16], be32(70000))
					shape = "too-long"
				case 3: // truncated
					first = first[:rng.Intn(len(first))]
					shape = "truncated"
				case 4: // total size wraps around in uint32
					copy(first[12:16], []byte{0xff, 0xff, 0xff, 0xf0})
					shape = "size-wrap"
				}
				// ---- what the peer appends ----
				var suffix []byte
				nSuf := rng.Intn(4)
				if shape == "truncated" {
					// appended bytes would complete the cut login transaction with borrowed bytes and leave the rest
					// of the stream misaligned: if that login succeeds the peer is dropped at once for the garbage
					// that follows - what happens to a logged-in peer's requests is not this property's subject and
					// cannot be told apart here from a refusal (segmentation and cut streams are C02's and C03's)
					nSuf = 0
				}
				for i := 0; i < nSuf; i++ {
					if want != "bad" && want != "case-variant" {
						suffix = append(suffix, keepalive()...)
					} else {
						suffix = append(suffix, effectful()...)
					}
				}
				stream := append(append(append([]byte{}, hs...), first...), suffix...)
				addr := fmt.Sprintf("10.4.%d.%d:%d", 1+e, 1+k%250, 2000+k)
				expect := 0
				if want != "bad" && want != "case-variant" {
					expect = nSuf
				}
				ob := c04Attempt(env, observer, &obsSeen, addr, stream, expect)
				cs.Count("handshake:" + hsKind)
				cs.Count("login:" + want)
				cs.Count("shape:" + shape)
				cs.Count(fmt.Sprintf("status:%d", ob[0][0]))
				results[e].cases = append(results[e].cases, Case{Kind: "attempt",
					Ops: []Op{mkOp(9, "accounts", dbArgs...), mkOp(1, "attempt-"+hsKind+"-"+want+"-"+shape, stream)},
					Obs: [][][]byte{{}, ob}, NonTrivial: hsKind == "valid" && shape == "well-formed" && nSuf > 0 && len(accts) >= 3})
			}
			observer.Close()
		}(e, r)
	}
	wg.Wait()
	for _, r := range results {
		for _, c := range r.cases {
			cs.Add(c)
		}
	}
}
