package main

import (
	"fmt"
	"sort"

	"github.com/jhalter/mobius/hotline"
)

func init() { register("C12", "Corr.Run_C12", genC12) }

type c12Client struct {
	tok  int
	w    *WireClient
	id   []byte
	seen int
}

// canonical rendering of the chat-related frames received since the last call (Corr/Run_C12.v: render)
func (c *c12Client) drain() []byte {
	frames, _ := c.w.Frames()
	nf := frames[c.seen:]
	c.seen = len(frames)
	var out []byte
	for _, f := range nf {
		chat, hasChat := f.Field(114)
		switch {
		case f.Type == 106:
			text, _ := f.Field(101)
			if hasChat {
				out = append(out, 1, 1)
				out = append(out, chat...)
			} else {
				out = append(out, 1, 0)
			}
			if len(text) <= 64 {
				out = append(out, len16(text)...)
			} else {
				d := digest(text)
				out = append(out, be16(len(text))...)
				out = append(out, be32(int(d>>32))...)
				out = append(out, be32(int(d&0xffffffff))...)
			}
		case f.Type == 117:
			who, _ := f.Field(103)
			out = append(append(append(out, 2), chat...), who...)
		case f.Type == 118:
			who, _ := f.Field(103)
			out = append(append(append(out, 3), chat...), who...)
		case f.Type == 119:
			subj, _ := f.Field(115)
			out = append(append(append(out, 4), chat...), len16(subj)...)
		case f.Type == 113:
			who, _ := f.Field(103)
			out = append(append(append(out, 5), chat...), who...)
		case f.Type == 104:
			if o, _ := f.Field(113); len(o) == 2 && o[1] == 2 {
				who, _ := f.Field(103)
				out = append(append(out, 6), who...)
			}
		case f.Reply == 1 && f.Err != 0:
			out = append(out, 7)
		}
	}
	return out
}

func genC12(cs *CaseSet, rng *Rng, tier string, dir string) {
	cs.Rule = ">= 3 clients with differing chat privileges and >= 1 private chat that sees a join and a leave/decline; distinct by op sequence"
	nHist := 40
	if tier == "thorough" {
		nHist = 400
	}
	mkAcc := func(login string, read, send bool) hotline.Account {
		var a hotline.AccessBitmap
		for i := range a {
			a[i] = 255
		}
		if !read {
			a[1] &^= 1 << (7 - 9%8)
		}
		if !send {
			a[1] &^= 1 << (7 - 10%8)
		}
		return hotline.Account{Login: login, Name: login, Password: hotline.HashAndSalt([]byte("")), Access: a}
	}
	accounts := []hotline.Account{mkAcc("rs", true, true), mkAcc("r", true, false), mkAcc("s", false, true), mkAcc("n", false, false)}
	names := [][]byte{[]byte("Halcyon"), []byte("x"), []byte("ThirteenChars"), []byte("A name longer than thirteen"), {0xc3, 0xa9, 'l', 0xff, 'a', 0xe2, 0x82}, []byte("caf\xc3\xa9 \xe2\x82\xac uro name")}
	for h := 0; h < nHist; h++ {
		env := NewEnv(fmt.Sprintf("%s-%d", dir, h), EnvOpts{Accounts: accounts, Agreement: "a"})
		env.SeqOutbox = true
		staleProfile := h == nHist-1 // known finding: membership survives disconnect; needs an ID to be reused
		var ops []Op
		var obs [][][]byte
		clients := map[int]*c12Client{}
		nextTok := 1
		var chats [][]byte
		chatMembers := map[string]map[int]bool{}
		privs := map[int][2]bool{}
		sawJoin, sawLeave := false, false
		boxes := func() [][]byte {
			var ids []int
			by := map[int]*c12Client{}
			for _, c := range clients {
				k := int(c.id[0])<<8 | int(c.id[1])
				ids = append(ids, k)
				by[k] = c
			}
			sort.Ints(ids)
			var out [][]byte
			for _, k := range ids {
				out = append(out, append(append([]byte{}, by[k].id...), by[k].drain()...))
			}
			return out
		}
		barrier := func(c *c12Client) {
			if c != nil && clients[c.tok] == c && c.w.Ping() {
				return
			}
			for _, o := range clients {
				if o.w.Ping() {
					return
				}
			}
		}
		connect := func() {
			tok := nextTok
			nextTok++
			acc := accounts[rng.Intn(len(accounts))]
			if staleProfile {
				acc = accounts[0]
			}
			read, send := acc.Login == "rs" || acc.Login == "r", acc.Login == "rs" || acc.Login == "s"
			name := names[rng.Intn(len(names))]
			refuse := rng.Intn(6) == 0 && !staleProfile
			w := env.Connect(fmt.Sprintf("10.12.%d.%d:%d", tok/250, tok%250+1, 4000+tok))
			if !w.Login(acc.Login, "", RField{102, name}, RField{104, []byte{0, 1}}) {
				panic("login failed")
			}
			c := &c12Client{tok: tok, w: w}
			known := map[[2]byte]bool{}
			for _, o := range clients {
				known[[2]byte{o.id[0], o.id[1]}] = true
			}
			for _, cc := range env.Srv.ClientMgr.List() {
				if !known[cc.ID] {
					c.id = append([]byte{}, cc.ID[:]...)
				}
			}
			clients[tok] = c
			privs[tok] = [2]bool{read, send}
			if refuse {
				w.Send(304, RField{102, name}, RField{104, []byte{0, 1}}, RField{113, []byte{0, 2}})
			}
			barrier(c)
			for _, o := range clients {
				o.drain()
			}
			ops = append(ops, mkOp(1, "connect", be16(tok), name, b1(read), b1(send), b1(refuse)))
			obs = append(obs, append([][]byte{c.id}, boxes()...))
		}
		pick := func() *c12Client {
			var toks []int
			for t := range clients {
				toks = append(toks, t)
			}
			sort.Ints(toks)
			if len(toks) == 0 {
				return nil
			}
			return clients[toks[rng.Intn(len(toks))]]
		}
		msgOf := func() []byte {
			return dataBytes(rng, rng.Pick(0, 1, 5, 40, 300, 8170, 8200, 9000))
		}
		connect()
		connect()
		connect()
		nOps := 14 + rng.Intn(16)
		script := []int{}
		if staleProfile {
			// A invites B, B joins, B disconnects, 65,5xx connections come and go, C connects (gets B's old ID), A speaks
			script = []int{3, 4, 9, 10, 1, 8}
			nOps = len(script)
		}
		for k := 0; k < nOps; k++ {
			c := pick()
			r := rng.Intn(16)
			if staleProfile {
				r = map[int]int{3: 4, 4: 6, 9: 13, 10: 99, 1: 0, 8: 9}[script[k]]
			}
			switch {
			case r < 2 || c == nil:
				connect()
			case r < 4: // public line
				msg, emote := msgOf(), rng.Intn(4) == 0
				f := []RField{{101, msg}}
				if emote {
					f = append(f, RField{109, []byte{0, 1}})
				} else if rng.Intn(5) == 0 {
					f = append(f, RField{114, []byte{0, 0, 0, 0}}) // Frogblast sends a zero chat ID for public chat
				}
				if rng.Bool() { // the order of the fields is the client's choice: the small ones may come before the text
					for i, j := 0, len(f)-1; i < j; i, j = i+1, j-1 {
						f[i], f[j] = f[j], f[i]
					}
				}
				c.w.Send(105, f...)
				barrier(c)
				ops = append(ops, mkOp(2, "chat-send-public", be16(c.tok), msg, b1(emote)))
				obs = append(obs, boxes())
			case r < 6: // invite to a new chat
				t := pick()
				if staleProfile {
					c, t = clients[1], clients[2]
				}
				if t == nil || t == c {
					continue
				}
				id := c.w.Send(112, RField{103, t.id})
				barrier(c)
				var chat []byte
				fr, _ := c.w.Frames()
				for _, f := range fr {
					if f.Reply == 1 && f.ID == id {
						chat, _ = f.Field(114)
					}
				}
				if chat == nil {
					continue
				}
				chats = append(chats, chat)
				chatMembers[string(chat)] = map[int]bool{c.tok: true}
				ops = append(ops, mkOp(3, "invite-new-chat", be16(c.tok), be16(t.tok), chat))
				obs = append(obs, append([][]byte{chat}, boxes()...))
			case r < 8 && len(chats) > 0: // join
				chat := chats[rng.Intn(len(chats))]
				if staleProfile {
					c = clients[2]
				}
				c.w.Send(115, RField{114, chat})
				barrier(c)
				chatMembers[string(chat)][c.tok] = true
				ops = append(ops, mkOp(4, "join-chat", be16(c.tok), chat))
				obs = append(obs, boxes())
				sawJoin = true
			case r == 8 && len(chats) > 0: // leave
				chat := chats[rng.Intn(len(chats))]
				c.w.Send(116, RField{114, chat})
				barrier(c)
				delete(chatMembers[string(chat)], c.tok)
				ops = append(ops, mkOp(5, "leave-chat", be16(c.tok), chat))
				obs = append(obs, boxes())
				sawLeave = true
			case r < 11 && len(chats) > 0: // private line
				chat := chats[rng.Intn(len(chats))]
				if staleProfile {
					c = clients[1]
				}
				msg, emote := msgOf(), rng.Intn(4) == 0
				f := []RField{{101, msg}, {114, chat}}
				if emote {
					f = append(f, RField{109, []byte{0, 1}})
				}
				if rng.Bool() { // the order of the fields is the client's choice: the small ones may come before the text
					for i, j := 0, len(f)-1; i < j; i, j = i+1, j-1 {
						f[i], f[j] = f[j], f[i]
					}
				}
				c.w.Send(105, f...)
				barrier(c)
				ops = append(ops, mkOp(8, "chat-send-private", be16(c.tok), chat, msg, b1(emote)))
				obs = append(obs, boxes())
			case r == 11 && len(chats) > 0: // decline
				chat := chats[rng.Intn(len(chats))]
				c.w.Send(114, RField{114, chat})
				barrier(c)
				ops = append(ops, mkOp(6, "reject-chat-invite", be16(c.tok), chat))
				obs = append(obs, boxes())
				sawLeave = true
			case r == 12 && len(chats) > 0: // subject
				chat := chats[rng.Intn(len(chats))]
				subj := rng.Bytes(rng.Intn(20))
				c.w.Send(120, RField{114, chat}, RField{115, subj})
				barrier(c)
				ops = append(ops, mkOp(7, "set-chat-subject", be16(c.tok), chat, subj))
				obs = append(obs, boxes())
			case r == 13 && len(clients) > 2: // disconnect
				if staleProfile {
					c = clients[2]
				}
				delete(clients, c.tok)
				c.w.c.Close()
				c.w.WaitServerDone()
				barrier(nil)
				ops = append(ops, mkOp(9, "disconnect", be16(c.tok)))
				obs = append(obs, boxes())
			case r == 99: // churn: the ID counter goes once around
				n := 65536 - (nextTok - 1)
				for i := 0; i < n; i++ {
					cc := env.Srv.NewClientConn(&nullConn{}, "10.99.0.1:1")
					env.Srv.ClientMgr.Delete(cc.ID)
				}
				// the next connection gets the lowest free ID after the counter: make it the departed member's
				ops = append(ops, mkOp(10, "churn", be32(n)))
				obs = append(obs, [][]byte{})
			}
		}
		kind := "history"
		if staleProfile {
			kind = "stale-member-after-id-reuse"
		}
		distinctPrivs := map[[2]bool]bool{}
		for _, p := range privs {
			distinctPrivs[p] = true
		}
		cs.Add(Case{Kind: kind, Ops: ops, Obs: obs, NonTrivial: len(privs) >= 3 && len(distinctPrivs) >= 2 && sawJoin && sawLeave})
		for _, c := range clients {
			c.w.Close()
		}
	}
}
