package main

import (
	"fmt"
	"os"
	"path/filepath"
	"time"

	"github.com/jhalter/mobius/hotline"
	"github.com/jhalter/mobius/internal/mobius"
	"gopkg.in/yaml.v3"
)

func init() { register("C06", "Corr.Run_C06", genC06) }

func bitmapOf(bits ...int) hotline.AccessBitmap {
	var a hotline.AccessBitmap
	for _, b := range bits {
		a.Set(b)
	}
	return a
}

func obfuscate(s []byte) []byte {
	o := make([]byte, len(s))
	for i, b := range s {
		o[i] = 255 - b
	}
	return o
}

func encField(id [2]byte, data []byte) []byte {
	return append(append(append([]byte{}, id[:]...), be16(len(data))...), data...)
}

// readDiskAccess parses Users/<login>.yaml with the code's own loader.
func readDiskAccount(cfg, login string) *hotline.Account {
	b, err := os.ReadFile(filepath.Join(cfg, "Users", login+".yaml"))
	if err != nil {
		return nil
	}
	var a hotline.Account
	if yaml.Unmarshal(b, &a) != nil {
		return nil
	}
	return &a
}

const (
	c06Denied   = 0
	c06Created  = 1
	c06OtherErr = 2
	c06Panic    = 3
	c06Nothing  = 4
)

func genC06(cs *CaseSet, rng *Rng, tier string, dir string) {
	cs.Rule = "creation: creator bitmap and requested bitmap both non-zero and different; disconnect: target bitmap differs from requester's; distinct by (op, bitmaps, option bytes)"
	env := NewEnv(dir, EnvOpts{})
	env.StartDrain()
	defer env.StopDrain()
	serial := 0

	creation := func(kind string, viaUpdate bool, creator hotline.AccessBitmap, reqField []byte, omitAccess bool) {
		serial++
		login := fmt.Sprintf("u%d", serial)
		cc, _ := env.NewClient("guest", creator, "10.9.9.9:1000")
		defer env.Srv.ClientMgr.Delete(cc.ID)
		var t hotline.Transaction
		var res []hotline.Transaction
		var panicked bool
		if !viaUpdate {
			fields := []hotline.Field{
				hotline.NewField(hotline.FieldUserLogin, obfuscate([]byte(login))),
				hotline.NewField(hotline.FieldUserName, []byte("N "+login)),
				hotline.NewField(hotline.FieldUserPassword, []byte("pw")),
			}
			if !omitAccess {
				fields = append(fields, hotline.NewField(hotline.FieldUserAccess, reqField))
			}
			t = hotline.NewTransaction(hotline.TranNewUser, cc.ID, fields...)
			res, panicked = callHandler(mobius.HandleNewUser, cc, &t)
		} else {
			n := 3
			sub := encField(hotline.FieldUserLogin, obfuscate([]byte(login)))
			sub = append(sub, encField(hotline.FieldUserName, []byte("N "+login))...)
			sub = append(sub, encField(hotline.FieldUserPassword, []byte("pw"))...)
			if !omitAccess {
				sub = append(sub, encField(hotline.FieldUserAccess, reqField)...)
				n = 4
			}
			data := append(be16(n), sub...)
			t = hotline.NewTransaction(hotline.TranUpdateUser, cc.ID, hotline.NewField(hotline.FieldData, data))
			res, panicked = callHandler(mobius.HandleUpdateUser, cc, &t)
		}
		status := c06OtherErr
		switch {
		case panicked:
			status = c06Panic
		case isErrReply(res) && errText(res) == "Cannot create account with more access than yourself.":
			status = c06Denied
		case isErrReply(res):
			status = c06OtherErr
		case len(res) == 1 && res[0].IsReply == 1:
			status = c06Created
		}
		var mem, disk []byte
		if a := env.Srv.AccountManager.Get(login); a != nil {
			mem = append([]byte{}, a.Access[:]...)
		}
		if a := readDiskAccount(env.Cfg, login); a != nil {
			disk = append([]byte{}, a.Access[:]...)
		}
		code := 1
		if viaUpdate {
			code = 2
		}
		var zero hotline.AccessBitmap
		var reqBM hotline.AccessBitmap
		copy(reqBM[:], reqField)
		cs.Add(Case{
			Kind:       kind,
			Ops:        []Op{mkOp(code, map[bool]string{false: "NewUser", true: "UpdateUser-create"}[viaUpdate], creator[:], reqField, b1(omitAccess))},
			Obs:        [][][]byte{{{byte(status)}, mem, disk}},
			NonTrivial: creator != zero && reqBM != zero && creator != reqBM,
		})
	}

	// profile 1: all single-bit pairs (creator = {14, i}, request = {j})
	nPairs := 64
	for i := 0; i < nPairs; i++ {
		for j := 0; j < 64; j++ {
			via := (i+j)%2 == 1
			if tier == "quick" && (i*64+j)%3 != int(rng.s%3) && i != j && j != 14 {
				continue // quick: a third of the off-diagonal pairs (chosen by seed), the whole diagonal
			}
			creation("single-pair", via, bitmapOf(14, i), func() []byte { b := bitmapOf(j); return b[:] }(), false)
		}
	}
	// profile 2: random creator (with create-user), request = subset / subset+1 extra / random / all
	nRand := 300
	if tier == "thorough" {
		nRand = 3000
	}
	for k := 0; k < nRand; k++ {
		var creator hotline.AccessBitmap
		copy(creator[:], rng.Bytes(8))
		if rng.Intn(10) != 0 {
			creator.Set(14)
		}
		var req hotline.AccessBitmap
		switch rng.Intn(4) {
		case 0: // subset
			m := rng.Bytes(8)
			for x := range req {
				req[x] = creator[x] & m[x]
			}
		case 1: // subset plus one extra bit
			m := rng.Bytes(8)
			for x := range req {
				req[x] = creator[x] & m[x]
			}
			req.Set(rng.Intn(64))
		case 2:
			copy(req[:], rng.Bytes(8))
		case 3:
			req = creator
		}
		field := req[:]
		kind := "random"
		switch rng.Intn(8) {
		case 0: // short field: Go copy() zero-pads
			field = field[:rng.Intn(8)]
			kind = "short-field"
		case 1: // long field: cut to 8
			field = append(append([]byte{}, field...), rng.Bytes(1+rng.Intn(3))...)
			kind = "long-field"
		}
		creation(kind, rng.Bool(), creator, field, false)
	}
	// profile 3: access field omitted
	for k := 0; k < 6; k++ {
		creation("no-access-field", k%2 == 1, bitmapOf(14, k), nil, true)
	}

	// ---- disconnect ----
	type pending struct {
		c      Case
		nc     *nullConn
		ip     string
		status int
		by     []*nullConn // bystanders: connected while the request is made, not its target
	}
	var pend []pending
	disc := func(kind string, reqAcc, tgtAcc hotline.AccessBitmap, opt []byte) {
		serial++
		ip := fmt.Sprintf("10.%d.%d.%d", 1+serial/65536, (serial/256)%256, serial%256)
		admin, _ := env.NewClient("guest", reqAcc, "10.9.9.8:1")
		target, tnc := env.NewClient("guest", tgtAcc, ip+":5500")
		fields := []hotline.Field{hotline.NewField(hotline.FieldUserID, target.ID[:])}
		if opt != nil {
			fields = append(fields, hotline.NewField(hotline.FieldOptions, opt))
		}
		t := hotline.NewTransaction(hotline.TranDisconnectUser, admin.ID, fields...)
		res, panicked := callHandler(mobius.HandleDisconnectUser, admin, &t)
		status := c06OtherErr
		switch {
		case panicked:
			status = c06Panic
		case isErrReply(res) && errText(res) == "guest is not allowed to be disconnected.":
			status = c06Denied
		case isErrReply(res):
			status = c06OtherErr
		case len(res) >= 1 && res[len(res)-1].IsReply == 1:
			status = c06Created
		}
		env.Srv.ClientMgr.Delete(admin.ID)
		pend = append(pend, pending{
			c: Case{Kind: kind,
				Ops:        []Op{mkOp(3, "DisconnectUser", reqAcc[:], tgtAcc[:], opt, b1(opt == nil))},
				NonTrivial: reqAcc != tgtAcc},
			nc: tnc, ip: ip, status: status})
	}
	// the same request while two more users are connected: one from the target's own address, one from elsewhere
	discBy := func(kind string, reqAcc, tgtAcc, by1, by2 hotline.AccessBitmap, opt []byte) {
		serial++
		ip := fmt.Sprintf("10.%d.%d.%d", 1+serial/65536, (serial/256)%256, serial%256)
		admin, _ := env.NewClient("guest", reqAcc, "10.9.9.8:1")
		target, tnc := env.NewClient("guest", tgtAcc, ip+":5500")
		_, b1c := env.NewClient("guest", by1, ip+":5501")
		serial++
		ip2 := fmt.Sprintf("10.%d.%d.%d", 1+serial/65536, (serial/256)%256, serial%256)
		_, b2c := env.NewClient("guest", by2, ip2+":5502")
		fields := []hotline.Field{hotline.NewField(hotline.FieldUserID, target.ID[:])}
		if opt != nil {
			fields = append(fields, hotline.NewField(hotline.FieldOptions, opt))
		}
		t := hotline.NewTransaction(hotline.TranDisconnectUser, admin.ID, fields...)
		res, panicked := callHandler(mobius.HandleDisconnectUser, admin, &t)
		status := c06OtherErr
		switch {
		case panicked:
			status = c06Panic
		case isErrReply(res) && errText(res) == "guest is not allowed to be disconnected.":
			status = c06Denied
		case isErrReply(res):
			status = c06OtherErr
		case len(res) >= 1 && res[len(res)-1].IsReply == 1:
			status = c06Created
		}
		env.Srv.ClientMgr.Delete(admin.ID)
		pend = append(pend, pending{
			c: Case{Kind: kind,
				Ops:        []Op{mkOp(4, "DisconnectUser-with-bystanders", reqAcc[:], tgtAcc[:], opt, b1(opt == nil), by1[:], by2[:])},
				NonTrivial: reqAcc != tgtAcc},
			nc: tnc, ip: ip, status: status, by: []*nullConn{b1c, b2c}})
	}
	// the target's ACCOUNT is edited while it is connected - first with the multi-user editor's request (UpdateUser),
	// then confirmed with SetUser carrying the same bits, which is what brings connected sessions up to date - and only
	// then somebody tries to disconnect it: the bits that count are the edited ones
	discAfterEdit := func(kind string, reqAcc, oldAcc, newAcc hotline.AccessBitmap, opt []byte) {
		serial++
		ip := fmt.Sprintf("10.%d.%d.%d", 1+serial/65536, (serial/256)%256, serial%256)
		login := fmt.Sprintf("edit%d", serial)
		must(env.Srv.AccountManager.Create(hotline.Account{Login: login, Name: login, Password: hotline.HashAndSalt([]byte("")), Access: oldAcc}))
		var all hotline.AccessBitmap
		for i := range all {
			all[i] = 255
		}
		editor, _ := env.NewClient("guest", all, "10.9.9.7:1")
		target, tnc := env.NewClient(login, oldAcc, ip+":5500")
		sub := encField(hotline.FieldUserLogin, obfuscate([]byte(login)))
		sub = append(sub, encField(hotline.FieldUserName, []byte(login))...)
		sub = append(sub, encField(hotline.FieldUserPassword, []byte{0})...)
		sub = append(sub, encField(hotline.FieldUserAccess, newAcc[:])...)
		ut := hotline.NewTransaction(hotline.TranUpdateUser, editor.ID, hotline.NewField(hotline.FieldData, append(be16(4), sub...)))
		callHandler(mobius.HandleUpdateUser, editor, &ut)
		st := hotline.NewTransaction(hotline.TranSetUser, editor.ID, hotline.NewField(hotline.FieldUserLogin, obfuscate([]byte(login))),
			hotline.NewField(hotline.FieldUserName, []byte(login)), hotline.NewField(hotline.FieldUserAccess, newAcc[:]), hotline.NewField(hotline.FieldUserPassword, []byte{0}))
		callHandler(mobius.HandleSetUser, editor, &st)
		env.TakeSent()
		env.Srv.ClientMgr.Delete(editor.ID)
		admin, _ := env.NewClient("guest", reqAcc, "10.9.9.8:1")
		fields := []hotline.Field{hotline.NewField(hotline.FieldUserID, target.ID[:])}
		if opt != nil {
			fields = append(fields, hotline.NewField(hotline.FieldOptions, opt))
		}
		t := hotline.NewTransaction(hotline.TranDisconnectUser, admin.ID, fields...)
		res, panicked := callHandler(mobius.HandleDisconnectUser, admin, &t)
		status := c06OtherErr
		switch {
		case panicked:
			status = c06Panic
		case isErrReply(res) && errText(res) == login+" is not allowed to be disconnected.":
			status = c06Denied
		case isErrReply(res):
			status = c06OtherErr
		case len(res) >= 1 && res[len(res)-1].IsReply == 1:
			status = c06Created
		}
		env.Srv.ClientMgr.Delete(admin.ID)
		pend = append(pend, pending{
			c: Case{Kind: kind,
				Ops:        []Op{mkOp(3, "DisconnectUser-after-account-edit", reqAcc[:], newAcc[:], opt, b1(opt == nil))},
				NonTrivial: oldAcc != newAcc},
			nc: tnc, ip: ip, status: status})
	}
	for k := 0; k < 30; k++ {
		var oa, na hotline.AccessBitmap
		copy(oa[:], rng.Bytes(8))
		na = oa
		if k%2 == 0 { // protection granted by the edit ...
			oa[2] &^= 1
			na.Set(23)
		} else { // ... or taken away by it
			oa.Set(23)
			na[2] &^= 1
		}
		discAfterEdit("after-account-edit", bitmapOf(22), oa, na, [][]byte{nil, {0, 1}, {0, 2}}[k%3])
	}
	opts := [][]byte{nil, {0, 1}, {0, 2}, {0, 0}, {0, 3}}
	for k := 0; k < 40; k++ {
		var ta, b1a, b2a hotline.AccessBitmap
		copy(ta[:], rng.Bytes(8))
		copy(b1a[:], rng.Bytes(8))
		copy(b2a[:], rng.Bytes(8))
		ta[2] &^= 1 // the target itself is not protected ...
		if k%4 != 3 {
			b1a.Set(23) // ... the user sharing its address mostly is
		}
		if k%2 == 0 {
			b2a.Set(23)
		}
		discBy("bystanders", bitmapOf(22), ta, b1a, b2a, opts[k%3])
	}
	for i := 0; i < 64; i++ { // target holds exactly bit i; requester is an admin (22) with/without 23
		for oi, o := range opts {
			if tier == "quick" && oi >= 3 && i%8 != 0 {
				continue
			}
			disc("single-bit-target", bitmapOf(22), bitmapOf(i), o)
		}
	}
	nR := 120
	if tier == "thorough" {
		nR = 1500
	}
	for k := 0; k < nR; k++ {
		var ra, ta hotline.AccessBitmap
		copy(ra[:], rng.Bytes(8))
		copy(ta[:], rng.Bytes(8))
		if rng.Intn(6) != 0 {
			ra.Set(22)
		}
		switch rng.Intn(3) {
		case 0:
			ta.Set(23)
		case 1:
			ta[2] &^= 1 // clear bit 23
		}
		disc("random", ra, ta, opts[rng.Intn(len(opts))])
	}
	time.Sleep(1300 * time.Millisecond) // the handler closes the target after a 1 s delay
	// with thousands of delayed disconnects, each notifying every remaining client, the last ones need longer
	for dl := time.Now().Add(60 * time.Second); time.Now().Before(dl); time.Sleep(50 * time.Millisecond) {
		open := 0
		for _, p := range pend {
			if p.status == c06Created && !p.nc.Closed() {
				open++
			}
		}
		if open == 0 {
			break
		}
	}
	fresh, err := mobius.NewBanFile(filepath.Join(env.Cfg, "Banlist.yaml"))
	must(err)
	banCode := func(bl hotline.BanMgr, ip string) byte {
		b, until := bl.IsBanned(ip)
		switch {
		case !b:
			return 0
		case until == nil:
			return 2
		default:
			d := time.Until(*until)
			if d > 29*time.Minute && d <= 30*time.Minute {
				return 1
			}
			return 7 // temporary ban with an unexpected expiry
		}
	}
	for _, p := range pend {
		mem := banCode(env.Srv.BanList, p.ip)
		disk := banCode(fresh, p.ip)
		closed := byte(0)
		if p.nc.Closed() {
			closed = 1
		}
		p.c.Obs = [][][]byte{{{byte(p.status)}, {mem}, {disk}, {closed}}}
		for _, b := range p.by {
			c := byte(0)
			if b.Closed() {
				c = 1
			}
			p.c.Obs[0] = append(p.c.Obs[0], []byte{c})
		}
		cs.Add(p.c)
	}
}
