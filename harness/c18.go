package main

import (
	"fmt"
	"os"
	"path/filepath"
	"sort"

	"github.com/jhalter/mobius/hotline"
	"github.com/jhalter/mobius/internal/mobius"
)

func init() { register("C18", "Corr.Run_C18", genC18) }

// the news path as one case argument: count(2) then len16-prefixed names
func npArg(p [][]byte) []byte {
	b := be16(len(p))
	for _, n := range p {
		b = append(b, len16(n)...)
	}
	return b
}

// the wire encoding of a news path (field 325)
func npField(p [][]byte) []byte {
	b := be16(len(p))
	for _, n := range p {
		b = append(b, 0, 0, byte(len(n)))
		b = append(b, n...)
	}
	return b
}

func dumpNews(cats map[string]hotline.NewsCategoryListData15, prefix [][]byte) []byte {
	var names []string
	for k := range cats {
		names = append(names, k)
	}
	sort.Strings(names)
	var out []byte
	for _, k := range names {
		c := cats[k]
		p := append(append([][]byte{}, prefix...), []byte(k))
		out = append(out, npArg(p)...)
		out = append(out, c.Type[:]...)
		out = append(out, len16([]byte(c.Name))...)
		var ids []int
		for id := range c.Articles {
			ids = append(ids, int(id))
		}
		sort.Ints(ids)
		out = append(out, be16(len(ids))...)
		for _, id := range ids {
			a := c.Articles[uint32(id)]
			out = append(out, be32(id)...)
			out = append(out, len16([]byte(a.Title))...)
			out = append(out, len16([]byte(a.Poster))...)
			out = append(out, a.Date[:]...)
			out = append(out, a.PrevArt[:]...)
			out = append(out, a.NextArt[:]...)
			out = append(out, a.ParentArt[:]...)
			out = append(out, a.FirstChildArt[:]...)
			out = append(out, len16([]byte(a.Data))...)
		}
		out = append(out, dumpNews(c.SubCats, p)...)
	}
	return out
}

func genC18(cs *CaseSet, rng *Rng, tier string, dir string) {
	cs.Rule = "history with >= 2 posts including a reply and a deletion, and a decoded article list; distinct by op sequence"
	nHist := 30
	if tier == "thorough" {
		nHist = 300
	}
	var all hotline.AccessBitmap
	for i := range all {
		all[i] = 255
	}
	namePool := [][]byte{[]byte("General"), []byte("b"), []byte("News & Views"), []byte("caf\xc3\xa9"), []byte("x.y"), []byte("Zeta")}
	for h := 0; h < nHist; h++ {
		env := NewEnv(fmt.Sprintf("%s-%d", dir, h), EnvOpts{})
		env.StartDrain()
		admin, _ := env.NewClient("~admin~", all, "10.18.0.1:1")
		admin.UserName = noLeadingLF(rng.Bytes(1 + rng.Intn(10)))
		mgr := func() *mobius.ThreadedNewsYAML { return env.Srv.ThreadedNewsMgr.(*mobius.ThreadedNewsYAML) }
		var ops []Op
		var obs [][][]byte
		// what exists (harness-side bookkeeping only to generate mostly-valid requests)
		type catInfo struct {
			path  [][]byte
			isCat bool
			ids   []int
		}
		var items []*catInfo
		nPosts, sawReply, sawDelete, sawList := 0, false, false, false
		observe := func(status int) {
			mem := dumpNews(mgr().ThreadedNews.Categories, nil)
			fresh, err := mobius.NewThreadedNewsYAML(filepath.Join(env.Cfg, "ThreadedNews.yaml"))
			var disk []byte
			if err == nil {
				disk = dumpNews(fresh.ThreadedNews.Categories, nil)
			} else {
				disk = []byte("<does not load: " + err.Error() + ">")
			}
			obs = append(obs, [][]byte{{byte(status)}, mem, disk})
		}
		statusOf := func(res []hotline.Transaction, panicked bool) int {
			switch {
			case panicked:
				return 3
			case len(res) >= 1 && res[len(res)-1].IsReply == 1 && res[len(res)-1].ErrorCode == [4]byte{}:
				return 0
			default:
				return 2
			}
		}
		call := func(h func(*hotline.ClientConn, *hotline.Transaction) []hotline.Transaction, typ hotline.TranType, fields ...hotline.Field) int {
			t := hotline.NewTransaction(typ, admin.ID, fields...)
			res, p := callHandler(h, admin, &t)
			return statusOf(res, p)
		}
		pickPath := func(wantCat bool) *catInfo {
			var c []*catInfo
			for _, it := range items {
				if it.isCat == wantCat {
					c = append(c, it)
				}
			}
			if len(c) == 0 {
				return nil
			}
			return c[rng.Intn(len(c))]
		}
		nOps := 10 + rng.Intn(14)
		lfProfile := h == nHist-1 // dedicated profile for the known yaml.v3 finding
		for k := 0; k < nOps; k++ {
			switch r := rng.Intn(14); {
			case r < 2 || len(items) == 0: // create bundle / category
				var parent [][]byte
				if b := pickPath(false); b != nil && rng.Intn(3) != 0 {
					parent = b.path
				}
				name := namePool[rng.Intn(len(namePool))]
				isCat := rng.Intn(3) != 0
				// the model treats a parent that does not exist as a panic: mostly valid parents, sometimes not
				if rng.Intn(12) == 0 {
					parent = [][]byte{[]byte("missing")}
				}
				var st int
				if isCat {
					st = call(mobius.HandleNewNewsCat, hotline.TranNewNewsCat, hotline.NewField(hotline.FieldNewsPath, npField(parent)), hotline.NewField(hotline.FieldNewsCatName, name))
					ops = append(ops, mkOp(2, "create-category", npArg(parent), name))
				} else {
					st = call(mobius.HandleNewNewsFldr, hotline.TranNewNewsFldr, hotline.NewField(hotline.FieldNewsPath, npField(parent)), hotline.NewField(hotline.FieldFileName, name))
					ops = append(ops, mkOp(1, "create-bundle", npArg(parent), name))
				}
				observe(st)
				if st == 0 {
					p := append(append([][]byte{}, parent...), name)
					var keep []*catInfo
					for _, it := range items { // a re-created name replaces the old subtree
						pre := len(it.path) >= len(p)
						for i := 0; pre && i < len(p); i++ {
							pre = string(it.path[i]) == string(p[i])
						}
						if !pre {
							keep = append(keep, it)
						}
					}
					items = append(keep, &catInfo{path: p, isCat: isCat})
				}
			case r < 8: // post / reply
				c := pickPath(true)
				if c == nil || rng.Intn(15) == 0 {
					c = &catInfo{path: [][]byte{[]byte("nowhere")}, isCat: true}
				}
				parent := 0
				if len(c.ids) > 0 && rng.Bool() {
					parent = c.ids[rng.Intn(len(c.ids))]
					sawReply = true
				}
				if rng.Intn(25) == 0 {
					parent = 77 // reply to an article that does not exist
				}
				title := noLeadingLF(dataBytes(rng, rng.Pick(0, 1, 12, 200, 255)))
				// the poster is the connection's display name: up to 255 bytes, like the title
				admin.UserName = noLeadingLF(dataBytes(rng, rng.Pick(1, 8, 8, 200, 255)))
				dataLen := rng.Pick(0, 1, 40, 600, 3000)
				if rng.Intn(40) == 0 { // bodies up to the 64 KiB field limit, rarely (every later step re-renders them)
					dataLen = rng.Pick(20000, 60000)
				}
				data := noLeadingLF(dataBytes(rng, dataLen))
				if lfProfile {
					title, data = append([]byte("\n"), title...), append([]byte("\n\n"), data...)
				}
				pid := be16(parent)
				if rng.Bool() {
					pid = be32(parent)
				}
				st := call(mobius.HandlePostNewsArt, hotline.TranPostNewsArt, hotline.NewField(hotline.FieldNewsPath, npField(c.path)),
					hotline.NewField(hotline.FieldNewsArtID, pid), hotline.NewField(hotline.FieldNewsArtTitle, title), hotline.NewField(hotline.FieldNewsArtData, data))
				// the date the server stamped (an input of the model): read it back from the newest article
				var date []byte
				strs := make([]string, len(c.path))
				for i, x := range c.path {
					strs[i] = string(x)
				}
				newest := 0
				for _, id := range c.ids {
					if id > newest {
						newest = id
					}
				}
				if a := mgr().GetArticle(strs, uint32(newest+1)); a != nil {
					date = append([]byte{}, a.Date[:]...)
					c.ids = append(c.ids, newest+1)
					nPosts++
				} else {
					date = make([]byte, 8)
				}
				ops = append(ops, mkOp(3, "post", npArg(c.path), be32(parent), title, admin.UserName, date, data))
				observe(st)
			case r < 10: // delete article
				c := pickPath(true)
				if c == nil {
					continue
				}
				id := 1 + rng.Intn(4)
				if len(c.ids) > 0 && rng.Intn(4) != 0 {
					i := rng.Intn(len(c.ids))
					id = c.ids[i]
				}
				st := call(mobius.HandleDelNewsArt, hotline.TranDelNewsArt, hotline.NewField(hotline.FieldNewsPath, npField(c.path)), hotline.NewField(hotline.FieldNewsArtID, be16(id)))
				var keep []int
				for _, x := range c.ids {
					if x != id {
						keep = append(keep, x)
					}
				}
				c.ids = keep
				ops = append(ops, mkOp(4, "delete-article", npArg(c.path), be32(id)))
				observe(st)
				sawDelete = true
			case r == 10: // delete item
				if len(items) == 0 {
					continue
				}
				c := items[rng.Intn(len(items))]
				st := call(mobius.HandleDelNewsItem, hotline.TranDelNewsItem, hotline.NewField(hotline.FieldNewsPath, npField(c.path)))
				ops = append(ops, mkOp(5, "delete-item", npArg(c.path)))
				observe(st)
				var keep []*catInfo
				for _, it := range items {
					pre := len(it.path) >= len(c.path)
					for i := 0; pre && i < len(c.path); i++ {
						pre = string(it.path[i]) == string(c.path[i])
					}
					if !pre {
						keep = append(keep, it)
					}
				}
				items = keep
				sawDelete = true
			case r == 11: // restart (every other one after a crash inside a save: its truncated temporary file is still there)
				if rng.Bool() {
					must(os.WriteFile(filepath.Join(env.Cfg, "ThreadedNews.yaml.tmp"), []byte("Categories:\n  x:\n    Na"), 0644))
				}
				// a restart builds the store anew; a reload (SIGHUP, the API's reload) makes the running store read its
				// file again - both must reproduce the same tree
				if rng.Intn(3) == 0 {
					if err := mgr().Load(); err != nil {
						continue
					}
				} else {
					fresh, err := mobius.NewThreadedNewsYAML(filepath.Join(env.Cfg, "ThreadedNews.yaml"))
					if err != nil {
						continue
					}
					env.Srv.ThreadedNewsMgr = fresh
				}
				ops = append(ops, mkOp(6, "restart"))
				observe(0)
			default: // article list reply (field 321)
				c := pickPath(true)
				if c == nil {
					continue
				}
				t := hotline.NewTransaction(hotline.TranGetNewsArtNameList, admin.ID, hotline.NewField(hotline.FieldNewsPath, npField(c.path)))
				res, _ := callHandler(mobius.HandleGetNewsArtNameList, admin, &t)
				var b []byte
				if len(res) == 1 {
					b = res[0].GetField(hotline.FieldNewsArtListData).Data
				}
				ops = append(ops, mkOp(7, "list-articles", npArg(c.path)))
				obs = append(obs, [][]byte{b})
				sawList = true
			}
		}
		// every fourth history ends with a bundle that is listed, deleted with everything below it and created again
		// under the same names: the new category is empty, whatever was answered for the old one
		if h%4 == 1 && !lfProfile {
			B, C := []byte("zzB"), []byte("zzC")
			pth := [][]byte{B, C}
			mkB := func() {
				st := call(mobius.HandleNewNewsFldr, hotline.TranNewNewsFldr, hotline.NewField(hotline.FieldNewsPath, npField(nil)), hotline.NewField(hotline.FieldFileName, B))
				ops = append(ops, mkOp(1, "create-bundle", npArg(nil), B))
				observe(st)
			}
			mkC := func() {
				st := call(mobius.HandleNewNewsCat, hotline.TranNewNewsCat, hotline.NewField(hotline.FieldNewsPath, npField([][]byte{B})), hotline.NewField(hotline.FieldNewsCatName, C))
				ops = append(ops, mkOp(2, "create-category", npArg([][]byte{B}), C))
				observe(st)
			}
			post := func(id int) {
				title, data := []byte(fmt.Sprintf("t%d", id)), []byte(fmt.Sprintf("body %d", id))
				st := call(mobius.HandlePostNewsArt, hotline.TranPostNewsArt, hotline.NewField(hotline.FieldNewsPath, npField(pth)),
					hotline.NewField(hotline.FieldNewsArtID, be16(0)), hotline.NewField(hotline.FieldNewsArtTitle, title), hotline.NewField(hotline.FieldNewsArtData, data))
				date := make([]byte, 8)
				if a := mgr().GetArticle([]string{"zzB", "zzC"}, uint32(id)); a != nil {
					date = append([]byte{}, a.Date[:]...)
				}
				ops = append(ops, mkOp(3, "post", npArg(pth), be32(0), title, admin.UserName, date, data))
				observe(st)
			}
			list := func() {
				t := hotline.NewTransaction(hotline.TranGetNewsArtNameList, admin.ID, hotline.NewField(hotline.FieldNewsPath, npField(pth)))
				res, _ := callHandler(mobius.HandleGetNewsArtNameList, admin, &t)
				var b []byte
				if len(res) == 1 {
					b = res[0].GetField(hotline.FieldNewsArtListData).Data
				}
				ops = append(ops, mkOp(7, "list-articles", npArg(pth)))
				obs = append(obs, [][]byte{b})
			}
			del := func() {
				st := call(mobius.HandleDelNewsItem, hotline.TranDelNewsItem, hotline.NewField(hotline.FieldNewsPath, npField([][]byte{B})))
				ops = append(ops, mkOp(5, "delete-item", npArg([][]byte{B})))
				observe(st)
			}
			mkB()
			mkC()
			post(1)
			post(2)
			list()
			del()
			mkB()
			mkC()
			list()
			post(1)
			list()
		}
		env.StopDrain()
		kind := "history"
		if lfProfile {
			kind = "yaml-leading-newline"
		}
		cs.Add(Case{Kind: kind, Ops: ops, Obs: obs, NonTrivial: nPosts >= 2 && sawReply && sawDelete && sawList})
	}
}
