// Verification harness: drives the real mobius code (built from /repo's working tree with -tags verif through a
// go build overlay) on generated inputs / histories, and writes the observed behaviour as a Coq case file
// (cases.v) plus a JSON twin (cases.json).
package main

import (
	"flag"
	"fmt"
	"os"
	"path/filepath"

	"gopkg.in/yaml.v3"
)

func mustYAML(v interface{}) []byte {
	b, err := yaml.Marshal(v)
	must(err)
	return b
}

type genFunc func(cs *CaseSet, rng *Rng, tier string, dir string)

var generators = map[string]genFunc{}
var corrModules = map[string]string{}

func register(prop string, corr string, g genFunc) {
	generators[prop] = g
	corrModules[prop] = corr
}

func main() {
	if len(os.Args) == 5 && os.Args[1] == "c03child" {
		var seed uint64
		fmt.Sscan(os.Args[3], &seed)
		c03Child(os.Args[2], seed, os.Args[4])
		return
	}
	if len(os.Args) == 4 && os.Args[1] == "c20child" {
		c20Child(os.Args[2], os.Args[3])
		return
	}
	prop := flag.String("prop", "", "property id")
	seed := flag.Uint64("seed", 1, "seed")
	tier := flag.String("tier", "quick", "quick|thorough")
	out := flag.String("out", "", "output directory")
	flag.Parse()
	g, ok := generators[*prop]
	if !ok {
		fmt.Fprintln(os.Stderr, "unknown property", *prop)
		os.Exit(2)
	}
	must(os.MkdirAll(*out, 0755))
	cs := NewCaseSet(*prop, *seed, *tier)
	g(cs, NewRng(*seed), *tier, filepath.Join(*out, "sandbox"))
	must(cs.WriteCoq(*out, corrModules[*prop]))
	must(cs.WriteJSON(filepath.Join(*out, "cases.json")))
	os.RemoveAll(filepath.Join(*out, "sandbox"))
	fmt.Printf("harness: %s cases=%d\n", *prop, len(cs.Cases))
}
