package main

import (
	"bytes"
	"io"
	"os"
	"path/filepath"
	"strings"
	"time"

	"github.com/jhalter/mobius/hotline"
)

func init() { register("C01", "Corr.Run_C01", genC01) }

// drainScript reads r with the scripted buffer sizes until EOF; status 0 done, 1 script exhausted, 2 error.
func drainScript(r io.Reader, script []int) (int, []byte) {
	var out []byte
	for _, k := range script {
		buf := make([]byte, k)
		n, err := r.Read(buf)
		out = append(out, buf[:n]...)
		if err == io.EOF {
			return 0, out
		}
		if err != nil {
			return 2, nil
		}
	}
	return 1, nil
}

func pickLen(rng *Rng, max int) int {
	var l int
	switch rng.Intn(12) {
	case 0:
		l = 0
	case 1:
		l = 1
	case 2:
		l = 254 + rng.Intn(3)
	case 3:
		l = 505 + rng.Intn(16)
	case 4:
		l = max
	case 5:
		l = max - 1 - rng.Intn(3)
	case 6, 7, 8:
		l = rng.Intn(40)
	default:
		l = rng.Intn(3000)
	}
	if l > max {
		l = max
	}
	if l < 0 {
		l = 0
	}
	return l
}

// names without '/' so that strings.Split in EncodeFilePath sees the intended sections
func nameBytes(rng *Rng, n int) []byte {
	b := rng.Bytes(n)
	for i := range b {
		if b[i] == '/' {
			b[i] = '_'
		}
	}
	return b
}

type c01Obj struct {
	tag           int
	args          [][]byte
	mk            func() io.Reader // fresh encoder object (nil: plain function, bytes in enc)
	enc           func() []byte    // for function-style encoders
	nonTrivialVar bool             // has a non-empty variable-length part
}

func arr2(b []byte) (a [2]byte) { copy(a[:], b); return }
func arr4(b []byte) (a [4]byte) { copy(a[:], b); return }
func arr8(b []byte) (a [8]byte) { copy(a[:], b); return }

func genField(rng *Rng, maxData int) c01Obj {
	t := rng.Bytes(2)
	d := dataBytes(rng, pickLen(rng, maxData))
	f := hotline.NewField(arr2(t), d)
	return c01Obj{tag: 1, args: [][]byte{t, append([]byte{}, f.FieldSize[:]...), d},
		mk: func() io.Reader { x := hotline.NewField(arr2(t), d); return &x }, nonTrivialVar: len(d) > 0}
}

func genTran(rng *Rng, big bool) c01Obj {
	flags, rep, typ, id, ec := rng.Bytes(1), rng.Bytes(1), rng.Bytes(2), rng.Bytes(4), rng.Bytes(4)
	nf := rng.Pick(0, 1, 2, 3, 5, 12)
	args := [][]byte{flags, rep, typ, id, ec}
	type fd struct{ t, d []byte }
	var fds []fd
	total := 0
	for i := 0; i < nf; i++ {
		max := 2000
		if big && i == 0 {
			max = 65535
		}
		l := pickLen(rng, max)
		if big && i == 0 && rng.Intn(2) == 0 {
			l = 65529 + rng.Intn(7) // around the scanner token limit
		}
		f := fd{rng.Bytes(2), dataBytes(rng, l)}
		total += l
		fds = append(fds, f)
		args = append(args, f.t, f.d)
	}
	mk := func() io.Reader {
		t := hotline.Transaction{Flags: flags[0], IsReply: rep[0], Type: hotline.TranType(arr2(typ)), ID: arr4(id), ErrorCode: arr4(ec)}
		for _, f := range fds {
			t.Fields = append(t.Fields, hotline.NewField(arr2(f.t), f.d))
		}
		return &t
	}
	return c01Obj{tag: 2, args: args, mk: mk, nonTrivialVar: total > 0}
}

func genUser(rng *Rng) c01Obj {
	id, icon, flags := rng.Bytes(2), rng.Bytes(2), rng.Bytes(2)
	name := dataBytes(rng, pickLen(rng, 3000))
	return c01Obj{tag: 3, args: [][]byte{id, icon, flags, name},
		mk: func() io.Reader {
			return &hotline.User{ID: arr2(id), Icon: append([]byte{}, icon...), Flags: append([]byte{}, flags...), Name: string(name)}
		},
		nonTrivialVar: len(name) > 0}
}

func genFNWI(rng *Rng) c01Obj {
	t, c, s, r, sc := rng.Bytes(4), rng.Bytes(4), rng.Bytes(4), rng.Bytes(4), rng.Bytes(2)
	name := dataBytes(rng, pickLen(rng, 3000))
	ns := be16(len(name))
	mk := func() io.Reader {
		x := &hotline.FileNameWithInfo{Name: append([]byte{}, name...)}
		x.Type, x.Creator, x.FileSize, x.RSVD, x.NameScript, x.NameSize = arr4(t), arr4(c), arr4(s), arr4(r), arr2(sc), arr2(ns)
		return x
	}
	return c01Obj{tag: 4, args: [][]byte{t, c, s, r, sc, ns, name}, mk: mk, nonTrivialVar: len(name) > 0}
}

func genSections(rng *Rng) [][]byte {
	n := 1 + rng.Intn(5)
	var secs [][]byte
	for i := 0; i < n; i++ {
		l := pickLen(rng, 255)
		if l > 255 {
			l = 255
		}
		secs = append(secs, nameBytes(rng, l))
	}
	return secs
}

func joinSecs(secs [][]byte) string {
	s := make([]string, len(secs))
	for i, x := range secs {
		s[i] = string(x)
	}
	return strings.Join(s, "/")
}

func genFH(rng *Rng) c01Obj {
	secs := genSections(rng)
	isDir := rng.Bool()
	args := append([][]byte{b1(isDir)}, secs...)
	tot := 0
	for _, s := range secs {
		tot += len(s)
	}
	return c01Obj{tag: 5, args: args, mk: func() io.Reader { h := hotline.NewFileHeader(joinSecs(secs), isDir); return &h }, nonTrivialVar: tot > 0}
}

func genRD(rng *Rng) c01Obj {
	n := rng.Pick(0, 1, 2, 3, 3, 7)
	var args [][]byte
	var forks []hotline.ForkInfoList
	for i := 0; i < n; i++ {
		b := rng.Bytes(16)
		args = append(args, b)
		forks = append(forks, hotline.ForkInfoList{Fork: arr4(b[0:4]), DataSize: arr4(b[4:8]), RSVDA: arr4(b[8:12]), RSVDB: arr4(b[12:16])})
	}
	return c01Obj{tag: 6, args: args, enc: func() []byte { b, _ := hotline.NewFileResumeData(forks).BinaryMarshal(); return b }, nonTrivialVar: n > 0}
}

func iforkArgs(rng *Rng) [][]byte {
	name := dataBytes(rng, pickLen(rng, 1500))
	comment := dataBytes(rng, pickLen(rng, 1500))
	return [][]byte{rng.Bytes(4), rng.Bytes(4), rng.Bytes(4), rng.Bytes(4), rng.Bytes(4), rng.Bytes(32), rng.Bytes(8), rng.Bytes(8),
		rng.Bytes(2), be16(len(name)), name, be16(len(comment)), comment}
}

func mkIfork(a [][]byte) hotline.FlatFileInformationFork {
	var f hotline.FlatFileInformationFork
	f.Platform, f.TypeSignature, f.CreatorSignature, f.Flags, f.PlatformFlags = arr4(a[0]), arr4(a[1]), arr4(a[2]), arr4(a[3]), arr4(a[4])
	copy(f.RSVD[:], a[5])
	f.CreateDate, f.ModifyDate, f.NameScript, f.NameSize = arr8(a[6]), arr8(a[7]), arr2(a[8]), arr2(a[9])
	f.Name = append([]byte{}, a[10]...)
	f.CommentSize = arr2(a[11])
	f.Comment = append([]byte{}, a[12]...)
	return f
}

func genIfork(rng *Rng) c01Obj {
	a := iforkArgs(rng)
	return c01Obj{tag: 7, args: a, mk: func() io.Reader { f := mkIfork(a); return &f }, nonTrivialVar: len(a[10])+len(a[12]) > 0}
}

func genFFO(rng *Rng) c01Obj {
	ia := iforkArgs(rng)
	args := [][]byte{rng.Bytes(4), rng.Bytes(2), rng.Bytes(16), rng.Bytes(2)}
	args = append(args, ia...)
	dh := [][]byte{rng.Bytes(4), rng.Bytes(4), rng.Bytes(4), rng.Bytes(4)}
	args = append(args, dh...)
	mk := func() io.Reader {
		var o hotline.VerifFlattenedFileObject
		o.FlatFileHeader.Format, o.FlatFileHeader.Version, o.FlatFileHeader.ForkCount = arr4(args[0]), arr2(args[1]), arr2(args[3])
		copy(o.FlatFileHeader.RSVD[:], args[2])
		o.FlatFileInformationFork = mkIfork(ia)
		o.FlatFileDataForkHeader = hotline.FlatFileForkHeader{ForkType: arr4(dh[0]), CompressionType: arr4(dh[1]), RSVD: arr4(dh[2]), DataSize: arr4(dh[3])}
		return &o
	}
	return c01Obj{tag: 8, args: args, mk: mk, nonTrivialVar: len(ia[10])+len(ia[12]) > 0}
}

func artArgs(rng *Rng) [][]byte {
	t := dataBytes(rng, pickLen(rng, 255))
	p := dataBytes(rng, pickLen(rng, 255))
	if len(t) > 255 {
		t = t[:255]
	}
	if len(p) > 255 {
		p = p[:255]
	}
	return [][]byte{rng.Bytes(4), rng.Bytes(8), rng.Bytes(4), rng.Bytes(4), t, p, rng.Bytes(2)}
}

func mkArt(a [][]byte) *hotline.NewsArtList {
	return &hotline.NewsArtList{ID: arr4(a[0]), TimeStamp: arr8(a[1]), ParentID: arr4(a[2]), Flags: arr4(a[3]),
		Title: append([]byte{}, a[4]...), Poster: append([]byte{}, a[5]...), ArticleSize: arr2(a[6])}
}

func genArt(rng *Rng) c01Obj {
	a := artArgs(rng)
	return c01Obj{tag: 9, args: a, mk: func() io.Reader { return mkArt(a) }, nonTrivialVar: len(a[4])+len(a[5]) > 0}
}

func genAL(rng *Rng) c01Obj {
	n := rng.Pick(0, 1, 2, 4)
	id := rng.Bytes(4)
	name := dataBytes(rng, pickLen(rng, 255))
	desc := dataBytes(rng, pickLen(rng, 255))
	args := [][]byte{id, be32(n), name, desc}
	var arts [][][]byte
	for i := 0; i < n; i++ {
		a := artArgs(rng)
		arts = append(arts, a)
		args = append(args, a...)
	}
	mk := func() io.Reader {
		var list []byte
		for _, a := range arts {
			// the list bytes are the concatenated article records (reference concatenation: the entry encoder
			// itself is exercised separately under tag 9)
			x := a
			list = append(list, x[0]...)
			list = append(list, x[1]...)
			list = append(list, x[2]...)
			list = append(list, x[3]...)
			list = append(list, 0, 1, byte(len(x[4])))
			list = append(list, x[4]...)
			list = append(list, byte(len(x[5])))
			list = append(list, x[5]...)
			list = append(list, 0x0a)
			list = append(list, []byte("text/plain")...)
			list = append(list, x[6]...)
		}
		return &hotline.NewsArtListData{ID: arr4(id), Name: name, Description: desc, NewsArtList: list, Count: n}
	}
	return c01Obj{tag: 10, args: args, mk: mk, nonTrivialVar: len(name)+len(desc)+n > 0}
}

func genCat(rng *Rng) c01Obj {
	isCat := rng.Bool()
	typ := []byte{0, 2}
	if isCat {
		typ = []byte{0, 3}
	}
	nArt, nSub := rng.Intn(4), rng.Intn(4)
	guid, add, del := rng.Bytes(16), rng.Bytes(4), rng.Bytes(4)
	name := dataBytes(rng, pickLen(rng, 255))
	mk := func() io.Reader {
		c := &hotline.NewsCategoryListData15{Type: arr2(typ), Name: string(name), Articles: map[uint32]*hotline.NewsArtData{}, SubCats: map[string]hotline.NewsCategoryListData15{}}
		copy(c.GUID[:], guid)
		c.AddSN, c.DeleteSN = arr4(add), arr4(del)
		for i := 0; i < nArt; i++ {
			c.Articles[uint32(i+1)] = &hotline.NewsArtData{}
		}
		for i := 0; i < nSub; i++ {
			c.SubCats[string(rune('a'+i))] = hotline.NewsCategoryListData15{}
		}
		return c
	}
	return c01Obj{tag: 11, args: [][]byte{typ, be16(nArt + nSub), guid, add, del, name}, mk: mk, nonTrivialVar: len(name) > 0}
}

func genTR(rng *Rng) c01Obj {
	port, pass := rng.Bytes(2), rng.Bytes(4)
	users := rng.Intn(65536)
	n, d, pw := dataBytes(rng, pickLen(rng, 255)), dataBytes(rng, pickLen(rng, 255)), dataBytes(rng, pickLen(rng, 255))
	mk := func() io.Reader {
		return &hotline.TrackerRegistration{Port: arr2(port), UserCount: users, PassID: arr4(pass), Name: string(n), Description: string(d), Password: string(pw)}
	}
	return c01Obj{tag: 12, args: [][]byte{port, be16(users), pass, n, d, pw}, mk: mk, nonTrivialVar: len(n)+len(d)+len(pw) > 0}
}

var hashEmpty = hotline.HashAndSalt([]byte(""))
var hashX = hotline.HashAndSalt([]byte("secret"))

func genAcc(rng *Rng) c01Obj {
	name, login, access := dataBytes(rng, pickLen(rng, 600)), dataBytes(rng, pickLen(rng, 600)), rng.Bytes(8)
	has := rng.Bool()
	mk := func() io.Reader {
		a := &hotline.Account{Login: string(login), Name: string(name), Password: hashEmpty}
		if has {
			a.Password = hashX
		}
		copy(a.Access[:], access)
		return a
	}
	return c01Obj{tag: 13, args: [][]byte{name, login, access, b1(has)}, mk: mk, nonTrivialVar: len(name)+len(login) > 0}
}

func genPath(rng *Rng) c01Obj {
	secs := genSections(rng)
	tot := 0
	for _, s := range secs {
		tot += len(s)
	}
	return c01Obj{tag: 14, args: secs, enc: func() []byte { return hotline.EncodeFilePath(joinSecs(secs)) }, nonTrivialVar: tot > 0}
}

func genTime(rng *Rng) c01Obj {
	year := 1990 + rng.Intn(60)
	secs := rng.Intn(365 * 86400)
	return c01Obj{tag: 15, args: [][]byte{be16(year), be32(secs)}, enc: func() []byte {
		t := time.Date(year, time.January, 1, 0, 0, 0, 0, time.Local).Add(time.Duration(secs) * time.Second)
		b := hotline.NewTime(t)
		return b[:]
	}}
}

// ---- decoding with panic capture; components in the same layout as the object arguments ----
func decodeGo(tag int, raw []byte) (out [][]byte) {
	p := make([]byte, len(raw)) // cap == len, like the token copies the server makes
	copy(p, raw)
	defer func() {
		if r := recover(); r != nil {
			out = [][]byte{{2}}
		}
	}()
	errOut := [][]byte{{1}}
	switch tag {
	case 1:
		var f hotline.Field
		if _, err := f.Write(p); err != nil {
			return errOut
		}
		return [][]byte{{0}, f.Type[:], f.FieldSize[:], f.Data}
	case 2:
		var t hotline.Transaction
		if _, err := t.Write(p); err != nil {
			return errOut
		}
		out = [][]byte{{0}, {t.Flags}, {t.IsReply}, t.Type[:], t.ID[:], t.ErrorCode[:]}
		for _, f := range t.Fields {
			out = append(out, append([]byte{}, f.Type[:]...), f.Data)
		}
		return out
	case 3:
		var u hotline.User
		if _, err := u.Write(p); err != nil {
			return errOut
		}
		return [][]byte{{0}, u.ID[:], u.Icon, u.Flags, []byte(u.Name)}
	case 4:
		var x hotline.FileNameWithInfo
		if _, err := x.Write(p); err != nil {
			return errOut
		}
		return [][]byte{{0}, x.Type[:], x.Creator[:], x.FileSize[:], x.RSVD[:], x.NameScript[:], x.NameSize[:], x.Name}
	case 6:
		var r hotline.FileResumeData
		if err := r.UnmarshalBinary(p); err != nil {
			return errOut
		}
		out = [][]byte{{0}, r.Format[:], r.Version[:], r.RSVD[:], r.ForkCount[:]}
		for _, f := range r.ForkInfoList {
			out = append(out, bytes.Join([][]byte{f.Fork[:], f.DataSize[:], f.RSVDA[:], f.RSVDB[:]}, nil))
		}
		return out
	case 7:
		var f hotline.FlatFileInformationFork
		if _, err := f.Write(p); err != nil {
			return errOut
		}
		return append([][]byte{{0}}, iforkComps(&f)...)
	case 8:
		var o hotline.VerifFlattenedFileObject
		rd := bytes.NewReader(p)
		if _, err := o.ReadFrom(rd); err != nil {
			return errOut
		}
		rest, _ := io.ReadAll(rd)
		out = [][]byte{{0}, o.FlatFileHeader.Format[:], o.FlatFileHeader.Version[:], o.FlatFileHeader.RSVD[:], o.FlatFileHeader.ForkCount[:]}
		out = append(out, iforkComps(&o.FlatFileInformationFork)...)
		h := o.FlatFileDataForkHeader
		return append(out, h.ForkType[:], h.CompressionType[:], h.RSVD[:], h.DataSize[:], rest)
	case 14:
		var fp hotline.FilePath
		if _, err := fp.Write(p); err != nil {
			return errOut
		}
		out = [][]byte{{0}, fp.ItemCount[:]}
		for _, it := range fp.Items {
			out = append(out, it.Name)
		}
		return out
	case 16:
		f := hotline.Field{Data: p}
		n, err := f.DecodeInt()
		if err != nil {
			return errOut
		}
		return [][]byte{{0}, be32(n)}
	case 17:
		var h hotline.VerifHandshake
		if _, err := h.Write(p); err != nil || !h.Valid() {
			return [][]byte{{1}}
		}
		return [][]byte{{0}}
	case 18:
		var t hotline.VerifTransfer
		if _, err := t.Write(p); err != nil {
			return errOut
		}
		return [][]byte{{0}, t.ReferenceNumber[:]}
	}
	return nil
}

func iforkComps(f *hotline.FlatFileInformationFork) [][]byte {
	return [][]byte{f.Platform[:], f.TypeSignature[:], f.CreatorSignature[:], f.Flags[:], f.PlatformFlags[:], f.RSVD[:],
		f.CreateDate[:], f.ModifyDate[:], f.NameScript[:], f.NameSize[:], f.Name, f.CommentSize[:], f.Comment}
}

// scriptBytes: run-length records count(4) size(2)
func scriptBytes(s []int) []byte {
	var b []byte
	for i := 0; i < len(s); {
		j := i
		for j < len(s) && s[j] == s[i] {
			j++
		}
		b = append(b, be32(j-i)...)
		b = append(b, be16(s[i])...)
		i = j
	}
	return b
}

func dataBytes(rng *Rng, n int) []byte {
	if n >= 128 {
		return patBytes(n, byte(rng.U64()))
	}
	return rng.Bytes(n)
}

func genC01(cs *CaseSet, rng *Rng, tier string, dir string) {
	cs.Rule = "drain cases: the object has a non-empty variable-length part and the script performs >= 2 reads; round-trip cases: non-empty variable part; raw-decode cases: a valid encoding or a single mutation (truncation, one byte changed, trailing bytes) of one; distinct by (op, tag, arguments, script)"
	scale := 1
	if tier == "thorough" {
		scale = 8
	}
	gens := []func(*Rng) c01Obj{
		func(r *Rng) c01Obj { return genField(r, 3000) },
		func(r *Rng) c01Obj { return genTran(r, false) },
		genUser, genFNWI, genFH, genRD, genIfork, genFFO, genArt, genAL, genCat, genTR, genAcc, genPath, genTime,
	}
	encode := func(o c01Obj) []byte {
		if o.enc != nil {
			return o.enc()
		}
		b, _ := io.ReadAll(o.mk())
		return b
	}
	mkScripts := func(rng *Rng, n int) [][]int {
		rep := func(k, cnt int) []int {
			s := make([]int, cnt)
			for i := range s {
				s[i] = k
			}
			return s
		}
		var out [][]int
		if n <= 600 {
			out = append(out, rep(1, n+2))
		}
		out = append(out, rep(4, n/4+3))
		primes := []int{2, 3, 5, 7, 11, 13}
		s := make([]int, 0, n/2+3)
		for i := 0; i < n/2+3; i++ {
			s = append(s, primes[i%len(primes)])
		}
		out = append(out, s)
		out = append(out, rep(512, n/512+3))
		r := make([]int, 0)
		for tot := 0; tot <= n+200; {
			k := 1 + rng.Intn(97)
			r = append(r, k)
			tot += k
		}
		out = append(out, r)
		out = append(out, rep(65535, 3))
		return out
	}
	for gi, g := range gens {
		nObj := 12 * scale
		for k := 0; k < nObj; k++ {
			o := g(rng.Fork("obj"))
			rng.U64()
			ref := encode(o)
			scripts := mkScripts(rng, len(ref))
			if o.mk == nil {
				// plain function: one "drain" (the function result)
				cs.Add(Case{Kind: "encode-func", Ops: []Op{mkOp(1, "encode", append([][]byte{{byte(o.tag)}, {1}, nil}, o.args...)...)},
					Obs: [][][]byte{{{0}, ref}}, NonTrivial: o.nonTrivialVar})
			} else {
				nScr := 3
				if tier == "thorough" {
					nScr = len(scripts)
				}
				picked := map[int]bool{}
				for len(picked) < nScr && len(picked) < len(scripts) {
					picked[(k+len(picked)*5+rng.Intn(len(scripts)))%len(scripts)] = true
				}
				for si := range picked {
					sc := scripts[si]
					st, out := drainScript(o.mk(), sc)
					cs.Add(Case{Kind: "drain-script", Ops: []Op{mkOp(1, "drain", append([][]byte{{byte(o.tag)}, {0}, scriptBytes(sc)}, o.args...)...)},
						Obs: [][][]byte{{{byte(st)}, out}}, NonTrivial: o.nonTrivialVar && len(sc) >= 2 && len(ref) > sc[0]})
				}
				// io.ReadAll and io.Copy consumers
				b1, e1 := io.ReadAll(o.mk())
				st := 0
				if e1 != nil {
					st = 2
				}
				cs.Add(Case{Kind: "drain-readall", Ops: []Op{mkOp(1, "ReadAll", append([][]byte{{byte(o.tag)}, {1}, nil}, o.args...)...)},
					Obs: [][][]byte{{{byte(st)}, b1}}, NonTrivial: o.nonTrivialVar && len(ref) > 512})
				var bb bytes.Buffer
				_, e2 := io.Copy(&bb, o.mk())
				st = 0
				if e2 != nil {
					st = 2
				}
				cs.Add(Case{Kind: "drain-iocopy", Ops: []Op{mkOp(1, "io.Copy", append([][]byte{{byte(o.tag)}, {2}, nil}, o.args...)...)},
					Obs: [][][]byte{{{byte(st)}, bb.Bytes()}}, NonTrivial: o.nonTrivialVar && len(ref) > 512})
			}
			// round trip through the code's own decoder
			switch o.tag {
			case 1, 2, 3, 4, 6, 7, 8, 14:
				cs.Add(Case{Kind: "roundtrip", Ops: []Op{mkOp(4, "encode-decode", append([][]byte{{byte(o.tag)}}, o.args...)...)},
					Obs: [][][]byte{decodeGo(o.tag, ref)}, NonTrivial: o.nonTrivialVar})
				// malformed stream: single mutations of the valid encoding
				for m := 0; m < 3; m++ {
					raw := append([]byte{}, ref...)
					kind := "raw-valid"
					switch rng.Intn(5) {
					case 0:
						if len(raw) > 0 {
							raw = raw[:rng.Intn(len(raw))]
							kind = "raw-truncated"
						}
					case 1:
						if len(raw) > 0 {
							i := rng.Intn(len(raw))
							if rng.Bool() && len(raw) > 24 {
								i = rng.Intn(24) // headers and length fields live at the front
							}
							raw[i] ^= byte(1 << rng.Intn(8))
							kind = "raw-bitflip"
						}
					case 2:
						raw = append(raw, rng.Bytes(1+rng.Intn(9))...)
						kind = "raw-trailing"
					case 3:
						raw = rng.Bytes(rng.Intn(60))
						kind = "raw-random"
					}
					if o.tag == 14 && len(raw) > 3500 {
						continue // scanner buffer effects beyond 4 KiB are outside the model (DESIGN.md C01)
					}
					obs := decodeGo(o.tag, raw)
					if len(obs) > 300 {
						continue // e.g. a corrupted item count repeating a stale token tens of thousands of times
					}
					cs.Add(Case{Kind: kind, Ops: []Op{mkOp(2, "decode", []byte{byte(o.tag)}, raw)},
						Obs: [][][]byte{obs}, NonTrivial: kind != "raw-random"})
				}
			}
			_ = gi
		}
	}
	// transactions around the 64 KiB token limit
	for k := 0; k < 3*scale; k++ {
		o := genTran(rng, true)
		ref := encode(o)
		cs.Add(Case{Kind: "roundtrip-big", Ops: []Op{mkOp(4, "encode-decode", append([][]byte{{byte(o.tag)}}, o.args...)...)},
			Obs: [][][]byte{decodeGo(o.tag, ref)}, NonTrivial: true})
		st, out := drainScript(o.mk(), []int{32768, 32768, 32768, 32768, 32768})
		cs.Add(Case{Kind: "drain-script", Ops: []Op{mkOp(1, "drain", append([][]byte{{byte(o.tag)}, {0}, scriptBytes([]int{32768, 32768, 32768, 32768, 32768})}, o.args...)...)},
			Obs: [][][]byte{{{byte(st)}, out}}, NonTrivial: true})
	}
	// small fixed decoders
	for k := 0; k < 30*scale; k++ {
		n := rng.Pick(0, 1, 2, 3, 4, 5, 8)
		raw := rng.Bytes(n)
		cs.Add(Case{Kind: "decode-int", Ops: []Op{mkOp(2, "DecodeInt", []byte{16}, raw)}, Obs: [][][]byte{decodeGo(16, raw)}, NonTrivial: n == 2 || n == 4})
		hs := append([]byte{}, handshakeBytes...)
		switch rng.Intn(5) {
		case 0:
			hs = hs[:rng.Intn(12)]
		case 1:
			hs[rng.Intn(12)] ^= 0x20
		case 2:
			hs = append(hs, 0)
		case 3:
			copy(hs[8:], rng.Bytes(4))
		}
		cs.Add(Case{Kind: "handshake", Ops: []Op{mkOp(2, "handshake", []byte{17}, hs)}, Obs: [][][]byte{decodeGo(17, hs)}, NonTrivial: true})
		tf := append([]byte("HTXF"), rng.Bytes(12)...)
		switch rng.Intn(4) {
		case 0:
			tf = tf[:rng.Intn(16)]
		case 1:
			tf[rng.Intn(4)] ^= 1
		case 2:
			tf = append(tf, rng.Bytes(3)...)
		}
		cs.Add(Case{Kind: "transfer-preamble", Ops: []Op{mkOp(2, "transfer", []byte{18}, tf)}, Obs: [][][]byte{decodeGo(18, tf)}, NonTrivial: true})
	}

	// ---- records as the SERVER builds them: the file-list entries GetFileNameList produces for names of every kind
	// (ASCII, Mac-Roman-representable, not representable, long) must frame themselves - the name-size prefix covers
	// exactly the name bytes that follow
	{
		ld := filepath.Join(dir, "listing")
		must(os.MkdirAll(filepath.Join(ld, "na\u00efve folder"), 0755))
		for i, n := range []string{"plain.txt", "caf\u00e9.txt", "\u00fcber \u00e5ngstr\u00f6m.sit", "\u65e5\u672c\u8a9e.txt", strings.Repeat("n", 200) + ".bin", "mixed \u00e9 \u65e5.dat", "x"} {
			must(os.WriteFile(filepath.Join(ld, n), bytes.Repeat([]byte{byte(i)}, i*37), 0644))
		}
		fields, err := hotline.GetFileNameList(ld, nil)
		must(err)
		for _, f := range fields {
			raw := append([]byte{}, f.Data...)
			cs.Add(Case{Kind: "server-built-file-list-entry", Ops: []Op{mkOp(5, "server-built", []byte{4}, raw)},
				Obs: [][][]byte{decodeGo(4, raw)}, NonTrivial: true})
		}
	}
}
