package main

import (
	"crypto/sha256"
	"fmt"
	"os"
	"path/filepath"
	"sort"
	"strings"

	"github.com/jhalter/mobius/hotline"
	"github.com/jhalter/mobius/internal/mobius"
)

func init() { register("C05", "Corr.Run_C05", genC05) }

type c05Req struct {
	h      func(*hotline.ClientConn, *hotline.Transaction) []hotline.Transaction
	typ    hotline.TranType
	fields []hotline.Field
}

func stateHash(env *Env) string {
	m := snapshot(env.Cfg)
	var keys []string
	for k := range m {
		keys = append(keys, k)
	}
	sort.Strings(keys)
	h := sha256.New()
	for _, k := range keys {
		fmt.Fprintf(h, "%s=%s\n", k, m[k])
	}
	return hx(h.Sum(nil))
}

func genC05(cs *CaseSet, rng *Rng, tier string, dir string) {
	cs.Rule = "the requester's bitmap is neither all-zero nor all-ones (all-but-one-bit, single-bit, exactly-the-governing-set and governing-set-minus-one profiles); distinct by (class, bitmap); account-edit batches: >= 2 edits and a bitmap that is neither all-zero nor all-ones"
	env := NewEnv(dir, EnvOpts{Board: "board text\r", Agreement: "a"})
	env.StartDrain()
	defer env.StopDrain()
	root := env.FileRoot
	must(os.MkdirAll(filepath.Join(root, "Uploads"), 0755))
	must(os.MkdirAll(filepath.Join(root, "Drop Box"), 0755))
	must(os.WriteFile(filepath.Join(root, "Drop Box", "secret.txt"), []byte("s"), 0644))
	must(os.MkdirAll(filepath.Join(root, "dest"), 0755))
	news := env.Srv.ThreadedNewsMgr
	must(news.CreateGrouping(nil, "Cat", hotline.NewsCategory))
	must(news.PostArticle([]string{"Cat"}, 0, hotline.NewsArtData{Title: "t", Poster: "p", Data: "d"}))
	var all hotline.AccessBitmap
	for i := range all {
		all[i] = 255
	}
	target, _ := env.NewClient("~target~", hotline.AccessBitmap{}, "10.5.0.9:1")
	chat := env.Srv.ChatMgr.New(target)
	serial := 0
	fn := func(id [2]byte, d []byte) hotline.Field { return hotline.NewField(id, d) }
	pathOf := func(items ...string) []byte {
		var b [][]byte
		for _, s := range items {
			b = append(b, []byte(s))
		}
		return encodePath(b)
	}
	subRec := func(fields ...[]byte) []byte {
		var sub []byte
		for _, f := range fields {
			sub = append(sub, f...)
		}
		return append(be16(len(fields)), sub...)
	}
	mkUser := func(login string) {
		env.Srv.AccountManager.Create(hotline.Account{Login: login, Name: login, Password: hashEmpty})
	}
	// one fresh, valid request of the given class
	build := func(cls int) c05Req {
		serial++
		n := fmt.Sprintf("%d", serial)
		// every other target carries an info fork whose type signature CONTRADICTS its kind on disk (a file typed
		// "fldr", a folder typed "TEXT"): the privilege is governed by what the target is, not by what a fork claims
		file := func() string {
			must(os.WriteFile(filepath.Join(root, "f"+n+".txt"), []byte("data"), 0644))
			if serial%2 == 0 {
				must(os.WriteFile(filepath.Join(root, ".info_f"+n+".txt"), c11InfoFork("fldr", "n/a ", []byte("f"+n+".txt"), nil), 0644))
			}
			return "f" + n + ".txt"
		}
		folder := func() string {
			must(os.Mkdir(filepath.Join(root, "d"+n), 0755))
			if serial%2 == 0 {
				must(os.WriteFile(filepath.Join(root, ".info_d"+n), c11InfoFork("TEXT", "ttxt", []byte("d"+n), nil), 0644))
			}
			return "d" + n
		}
		switch cls {
		case 1:
			return c05Req{mobius.HandleChatSend, hotline.TranChatSend, []hotline.Field{fn(hotline.FieldData, []byte("hi"))}}
		case 2:
			return c05Req{mobius.HandleSendInstantMsg, hotline.TranSendInstantMsg, []hotline.Field{fn(hotline.FieldUserID, target.ID[:]), fn(hotline.FieldData, []byte("pm"))}}
		case 3:
			return c05Req{mobius.HandleDeleteFile, hotline.TranDeleteFile, []hotline.Field{fn(hotline.FieldFileName, []byte(file()))}}
		case 4:
			return c05Req{mobius.HandleDeleteFile, hotline.TranDeleteFile, []hotline.Field{fn(hotline.FieldFileName, []byte(folder()))}}
		case 5:
			return c05Req{mobius.HandleMoveFile, hotline.TranMoveFile, []hotline.Field{fn(hotline.FieldFileName, []byte(file())), fn(hotline.FieldFileNewPath, pathOf("dest"))}}
		case 6:
			return c05Req{mobius.HandleMoveFile, hotline.TranMoveFile, []hotline.Field{fn(hotline.FieldFileName, []byte(folder())), fn(hotline.FieldFileNewPath, pathOf("dest"))}}
		case 7:
			return c05Req{mobius.HandleSetFileInfo, hotline.TranSetFileInfo, []hotline.Field{fn(hotline.FieldFileName, []byte(file())), fn(hotline.FieldFileComment, []byte("c"))}}
		case 8:
			return c05Req{mobius.HandleSetFileInfo, hotline.TranSetFileInfo, []hotline.Field{fn(hotline.FieldFileName, []byte(folder())), fn(hotline.FieldFileComment, []byte("c"))}}
		case 9:
			return c05Req{mobius.HandleSetFileInfo, hotline.TranSetFileInfo, []hotline.Field{fn(hotline.FieldFileName, []byte(file())), fn(hotline.FieldFileNewName, []byte("r"+n+".txt"))}}
		case 10:
			return c05Req{mobius.HandleSetFileInfo, hotline.TranSetFileInfo, []hotline.Field{fn(hotline.FieldFileName, []byte(folder())), fn(hotline.FieldFileNewName, []byte("rd"+n))}}
		case 11:
			return c05Req{mobius.HandleNewFolder, hotline.TranNewFolder, []hotline.Field{fn(hotline.FieldFileName, []byte("nf"+n))}}
		case 12:
			return c05Req{mobius.HandleMakeAlias, hotline.TranMakeFileAlias, []hotline.Field{fn(hotline.FieldFileName, []byte(file())), fn(hotline.FieldFileNewPath, pathOf("dest"))}}
		case 13:
			return c05Req{mobius.HandleDownloadFile, hotline.TranDownloadFile, []hotline.Field{fn(hotline.FieldFileName, []byte(file()))}}
		case 14:
			return c05Req{mobius.HandleDownloadFolder, hotline.TranDownloadFldr, []hotline.Field{fn(hotline.FieldFileName, []byte("dest"))}}
		case 15:
			return c05Req{mobius.HandleUploadFile, hotline.TranUploadFile, []hotline.Field{fn(hotline.FieldFileName, []byte("u"+n)), fn(hotline.FieldFilePath, pathOf("Uploads"))}}
		case 16:
			return c05Req{mobius.HandleUploadFile, hotline.TranUploadFile, []hotline.Field{fn(hotline.FieldFileName, []byte("u"+n)), fn(hotline.FieldFilePath, pathOf("dest"))}}
		case 17:
			return c05Req{mobius.HandleUploadFolder, hotline.TranUploadFldr, []hotline.Field{fn(hotline.FieldFileName, []byte("uf"+n)), fn(hotline.FieldFilePath, pathOf("Uploads")), fn(hotline.FieldTransferSize, be32(10)), fn(hotline.FieldFolderItemCount, be16(1))}}
		case 18:
			return c05Req{mobius.HandleUploadFolder, hotline.TranUploadFldr, []hotline.Field{fn(hotline.FieldFileName, []byte("uf"+n)), fn(hotline.FieldFilePath, pathOf("dest")), fn(hotline.FieldTransferSize, be32(10)), fn(hotline.FieldFolderItemCount, be16(1))}}
		case 19:
			return c05Req{mobius.HandleGetFileNameList, hotline.TranGetFileNameList, []hotline.Field{fn(hotline.FieldFilePath, pathOf("Drop Box"))}}
		case 20:
			return c05Req{mobius.HandleGetFileNameList, hotline.TranGetFileNameList, []hotline.Field{fn(hotline.FieldFilePath, pathOf("dest"))}}
		case 21:
			return c05Req{mobius.HandleGetFileInfo, hotline.TranGetFileInfo, []hotline.Field{fn(hotline.FieldFileName, []byte(file()))}}
		case 22:
			return c05Req{mobius.HandleNewUser, hotline.TranNewUser, []hotline.Field{fn(hotline.FieldUserLogin, obfuscate([]byte("nu"+n))), fn(hotline.FieldUserName, []byte("n")), fn(hotline.FieldUserPassword, []byte("p")), fn(hotline.FieldUserAccess, make([]byte, 8))}}
		case 23:
			mkUser("du" + n)
			return c05Req{mobius.HandleDeleteUser, hotline.TranDeleteUser, []hotline.Field{fn(hotline.FieldUserLogin, obfuscate([]byte("du"+n)))}}
		case 24:
			return c05Req{mobius.HandleGetUser, hotline.TranGetUser, []hotline.Field{fn(hotline.FieldUserLogin, []byte("guest"))}}
		case 25:
			return c05Req{mobius.HandleListUsers, hotline.TranListUsers, nil}
		case 26:
			mkUser("su" + n)
			return c05Req{mobius.HandleSetUser, hotline.TranSetUser, []hotline.Field{fn(hotline.FieldUserLogin, obfuscate([]byte("su"+n))), fn(hotline.FieldUserName, []byte("new")), fn(hotline.FieldUserAccess, make([]byte, 8)), fn(hotline.FieldUserPassword, []byte{0})}}
		case 27:
			mkUser("xd" + n)
			return c05Req{mobius.HandleUpdateUser, hotline.TranUpdateUser, []hotline.Field{fn(hotline.FieldData, subRec(encField(hotline.FieldData, obfuscate([]byte("xd"+n)))))}}
		case 28:
			mkUser("xm" + n)
			return c05Req{mobius.HandleUpdateUser, hotline.TranUpdateUser, []hotline.Field{fn(hotline.FieldData, subRec(
				encField(hotline.FieldUserLogin, obfuscate([]byte("xm"+n))), encField(hotline.FieldUserName, []byte("m")), encField(hotline.FieldUserPassword, []byte{0}), encField(hotline.FieldUserAccess, make([]byte, 8))))}}
		case 29:
			return c05Req{mobius.HandleUpdateUser, hotline.TranUpdateUser, []hotline.Field{fn(hotline.FieldData, subRec(
				encField(hotline.FieldUserLogin, obfuscate([]byte("xc"+n))), encField(hotline.FieldUserName, []byte("m")), encField(hotline.FieldUserPassword, []byte("p")), encField(hotline.FieldUserAccess, make([]byte, 8))))}}
		case 30:
			victim, _ := env.NewClient("~victim~", hotline.AccessBitmap{}, fmt.Sprintf("10.5.%d.%d:9", serial/250, serial%250))
			return c05Req{mobius.HandleDisconnectUser, hotline.TranDisconnectUser, []hotline.Field{fn(hotline.FieldUserID, victim.ID[:])}}
		case 31:
			return c05Req{mobius.HandleGetClientInfoText, hotline.TranGetClientInfoText, []hotline.Field{fn(hotline.FieldUserID, target.ID[:])}}
		case 32:
			return c05Req{mobius.HandleUserBroadcast, hotline.TranUserBroadcast, []hotline.Field{fn(hotline.FieldData, []byte("b"))}}
		case 33:
			return c05Req{mobius.HandleGetMsgs, hotline.TranGetMsgs, nil}
		case 34:
			return c05Req{mobius.HandleTranOldPostNews, hotline.TranOldPostNews, []hotline.Field{fn(hotline.FieldData, []byte("post"))}}
		case 35:
			return c05Req{mobius.HandleGetNewsCatNameList, hotline.TranGetNewsCatNameList, nil}
		case 36:
			return c05Req{mobius.HandleGetNewsArtNameList, hotline.TranGetNewsArtNameList, []hotline.Field{fn(hotline.FieldNewsPath, npField([][]byte{[]byte("Cat")}))}}
		case 37:
			return c05Req{mobius.HandleGetNewsArtData, hotline.TranGetNewsArtData, []hotline.Field{fn(hotline.FieldNewsPath, npField([][]byte{[]byte("Cat")})), fn(hotline.FieldNewsArtID, be16(1))}}
		case 38:
			return c05Req{mobius.HandlePostNewsArt, hotline.TranPostNewsArt, []hotline.Field{fn(hotline.FieldNewsPath, npField([][]byte{[]byte("Cat")})), fn(hotline.FieldNewsArtID, be16(0)), fn(hotline.FieldNewsArtTitle, []byte("t")), fn(hotline.FieldNewsArtData, []byte("d"))}}
		case 39:
			return c05Req{mobius.HandleDelNewsArt, hotline.TranDelNewsArt, []hotline.Field{fn(hotline.FieldNewsPath, npField([][]byte{[]byte("Cat")})), fn(hotline.FieldNewsArtID, be16(900))}}
		case 40:
			return c05Req{mobius.HandleNewNewsCat, hotline.TranNewNewsCat, []hotline.Field{fn(hotline.FieldNewsCatName, []byte("c"+n))}}
		case 41:
			return c05Req{mobius.HandleNewNewsFldr, hotline.TranNewNewsFldr, []hotline.Field{fn(hotline.FieldFileName, []byte("b"+n))}}
		case 42:
			must(news.CreateGrouping(nil, "dc"+n, hotline.NewsCategory))
			return c05Req{mobius.HandleDelNewsItem, hotline.TranDelNewsItem, []hotline.Field{fn(hotline.FieldNewsPath, npField([][]byte{[]byte("dc" + n)}))}}
		case 43:
			must(news.CreateGrouping(nil, "db"+n, hotline.NewsBundle))
			return c05Req{mobius.HandleDelNewsItem, hotline.TranDelNewsItem, []hotline.Field{fn(hotline.FieldNewsPath, npField([][]byte{[]byte("db" + n)}))}}
		case 44:
			return c05Req{mobius.HandleInviteNewChat, hotline.TranInviteNewChat, []hotline.Field{fn(hotline.FieldUserID, target.ID[:])}}
		case 45:
			return c05Req{mobius.HandleInviteToChat, hotline.TranInviteToChat, []hotline.Field{fn(hotline.FieldUserID, target.ID[:]), fn(hotline.FieldChatID, chat[:])}}
		case 46:
			return c05Req{mobius.HandleGetUserNameList, hotline.TranGetUserNameList, nil}
		case 47:
			return c05Req{mobius.HandleKeepAlive, hotline.TranKeepAlive, nil}
		case 48:
			return c05Req{mobius.HandleJoinChat, hotline.TranJoinChat, []hotline.Field{fn(hotline.FieldChatID, chat[:])}}
		case 49:
			return c05Req{mobius.HandleLeaveChat, hotline.TranLeaveChat, []hotline.Field{fn(hotline.FieldChatID, chat[:])}}
		case 50:
			return c05Req{mobius.HandleRejectChatInvite, hotline.TranRejectChatInvite, []hotline.Field{fn(hotline.FieldChatID, chat[:])}}
		case 51:
			return c05Req{mobius.HandleSetChatSubject, hotline.TranSetChatSubject, []hotline.Field{fn(hotline.FieldChatID, chat[:]), fn(hotline.FieldChatSubject, []byte("s"))}}
		case 53, 54: // the same upload requests as 16 / 15, but resuming a partial upload that is lying there
			folderName := map[int]string{53: "dest", 54: "Uploads"}[cls]
			must(os.WriteFile(filepath.Join(root, folderName, "u"+n+".incomplete"), []byte("part"), 0644))
			return c05Req{mobius.HandleUploadFile, hotline.TranUploadFile, []hotline.Field{fn(hotline.FieldFileName, []byte("u"+n)), fn(hotline.FieldFilePath, pathOf(folderName)),
				fn(hotline.FieldFileTransferOptions, []byte{0, 1})}}
		default:
			return c05Req{mobius.HandleDownloadBanner, hotline.TranDownloadBanner, nil}
		}
	}
	governing := map[int][]int{1: {10}, 2: {40}, 3: {0}, 4: {6}, 5: {4}, 6: {8}, 7: {28}, 8: {29}, 9: {3}, 10: {7}, 11: {5}, 12: {31}, 13: {2}, 14: {39},
		15: {1}, 16: {1, 25}, 17: {38}, 18: {38, 25}, 19: {30}, 22: {14}, 23: {15}, 24: {16}, 25: {16}, 26: {17}, 27: {15}, 28: {17}, 29: {14}, 30: {22},
		31: {24}, 32: {32}, 33: {20}, 34: {21}, 35: {20}, 36: {20}, 37: {20}, 38: {21}, 39: {33}, 40: {34}, 41: {36}, 42: {35}, 43: {37}, 44: {11}, 45: {11}, 53: {1, 25}, 54: {1}}
	var one func(cls int, b hotline.AccessBitmap, kind string)
	one = func(cls int, b hotline.AccessBitmap, kind string) {
		req := build(cls)
		cc, _ := env.NewClient("~c~", b, "10.5.0.1:1")
		env.TakeSent()
		before := stateHash(env)
		t := hotline.NewTransaction(req.typ, cc.ID, req.fields...)
		res, panicked := callHandler(req.h, cc, &t)
		sent := env.TakeSent()
		denied := isErrReply(res)
		changed := byte(0)
		if denied {
			// a refusal must be pure: one error reply, nothing queued for anybody, no state change
			if stateHash(env) != before || len(sent) != 0 || len(res) != 1 {
				changed = 1
			}
		}
		env.Srv.ClientMgr.Delete(cc.ID)
		d := byte(0)
		if denied {
			d = 1
		}
		if panicked {
			d = 3
		}
		var zero hotline.AccessBitmap
		cs.Add(Case{Kind: kind, Ops: []Op{mkOp(1, fmt.Sprintf("class-%d", cls), be16(cls), b[:])},
			Obs: [][][]byte{{{d}, {changed}}}, NonTrivial: b != zero && b != all})
	}
	// class 30 (disconnect user) closes its victims from a goroutine one second later, which queues delete-user
	// notifications at an arbitrary later moment: it runs last so that those cannot be mistaken for an effect of
	// an unrelated denied request
	order := []int{}
	for cls := 1; cls <= 54; cls++ {
		if cls != 30 {
			order = append(order, cls)
		}
	}
	order = append(order, 30)
	type job struct {
		cls  int
		b    hotline.AccessBitmap
		kind string
	}
	var deferred []job // class 30 with the privilege held: each starts a goroutine that disconnects its victim a second later
	runOne := one
	one = func(cls int, b hotline.AccessBitmap, kind string) {
		if cls == 30 && b.IsSet(22) {
			deferred = append(deferred, job{cls, b, kind})
			return
		}
		runOne(cls, b, kind)
	}
	defer func() {}()
	for _, cls := range order {
		step := 1
		if tier == "quick" {
			step = 4 // a quarter of the unrelated bits (chosen by the seed); every governing bit is always included
		}
		gov := governing[cls]
		isGov := func(p int) bool {
			for _, g := range gov {
				if g == p {
					return true
				}
			}
			return false
		}
		for p := 0; p < 64; p++ {
			if !isGov(p) && (p+int(rng.s%uint64(step)))%step != 0 {
				continue
			}
			b := all
			b[p/8] &^= 1 << (7 - p%8)
			one(cls, b, "all-but-one")
			one(cls, bitmapOf(p), "single-bit")
		}
		one(cls, all, "all-ones")
		one(cls, hotline.AccessBitmap{}, "all-zero")
		if len(gov) > 0 {
			one(cls, bitmapOf(gov...), "exactly-governing")
			for i := range gov {
				var rest []int
				for j, g := range gov {
					if j != i {
						rest = append(rest, g)
					}
				}
				one(cls, bitmapOf(rest...), "governing-minus-one")
			}
		}
	}
	for _, j := range deferred {
		runOne(j.cls, j.b, j.kind)
	}
	// batched account edits: ONE UpdateUser transaction with several sub-records on two logins (often the same one),
	// by accounts holding every subset of create (14) / delete (15) / modify (17); the privilege governing an edit
	// is the one for the effect it has on the account table as the earlier edits of the batch left it
	nBatch := 120
	if tier == "thorough" {
		nBatch = 1500
	}
	for k := 0; k < nBatch; k++ {
		serial++
		logins := []string{fmt.Sprintf("ba%d", serial), fmt.Sprintf("bb%d", serial)}
		init := []byte{byte(rng.Intn(2)), byte(rng.Intn(2))}
		for i, l := range logins {
			if init[i] == 1 {
				env.Srv.AccountManager.Create(hotline.Account{Login: l, Name: "init", Password: hashEmpty})
			}
		}
		subset := k % 8
		var b hotline.AccessBitmap
		if rng.Intn(2) == 0 {
			b = all
			for i, p := range []int{14, 15, 17} {
				if subset&(1<<i) == 0 {
					b[p/8] &^= 1 << (7 - p%8)
				}
			}
		} else {
			for i, p := range []int{14, 15, 17} {
				if subset&(1<<i) != 0 {
					b[p/8] |= 1 << (7 - p%8)
				}
			}
		}
		n := 1 + rng.Intn(4)
		same := rng.Intn(3) != 0 // most batches keep naming one login
		first := rng.Intn(2)
		var enc []byte
		var fields []hotline.Field
		for i := 0; i < n; i++ {
			l := first
			if !same {
				l = rng.Intn(2)
			}
			if rng.Intn(3) == 0 {
				enc = append(enc, 0, byte(l), 0)
				fields = append(fields, fn(hotline.FieldData, subRec(encField(hotline.FieldData, obfuscate([]byte(logins[l]))))))
			} else {
				tag := byte(i + 1)
				enc = append(enc, 1, byte(l), tag)
				fields = append(fields, fn(hotline.FieldData, subRec(
					encField(hotline.FieldUserLogin, obfuscate([]byte(logins[l]))), encField(hotline.FieldUserName, []byte{'t', '0' + tag}),
					encField(hotline.FieldUserPassword, []byte{0}), encField(hotline.FieldUserAccess, make([]byte, 8)))))
			}
		}
		cc, _ := env.NewClient("~c~", b, "10.5.0.1:1")
		env.TakeSent()
		t := hotline.NewTransaction(hotline.TranUpdateUser, cc.ID, fields...)
		res, panicked := callHandler(mobius.HandleUpdateUser, cc, &t)
		env.TakeSent()
		env.Srv.ClientMgr.Delete(cc.ID)
		d := byte(0)
		switch {
		case panicked:
			d = 3
		case isErrReply(res):
			d = 1
		case len(res) == 0:
			d = 2
		}
		final := make([]byte, 2)
		for i, l := range logins {
			if acc := env.Srv.AccountManager.Get(l); acc != nil {
				switch {
				case acc.Name == "init":
					final[i] = 1
				case len(acc.Name) == 2 && acc.Name[0] == 't':
					final[i] = 1 + (acc.Name[1] - '0')
				default:
					final[i] = 255
				}
			}
		}
		var zero hotline.AccessBitmap
		cs.Add(Case{Kind: "account-edit-batch", Ops: []Op{mkOp(4, "update-user-batch", b[:], init, enc)},
			Obs: [][][]byte{{{d}, final}}, NonTrivial: n >= 2 && b != zero && b != all})
	}
	// odd target kinds: an alias whose target is gone (a symbolic link that resolves to nothing).  It is neither a file
	// nor a folder, so no privilege can be the governing one - an account that may delete or move NEITHER files NOR
	// folders must not be able to make it disappear or move it
	for k := 0; k < 24; k++ {
		serial++
		tgt := filepath.Join(root, fmt.Sprintf("gone%d.txt", serial))
		alias := fmt.Sprintf("dangling%d", serial)
		must(os.WriteFile(tgt, []byte("x"), 0644))
		must(os.Symlink(tgt, filepath.Join(root, alias)))
		must(os.Remove(tgt))
		var b hotline.AccessBitmap
		move := k%2 == 1
		if k%4 < 2 {
			b = all
			lack := []int{0, 6}
			if move {
				lack = []int{4, 8}
			}
			for _, p := range lack {
				b[p/8] &^= 1 << (7 - p%8)
			}
		}
		cc, _ := env.NewClient("~c~", b, "10.5.0.1:1")
		env.TakeSent()
		before := stateHash(env)
		var req c05Req
		if move {
			req = c05Req{mobius.HandleMoveFile, hotline.TranMoveFile, []hotline.Field{fn(hotline.FieldFileName, []byte(alias)), fn(hotline.FieldFileNewPath, pathOf("dest"))}}
		} else {
			req = c05Req{mobius.HandleDeleteFile, hotline.TranDeleteFile, []hotline.Field{fn(hotline.FieldFileName, []byte(alias))}}
		}
		t := hotline.NewTransaction(req.typ, cc.ID, req.fields...)
		callHandler(req.h, cc, &t)
		env.TakeSent()
		env.Srv.ClientMgr.Delete(cc.ID)
		changed := byte(0)
		if _, err := os.Lstat(filepath.Join(root, alias)); err != nil || stateHash(env) != before {
			changed = 1
		}
		os.Remove(filepath.Join(root, alias))
		os.Remove(filepath.Join(root, "dest", alias))
		kind := byte(0)
		if move {
			kind = 1
		}
		cs.Add(Case{Kind: "dangling-alias", Ops: []Op{mkOp(6, "unprivileged-request-on-dangling-alias", []byte{kind}, b[:])},
			Obs: [][][]byte{{{changed}}}, NonTrivial: true})
	}
	// field contents: crafted path fields ("." / ".." items, separators inside items, declared count off by one)
	// against the upload-folder and drop-box rules; the EFFECT is observed (a drop box's content revealed, an
	// upload granted into a directory that is neither an upload folder nor a drop box)
	must(os.MkdirAll(filepath.Join(root, "dest", "Drop Box"), 0755))
	must(os.WriteFile(filepath.Join(root, "dest", "Drop Box", "secret.txt"), []byte("s"), 0644))
	must(os.MkdirAll(filepath.Join(root, "dest", "my uploads"), 0755))
	must(os.MkdirAll(filepath.Join(root, "Drop Box", "sub"), 0755))
	pool := []string{"Drop Box", "dest", "Uploads", ".", "..", "", "sub", "DROP BOX", "drop box", "my uploads", "dest/../Drop Box", "Uploads/../dest",
		"x/upload/../../dest", "Drop Box/.", "Drop Box/", "dest/Drop Box", "./Uploads", "Uploads/..", "nope"}
	special := func(dirRel string) bool {
		b := strings.ToLower(filepath.Base(dirRel))
		return strings.Contains(b, "upload") || strings.Contains(b, "drop box")
	}
	nProbes := 240
	if tier == "thorough" {
		nProbes = 2400
	}
	for k := 0; k < nProbes; k++ {
		kind := 1 + k%3
		n := 1 + rng.Intn(4)
		var items [][]byte
		declared := -1
		if rng.Intn(4) == 0 {
			for i := 0; i < n; i++ {
				items = append(items, []byte(pool[rng.Intn(len(pool))]))
			}
			switch rng.Intn(8) {
			case 0:
				if n > 1 {
					declared = 1 + rng.Intn(n-1) // declared count below the number of items on the wire
				}
			case 1:
				declared = n + 1 // above
			}
		} else {
			// a chosen directory, addressed through a disguise
			target := []string{"Drop Box", "dest/Drop Box", "Uploads", "dest/my uploads", "dest", "Drop Box/sub"}[rng.Intn(6)]
			comps := strings.Split(target, "/")
			add := func(xs ...string) {
				for _, x := range xs {
					items = append(items, []byte(x))
				}
			}
			switch rng.Intn(9) {
			case 0:
				add(comps...)
			case 1:
				add(comps...)
				add(".")
			case 2:
				add(comps...)
				add("")
			case 3:
				add(comps...)
				add("sub", "..")
			case 4:
				add("dest", "..")
				add(comps...)
			case 5:
				add(target)
			case 6:
				add("x/../" + target)
			case 7: // the declared count covers only a decoy; the rest of the items lead to the target
				decoy := []string{"dest", "Uploads", "Drop Box"}[rng.Intn(3)]
				add(decoy, "..")
				add(comps...)
				declared = 1
			default:
				add(comps...)
				declared = len(comps) + 1
			}
		}
		field := encodePath(items)
		if declared >= 0 {
			copy(field[0:2], be16(declared))
		}
		b := all
		lack := 30
		if kind != 1 {
			lack = 25
		}
		if rng.Intn(5) != 0 {
			b[lack/8] &^= 1 << (7 - lack%8)
		}
		cc, _ := env.NewClient("~c~", b, "10.5.0.1:1")
		env.TakeSent()
		serial++
		name := []byte(fmt.Sprintf("probe%d", serial))
		var req c05Req
		switch kind {
		case 1:
			req = c05Req{mobius.HandleGetFileNameList, hotline.TranGetFileNameList, []hotline.Field{fn(hotline.FieldFilePath, field)}}
		case 2:
			req = c05Req{mobius.HandleUploadFile, hotline.TranUploadFile, []hotline.Field{fn(hotline.FieldFileName, name), fn(hotline.FieldFilePath, field)}}
		default:
			req = c05Req{mobius.HandleUploadFolder, hotline.TranUploadFldr, []hotline.Field{fn(hotline.FieldFileName, name), fn(hotline.FieldFilePath, field), fn(hotline.FieldTransferSize, be32(10)), fn(hotline.FieldFolderItemCount, be16(1))}}
		}
		t := hotline.NewTransaction(req.typ, cc.ID, req.fields...)
		res, panicked := callHandler(req.h, cc, &t)
		env.TakeSent()
		d, bad := byte(0), byte(0)
		if isErrReply(res) {
			d = 1
		}
		if panicked {
			d = 3
		}
		held := b == all
		if !held && d == 0 && len(res) == 1 {
			if kind == 1 {
				for _, f := range res[0].Fields {
					if strings.Contains(string(f.Data), "secret.txt") {
						bad = 1 // the content of a drop box was revealed without view-drop-boxes
					}
				}
			} else {
				typ := hotline.FileUpload
				if kind == 3 {
					typ = hotline.FolderUpload
				}
				for _, ft := range cc.ClientFileTransferMgr.Get(typ) {
					if full, err := hotline.ReadPath(ft.FileRoot, ft.FilePath, ft.FileName); err == nil {
						rel, _ := filepath.Rel(root, filepath.Dir(full))
						if !special(rel) {
							bad = 1 // an upload was granted into a directory that is neither an upload folder nor a drop box
						}
					}
				}
			}
		}
		env.Srv.ClientMgr.Delete(cc.ID)
		cs.Add(Case{Kind: fmt.Sprintf("path-probe-%d", kind), Ops: []Op{mkOp(3, fmt.Sprintf("path-probe-%d", kind), []byte{byte(kind)}, b[:], field)},
			Obs: [][][]byte{{{d}, {bad}}}, NonTrivial: !held})
	}
	// display name: adopted iff any-name is held, never an error
	for p := 0; p < 64; p++ {
		for _, b := range []hotline.AccessBitmap{bitmapOf(p), func() hotline.AccessBitmap { x := all; x[p/8] &^= 1 << (7 - p%8); return x }()} {
			cc, _ := env.NewClient("~c~", b, "10.5.0.1:1")
			cc.UserName = []byte("current")
			name := []byte(fmt.Sprintf("wanted-%d", p))
			t := hotline.NewTransaction(hotline.TranSetClientUserInfo, cc.ID, fn(hotline.FieldUserName, name), fn(hotline.FieldUserIconID, []byte{0, 1}))
			res, _ := callHandler(mobius.HandleSetClientUserInfo, cc, &t)
			e := byte(0)
			if isErrReply(res) {
				e = 1
			}
			env.Srv.ClientMgr.Delete(cc.ID)
			cs.Add(Case{Kind: "any-name", Ops: []Op{mkOp(2, "set-client-user-info", b[:], name, []byte("current"))}, Obs: [][][]byte{{{e}, cc.UserName}}, NonTrivial: true})
		}
	}
}
