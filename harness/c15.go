package main

import (
	"bytes"
	"fmt"
	"os"
	"path/filepath"
	"sort"
	"strings"

	"github.com/jhalter/mobius/hotline"
	"github.com/jhalter/mobius/internal/mobius"
	"golang.org/x/crypto/bcrypt"
	"gopkg.in/yaml.v3"
)

func init() { register("C15", "Corr.Run_C15", genC15) }

func hasPassword(hash string) bool {
	return bcrypt.CompareHashAndPassword([]byte(hash), []byte("")) != nil
}

func renderAccounts(accs []hotline.Account) []byte {
	sort.Slice(accs, func(i, j int) bool { return bytes.Compare([]byte(accs[i].Login), []byte(accs[j].Login)) < 0 })
	var out []byte
	for _, a := range accs {
		out = append(out, len16([]byte(a.Login))...)
		out = append(out, len16([]byte(a.Name))...)
		out = append(out, a.Access[:]...)
		out = append(out, b1(hasPassword(a.Password))...)
	}
	return out
}

// listUsers decodes the ListUsers reply (the administrator's view).
func listUsers(env *Env, admin *hotline.ClientConn) []byte {
	t := hotline.NewTransaction(hotline.TranListUsers, admin.ID)
	res, _ := callHandler(mobius.HandleListUsers, admin, &t)
	if len(res) != 1 {
		return []byte("?")
	}
	var accs []hotline.Account
	for _, f := range res[0].Fields {
		if f.Type != hotline.FieldData || len(f.Data) < 2 {
			continue
		}
		n := int(f.Data[0])<<8 | int(f.Data[1])
		p := f.Data[2:]
		var a hotline.Account
		a.Password = hashEmpty
		for i := 0; i < n && len(p) >= 4; i++ {
			id := int(p[0])<<8 | int(p[1])
			sz := int(p[2])<<8 | int(p[3])
			d := p[4 : 4+sz]
			p = p[4+sz:]
			switch id {
			case 102:
				a.Name = string(d)
			case 105:
				a.Login = string(obfuscate(d))
			case 110:
				copy(a.Access[:], d)
			case 106:
				a.Password = hashX
			}
		}
		accs = append(accs, a)
	}
	return renderAccounts(accs)
}

// diskAccounts parses Users/*.yaml with the code's own format; the file name must be <login>.yaml.
func diskAccounts(cfg string) ([]byte, bool) {
	files, _ := filepath.Glob(filepath.Join(cfg, "Users", "*.yaml"))
	var accs []hotline.Account
	hashedOnly := true
	for _, f := range files {
		b, err := os.ReadFile(f)
		if err != nil {
			continue
		}
		var a hotline.Account
		if yaml.Unmarshal(b, &a) != nil {
			a.Login = "<unparseable " + filepath.Base(f) + ">"
		}
		if strings.TrimSuffix(filepath.Base(f), ".yaml") != a.Login {
			a.Name = "<file name " + filepath.Base(f) + " does not match login>"
		}
		if _, err := bcrypt.Cost([]byte(a.Password)); err != nil && a.Password != "" {
			hashedOnly = false
		}
		accs = append(accs, a)
	}
	return renderAccounts(accs), hashedOnly
}

func genC15(cs *CaseSet, rng *Rng, tier string, dir string) {
	cs.Rule = "history contains a rename or delete followed by login attempts for both the old and the new login (every step tries every login of the universe with every password, in memory and after a restart from disk); distinct by op sequence"
	nHist := 30
	if tier == "thorough" {
		nHist = 300
	}
	var all hotline.AccessBitmap
	for i := range all {
		all[i] = 255
	}
	for h := 0; h < nHist; h++ {
		env := NewEnv(fmt.Sprintf("%s-%d", dir, h), EnvOpts{})
		env.StartDrain()
		admin, _ := env.NewClient("~admin~", all, "10.15.0.1:1")
		// universe: logins that are legal file names (incl. spaces, dots, high bytes), passwords <= 72 bytes
		// (a leading dot, a ".yaml" ending, a name that differs from another only in case, a leading dash)
		pool := [][]byte{[]byte("alice"), []byte("bob smith"), []byte("c.d"), {0xe9, 0x80, 'x'}, []byte(".ops"), []byte("x.yaml"), []byte("Alice"), []byte("-n")}
		logins := [][]byte{[]byte("guest")}
		for _, i := range rng.Perm(len(pool))[:2+rng.Intn(3)] {
			logins = append(logins, pool[i])
		}
		if h%4 == 1 { // twins that differ only by a leading dot: their files are "ops.yaml" and ".ops.yaml"
			logins = [][]byte{[]byte("guest"), []byte("ops"), []byte(".ops"), pool[rng.Intn(4)]}
		}
		pws := [][]byte{{}, []byte("pw1"), rng.Bytes(1 + rng.Intn(20)), {0}}
		var ops []Op
		var obs [][][]byte
		u := append([][]byte{}, logins...)
		u = append(u, []byte{255, 255, 255})
		u = append(u, pws...)
		ops = append(ops, mkOp(9, "universe", u...))
		obs = append(obs, [][]byte{})
		sawRenameOrDelete := false
		observe := func(status int) [][]byte {
			lm := listUsers(env, admin)
			ld, hashedOnly := diskAccounts(env.Cfg)
			if !hashedOnly {
				ld = append(ld, []byte("<plaintext password on disk>")...)
			}
			fresh, err := mobius.NewYAMLAccountManager(filepath.Join(env.Cfg, "Users") + "/")
			var am, ad []byte
			for _, l := range logins {
				for _, p := range pws {
					am = append(am, b1(admin.Authenticate(string(l), p))...)
					ok := false
					if err == nil {
						if a := fresh.Get(string(l)); a != nil {
							ok = bcrypt.CompareHashAndPassword([]byte(a.Password), p) == nil
						}
					}
					ad = append(ad, b1(ok)...)
				}
			}
			return [][]byte{{byte(status)}, lm, am, ld, ad}
		}
		statusOf := func(res []hotline.Transaction, panicked bool) int {
			switch {
			case panicked:
				return 3
			case isErrReply(res):
				return 1
			case len(res) >= 1 && res[len(res)-1].IsReply == 1 && res[len(res)-1].ErrorCode == [4]byte{}:
				return 0
			default:
				return 2
			}
		}
		pickLogin := func() []byte { return logins[rng.Intn(len(logins))] }
		pwField := func() (flag []byte, pw []byte) {
			switch rng.Intn(4) {
			case 0:
				return []byte{0}, nil
			case 1:
				return []byte{1}, []byte{0}
			default:
				return []byte{1}, pws[rng.Intn(len(pws))]
			}
		}
		nOps := 8 + rng.Intn(10)
		lfProfile := h == nHist-1 // dedicated profile for the known yaml.v3 finding
		lf := func(b []byte) []byte {
			if lfProfile {
				return append([]byte("\n"), b...)
			}
			return b
		}
		for k := 0; k < nOps; k++ {
			switch r := rng.Intn(10); {
			case r < 2: // NewUser
				l, name, acc := pickLogin(), lf(noLeadingLF(rng.Bytes(rng.Intn(12)))), rng.Bytes(8)
				pf, pw := pwField()
				fields := []hotline.Field{hotline.NewField(hotline.FieldUserLogin, obfuscate(l)), hotline.NewField(hotline.FieldUserName, name), hotline.NewField(hotline.FieldUserAccess, acc)}
				if pf[0] == 1 {
					fields = append(fields, hotline.NewField(hotline.FieldUserPassword, pw))
				}
				t := hotline.NewTransaction(hotline.TranNewUser, admin.ID, fields...)
				res, p := callHandler(mobius.HandleNewUser, admin, &t)
				ops = append(ops, mkOp(1, "new-user", l, name, pf, pw, acc))
				obs = append(obs, observe(statusOf(res, p)))
			case r < 4: // SetUser
				l, name, acc := pickLogin(), lf(noLeadingLF(rng.Bytes(rng.Intn(12)))), rng.Bytes(rng.Pick(8, 8, 8, 3))
				pf, pw := pwField()
				fields := []hotline.Field{hotline.NewField(hotline.FieldUserLogin, obfuscate(l)), hotline.NewField(hotline.FieldUserName, name), hotline.NewField(hotline.FieldUserAccess, acc)}
				if pf[0] == 1 {
					fields = append(fields, hotline.NewField(hotline.FieldUserPassword, pw))
				}
				t := hotline.NewTransaction(hotline.TranSetUser, admin.ID, fields...)
				res, p := callHandler(mobius.HandleSetUser, admin, &t)
				env.TakeSent()
				ops = append(ops, mkOp(2, "set-user", l, name, pf, pw, acc))
				obs = append(obs, observe(statusOf(res, p)))
			case r < 8: // batched UpdateUser
				n := 1 + rng.Intn(3)
				var args [][]byte
				var tf []hotline.Field
				for i := 0; i < n; i++ {
					if rng.Intn(4) == 0 { // delete
						l := pickLogin()
						data := append(be16(1), encField(hotline.FieldData, obfuscate(l))...)
						tf = append(tf, hotline.NewField(hotline.FieldData, data))
						args = append(args, []byte{1}, []byte{1}, l, nil, nil, []byte{0}, nil, []byte{0}, nil)
						sawRenameOrDelete = true
						continue
					}
					l, name := pickLogin(), lf(noLeadingLF(rng.Bytes(rng.Intn(10))))
					var sub []byte
					cnt := 0
					hd, from := []byte{0}, []byte(nil)
					if rng.Intn(3) == 0 { // rename
						hd, from = []byte{1}, pickLogin()
						sub = append(sub, encField(hotline.FieldData, obfuscate(from))...)
						cnt++
						sawRenameOrDelete = true
					}
					sub = append(sub, encField(hotline.FieldUserLogin, obfuscate(l))...)
					sub = append(sub, encField(hotline.FieldUserName, name)...)
					cnt += 2
					pf, pw := pwField()
					ha, acc := []byte{1}, rng.Bytes(8)
					// a PURE rename, as the account editor sends it when only the login was edited: the name and
					// the access bits are the account's own and the password field is the "unchanged" marker
					pure := false
					if from != nil && rng.Bool() {
						if cur := env.Srv.AccountManager.Get(string(from)); cur != nil {
							pure = true
							sub = sub[:len(sub)-len(encField(hotline.FieldUserName, name))]
							name = []byte(cur.Name)
							sub = append(sub, encField(hotline.FieldUserName, name)...)
							pf, pw = []byte{1}, []byte{0}
							acc = append([]byte{}, cur.Access[:]...)
						}
					}
					if pf[0] == 1 {
						sub = append(sub, encField(hotline.FieldUserPassword, pw)...)
						cnt++
					}
					if rng.Intn(8) == 0 && !pure {
						ha, acc = []byte{0}, nil
					} else {
						sub = append(sub, encField(hotline.FieldUserAccess, acc)...)
						cnt++
					}
					if cnt == 1 {
						continue
					}
					tf = append(tf, hotline.NewField(hotline.FieldData, append(be16(cnt), sub...)))
					args = append(args, []byte{2}, hd, from, l, name, pf, pw, ha, acc)
				}
				t := hotline.NewTransaction(hotline.TranUpdateUser, admin.ID, tf...)
				res, p := callHandler(mobius.HandleUpdateUser, admin, &t)
				ops = append(ops, mkOp(3, "update-user", args...))
				obs = append(obs, observe(statusOf(res, p)))
			case r == 8: // DeleteUser
				l := pickLogin()
				t := hotline.NewTransaction(hotline.TranDeleteUser, admin.ID, hotline.NewField(hotline.FieldUserLogin, obfuscate(l)))
				res, p := callHandler(mobius.HandleDeleteUser, admin, &t)
				ops = append(ops, mkOp(4, "delete-user", l))
				obs = append(obs, observe(statusOf(res, p)))
				sawRenameOrDelete = true
			default: // restart from the files (every other one after a crash inside a save: truncated temporary files of
				// an account update and of an account creation are still lying in the directory)
				if rng.Bool() {
					l := pickLogin()
					must(os.WriteFile(filepath.Join(env.Cfg, "Users", string(l)+".yaml.tmp"), []byte("Login: "+"x\nNa"), 0644))
				}
				am, err := mobius.NewYAMLAccountManager(filepath.Join(env.Cfg, "Users") + "/")
				if err != nil {
					continue // no account file left: the server would not start
				}
				env.Srv.AccountManager = am
				ops = append(ops, mkOp(5, "restart"))
				obs = append(obs, observe(0))
			}
		}
		env.StopDrain()
		kind := "history"
		if lfProfile {
			kind = "yaml-leading-newline"
		}
		cs.Add(Case{Kind: kind, Ops: ops, Obs: obs, NonTrivial: sawRenameOrDelete})
	}
}

// bcrypt treats the key as a NUL-terminated, cyclically repeated string: passwords with NUL bytes can collide
// (e.g. "" and "\x00"); the model's abstraction of bcrypt excludes them.
func nonzero(b []byte) []byte {
	for i := range b {
		if b[i] == 0 {
			b[i] = 1
		}
	}
	return b
}
