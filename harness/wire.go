package main

import (
	"context"
	"encoding/binary"
	"io"
	"net"
	"sync"
	"time"

	"github.com/jhalter/mobius/hotline"
)

// ---------------------------------------------------------------------------------------------
// Reference framing (independent of the code under test): a transaction frame is
//   flags(1) isReply(1) type(2) id(4) err(4) totalSize(4) dataSize(4) | paramCount(2) fields...
// and occupies 20 + totalSize bytes.

type RFrame struct {
	Raw        []byte
	Flags      byte
	Reply      byte
	Type       int
	ID         uint32
	Err        uint32
	Total      uint32
	DSize      uint32
	Fields     []RField
	WellFormed bool // param count and field sizes are consistent with totalSize
}
type RField struct {
	ID   int
	Data []byte
}

func (f *RFrame) Field(id int) ([]byte, bool) {
	for _, x := range f.Fields {
		if x.ID == id {
			return x.Data, true
		}
	}
	return nil, false
}
func (f *RFrame) FieldsByID(id int) [][]byte {
	var out [][]byte
	for _, x := range f.Fields {
		if x.ID == id {
			out = append(out, x.Data)
		}
	}
	return out
}

// refParse parses one complete frame from buf; returns nil if buf does not hold a complete frame.
func refParse(buf []byte) (*RFrame, int) {
	if len(buf) < 20 {
		return nil, 0
	}
	total := binary.BigEndian.Uint32(buf[12:16])
	n := 20 + int(total)
	if len(buf) < n {
		return nil, 0
	}
	f := &RFrame{Raw: append([]byte{}, buf[:n]...), Flags: buf[0], Reply: buf[1],
		Type: int(binary.BigEndian.Uint16(buf[2:4])), ID: binary.BigEndian.Uint32(buf[4:8]),
		Err: binary.BigEndian.Uint32(buf[8:12]), Total: total, DSize: binary.BigEndian.Uint32(buf[16:20])}
	body := buf[20:n]
	if len(body) < 2 {
		return f, n
	}
	cnt := int(binary.BigEndian.Uint16(body[0:2]))
	p := body[2:]
	ok := true
	for i := 0; i < cnt; i++ {
		if len(p) < 4 {
			ok = false
			break
		}
		sz := int(binary.BigEndian.Uint16(p[2:4]))
		if len(p) < 4+sz {
			ok = false
			break
		}
		f.Fields = append(f.Fields, RField{ID: int(binary.BigEndian.Uint16(p[0:2])), Data: append([]byte{}, p[4:4+sz]...)})
		p = p[4+sz:]
	}
	f.WellFormed = ok && len(p) == 0 && f.DSize == f.Total
	return f, n
}

// refEncode builds a request frame.
func refEncode(typ int, id uint32, fields ...RField) []byte {
	var body []byte
	body = append(body, be16(len(fields))...)
	for _, f := range fields {
		body = append(body, be16(f.ID)...)
		body = append(body, be16(len(f.Data))...)
		body = append(body, f.Data...)
	}
	h := []byte{0, 0}
	h = append(h, be16(typ)...)
	h = append(h, be32(int(id))...)
	h = append(h, 0, 0, 0, 0)
	h = append(h, be32(len(body))...)
	h = append(h, be32(len(body))...)
	return append(h, body...)
}

// ---------------------------------------------------------------------------------------------
// scripted connection: the server side reads exactly the chunks the client script delivers.

type WireClient struct {
	env     *Env
	c       net.Conn // client end of a net.Pipe
	mu      sync.Mutex
	rx      []byte // every byte the server wrote to us
	closed  bool   // server closed its end (EOF seen)
	done    chan struct{}
	srvDone chan struct{}
	srvErr  error
	Addr    string
	nextID  uint32
}

var procOutboxOnce = map[*hotline.Server]bool{}
var procMu sync.Mutex

func (e *Env) StartOutbox() {
	procMu.Lock()
	defer procMu.Unlock()
	if !procOutboxOnce[e.Srv] {
		procOutboxOnce[e.Srv] = true
		if e.SeqOutbox {
			// history harnesses: the real sendTransaction, but one transaction at a time in queue order, so that a
			// keep-alive round trip is a barrier (which schedules the production loop produces is C14's subject)
			go func() {
				for t := range e.Srv.VerifOutbox() {
					e.Srv.VerifSendTransaction(t)
				}
			}()
		} else {
			go e.Srv.VerifProcessOutbox()
		}
	}
}

// Ping sends a keep-alive and waits for its reply: with the sequential outbox everything the server queued
// before (for any client) has been written when it returns.
func (w *WireClient) Ping() bool {
	id := w.Send(500)
	dl := time.Now().Add(1500 * time.Millisecond)
	for time.Now().Before(dl) {
		fs, _ := w.Frames()
		for i := len(fs) - 1; i >= 0; i-- {
			if fs[i].Reply == 1 && fs[i].ID == id {
				return true
			}
		}
		if w.ServerClosed() {
			return false
		}
		time.Sleep(100 * time.Microsecond)
	}
	return false
}

// WaitServerDone waits until the connection goroutine has returned (deferred Disconnect included).
func (w *WireClient) WaitServerDone() {
	select {
	case <-w.srvDone:
	case <-time.After(5 * time.Second):
	}
}

// Connect starts the real connection loop on one end of an in-memory duplex pipe.
func (e *Env) Connect(addr string) *WireClient {
	e.StartOutbox()
	cl, sv := net.Pipe()
	w := &WireClient{env: e, c: cl, done: make(chan struct{}), srvDone: make(chan struct{}), Addr: addr, nextID: 1}
	go func() {
		defer close(w.srvDone)
		w.srvErr = e.Srv.VerifHandleNewConnection(context.Background(), sv, addr)
		sv.Close()
	}()
	go func() {
		defer close(w.done)
		buf := make([]byte, 65536)
		for {
			n, err := cl.Read(buf)
			if n > 0 {
				w.mu.Lock()
				w.rx = append(w.rx, buf[:n]...)
				w.mu.Unlock()
			}
			if err != nil {
				w.mu.Lock()
				w.closed = true
				w.mu.Unlock()
				return
			}
		}
	}()
	return w
}

// Write delivers bytes to the server in the given chunk sizes (nil = one chunk).
func (w *WireClient) Write(b []byte, chunks []int) error {
	w.c.SetWriteDeadline(time.Now().Add(5 * time.Second))
	if chunks == nil {
		_, err := w.c.Write(b)
		return err
	}
	for _, k := range chunks {
		if k > len(b) {
			k = len(b)
		}
		if k == 0 {
			continue
		}
		if _, err := w.c.Write(b[:k]); err != nil {
			return err
		}
		b = b[k:]
	}
	if len(b) > 0 {
		_, err := w.c.Write(b)
		return err
	}
	return nil
}

var handshakeBytes = []byte{'T', 'R', 'T', 'P', 'H', 'O', 'T', 'L', 0, 1, 0, 2}

func (w *WireClient) Rx() []byte {
	w.mu.Lock()
	defer w.mu.Unlock()
	return append([]byte{}, w.rx...)
}
func (w *WireClient) ServerClosed() bool {
	w.mu.Lock()
	defer w.mu.Unlock()
	return w.closed
}

// WaitRx waits until at least n bytes were received, the server closed, or the timeout expired.
func (w *WireClient) WaitRx(n int, d time.Duration) bool {
	dl := time.Now().Add(d)
	for time.Now().Before(dl) {
		w.mu.Lock()
		l, c := len(w.rx), w.closed
		w.mu.Unlock()
		if l >= n {
			return true
		}
		if c {
			return false
		}
		time.Sleep(200 * time.Microsecond)
	}
	return false
}

// Frames parses what was received after the 8-byte handshake reply.
func (w *WireClient) Frames() (frames []*RFrame, rest []byte) {
	b := w.Rx()
	if len(b) >= 8 {
		b = b[8:]
	} else {
		return nil, b
	}
	for {
		f, n := refParse(b)
		if f == nil {
			return frames, b
		}
		frames = append(frames, f)
		b = b[n:]
	}
}

// WaitFrames waits until at least n frames arrived (or timeout).
func (w *WireClient) WaitFrames(n int, d time.Duration) []*RFrame {
	dl := time.Now().Add(d)
	for {
		fs, _ := w.Frames()
		if len(fs) >= n || time.Now().After(dl) || w.ServerClosed() {
			return fs
		}
		time.Sleep(300 * time.Microsecond)
	}
}

// WaitQuiet waits until no new bytes arrived for the given quiet period.
func (w *WireClient) WaitQuiet(quiet, max time.Duration) {
	dl := time.Now().Add(max)
	last := -1
	lastChange := time.Now()
	for time.Now().Before(dl) {
		w.mu.Lock()
		l := len(w.rx)
		w.mu.Unlock()
		if l != last {
			last = l
			lastChange = time.Now()
		} else if time.Since(lastChange) >= quiet {
			return
		}
		time.Sleep(300 * time.Microsecond)
	}
}

func (w *WireClient) Send(typ int, fields ...RField) uint32 {
	id := w.nextID
	w.nextID++
	w.Write(refEncode(typ, id, fields...), nil)
	return id
}

// Login performs handshake + login transaction (type 107) and waits for the login reply.
func (w *WireClient) Login(login, password string, extra ...RField) bool {
	if err := w.Write(handshakeBytes, nil); err != nil {
		return false
	}
	if !w.WaitRx(8, 2*time.Second) {
		return false
	}
	fields := []RField{{105, obfuscate([]byte(login))}, {106, []byte(password)}}
	fields = append(fields, extra...)
	id := w.Send(107, fields...)
	dl := time.Now().Add(3 * time.Second)
	for time.Now().Before(dl) {
		fs, _ := w.Frames()
		for _, f := range fs {
			if f.Reply == 1 && f.ID == id {
				return f.Err == 0
			}
		}
		if w.ServerClosed() {
			return false
		}
		time.Sleep(300 * time.Microsecond)
	}
	return false
}

func (w *WireClient) Close() {
	w.c.Close()
	select {
	case <-w.srvDone:
	case <-time.After(3 * time.Second):
	}
}

var _ = io.EOF
