package main

import (
	"fmt"
	"sort"
	"time"

	"github.com/jhalter/mobius/hotline"
)

func init() { register("C13", "Corr.Run_C13", genC13) }

func len16(b []byte) []byte { return append(be16(len(b)), b...) }

type c13Client struct {
	tok        int
	w          *WireClient
	id         []byte
	seen       int // frames already consumed
	login      bool
	pendingPM  uint32
	name, icon []byte // what the client last told the server (to repeat it unchanged with new options)
}

// render the frames a client received since the last call, in the canonical form of Corr/Run_C13.v
func (c *c13Client) drainInbox() []byte {
	frames, _ := c.w.Frames()
	newFrames := frames[c.seen:]
	c.seen = len(frames)
	type item struct {
		kind int
		b    []byte
	}
	var items []item
	for _, f := range newFrames {
		switch {
		case f.Type == 301: // TranNotifyChangeUser
			id, _ := f.Field(103)
			name, _ := f.Field(102)
			icon, _ := f.Field(104)
			flags, _ := f.Field(112)
			b := append([]byte{1}, id...)
			b = append(b, len16(name)...)
			b = append(b, len16(icon)...)
			b = append(b, flags...)
			items = append(items, item{1, b})
		case f.Type == 302: // TranNotifyDeleteUser
			id, _ := f.Field(103)
			items = append(items, item{2, append([]byte{2}, id...)})
		case f.Type == 104: // TranServerMsg
			text, _ := f.Field(101)
			name, _ := f.Field(102)
			id, _ := f.Field(103)
			opts, _ := f.Field(113)
			kind := 3
			if len(opts) == 2 && opts[1] == 2 {
				kind = 4
			}
			items = append(items, item{kind, nil})
			b := append([]byte{byte(kind)}, id...)
			b = append(b, len16(text)...)
			b = append(b, len16(name)...)
			b = append(b, opts...)
			items[len(items)-1].b = b
		case f.Reply == 1 && c.pendingPM != 0 && f.ID == c.pendingPM:
			items = append(items, item{6, []byte{6}})
		}
	}
	// the sender of a PM may get "refused"/"auto reply" and the reply in any order: kind order is canonical;
	// an automatic reply (options 00 01, addressed to the sender) is kind 5
	for i := range items {
		if items[i].kind == 3 && c.pendingPM != 0 {
			items[i].kind = 5
			items[i].b[0] = 5
		}
	}
	sort.SliceStable(items, func(i, j int) bool { return items[i].kind < items[j].kind })
	var out []byte
	for _, it := range items {
		out = append(out, it.b...)
	}
	return out
}

func genC13(cs *CaseSet, rng *Rng, tier string, dir string) {
	cs.Rule = "history with >= 1 disconnect and >= 1 name/icon/flag change after some client fetched the user list; wrap histories: more than 65,536 connections with a long-lived client; distinct by op sequence"
	nHist := 60
	if tier == "thorough" {
		nHist = 250
	}
	var all hotline.AccessBitmap
	for i := range all {
		all[i] = 255
	}
	noAdmin := all
	noAdmin[2] &^= 1 << (7 - 22%8) // clear DisconUser (22)
	accounts := []hotline.Account{
		{Login: "adm", Name: "Adm", Password: hotline.HashAndSalt([]byte("")), Access: all},
		{Login: "usr", Name: "Usr", Password: hotline.HashAndSalt([]byte("")), Access: noAdmin},
	}
	for h := 0; h < nHist; h++ {
		env := NewEnv(fmt.Sprintf("%s-%d", dir, h), EnvOpts{Accounts: accounts, Agreement: "agree"})
		env.SeqOutbox = true
		var ops []Op
		var obs [][][]byte
		clients := map[int]*c13Client{}
		nextTok := 1
		wrapHistory := h%6 == 5
		fetchedAfter := false
		sawDisc, sawChange := false, false
		var actor *c13Client
		settle := func() {
			// barrier: a keep-alive round trip on the acting connection (or any remaining one)
			if actor != nil && clients[actor.tok] == actor {
				actor.w.Ping()
				return
			}
			for _, c := range clients {
				c.w.Ping()
				return
			}
		}
		inboxes := func() [][]byte {
			var ids []int
			byID := map[int]*c13Client{}
			for _, c := range clients {
				k := int(c.id[0])<<8 | int(c.id[1])
				ids = append(ids, k)
				byID[k] = c
			}
			sort.Ints(ids)
			var out [][]byte
			for _, k := range ids {
				c := byID[k]
				out = append(out, append(append([]byte{}, c.id...), c.drainInbox()...))
			}
			return out
		}
		findID := func(tok int) []byte {
			// the ID the server gave the newest connection: the registry entry not yet known to us
			known := map[[2]byte]bool{}
			for _, c := range clients {
				if c.tok != tok && c.id != nil {
					known[[2]byte{c.id[0], c.id[1]}] = true
				}
			}
			for _, cc := range env.Srv.ClientMgr.List() {
				if !known[cc.ID] {
					return append([]byte{}, cc.ID[:]...)
				}
			}
			return nil
		}
		login := func(named bool) {
			tok := nextTok
			nextTok++
			admin := rng.Bool()
			acct := "usr"
			if admin {
				acct = "adm"
			}
			icon := rng.Bytes(2)
			name := rng.Bytes(1 + rng.Intn(12))
			w := env.Connect(fmt.Sprintf("10.13.%d.%d:%d", tok/250, tok%250+1, 2000+tok))
			c := &c13Client{tok: tok, w: w}
			var ok bool
			var op Op
			if named {
				ok = w.Login(acct, "", RField{102, name}, RField{104, icon})
				op = mkOp(1, "login-named", be16(tok), name, icon, b1(admin))
			} else {
				var extra []RField
				ic := []byte{}
				if rng.Bool() {
					ic = icon
					extra = append(extra, RField{104, icon})
				}
				extra = append(extra, RField{160, []byte{0, 190}})
				ok = w.Login(acct, "", extra...)
				op = mkOp(2, "login-limbo", be16(tok), ic, b1(admin))
			}
			if !ok {
				panic("login failed")
			}
			clients[tok] = c
			c.id = findID(tok)
			actor = c
			settle()
			// the new client's own login traffic (reply, access, agreement) is not presence: skip it
			fr, _ := c.w.Frames()
			c.seen = len(fr)
			ops = append(ops, op)
			obs = append(obs, append([][]byte{c.id}, inboxes()...))
		}
		pick := func() *c13Client {
			var toks []int
			for t := range clients {
				toks = append(toks, t)
			}
			if len(toks) == 0 {
				return nil
			}
			sort.Ints(toks)
			return clients[toks[rng.Intn(len(toks))]]
		}
		limbo := map[int]bool{}
		doAgreed := func(c *c13Client) {
			name, icon := rng.Bytes(rng.Intn(10)), rng.Bytes(2)
			opts := rng.Intn(8)
			auto := rng.Bytes(1 + rng.Intn(8))
			c.w.Send(121, RField{102, name}, RField{104, icon}, RField{113, be16(opts)}, RField{215, auto})
			c.name, c.icon = name, icon
			delete(limbo, c.tok)
			actor = c
			settle()
			ops = append(ops, mkOp(3, "agreed", be16(c.tok), name, icon, be16(opts), auto))
			obs = append(obs, inboxes())
			sawChange = sawChange || fetchedAfter
		}
		doSetInfo := func(c *c13Client) {
			name := rng.Bytes(rng.Intn(10))
			icon := rng.Bytes(rng.Pick(2, 2, 4))
			sameIdentity := c.name != nil && rng.Intn(3) == 0 // only the options change: name and icon are repeated
			if sameIdentity {
				name, icon = c.name, c.icon
			}
			fields := []RField{{102, name}, {104, icon}}
			var optb []byte
			auto := rng.Bytes(1 + rng.Intn(8))
			if rng.Bool() || sameIdentity {
				optb = be16(rng.Intn(8))
				fields = append(fields, RField{113, optb}, RField{215, auto})
			}
			c.w.Send(304, fields...)
			c.name, c.icon = name, icon
			delete(limbo, c.tok)
			actor = c
			settle()
			ops = append(ops, mkOp(4, "set-client-user-info", be16(c.tok), name, icon, optb, auto))
			obs = append(obs, inboxes())
			sawChange = sawChange || fetchedAfter
		}
		doDisconnect := func(c *c13Client) {
			delete(clients, c.tok)
			delete(limbo, c.tok)
			c.w.c.Close()
			c.w.WaitServerDone()
			actor = nil
			settle()
			ops = append(ops, mkOp(5, "disconnect", be16(c.tok)))
			obs = append(obs, inboxes())
			sawDisc = sawDisc || fetchedAfter
		}
		doFetch := func(c *c13Client) {
			id := c.w.Send(300)
			var list []byte
			dl := time.Now().Add(2 * time.Second)
			for time.Now().Before(dl) {
				fr, _ := c.w.Frames()
				found := false
				for _, f := range fr[c.seen:] {
					if f.Reply == 1 && f.ID == id {
						for _, u := range f.FieldsByID(300) {
							if len(u) >= 8 {
								n := int(u[6])<<8 | int(u[7])
								list = append(list, u[0:2]...)
								list = append(list, len16(u[2:4])...)
								list = append(list, u[4:6]...)
								list = append(list, len16(u[8:8+n])...)
							}
						}
						found = true
					}
				}
				if found {
					break
				}
				time.Sleep(300 * time.Microsecond)
			}
			ops = append(ops, mkOp(6, "get-user-name-list", be16(c.tok)))
			obs = append(obs, [][]byte{list})
			fetchedAfter = true
		}
		// privilege change: an administrator edits an account somebody may be logged in to
		doSetUser := func(c *c13Client) {
			which := rng.Intn(2)
			disc := rng.Bool()
			acct, access := []string{"usr", "adm"}[which], noAdmin
			if disc {
				access = all
			}
			c.w.Send(353, RField{105, obfuscate([]byte(acct))}, RField{102, []byte(acct)}, RField{110, access[:]}, RField{106, []byte{0}})
			actor = c
			settle()
			ops = append(ops, mkOp(9, "set-user", be16(c.tok), b1(which == 1), b1(disc)))
			obs = append(obs, inboxes())
			sawChange = sawChange || fetchedAfter
		}
		doPM := func(c *c13Client) {
			var target []byte
			if t := pick(); t != nil && t != c && rng.Intn(5) != 0 {
				target = t.id
			} else {
				target = be16(40000 + rng.Intn(1000)) // nobody holds it
			}
			msg := rng.Bytes(1 + rng.Intn(20))
			c.pendingPM = c.w.Send(108, RField{103, target}, RField{101, msg})
			actor = c
			settle()
			ops = append(ops, mkOp(7, "send-instant-msg", be16(c.tok), target, msg))
			obs = append(obs, inboxes())
			c.pendingPM = 0
		}
		sortedClients := func() []*c13Client {
			var toks []int
			for t := range clients {
				toks = append(toks, t)
			}
			sort.Ints(toks)
			var out []*c13Client
			for _, t := range toks {
				out = append(out, clients[t])
			}
			return out
		}
		login(true)
		nOps := 12 + rng.Intn(14)
		for k := 0; k < nOps; k++ {
			c := pick()
			switch r := rng.Intn(13); {
			case r < 2 || c == nil:
				login(true)
			case r == 2:
				login(false)
				limbo[nextTok-1] = true
			case r < 5: // Agreed (for a limbo client if there is one)
				for t := range limbo {
					if clients[t] != nil {
						c = clients[t]
					}
				}
				doAgreed(c)
			case r < 7:
				doSetInfo(c)
			case r == 7 && len(clients) > 1:
				doDisconnect(c)
			case r < 10:
				doFetch(c)
			case r == 12:
				doSetUser(c)
			default:
				doPM(c)
			}
			if wrapHistory && k == nOps/2 {
				// more than 65,536 connections over the server's lifetime while these clients stay connected
				n := 65536 + rng.Intn(3000)
				for i := 0; i < n; i++ {
					cc := env.Srv.NewClientConn(&nullConn{}, "10.99.0.1:1")
					env.Srv.ClientMgr.Delete(cc.ID)
				}
				ops = append(ops, mkOp(8, "churn", be32(n)))
				obs = append(obs, [][]byte{})
			}
		}
		// epilogue - "once traffic settles": everybody completes login and fetches the list, a few more changes of
		// every kind happen, and everybody fetches again: each client's folded roster must be the fresh list
		for _, c := range sortedClients() {
			if limbo[c.tok] {
				doAgreed(c)
			}
		}
		for _, c := range sortedClients() {
			doFetch(c)
		}
		for i, n := 0, 3+rng.Intn(3); i < n; i++ {
			c := pick()
			switch r := rng.Intn(5); {
			case r == 0:
				login(true)
			case r == 1:
				doSetInfo(c)
			case r == 2 && len(clients) > 1:
				doDisconnect(c)
			case r == 3:
				doAgreed(c)
			default:
				doSetUser(c)
			}
		}
		for _, c := range sortedClients() {
			doFetch(c)
		}
		kind := "history"
		if wrapHistory {
			kind = "history-with-id-wrap"
		}
		cs.Add(Case{Kind: kind, Ops: ops, Obs: obs, NonTrivial: (sawDisc && sawChange) || wrapHistory})
		for _, c := range clients {
			c.w.Close()
		}
	}
}
