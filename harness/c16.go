package main

import (
	"fmt"
	"os"
	"path/filepath"
	"strings"
	"time"

	"github.com/jhalter/mobius/hotline"
	"github.com/jhalter/mobius/internal/mobius"
	"gopkg.in/yaml.v3"
)

func init() { register("C16", "Corr.Run_C16", genC16) }

// trueKeys lists, in file order, the keys under "Access:" whose value is true.
func trueKeys(path string) (keys string, named bool) {
	b, err := os.ReadFile(path)
	if err != nil {
		return "<unreadable>", false
	}
	var root yaml.Node
	if yaml.Unmarshal(b, &root) != nil || len(root.Content) == 0 {
		return "<unparseable>", false
	}
	m := root.Content[0]
	var out []string
	for i := 0; i+1 < len(m.Content); i += 2 {
		if m.Content[i].Value == "Access" {
			a := m.Content[i+1]
			if a.Kind != yaml.MappingNode {
				return "<sequence>", false
			}
			for j := 0; j+1 < len(a.Content); j += 2 {
				if a.Content[j+1].Value == "true" {
					out = append(out, a.Content[j].Value)
				}
			}
			return strings.Join(out, ","), true
		}
	}
	return "<no Access key>", false
}

func genC16(cs *CaseSet, rng *Rng, tier string, dir string) {
	cs.Rule = "bitmap has exactly 1 bit (single profile), exactly 2 bits (pairs profile) or >= 2 bits (random profiles); distinct by (format, bitmap)"
	env := NewEnv(dir, EnvOpts{})
	users := filepath.Join(env.Cfg, "Users")
	serial := 0
	popcount := func(b hotline.AccessBitmap) int {
		n := 0
		for i := 0; i < 64; i++ {
			if b.IsSet(i) {
				n++
			}
		}
		return n
	}

	type item struct {
		kind   string
		format int // 1 named (via Create), 2 legacy array file
		b      hotline.AccessBitmap
		login  string
	}
	var items []item
	add := func(kind string, format int, b hotline.AccessBitmap) {
		serial++
		items = append(items, item{kind, format, b, fmt.Sprintf("acc%d", serial)})
	}
	for i := 0; i < 64; i++ {
		add("single", 1, bitmapOf(i))
		add("single", 2, bitmapOf(i))
	}
	// all pairs of defined bits
	def := []int{}
	for i := 0; i <= 40; i++ {
		if i != 19 {
			def = append(def, i)
		}
	}
	for x := 0; x < len(def); x++ {
		for y := x + 1; y < len(def); y++ {
			if tier == "quick" && (x+y)%2 == int(rng.s%2) {
				continue
			}
			add("pair", 1+(x+y)%2, bitmapOf(def[x], def[y]))
		}
	}
	nR := 300
	if tier == "thorough" {
		nR = 4000
	}
	for k := 0; k < nR; k++ {
		var b hotline.AccessBitmap
		copy(b[:], rng.Bytes(8))
		switch rng.Intn(4) {
		case 0: // sparse
			m := rng.Bytes(8)
			for i := range b {
				b[i] &= m[i]
			}
		case 1: // dense
			m := rng.Bytes(8)
			for i := range b {
				b[i] |= m[i]
			}
		}
		add("random", 1+rng.Intn(2), b)
	}
	// boundary byte values in every position (full bytes, 254, 128, 127), both formats
	for pos := 0; pos < 8; pos++ {
		for _, v := range []byte{255, 254, 128, 127, 1} {
			var b hotline.AccessBitmap
			b[pos] = v
			add("byte-value", 1, b)
			add("byte-value", 2, b)
			var c hotline.AccessBitmap
			copy(c[:], rng.Bytes(8))
			c[pos] = v
			add("byte-value", 1+rng.Intn(2), c)
		}
	}
	add("all-ones", 1, hotline.AccessBitmap{255, 255, 255, 255, 255, 255, 255, 255})
	add("all-ones", 2, hotline.AccessBitmap{255, 255, 255, 255, 255, 255, 255, 255})
	add("all-zero", 1, hotline.AccessBitmap{})
	add("all-zero", 2, hotline.AccessBitmap{})

	// write all accounts
	for _, it := range items {
		if it.format == 1 {
			must(env.Srv.AccountManager.Create(hotline.Account{Login: it.login, Name: it.login, Password: hotline.HashAndSalt([]byte("")), Access: it.b}))
		} else {
			ints := make([]string, 8)
			for i, x := range it.b {
				ints[i] = fmt.Sprint(int(x))
			}
			legacy := fmt.Sprintf("Login: %s\nName: %s\nPassword: %q\nAccess: [%s]\n", it.login, it.login,
				hotline.HashAndSalt([]byte("")), strings.Join(ints, ", "))
			must(os.WriteFile(filepath.Join(users, it.login+".yaml"), []byte(legacy), 0644))
		}
	}
	// restart 1: loads everything; legacy files are migrated (re-saved in named form)
	am1, err1 := mobius.NewYAMLAccountManager(users + "/")
	// restart 2: loads the migrated files
	am2, err2 := mobius.NewYAMLAccountManager(users + "/")
	// if the directory as a whole does not load, every account file is loaded on its own (twice), so that the ones
	// that fail are named instead of the whole run breaking
	loadAlone := func(login string) (l1, l2 []byte) {
		one := filepath.Join(env.Dir, "one-account")
		os.RemoveAll(one)
		must(os.MkdirAll(one, 0755))
		b, err := os.ReadFile(filepath.Join(users, login+".yaml"))
		must(err)
		must(os.WriteFile(filepath.Join(one, login+".yaml"), b, 0644))
		if m, err := mobius.NewYAMLAccountManager(one + "/"); err == nil {
			if a := m.Get(login); a != nil {
				l1 = append([]byte{}, a.Access[:]...)
			}
		}
		if m, err := mobius.NewYAMLAccountManager(one + "/"); err == nil {
			if a := m.Get(login); a != nil {
				l2 = append([]byte{}, a.Access[:]...)
			}
		}
		return
	}
	for _, it := range items {
		keys, _ := trueKeys(filepath.Join(users, it.login+".yaml"))
		var l1, l2 []byte
		if err1 != nil || err2 != nil {
			l1, l2 = loadAlone(it.login)
			keys, _ = trueKeys(filepath.Join(env.Dir, "one-account", it.login+".yaml"))
		} else {
			if a := am1.Get(it.login); a != nil {
				l1 = append([]byte{}, a.Access[:]...)
			}
			if a := am2.Get(it.login); a != nil {
				l2 = append([]byte{}, a.Access[:]...)
			}
		}
		n := popcount(it.b)
		cs.Add(Case{Kind: it.kind + map[int]string{1: "-named", 2: "-legacy"}[it.format],
			Ops:        []Op{mkOp(it.format, map[int]string{1: "save-named-load", 2: "legacy-load-migrate-load"}[it.format], it.b[:])},
			Obs:        [][][]byte{{l1, []byte(keys), l2}},
			NonTrivial: (it.kind == "single" && n == 1) || (it.kind == "pair" && n == 2) || ((it.kind == "random" || it.kind == "byte-value") && n >= 2)})
	}

	// wire: the bytes sent in the user-access field at login are the bitmap Authorize reads
	if err1 != nil || err2 != nil {
		return // the wire part needs a loaded account directory
	}
	env.Srv.AccountManager = am2
	nW := 40
	if tier == "thorough" {
		nW = 300
	}
	for k := 0; k < nW; k++ {
		it := items[rng.Intn(len(items))]
		w := env.Connect(fmt.Sprintf("10.7.%d.%d:4000", k/250, k%250+1))
		ok := w.Login(it.login, "", RField{102, []byte("n")}, RField{104, []byte{0, 1}})
		var field []byte
		if ok {
			fs := w.WaitFrames(3, 2*time.Second)
			for _, f := range fs {
				if f.Type == 354 {
					field, _ = f.Field(110)
				}
			}
		}
		var auth hotline.AccessBitmap
		for _, c := range env.Srv.ClientMgr.List() {
			if c.Account != nil && c.Account.Login == it.login {
				for i := 0; i < 64; i++ {
					if c.Authorize(i) {
						auth.Set(i)
					}
				}
			}
		}
		w.Close()
		exp := am2.Get(it.login).Access
		cs.Add(Case{Kind: "wire-login", Ops: []Op{mkOp(3, "login-user-access", exp[:])},
			Obs: [][][]byte{{field, auth[:]}}, NonTrivial: popcount(exp) >= 1})
	}

	// a session is connected while an administrator gives its account other privileges (SetUser): the bitmap pushed to
	// that session in the user-access transaction is the one its requests are then authorised with
	must(am2.Create(hotline.Account{Login: "adm16", Name: "adm16", Password: hotline.HashAndSalt([]byte("")), Access: hotline.AccessBitmap{255, 255, 255, 255, 255, 255, 255, 255}}))
	adminW := env.Connect("10.7.250.1:4100")
	if !adminW.Login("adm16", "", RField{102, []byte("a")}, RField{104, []byte{0, 1}}) {
		panic("admin login failed")
	}
	nP := 24
	if tier == "thorough" {
		nP = 150
	}
	for k := 0; k < nP; k++ {
		it := items[rng.Intn(len(items))]
		w := env.Connect(fmt.Sprintf("10.7.%d.%d:4200", 100+k/250, k%250+1))
		if !w.Login(it.login, "", RField{102, []byte("n")}, RField{104, []byte{0, 1}}) {
			w.Close()
			continue
		}
		w.WaitFrames(3, 2*time.Second)
		w.WaitQuiet(10*time.Millisecond, time.Second)
		fs0, _ := w.Frames()
		var nb hotline.AccessBitmap
		copy(nb[:], rng.Bytes(8))
		if k%3 == 0 { // one privilege fewer than now
			nb = am2.Get(it.login).Access
			nb[rng.Intn(5)] &^= 1 << uint(rng.Intn(8))
		}
		adminW.Send(353, RField{105, obfuscate([]byte(it.login))}, RField{102, []byte(it.login)}, RField{110, nb[:]}, RField{106, []byte{0}})
		adminW.Ping()
		var field []byte
		for dl := time.Now().Add(2 * time.Second); time.Now().Before(dl) && field == nil; time.Sleep(300 * time.Microsecond) {
			fs, _ := w.Frames()
			for _, f := range fs[len(fs0):] {
				if f.Type == 354 {
					field, _ = f.Field(110)
				}
			}
		}
		var auth hotline.AccessBitmap
		for _, c := range env.Srv.ClientMgr.List() {
			if c.Account != nil && c.Account.Login == it.login {
				for i := 0; i < 64; i++ {
					if c.Authorize(i) {
						auth.Set(i)
					}
				}
			}
		}
		w.Close()
		cs.Add(Case{Kind: "wire-set-user-push", Ops: []Op{mkOp(3, "set-user-access-push", nb[:])},
			Obs: [][][]byte{{field, auth[:]}}, NonTrivial: popcount(nb) >= 1})
	}
	adminW.Close()

	// an account of the RUNNING server is given other privileges (what SetUser does): the bitmap the server then
	// decides with, and the one a restart reads back, are the new one - no privilege of the old one survives
	nU := 60
	if tier == "thorough" {
		nU = 600
	}
	for k := 0; k < nU; k++ {
		var a, b hotline.AccessBitmap
		switch k % 4 {
		case 0:
			copy(a[:], rng.Bytes(8))
			copy(b[:], rng.Bytes(8))
		case 1: // one privilege taken away
			copy(a[:], rng.Bytes(8))
			b = a
			p := rng.Intn(41)
			a.Set(p)
			b[p/8] &^= 1 << (7 - p%8)
		case 2: // everything taken away but one
			a = hotline.AccessBitmap{255, 255, 255, 255, 255, 255, 255, 255}
			b.Set(rng.Intn(41))
		default: // one privilege added
			copy(a[:], rng.Bytes(8))
			b = a
			b.Set(rng.Intn(41))
		}
		login := fmt.Sprintf("upd%d", k)
		// a directory of its own (with a guest account, without which it would not load): loading the thousands of
		// accounts above once per case would dominate the run time
		ud := filepath.Join(env.Dir, "upd-users", login)
		must(os.MkdirAll(ud, 0755))
		writeAccountFile(ud, *hotline.NewAccount("guest", "Guest User", "", hotline.AccessBitmap{}))
		am, err := mobius.NewYAMLAccountManager(ud + "/")
		must(err)
		must(am.Create(hotline.Account{Login: login, Name: login, Password: hotline.HashAndSalt([]byte("")), Access: a}))
		acc := am.Get(login)
		acc.Access = b
		must(am.Update(*acc, login))
		var mem, disk []byte
		if x := am.Get(login); x != nil {
			mem = append([]byte{}, x.Access[:]...)
		}
		if fresh, err := mobius.NewYAMLAccountManager(ud + "/"); err == nil {
			if x := fresh.Get(login); x != nil {
				disk = append([]byte{}, x.Access[:]...)
			}
		}
		cs.Add(Case{Kind: "update-running", Ops: []Op{mkOp(4, "update-running-account", a[:], b[:])},
			Obs: [][][]byte{{mem, disk}}, NonTrivial: a != b && popcount(a) >= 1})
	}
}
