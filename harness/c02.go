package main

import (
	"bufio"
	"context"
	"fmt"
	"io"
	"net"
	"os"
	"path/filepath"
	"sort"
	"sync"
	"time"

	"github.com/jhalter/mobius/hotline"
	"github.com/jhalter/mobius/internal/mobius"
)

func init() { register("C02", "Corr.Run_C02", genC02) }

// chunkReader delivers exactly the scripted pieces (a Read never returns more than one piece).
type chunkReader struct {
	data   []byte
	script []int
}

func (c *chunkReader) Read(p []byte) (int, error) {
	if len(c.data) == 0 {
		return 0, io.EOF
	}
	k := len(c.data)
	if len(c.script) > 0 {
		k = c.script[0]
		if k > len(c.data) {
			k = len(c.data)
		}
	}
	if k > len(p) {
		// the consumer's buffer is smaller than the piece: deliver what fits, keep the remainder of the piece
		n := copy(p, c.data[:len(p)])
		c.data = c.data[n:]
		if len(c.script) > 0 {
			c.script[0] -= n
		}
		return n, nil
	}
	n := copy(p, c.data[:k])
	c.data = c.data[n:]
	if len(c.script) > 0 {
		c.script = c.script[1:]
	}
	return n, nil
}

// segmentation scripts for a stream of n bytes
func segScripts(rng *Rng, n int, exhaustivePrefix int) map[string][]int {
	m := map[string][]int{"all-at-once": {n}}
	one := make([]int, n)
	for i := range one {
		one[i] = 1
	}
	m["one-byte"] = one
	var r []int
	for tot := 0; tot < n; {
		k := 1 + rng.Intn(40)
		r = append(r, k)
		tot += k
	}
	m["random"] = r
	// split inside the fixed-size headers: 5 | 9 | rest in pieces of 7
	h := []int{5, 9}
	for tot := 14; tot < n; tot += 7 {
		h = append(h, 7)
	}
	m["header-split"] = h
	m["two-halves"] = []int{n / 2, n - n/2}
	return m
}

// exhaustive segmentations of the first k bytes (bitmask of cut positions), rest in one piece
func maskScript(mask, k, n int) []int {
	var s []int
	run := 1
	for i := 1; i < k; i++ {
		if mask&(1<<(i-1)) != 0 {
			s = append(s, run)
			run = 1
		} else {
			run++
		}
	}
	s = append(s, run)
	if n > k {
		s = append(s, n-k)
	}
	return s
}

func buildSession(rng *Rng, nReq int) (stream []byte, wellFormed bool) {
	stream = append(stream, handshakeBytes...)
	id := uint32(1)
	// half of the sessions log in as the guest (empty login), half to the named account "segacct" / "pw"
	// (login and password travel with every byte complemented; the server compares the password as sent)
	var login, pass []byte
	if rng.Intn(2) == 0 {
		for _, c := range []byte("segacct") {
			login = append(login, 255-c)
		}
		for _, c := range []byte("pw") {
			pass = append(pass, 255-c)
		}
	}
	stream = append(stream, refEncode(107, id, RField{105, login}, RField{106, pass}, RField{102, []byte("seg")}, RField{104, []byte{0, 7}})...)
	for i := 0; i < nReq; i++ {
		id++
		switch rng.Intn(4) {
		case 0:
			stream = append(stream, refEncode(500, id)...)
		case 1:
			stream = append(stream, refEncode(300, id)...)
		case 2:
			stream = append(stream, refEncode(999, id, RField{101, rng.Bytes(rng.Intn(30))})...) // unregistered type: ignored
		case 3:
			stream = append(stream, refEncode(500, id, RField{101, dataBytes(rng, rng.Pick(0, 1, 300, 5000))})...)
		}
	}
	return stream, true
}

func runControl(env *Env, stream []byte, script []int, addr string) [][]byte {
	w := env.Connect(addr)
	w.Write(stream, script)
	// wait for the replies the reference framing of the stream lets one expect (the login's, then one per complete
	// keep-alive / user-list request) - a positive signal, not a quiet line: under load a reply can take longer than
	// any quiet period - and then for quiescence, to catch anything beyond them
	expect := 0
	if len(stream) >= 12 {
		bb := stream[12:]
		for first := true; ; first = false {
			f, n := refParse(bb)
			if f == nil {
				break
			}
			if first || f.Type == 500 || f.Type == 300 {
				expect++
			}
			bb = bb[n:]
		}
	}
	for dl := time.Now().Add(3 * time.Second); time.Now().Before(dl); time.Sleep(300 * time.Microsecond) {
		fs, _ := w.Frames()
		n := 0
		for _, f := range fs {
			if f.Reply == 1 {
				n++
			}
		}
		if n >= expect || w.ServerClosed() {
			break
		}
	}
	w.WaitQuiet(25*time.Millisecond, 3*time.Second)
	rx := w.Rx()
	if len(rx) < 8 {
		w.Close()
		return [][]byte{{0}}
	}
	frames, _ := w.Frames()
	var ids []uint32
	loginOK := false
	for _, f := range frames {
		if f.Reply == 1 {
			if f.ID == 1 {
				loginOK = f.Err == 0
			}
			ids = append(ids, f.ID)
		}
	}
	sort.Slice(ids, func(i, j int) bool { return ids[i] < ids[j] })
	var idb []byte
	for _, x := range ids {
		idb = append(idb, be32(int(x))...)
	}
	w.Close()
	return [][]byte{{1}, b1(loginOK), idb}
}

func genC02(cs *CaseSet, rng *Rng, tier string, dir string) {
	cs.Rule = "control sessions: >= 2 transactions and a segmentation with >= 2 segments one of which splits the 12-byte handshake or a 20-byte transaction header; uploads: a segmentation with >= 2 segments splitting the preamble or a fork header; scanner cases: >= 2 chunks; distinct by (stream, script)"
	env := NewEnv(dir, EnvOpts{Accounts: []hotline.Account{
		{Login: "segacct", Name: "Seg", Password: hotline.HashAndSalt([]byte{255 - 'p', 255 - 'w'}), Access: hotline.AccessBitmap{}}}})
	var mu sync.Mutex
	serial := 0
	nextAddr := func() string {
		mu.Lock()
		defer mu.Unlock()
		serial++
		return fmt.Sprintf("10.2.%d.%d:%d", serial/250, serial%250+1, 1000+serial)
	}
	type job struct {
		kind   string
		code   int
		stream []byte
		script []int
		nt     bool
	}
	var jobs []job
	nSess := 14
	if tier == "thorough" {
		nSess = 120
	}
	for s := 0; s < nSess; s++ {
		stream, _ := buildSession(rng, 1+rng.Intn(6))
		for name, sc := range segScripts(rng, len(stream), 0) {
			jobs = append(jobs, job{"control-" + name, 1, stream, sc, len(sc) >= 2})
		}
	}
	// exhaustive segmentations of the first k bytes of one short session
	{
		stream, _ := buildSession(rng, 2)
		k := 9
		if tier == "thorough" {
			k = 13
		}
		for mask := 0; mask < 1<<(k-1); mask++ {
			if tier == "quick" && mask%4 != int(rng.s%4) {
				continue
			}
			jobs = append(jobs, job{"control-exhaustive-prefix", 1, stream, maskScript(mask, k, len(stream)), mask != 0})
		}
	}
	// malformed tails: truncated last transaction, garbage after the session (model only, no oracle)
	for s := 0; s < nSess/2; s++ {
		stream, _ := buildSession(rng, 1+rng.Intn(4))
		switch rng.Intn(3) {
		case 0:
			stream = stream[:len(stream)-1-rng.Intn(15)]
		case 1:
			stream = append(stream, rng.Bytes(5+rng.Intn(40))...)
		case 2:
			stream = stream[:rng.Intn(14)]
		}
		for name, sc := range segScripts(rng, len(stream), 0) {
			if name == "one-byte" || name == "all-at-once" || name == "random" {
				jobs = append(jobs, job{"control-malformed-" + name, 2, stream, sc, len(sc) >= 2})
			}
		}
	}
	results := make([][][]byte, len(jobs))
	sem := make(chan struct{}, 12)
	var wg sync.WaitGroup
	for i := range jobs {
		wg.Add(1)
		sem <- struct{}{}
		go func(i int) {
			defer wg.Done()
			defer func() { <-sem }()
			sc := append([]int{}, jobs[i].script...)
			results[i] = runControl(env, jobs[i].stream, sc, nextAddr())
		}(i)
	}
	wg.Wait()
	for i, j := range jobs {
		cs.Add(Case{Kind: j.kind, Ops: []Op{mkOp(j.code, "control-session", j.stream, scriptBytes(j.script))},
			Obs: [][][]byte{results[i]}, NonTrivial: j.nt})
	}

	// ---- the real bufio.Scanner + transactionScanner against the frames specification ----
	nScan := 60
	if tier == "thorough" {
		nScan = 600
	}
	for k := 0; k < nScan; k++ {
		var bs []byte
		n := 1 + rng.Intn(5)
		for i := 0; i < n; i++ {
			switch rng.Intn(6) {
			case 0:
				bs = append(bs, refEncode(rng.Intn(600), uint32(i), RField{101, dataBytes(rng, rng.Pick(0, 3, 200, 4000, 9000))})...)
			case 1: // declared size larger than the 64 KiB buffer: scanner gives up
				t := refEncode(101, 9)
				copy(t[12:16], be32(70000))
				bs = append(bs, t...)
				bs = append(bs, dataBytes(rng, 70100)...)
			case 2: // size field that wraps the uint32 addition: token shorter than a header
				t := refEncode(101, 9)
				copy(t[12:16], []byte{0xff, 0xff, 0xff, byte(0xec + rng.Intn(20))})
				bs = append(bs, t...)
			default:
				bs = append(bs, refEncode(500, uint32(i))...)
			}
		}
		if rng.Intn(4) == 0 && len(bs) > 3 {
			bs = bs[:len(bs)-1-rng.Intn(3)]
		}
		var sc []int
		switch rng.Intn(4) {
		case 0:
			sc = []int{len(bs)}
		case 1:
			for tot := 0; tot < len(bs); tot++ {
				sc = append(sc, 1)
			}
			if len(bs) > 6000 {
				sc = []int{3, 5, len(bs)}
			}
		default:
			for tot := 0; tot < len(bs); {
				x := 1 + rng.Intn(5000)
				sc = append(sc, x)
				tot += x
			}
		}
		scanner := bufio.NewScanner(&chunkReader{data: append([]byte{}, bs...), script: append([]int{}, sc...)})
		scanner.Split(hotline.VerifTransactionScanner)
		var toks [][]byte
		for scanner.Scan() {
			t := append([]byte{}, scanner.Bytes()...)
			toks = append(toks, t)
			if len(t) < 22 {
				break
			}
		}
		if toks == nil {
			toks = [][]byte{}
		}
		cs.Add(Case{Kind: "scanner", Ops: []Op{mkOp(3, "bufio.Scanner+transactionScanner", bs, scriptBytes(sc))},
			Obs: [][][]byte{toks}, NonTrivial: len(sc) >= 2})
	}

	// ---- uploads under segmentation ----
	nUp := 24
	if tier == "thorough" {
		nUp = 150
	}
	type upJob struct {
		stream, data, trailer []byte
		script                []int
		name, kind            string
		conn                  net.Conn
	}
	admin, _ := env.NewClient("guest", hotline.AccessBitmap{255, 255, 255, 255, 255, 255, 255, 255}, "10.3.0.1:1")
	env.StartDrain()
	var ups []upJob
	for k := 0; k < nUp; k++ {
		name := fmt.Sprintf("up%d.bin", k)
		data := dataBytes(rng, rng.Pick(0, 1, 100, 511, 513, 3000, 40000, 70000))
		t := hotline.NewTransaction(hotline.TranUploadFile, admin.ID, hotline.NewField(hotline.FieldFileName, []byte(name)))
		res, _ := callHandler(mobius.HandleUploadFile, admin, &t)
		if len(res) != 1 || isErrReply(res) {
			panic("upload request refused")
		}
		ref := res[0].GetField(hotline.FieldRefNum).Data
		// preamble + flattened file object (2 forks) + data
		ffo := []byte("FILP")
		ffo = append(ffo, 0, 1)
		ffo = append(ffo, make([]byte, 16)...)
		ffo = append(ffo, 0, 2)
		info := append([]byte("AMAC"), []byte("TEXTttxt")...)
		info = append(info, make([]byte, 4+4+32+8+8+2)...)
		info = append(info, be16(len(name))...)
		info = append(info, name...)
		info = append(info, 0, 0)
		ffo = append(ffo, []byte("INFO")...)
		ffo = append(ffo, make([]byte, 8)...)
		ffo = append(ffo, be32(len(info))...)
		ffo = append(ffo, info...)
		ffo = append(ffo, []byte("DATA")...)
		ffo = append(ffo, make([]byte, 8)...)
		ffo = append(ffo, be32(len(data))...)
		// every third upload carries a resource fork after the data (three forks announced in the header)
		var trailer []byte
		if k%3 == 2 {
			ffo[23] = 3
			rsrc := dataBytes(rng, rng.Pick(0, 1, 60, 700))
			trailer = append([]byte("MACR"), make([]byte, 8)...)
			trailer = append(trailer, be32(len(rsrc))...)
			trailer = append(trailer, rsrc...)
			if len(data) > 3000 {
				data = data[:rng.Pick(0, 1, 10, 200)] // a small data fork: header, data and resource fork share a segment
				copy(ffo[len(ffo)-4:], be32(len(data)))
			}
		}
		stream := append([]byte("HTXF"), ref...)
		stream = append(stream, be32(len(ffo)+len(data)+len(trailer))...)
		stream = append(stream, 0, 0, 0, 0)
		stream = append(stream, ffo...)
		stream = append(stream, data...)
		stream = append(stream, trailer...)
		scs := segScripts(rng, len(stream), 0)
		names := []string{"all-at-once", "one-byte", "random", "header-split", "two-halves"}
		kind := names[k%len(names)]
		sc := scs[kind]
		if kind == "one-byte" && len(stream) > 5000 {
			sc = append(sc[:200:200], len(stream)-200)
		}
		if trailer != nil {
			kind += "-3forks"
		}
		ups = append(ups, upJob{stream: stream, data: data, trailer: trailer, script: sc, name: name, kind: kind})
	}
	env.StopDrain()
	var wg2 sync.WaitGroup
	for i := range ups {
		wg2.Add(1)
		go func(u *upJob) {
			defer wg2.Done()
			cl, sv := net.Pipe()
			go func() {
				env.Srv.VerifHandleFileTransfer(context.Background(), sv, "10.3.0.1:2")
				sv.Close()
			}()
			go io.Copy(io.Discard, cl)
			b := u.stream
			cl.SetWriteDeadline(time.Now().Add(10 * time.Second))
			for _, k := range u.script {
				if k > len(b) {
					k = len(b)
				}
				if k == 0 {
					continue
				}
				if _, err := cl.Write(b[:k]); err != nil {
					break
				}
				b = b[k:]
			}
			if len(b) > 0 {
				cl.Write(b)
			}
			// the handler renames the file before its 3 s courtesy sleep: poll for the result
			final := filepath.Join(env.FileRoot, u.name)
			for i := 0; i < 400; i++ {
				if _, err := os.Stat(final); err == nil {
					break
				}
				time.Sleep(5 * time.Millisecond)
			}
			cl.Close()
		}(&ups[i])
	}
	wg2.Wait()
	for _, u := range ups {
		fin, err1 := os.ReadFile(filepath.Join(env.FileRoot, u.name))
		inc, _ := os.ReadFile(filepath.Join(env.FileRoot, u.name+".incomplete"))
		complete := byte(0)
		if err1 == nil {
			complete = 1
		}
		cs.Add(Case{Kind: "upload-" + u.kind, Ops: []Op{mkOp(4, "upload", u.stream[:len(u.stream)-len(u.data)-len(u.trailer)], scriptBytes(u.script), u.data, u.trailer)},
			Obs: [][][]byte{{{complete}, fin, inc}}, NonTrivial: len(u.script) >= 2})
	}

	// ---- folder uploads under segmentation: the whole client side of a folder upload into a fresh target (item
	// headers, size words, flattened files) written ahead with a scripted segmentation; the server's action
	// replies are drained.  Every file item is followed by another item, so that a read can return the tail of one
	// file together with the next header.
	nFold := 12
	if tier == "thorough" {
		nFold = 90
	}
	type fItem struct {
		path  [][]byte
		isDir bool
		data  []byte
	}
	type foldJob struct {
		name   string
		stream []byte
		script []int
		kind   string
		items  []fItem
	}
	env.StartDrain()
	var folds []foldJob
	for k := 0; k < nFold; k++ {
		name := fmt.Sprintf("fold%d", k)
		var items []fItem
		items = append(items, fItem{path: [][]byte{[]byte("sub")}, isDir: true})
		nFiles := 2 + rng.Intn(3)
		for i := 0; i < nFiles; i++ {
			pth := [][]byte{[]byte(fmt.Sprintf("f%d.bin", i))}
			if i%2 == 1 {
				pth = [][]byte{[]byte("sub"), []byte(fmt.Sprintf("g%d", i))}
			}
			items = append(items, fItem{path: pth, data: dataBytes(rng, rng.Pick(0, 1, 30, 511, 2000, 5000, 9000))})
		}
		if rng.Bool() {
			items = append(items, fItem{path: [][]byte{[]byte("last dir")}, isDir: true})
		}
		total := 0
		for _, it := range items {
			total += len(it.data)
		}
		t := hotline.NewTransaction(hotline.TranUploadFldr, admin.ID, hotline.NewField(hotline.FieldFileName, []byte(name)),
			hotline.NewField(hotline.FieldTransferSize, be32(total)), hotline.NewField(hotline.FieldFolderItemCount, be16(len(items))))
		res, _ := callHandler(mobius.HandleUploadFolder, admin, &t)
		if len(res) != 1 || isErrReply(res) {
			panic("folder upload request refused")
		}
		stream := c10Preamble(res[0].GetField(hotline.FieldRefNum).Data)
		for _, it := range items {
			pathBytes := encodePath(it.path)[2:]
			hd := be16(len(pathBytes) + 4)
			if it.isDir {
				hd = append(hd, 0, 1)
			} else {
				hd = append(hd, 0, 0)
			}
			hd = append(hd, be16(len(it.path))...)
			hd = append(hd, pathBytes...)
			stream = append(stream, hd...)
			if !it.isDir {
				ffo := c10FFO(string(it.path[len(it.path)-1]), it.data)
				stream = append(stream, be32(len(ffo))...)
				stream = append(stream, ffo...)
			}
		}
		scs := segScripts(rng, len(stream), 0)
		names := []string{"all-at-once", "random", "two-halves", "one-byte", "header-split"}
		kind := names[k%len(names)]
		sc := scs[kind]
		if kind == "one-byte" && len(stream) > 4000 {
			sc = append(sc[:300:300], len(stream)-300)
		}
		folds = append(folds, foldJob{name: name, stream: stream, script: sc, kind: kind, items: items})
	}
	env.StopDrain()
	var wg3 sync.WaitGroup
	for i := range folds {
		wg3.Add(1)
		go func(u *foldJob) {
			defer wg3.Done()
			cl, sv := net.Pipe()
			done := make(chan struct{})
			go func() {
				env.Srv.VerifHandleFileTransfer(context.Background(), sv, "10.3.0.1:3")
				sv.Close()
				close(done)
			}()
			go io.Copy(io.Discard, cl)
			b := u.stream
			cl.SetWriteDeadline(time.Now().Add(10 * time.Second))
			for _, k := range u.script {
				if k > len(b) {
					k = len(b)
				}
				if k == 0 {
					continue
				}
				if _, err := cl.Write(b[:k]); err != nil {
					break
				}
				b = b[k:]
			}
			if len(b) > 0 {
				cl.Write(b)
			}
			select {
			case <-done:
			case <-time.After(8 * time.Second):
			}
			cl.Close()
		}(&folds[i])
	}
	wg3.Wait()
	for _, u := range folds {
		root := filepath.Join(env.FileRoot, u.name)
		args := [][]byte{u.stream, scriptBytes(u.script), be16(len(u.items))}
		obs := [][]byte{{1}}
		for _, it := range u.items {
			pathBytes := encodePath(it.path)[2:]
			d := byte(0)
			if it.isDir {
				d = 1
			}
			want := append(append(len16(pathBytes), d), it.data...)
			args = append(args, want)
			// what is on disk under the item's path
			comps := make([]string, len(it.path))
			for i, c := range it.path {
				comps[i] = string(c)
			}
			full := filepath.Join(append([]string{root}, comps...)...)
			got := append(len16(pathBytes), d)
			if fi, err := os.Stat(full); err != nil || fi.IsDir() != it.isDir {
				got = append(got, []byte("<missing>")...)
				obs[0] = []byte{0}
			} else if !it.isDir {
				b, _ := os.ReadFile(full)
				got = append(got, b...)
			}
			obs = append(obs, got)
		}
		cs.Add(Case{Kind: "folder-upload-" + u.kind, Ops: []Op{mkOp(5, "folder-upload", args...)},
			Obs: [][][]byte{obs}, NonTrivial: len(u.script) >= 2})
	}

	// ---- folder downloads: the CLIENT's side of a folder download (initial action, per item an action - send,
	// resume with a two-fork resume record, skip - and the word after every file) written ahead under a scripted
	// segmentation; what the server sends back must be what it sends when the same bytes arrive in one piece
	{
		droot := filepath.Join(env.FileRoot, "dlfolder")
		must(os.MkdirAll(filepath.Join(droot, "inner"), 0755))
		must(os.WriteFile(filepath.Join(droot, "a.bin"), patBytes(3000, 1), 0644))
		must(os.WriteFile(filepath.Join(droot, "b.bin"), patBytes(5000, 2), 0644))
		must(os.WriteFile(filepath.Join(droot, "inner", "c.bin"), patBytes(700, 3), 0644))
		must(os.WriteFile(filepath.Join(droot, "z.bin"), patBytes(1200, 4), 0644))
		// items in walk order: a.bin, b.bin, inner, inner/c.bin, z.bin
		resume := func(off int) []byte { // a resume record with a DATA and a MACR entry (74 bytes)
			b := []byte("RFLT")
			b = append(b, 0, 1)
			b = append(b, make([]byte, 34)...)
			b = append(b, 0, 2)
			b = append(b, []byte("DATA")...)
			b = append(b, be32(off)...)
			b = append(b, make([]byte, 8)...)
			b = append(b, []byte("MACR")...)
			b = append(b, make([]byte, 12)...)
			return append(be16(len(b)), b...)
		}
		var client []byte
		client = append(client, 0, 3)                                     // initial action
		client = append(client, 0, 1, 0, 3)                               // a.bin: send, then the word after the file
		client = append(client, append([]byte{0, 2}, resume(1234)...)...) // b.bin: resume at 1234
		client = append(client, 0, 3)                                     // word after b.bin
		client = append(client, 0, 1)                                     // inner: a folder
		client = append(client, 0, 3)                                     // inner/c.bin: skip
		client = append(client, append([]byte{0, 2}, resume(1200)...)...) // z.bin: resume at its end
		client = append(client, 0, 3)
		run := func(script []int) []byte {
			t := hotline.NewTransaction(hotline.TranDownloadFldr, admin.ID, hotline.NewField(hotline.FieldFileName, []byte("dlfolder")))
			res, _ := callHandler(mobius.HandleDownloadFolder, admin, &t)
			if len(res) != 1 || isErrReply(res) {
				panic("folder download refused")
			}
			stream := append(c10Preamble(res[0].GetField(hotline.FieldRefNum).Data), client...)
			cl, sv := net.Pipe()
			done := make(chan struct{})
			go func() {
				env.Srv.VerifHandleFileTransfer(context.Background(), sv, "10.3.0.1:4")
				sv.Close()
				close(done)
			}()
			var out []byte
			rd := make(chan struct{})
			go func() {
				defer close(rd)
				b, _ := io.ReadAll(cl)
				out = b
			}()
			cl.SetWriteDeadline(time.Now().Add(10 * time.Second))
			b := stream
			for _, k := range script {
				if k > len(b) {
					k = len(b)
				}
				if k == 0 {
					continue
				}
				if _, err := cl.Write(b[:k]); err != nil {
					break
				}
				b = b[k:]
			}
			if len(b) > 0 {
				cl.Write(b)
			}
			select {
			case <-done:
			case <-time.After(8 * time.Second):
				cl.Close()
			}
			<-rd
			cl.Close()
			return out
		}
		env.StartDrain()
		total := 16 + len(client)
		ref := run([]int{total})
		scs := segScripts(rng, total, 0)
		scs["cut-in-resume-record"] = []int{16 + 2 + 4 + 2 + 2 + 58, 3, 13, total}
		scs["cut-in-second-resume-record"] = []int{total - 2 - 10, 5, total}
		for name, sc := range scs {
			if name == "all-at-once" {
				continue
			}
			out := run(append([]int{}, sc...))
			cs.Add(Case{Kind: "folder-download-" + name, Ops: []Op{mkOp(6, "folder-download-client", client, scriptBytes(sc), ref)},
				Obs: [][][]byte{{out}}, NonTrivial: len(sc) >= 2})
		}
		env.StopDrain()
	}
}
