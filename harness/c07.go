package main

import (
	"bytes"
	"fmt"
	"os"
	"path/filepath"
	"strings"

	"github.com/jhalter/mobius/hotline"
	"github.com/jhalter/mobius/internal/mobius"
	"golang.org/x/text/encoding/charmap"
)

func init() { register("C07", "Corr.Run_C07", genC07) }

const victimName = "zz_c07_victim"
const canaryText = "CANARY-OUTSIDE-THE-ROOT"

// hostile path components; every traversal ends in a leaf name that exists only where the harness put a victim,
// and climbs at most 4 levels (the root lies deeper than that inside the sandbox)
func hostileName(rng *Rng) []byte {
	pool := []string{
		"..", ".", "", "/", "../" + victimName, "../../" + victimName, "../../../" + victimName, "../../../../" + victimName,
		"a/../../" + victimName, "/" + victimName, "/etc/" + victimName, "x\x00y", strings.Repeat("A", 300),
		"\xff\xfe\x80", "..\xff", "sub/../..", "....", ".. ", "..\\" + victimName, "./" + victimName, "sub//" + victimName,
		"file.txt", "sub", "sub/inner.txt", "m\x8er.txt", ".hidden", victimName, "../sub/../../" + victimName,
		"..//..//" + victimName, "%2e%2e/" + victimName, "sub/./../../" + victimName,
		// components that only BECOME ".." if something strips or folds bytes after the path was cleaned
		".\x00./" + victimName, ".\x00./.\x00./" + victimName, "..\x00/" + victimName, "\x00../\x00../" + victimName,
		". ./" + victimName, ".\t./" + victimName, "..\r/..\r/" + victimName,
	}
	return []byte(pool[rng.Intn(len(pool))])
}

func encodePath(items [][]byte) []byte {
	b := be16(len(items))
	for _, it := range items {
		n := it
		if len(n) > 255 {
			n = n[:255]
		}
		b = append(b, 0, 0, byte(len(n)))
		b = append(b, n...)
	}
	return b
}

func hostilePathField(rng *Rng) (field []byte, present bool) {
	switch rng.Intn(8) {
	case 0:
		return nil, false
	case 1: // malformed: declared count larger than the items
		p := encodePath([][]byte{hostileName(rng)})
		p[1] = byte(2 + rng.Intn(3))
		return p, true
	case 2: // malformed: length prefix runs past the data
		p := encodePath([][]byte{[]byte("sub"), hostileName(rng)})
		if len(p) > 6 {
			p[len(p)-len(p)/3-1] = 200
		}
		return p, true
	default:
		n := rng.Intn(4)
		var items [][]byte
		for i := 0; i < n; i++ {
			items = append(items, hostileName(rng))
		}
		return encodePath(items), true
	}
}

type c07Box struct {
	env     *Env
	s       string // sandbox top
	outside func() map[string]string
}

// sandbox: S/l1/l2/l3/l4/cfg/{Files,Users}; victims at every level above the root and next to it
func newC07Box(dir string) *c07Box {
	s := dir
	os.RemoveAll(s)
	deep := filepath.Join(s, "l1", "l2", "l3", "l4")
	must(os.MkdirAll(deep, 0755))
	env := NewEnv(deep, EnvOpts{Preserve: true})
	lv := s
	for _, part := range []string{"", "l1", "l2", "l3", "l4", "cfg"} {
		lv = filepath.Join(lv, part)
		must(os.WriteFile(filepath.Join(lv, victimName), []byte(canaryText), 0644))
		must(os.WriteFile(filepath.Join(lv, victimName+".yaml"), []byte(canaryText), 0644))
	}
	// "twin" exists inside the root AND at every level above it: a link that starts resolving relative to a wrong
	// directory finds something to point at
	lv2 := s
	for _, part := range []string{"", "l1", "l2", "l3", "l4", "cfg"} {
		lv2 = filepath.Join(lv2, part)
		must(os.MkdirAll(filepath.Join(lv2, "twin"), 0755))
		must(os.WriteFile(filepath.Join(lv2, "twin", "Users"), []byte(canaryText), 0644))
	}
	must(os.MkdirAll(filepath.Join(env.Cfg, "sibling", "sub"), 0755))
	must(os.WriteFile(filepath.Join(env.Cfg, "sibling", "sub", victimName), []byte(canaryText), 0644))
	// content of the root
	must(os.MkdirAll(filepath.Join(env.FileRoot, "sub", "deeper"), 0755))
	must(os.WriteFile(filepath.Join(env.FileRoot, "file.txt"), []byte("inside file"), 0644))
	must(os.WriteFile(filepath.Join(env.FileRoot, "m.txt"), []byte("inside m"), 0644))
	must(os.WriteFile(filepath.Join(env.FileRoot, "sub", "inner.txt"), []byte("inner"), 0644))
	must(os.MkdirAll(filepath.Join(env.FileRoot, "uploads here"), 0755))
	must(os.MkdirAll(filepath.Join(env.FileRoot, "twin"), 0755))
	must(os.WriteFile(filepath.Join(env.FileRoot, "twin", "inside.txt"), []byte("inside twin"), 0644))
	return &c07Box{env: env, s: s}
}

// badLinks: symbolic links below the root whose target resolves outside the root (dangling links are fine)
func (b *c07Box) badLinks() []string {
	var bad []string
	root, _ := filepath.EvalSymlinks(b.env.FileRoot)
	filepath.Walk(b.env.FileRoot, func(p string, info os.FileInfo, err error) error {
		if err != nil || info.Mode()&os.ModeSymlink == 0 {
			return nil
		}
		t, err := filepath.EvalSymlinks(p)
		if err != nil {
			return nil
		}
		if t != root && !strings.HasPrefix(t, root+string(filepath.Separator)) {
			rel, _ := filepath.Rel(b.env.FileRoot, p)
			bad = append(bad, rel+" -> "+t)
		}
		return nil
	})
	return bad
}

func (b *c07Box) snapOutside(allowed string) map[string]string {
	m := snapshot(b.s)
	rel, _ := filepath.Rel(b.s, allowed)
	for k := range m {
		if k == rel || strings.HasPrefix(k, rel+string(filepath.Separator)) {
			delete(m, k)
		}
	}
	return m
}

// a leak is the CONTENT of an outside file in a reply or transfer, or a LISTING entry that can only come from a
// directory above / beside the root (those directories hold entries with these names; the root never does)
var outsideEntryNames = []string{"cfg", "l1", "l2", "l3", "l4", "sibling", "Users", "Files", "Agreement.txt",
	"MessageBoard.txt", "Banlist.yaml", "ThreadedNews.yaml", victimName + ".yaml"}

func leaks(ts []hotline.Transaction, extra ...[]byte) bool {
	for _, t := range ts {
		for _, f := range t.Fields {
			if f.Type == hotline.FieldFileNameWithInfo && len(f.Data) >= 20 {
				name := string(f.Data[20:])
				for _, o := range outsideEntryNames {
					if name == o {
						return true
					}
				}
			}
			if bytes.Contains(f.Data, []byte(canaryText)) {
				return true
			}
		}
	}
	for _, e := range extra {
		if bytes.Contains(e, []byte(canaryText)) {
			return true
		}
	}
	return false
}

func genC07(cs *CaseSet, rng *Rng, tier string, dir string) {
	cs.Rule = "some supplied component is '..', '.', empty, contains '/' or NUL, is absolute or over-long, or a length prefix disagrees with the data; distinct by (call site, arguments)"
	scale := 1
	if tier == "thorough" {
		scale = 10
	}
	hostileCount := func(items ...[]byte) bool {
		for _, it := range items {
			s := string(it)
			if s == "" || s == "." || strings.Contains(s, "..") || strings.Contains(s, "/") || strings.Contains(s, "\x00") || len(s) > 255 {
				return true
			}
		}
		return false
	}
	// ---- Mac Roman table ----
	{
		d := charmap.Macintosh.NewDecoder()
		var out []byte
		for b := 0; b < 256; b++ {
			s, _ := d.Bytes([]byte{byte(b)})
			out = append(out, len16(s)...)
		}
		cs.Add(Case{Kind: "macroman-table", Ops: []Op{mkOp(4, "charmap.Macintosh")}, Obs: [][][]byte{{out}}, NonTrivial: true})
	}
	// ---- filepath.Join("/", ...) against the component model ----
	for k := 0; k < 150*scale; k++ {
		n := 1 + rng.Intn(4)
		elems := [][]byte{[]byte("/")}
		strs := []string{"/"}
		for i := 0; i < n; i++ {
			e := hostileName(rng)
			if bytes.IndexByte(e, 0) >= 0 {
				e = bytes.ReplaceAll(e, []byte{0}, []byte{'_'})
			}
			elems = append(elems, e)
			strs = append(strs, string(e))
		}
		cs.Add(Case{Kind: "filepath-join", Ops: []Op{mkOp(5, "filepath.Join", elems...)}, Obs: [][][]byte{{[]byte(filepath.Join(strs...))}}, NonTrivial: true})
	}
	// ---- ReadPath as a function ----
	root := "/srv/hotline/Files"
	for k := 0; k < 500*scale; k++ {
		pf, present := hostilePathField(rng)
		name := hostileName(rng)
		if rng.Intn(6) == 0 {
			name = nil
		}
		status, out := byte(0), []byte(nil)
		func() {
			defer func() {
				if r := recover(); r != nil {
					status, out = 2, nil
				}
			}()
			var fp []byte
			if present {
				fp = make([]byte, len(pf))
				copy(fp, pf)
			}
			p, err := hotline.ReadPath(root, fp, name)
			if err != nil {
				status = 1
			} else {
				out = []byte(p)
			}
		}()
		cs.Add(Case{Kind: "readpath", Ops: []Op{mkOp(1, "ReadPath", []byte(root), b1(present), pf, name)},
			Obs: [][][]byte{{{status}, out}}, NonTrivial: true})
	}
	// ---- folderUpload.FormattedPath as a function ----
	for k := 0; k < 200*scale; k++ {
		n := rng.Intn(4)
		var data []byte
		for i := 0; i < n; i++ {
			seg := hostileName(rng)
			if len(seg) > 255 {
				seg = seg[:255]
			}
			data = append(data, 0, 0, byte(len(seg)))
			data = append(data, seg...)
		}
		cnt := n
		switch rng.Intn(8) {
		case 0:
			cnt = n + 1 // more items declared than present
		case 1:
			if len(data) > 3 {
				data = data[:len(data)-1-rng.Intn(2)]
			}
		}
		status, out := byte(0), []byte(nil)
		func() {
			defer func() {
				if r := recover(); r != nil {
					status, out = 2, nil
				}
			}()
			fu := hotline.VerifFolderUpload{FileNamePath: append([]byte{}, data...)}
			copy(fu.PathItemCount[:], be16(cnt))
			out = []byte(fu.FormattedPath())
		}()
		cs.Add(Case{Kind: "formatted-path", Ops: []Op{mkOp(2, "FormattedPath", be16(cnt), data)}, Obs: [][][]byte{{{status}, out}}, NonTrivial: true})
	}

	// ---- effects on a real tree ----
	box := newC07Box(dir)
	env := box.env
	env.StartDrain()
	defer env.StopDrain()
	var all hotline.AccessBitmap
	for i := range all {
		all[i] = 255
	}
	admin, _ := env.NewClient("~admin~", all, "10.7.0.1:1")
	field := func(id [2]byte, data []byte, present bool) []hotline.Field {
		if !present {
			return nil
		}
		return []hotline.Field{hotline.NewField(id, data)}
	}
	effect := func(site string, allowed string, args [][]byte, run func() ([]hotline.Transaction, [][]byte)) {
		before := box.snapOutside(allowed)
		var res []hotline.Transaction
		var extra [][]byte
		func() {
			defer func() { recover() }()
			res, extra = run()
		}()
		env.TakeSent()
		after := box.snapOutside(allowed)
		diff := strings.Join(snapDiff(before, after), "\n")
		if bl := box.badLinks(); len(bl) > 0 {
			diff += "\nLINK-LEADS-OUT: " + strings.Join(bl, "; ")
			for _, l := range bl { // remove it so that later effects are judged on their own
				os.Remove(filepath.Join(env.FileRoot, strings.SplitN(l, " -> ", 2)[0]))
			}
		}
		leak := byte(0)
		if leaks(res, extra...) {
			leak = 1
		}
		a := append([][]byte{[]byte(site)}, args...)
		cs.Add(Case{Kind: "effect-" + site, Ops: []Op{mkOp(3, site, a...)}, Obs: [][][]byte{{[]byte(diff), {leak}}}, NonTrivial: hostileCount(args...)})
		// restore the inside fixtures some sites consume
		os.WriteFile(filepath.Join(env.FileRoot, "file.txt"), []byte("inside file"), 0644)
		os.WriteFile(filepath.Join(env.FileRoot, "m.txt"), []byte("inside m"), 0644)
		os.MkdirAll(filepath.Join(env.FileRoot, "sub", "deeper"), 0755)
		os.WriteFile(filepath.Join(env.FileRoot, "sub", "inner.txt"), []byte("inner"), 0644)
		// the two top-level files carry side files (info fork with a comment, resource fork, partial data): a request
		// that moves or renames them must not carry any of those out of the root either
		for _, f := range []string{"file.txt", "m.txt"} {
			os.WriteFile(filepath.Join(env.FileRoot, ".info_"+f), c11InfoFork("TEXT", "ttxt", []byte(f), []byte("a comment")), 0644)
			os.WriteFile(filepath.Join(env.FileRoot, ".rsrc_"+f), []byte("resource fork"), 0644)
		}
		os.WriteFile(filepath.Join(env.FileRoot, "m.txt.incomplete"), []byte("partial"), 0644)
	}
	call := func(h func(*hotline.ClientConn, *hotline.Transaction) []hotline.Transaction, typ hotline.TranType, fields ...hotline.Field) []hotline.Transaction {
		t := hotline.NewTransaction(typ, admin.ID, fields...)
		res, _ := callHandler(h, admin, &t)
		return res
	}
	nEff := 25 * scale
	for k := 0; k < nEff; k++ {
		pf, pp := hostilePathField(rng)
		name := hostileName(rng)
		pf2, pp2 := hostilePathField(rng)
		name2 := hostileName(rng)
		pathF := field(hotline.FieldFilePath, pf, pp)
		effect("new-folder", env.FileRoot, [][]byte{pf, name}, func() ([]hotline.Transaction, [][]byte) {
			return call(mobius.HandleNewFolder, hotline.TranNewFolder, append(pathF, hotline.NewField(hotline.FieldFileName, name))...), nil
		})
		effect("rename-file", env.FileRoot, [][]byte{name2}, func() ([]hotline.Transaction, [][]byte) {
			return call(mobius.HandleSetFileInfo, hotline.TranSetFileInfo, hotline.NewField(hotline.FieldFileName, []byte("file.txt")), hotline.NewField(hotline.FieldFileNewName, name2)), nil
		})
		effect("rename-folder", env.FileRoot, [][]byte{name2}, func() ([]hotline.Transaction, [][]byte) {
			return call(mobius.HandleSetFileInfo, hotline.TranSetFileInfo, hotline.NewField(hotline.FieldFileName, []byte("sub")), hotline.NewField(hotline.FieldFileNewName, name2)), nil
		})
		effect("set-comment", env.FileRoot, [][]byte{pf, name}, func() ([]hotline.Transaction, [][]byte) {
			return call(mobius.HandleSetFileInfo, hotline.TranSetFileInfo, append(pathF, hotline.NewField(hotline.FieldFileName, name), hotline.NewField(hotline.FieldFileComment, []byte("c")))...), nil
		})
		effect("delete", env.FileRoot, [][]byte{pf, name}, func() ([]hotline.Transaction, [][]byte) {
			return call(mobius.HandleDeleteFile, hotline.TranDeleteFile, append(pathF, hotline.NewField(hotline.FieldFileName, name))...), nil
		})
		effect("move-destination", env.FileRoot, [][]byte{pf2}, func() ([]hotline.Transaction, [][]byte) {
			return call(mobius.HandleMoveFile, hotline.TranMoveFile, append(field(hotline.FieldFileNewPath, pf2, pp2), hotline.NewField(hotline.FieldFileName, []byte("m.txt")))...), nil
		})
		effect("move-source", env.FileRoot, [][]byte{pf, name}, func() ([]hotline.Transaction, [][]byte) {
			return call(mobius.HandleMoveFile, hotline.TranMoveFile, append(pathF, hotline.NewField(hotline.FieldFileName, name), hotline.NewField(hotline.FieldFileNewPath, encodePath([][]byte{[]byte("sub")})))...), nil
		})
		effect("alias", env.FileRoot, [][]byte{pf, name, pf2}, func() ([]hotline.Transaction, [][]byte) {
			return call(mobius.HandleMakeAlias, hotline.TranMakeFileAlias, append(append(pathF, hotline.NewField(hotline.FieldFileName, name)), field(hotline.FieldFileNewPath, pf2, pp2)...)...), nil
		})
		effect("get-info", env.FileRoot, [][]byte{pf, name}, func() ([]hotline.Transaction, [][]byte) {
			return call(mobius.HandleGetFileInfo, hotline.TranGetFileInfo, append(pathF, hotline.NewField(hotline.FieldFileName, name))...), nil
		})
		effect("list", env.FileRoot, [][]byte{pf}, func() ([]hotline.Transaction, [][]byte) {
			return call(mobius.HandleGetFileNameList, hotline.TranGetFileNameList, pathF...), nil
		})
		effect("download", env.FileRoot, [][]byte{pf, name}, func() ([]hotline.Transaction, [][]byte) {
			res := call(mobius.HandleDownloadFile, hotline.TranDownloadFile, append(pathF, hotline.NewField(hotline.FieldFileName, name))...)
			var got bytes.Buffer
			if len(res) == 1 && !isErrReply(res) {
				var ref [4]byte
				copy(ref[:], res[0].GetField(hotline.FieldRefNum).Data)
				if ft := env.Srv.FileTransferMgr.Get(ref); ft != nil {
					if full, err := hotline.ReadPath(ft.FileRoot, ft.FilePath, ft.FileName); err == nil {
						hotline.DownloadHandler(&got, full, ft, env.Srv.FS, discardLogger, true)
					}
					env.Srv.FileTransferMgr.Delete(ref)
				}
			}
			return res, [][]byte{got.Bytes()}
		})
		effect("upload", env.FileRoot, [][]byte{pf, name}, func() ([]hotline.Transaction, [][]byte) {
			res := call(mobius.HandleUploadFile, hotline.TranUploadFile, append(pathF, hotline.NewField(hotline.FieldFileName, name))...)
			if len(res) == 1 && !isErrReply(res) {
				var ref [4]byte
				copy(ref[:], res[0].GetField(hotline.FieldRefNum).Data)
				if ft := env.Srv.FileTransferMgr.Get(ref); ft != nil {
					if full, err := hotline.ReadPath(ft.FileRoot, ft.FilePath, ft.FileName); err == nil {
						stream := uploadStream("x", []byte("uploaded bytes"))
						hotline.UploadHandler(&rwBuf{r: bytes.NewReader(stream)}, full, ft, env.Srv.FS, discardLogger, true)
					}
					env.Srv.FileTransferMgr.Delete(ref)
				}
			}
			return res, nil
		})
		// folder upload: hostile item paths on the transfer connection
		segs := [][]byte{hostileName(rng), hostileName(rng)}
		switch rng.Intn(4) {
		case 0:
			segs = [][]byte{[]byte(".."), []byte(".."), []byte(victimName)}
		case 1:
			segs = [][]byte{[]byte(".."), []byte(".."), []byte(fmt.Sprintf("escaped-%d", k))}
		case 2: // a nested tail whose parent was never announced (and does not exist), behind a climb of several levels
			segs = [][]byte{[]byte(".."), []byte(".."), []byte(".."), []byte(fmt.Sprintf("pwn-%d", k)), []byte("deep")}
		}
		effect("folder-upload-item", env.FileRoot, segs, func() ([]hotline.Transaction, [][]byte) {
			res := call(mobius.HandleUploadFolder, hotline.TranUploadFldr,
				hotline.NewField(hotline.FieldFileName, []byte("uploads here")), hotline.NewField(hotline.FieldTransferSize, be32(100)), hotline.NewField(hotline.FieldFolderItemCount, be16(1)))
			if len(res) == 1 && !isErrReply(res) {
				var ref [4]byte
				copy(ref[:], res[0].GetField(hotline.FieldRefNum).Data)
				if ft := env.Srv.FileTransferMgr.Get(ref); ft != nil {
					full, _ := hotline.ReadPath(ft.FileRoot, ft.FilePath, ft.FileName)
					var pd []byte
					for _, s := range segs {
						if len(s) > 255 {
							s = s[:255]
						}
						pd = append(pd, 0, 0, byte(len(s)))
						pd = append(pd, s...)
					}
					isFolder := rng.Bool()
					item := be16(len(pd) + 4)
					if isFolder {
						item = append(item, 0, 1)
					} else {
						item = append(item, 0, 0)
					}
					item = append(item, be16(len(segs))...)
					item = append(item, pd...)
					stream := item
					if !isFolder {
						body := uploadStream("x", []byte("folder item bytes"))[16:] // without the HTXF preamble
						stream = append(stream, be32(len(body))...)
						stream = append(stream, body...)
					}
					hotline.UploadFolderHandler(&rwBuf{r: bytes.NewReader(stream)}, full, ft, env.Srv.FS, discardLogger, true)
					env.Srv.FileTransferMgr.Delete(ref)
				}
			}
			return res, nil
		})
		// aliases that are moved around and then used: a link must keep pointing inside the root
		effect("alias-then-move-then-use", env.FileRoot, [][]byte{[]byte(fmt.Sprint(k))}, func() ([]hotline.Transaction, [][]byte) {
			for _, n := range []string{"twin", "file.txt"} {
				os.Remove(filepath.Join(env.FileRoot, "sub", "deeper", n))
				os.Remove(filepath.Join(env.FileRoot, "sub", n))
				os.Remove(filepath.Join(env.FileRoot, "uploads here", n))
			}
			var res []hotline.Transaction
			// alias of the folder "sub" (or of a file) created two levels down
			src := []byte("twin")
			if k%4 == 3 {
				src = []byte("file.txt")
			}
			res = append(res, call(mobius.HandleMakeAlias, hotline.TranMakeFileAlias, hotline.NewField(hotline.FieldFileName, src),
				hotline.NewField(hotline.FieldFileNewPath, encodePath([][]byte{[]byte("sub"), []byte("deeper")})))...)
			// move the alias up one or two levels, or sideways
			dsts := [][][]byte{{[]byte("sub")}, {}, {[]byte("uploads here")}}
			dst := dsts[k%len(dsts)]
			res = append(res, call(mobius.HandleMoveFile, hotline.TranMoveFile, hotline.NewField(hotline.FieldFileName, src),
				hotline.NewField(hotline.FieldFilePath, encodePath([][]byte{[]byte("sub"), []byte("deeper")})),
				hotline.NewField(hotline.FieldFileNewPath, encodePath(dst)))...)
			// use it: list through it, create a folder through it
			through := append(append([][]byte{}, dst...), src)
			res = append(res, call(mobius.HandleGetFileNameList, hotline.TranGetFileNameList, hotline.NewField(hotline.FieldFilePath, encodePath(through)))...)
			res = append(res, call(mobius.HandleNewFolder, hotline.TranNewFolder, hotline.NewField(hotline.FieldFilePath, encodePath(through)),
				hotline.NewField(hotline.FieldFileName, []byte(fmt.Sprintf("made-through-alias-%d", k))))...)
			return res, nil
		})
		// accounts: hostile logins in create / rename / delete
		users := filepath.Join(env.Cfg, "Users")
		login := hostileName(rng)
		effect("account-create", users, [][]byte{login}, func() ([]hotline.Transaction, [][]byte) {
			return call(mobius.HandleNewUser, hotline.TranNewUser, hotline.NewField(hotline.FieldUserLogin, obfuscate(login)),
				hotline.NewField(hotline.FieldUserName, []byte("n")), hotline.NewField(hotline.FieldUserPassword, []byte("p")), hotline.NewField(hotline.FieldUserAccess, make([]byte, 8))), nil
		})
		effect("account-rename", users, [][]byte{login}, func() ([]hotline.Transaction, [][]byte) {
			call(mobius.HandleNewUser, hotline.TranNewUser, hotline.NewField(hotline.FieldUserLogin, obfuscate([]byte("victim"))),
				hotline.NewField(hotline.FieldUserName, []byte("n")), hotline.NewField(hotline.FieldUserPassword, []byte("p")), hotline.NewField(hotline.FieldUserAccess, make([]byte, 8)))
			sub := encField(hotline.FieldData, obfuscate([]byte("victim")))
			sub = append(sub, encField(hotline.FieldUserLogin, obfuscate(login))...)
			sub = append(sub, encField(hotline.FieldUserName, []byte("n"))...)
			sub = append(sub, encField(hotline.FieldUserPassword, []byte{0})...)
			sub = append(sub, encField(hotline.FieldUserAccess, make([]byte, 8))...)
			return call(mobius.HandleUpdateUser, hotline.TranUpdateUser, hotline.NewField(hotline.FieldData, append(be16(5), sub...))), nil
		})
		// ... and a restart afterwards: the loader reads every account file back (and may move files around to
		// finish an interrupted rename) - whatever login a record carries, nothing may land outside the directory
		rdir := filepath.Join(env.Cfg, fmt.Sprintf("Users-restart-%d", k))
		// the traversal ends in a name that exists nowhere yet (the planted victims would only stand in the way of a
		// file that is being MOVED out)
		freshLogin := bytes.ReplaceAll(login, []byte(victimName), []byte(fmt.Sprintf("zz_new_%d", k)))
		effect("account-create-then-restart", rdir, [][]byte{freshLogin}, func() ([]hotline.Transaction, [][]byte) {
			login := freshLogin
			// a directory of its own (a guest account and the hostile one), so that the restart does not depend on
			// what the other hostile logins left in the shared directory
			os.MkdirAll(rdir, 0755)
			writeAccountFile(rdir, *hotline.NewAccount("guest", "Guest User", "", hotline.AccessBitmap{}))
			am, err := mobius.NewYAMLAccountManager(rdir + "/")
			if err != nil {
				return nil, nil
			}
			saved := env.Srv.AccountManager
			env.Srv.AccountManager = am
			defer func() { env.Srv.AccountManager = saved }()
			res := call(mobius.HandleNewUser, hotline.TranNewUser, hotline.NewField(hotline.FieldUserLogin, obfuscate(login)),
				hotline.NewField(hotline.FieldUserName, []byte("n")), hotline.NewField(hotline.FieldUserPassword, []byte("p")), hotline.NewField(hotline.FieldUserAccess, make([]byte, 8)))
			mobius.NewYAMLAccountManager(rdir + "/")
			return res, nil
		})
		effect("account-delete", users, [][]byte{login}, func() ([]hotline.Transaction, [][]byte) {
			return call(mobius.HandleDeleteUser, hotline.TranDeleteUser, hotline.NewField(hotline.FieldUserLogin, obfuscate(login))), nil
		})
	}
	_ = fmt.Sprint
}

// rwBuf: a transfer connection whose input is scripted and whose output is discarded
type rwBuf struct{ r *bytes.Reader }

func (b *rwBuf) Read(p []byte) (int, error)  { return b.r.Read(p) }
func (b *rwBuf) Write(p []byte) (int, error) { return len(p), nil }

// uploadStream: HTXF preamble (zero reference) + flattened file object (2 forks) + data
func uploadStream(name string, data []byte) []byte {
	ffo := []byte("FILP")
	ffo = append(ffo, 0, 1)
	ffo = append(ffo, make([]byte, 16)...)
	ffo = append(ffo, 0, 2)
	info := append([]byte("AMAC"), []byte("TEXTttxt")...)
	info = append(info, make([]byte, 4+4+32+8+8+2)...)
	info = append(info, be16(len(name))...)
	info = append(info, name...)
	info = append(info, 0, 0)
	ffo = append(ffo, []byte("INFO")...)
	ffo = append(ffo, make([]byte, 8)...)
	ffo = append(ffo, be32(len(info))...)
	ffo = append(ffo, info...)
	ffo = append(ffo, []byte("DATA")...)
	ffo = append(ffo, make([]byte, 8)...)
	ffo = append(ffo, be32(len(data))...)
	stream := append([]byte("HTXF"), 0, 0, 0, 0)
	stream = append(stream, be32(len(ffo)+len(data))...)
	stream = append(stream, 0, 0, 0, 0)
	stream = append(stream, ffo...)
	return append(stream, data...)
}
