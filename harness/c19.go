package main

import (
	"bytes"
	"fmt"
	"os"
	"path/filepath"
	"sort"
	"sync"
	"time"

	"github.com/jhalter/mobius/hotline"
	"github.com/jhalter/mobius/internal/mobius"
)

func init() { register("C19", "Corr.Run_C19", genC19) }

func genC19(cs *CaseSet, rng *Rng, tier string, dir string) {
	cs.Rule = "history with >= 2 posts, a read after a post, a restart, and a concurrent batch with >= 4 readers and >= 2 posters on a board of >= 600 bytes; or >= 8 concurrent logins shown an agreement of >= 600 bytes; distinct by op sequence"
	nHist, nAgr := 14, 10
	if tier == "thorough" {
		nHist, nAgr = 120, 60
	}
	var all hotline.AccessBitmap
	for i := range all {
		all[i] = 255
	}
	// ---- message board histories (direct handler calls on the real store) ----
	for h := 0; h < nHist; h++ {
		initLen := rng.Pick(0, 1, 40, 700, 9000)
		// boards near the 64 KiB field limit (beyond the 32 KiB copy buffers): one history in the quick tier, one in
		// ten in the thorough tier (the model folds the whole text at every step, which dominates the run time)
		if h == 1 || (tier == "thorough" && h%10 == 3) {
			initLen = rng.Pick(33000, 58000)
		}
		// a board that fills the 64 KiB field to the last byte (it cannot take another post: reads and restarts only)
		full := h == 2 || (tier == "thorough" && h%10 == 4)
		if full {
			initLen = rng.Pick(65535, 65534, 65533, 65532)
		}
		init := dataBytesNoLF(rng, initLen)
		env := NewEnv(fmt.Sprintf("%s-%d", dir, h), EnvOpts{Board: string(init)})
		env.StartDrain()
		nUsers := 2 + rng.Intn(4)
		var users []*hotline.ClientConn
		var toks []byte
		for i := 0; i < nUsers; i++ {
			cc, _ := env.NewClient("~u~", all, fmt.Sprintf("10.19.0.%d:1", i+1))
			cc.UserName = noLeadingLF(rng.Bytes(1 + rng.Intn(12)))
			if rng.Intn(4) == 0 {
				cc.UserName = append(cc.UserName, '\n', 'x') // a line feed in the name is turned into a return as well
			}
			users = append(users, cc)
		}
		// SendAll addresses the clients in the client manager's order (sorted by ID): the tokens are the IDs
		ids := map[*hotline.ClientConn]int{}
		for _, cc := range users {
			ids[cc] = int(cc.ID[0])<<8 | int(cc.ID[1])
		}
		var sortedIDs []int
		for _, v := range ids {
			sortedIDs = append(sortedIDs, v)
		}
		sort.Ints(sortedIDs)
		for _, v := range sortedIDs {
			toks = append(toks, be16(v)...)
		}
		ops := []Op{mkOp(9, "init", init, toks)}
		obs := [][][]byte{{}}
		boardPath := filepath.Join(env.Cfg, "MessageBoard.txt")
		nPosts, readAfterPost, restarted, bigBatch := 0, false, false, false
		lastWasPost := false
		post := func(cc *hotline.ClientConn, body []byte) (status byte, announced []byte, rcpt []byte, date []byte) {
			d0 := time.Now().Format(hotline.NewsDateFormat)
			t := hotline.NewTransaction(hotline.TranOldPostNews, cc.ID, hotline.NewField(hotline.FieldData, body))
			env.TakeSent()
			res, panicked := callHandler(mobius.HandleTranOldPostNews, cc, &t)
			sent := env.TakeSent()
			switch {
			case panicked:
				status = 3
			case len(res) == 1 && res[0].IsReply == 1 && res[0].ErrorCode == [4]byte{}:
				status = 0
			default:
				status = 1
			}
			var who []int
			for _, s := range sent {
				if s.Type == hotline.TranNewMsg {
					announced = s.GetField(hotline.FieldData).Data
					who = append(who, int(s.ClientID[0])<<8|int(s.ClientID[1]))
				}
			}
			sort.Ints(who)
			for _, w := range who {
				rcpt = append(rcpt, be16(w)...)
			}
			return status, announced, rcpt, []byte(d0)
		}
		read := func(cc *hotline.ClientConn) (byte, []byte) {
			t := hotline.NewTransaction(hotline.TranGetMsgs, cc.ID)
			res, panicked := callHandler(mobius.HandleGetMsgs, cc, &t)
			if panicked || len(res) != 1 {
				return 3, nil
			}
			return 0, res[0].GetField(hotline.FieldData).Data
		}
		nOps := 8 + rng.Intn(8)
		for k := 0; k < nOps; k++ {
			cc := users[rng.Intn(len(users))]
			r := rng.Intn(10)
			if full && (r < 4 || r >= 8) {
				r = 4 + rng.Intn(4)
			}
			switch {
			case r < 4:
				body := dataBytes(rng, rng.Pick(0, 1, 30, 200, 1500))
				st, ann, rcpt, date := post(cc, body)
				if d1 := time.Now().Format(hotline.NewsDateFormat); d1 != string(date) {
					date = []byte(d1) // the minute turned over while posting: the later reading is the one used if it matches
					if !bytes.Contains(ann, date) {
						date = []byte(time.Now().Add(-time.Minute).Format(hotline.NewsDateFormat))
					}
				}
				disk, _ := os.ReadFile(boardPath)
				ops = append(ops, mkOp(1, "post", cc.UserName, date, body))
				obs = append(obs, [][]byte{{st}, ann, rcpt, disk})
				nPosts++
				lastWasPost = true
			case r < 7:
				st, text := read(cc)
				ops = append(ops, mkOp(2, "read"))
				obs = append(obs, [][]byte{{st}, text})
				if lastWasPost {
					readAfterPost = true
				}
				lastWasPost = false
			case r < 8: // restart (every other one after a crash inside a save: its truncated temporary file is still there)
				if rng.Bool() {
					must(os.WriteFile(boardPath+".tmp", []byte("half a bo"), 0644))
				}
				fresh, err := mobius.NewFlatNews(boardPath)
				must(err)
				env.Srv.MessageBoard = fresh
				ops = append(ops, mkOp(3, "restart"))
				obs = append(obs, [][]byte{})
				restarted = true
			default:
				// ---- concurrent batch: readers and posters at the same moment ----
				nR, nP, perR := 2+rng.Intn(7), 1+rng.Intn(4), 3+rng.Intn(6)
				var mu sync.Mutex
				var reads [][]byte
				var posted [][]byte
				var wg sync.WaitGroup
				start := make(chan struct{})
				for i := 0; i < nR; i++ {
					wg.Add(1)
					go func(cc *hotline.ClientConn) {
						defer wg.Done()
						<-start
						for j := 0; j < perR; j++ {
							t := hotline.NewTransaction(hotline.TranGetMsgs, cc.ID)
							res, _ := callHandler(mobius.HandleGetMsgs, cc, &t)
							var text []byte
							if len(res) == 1 {
								text = res[0].GetField(hotline.FieldData).Data
							}
							mu.Lock()
							reads = append(reads, text)
							mu.Unlock()
						}
					}(users[i%len(users)])
				}
				for i := 0; i < nP; i++ {
					wg.Add(1)
					body := []byte(fmt.Sprintf("concurrent post %d/%d/%d %s", h, k, i, string(dataBytes(rng, rng.Pick(5, 80, 700)))))
					go func(cc *hotline.ClientConn, body []byte) {
						defer wg.Done()
						<-start
						t := hotline.NewTransaction(hotline.TranOldPostNews, cc.ID, hotline.NewField(hotline.FieldData, body))
						callHandler(mobius.HandleTranOldPostNews, cc, &t)
					}(users[i%len(users)], body)
				}
				_, before := read(cc)
				env.TakeSent()
				// in every other batch the store is told to reload its file (SIGHUP / the API's reload) over and over while
				// the posts arrive: the file holds what the store holds, so a reload changes nothing - and must not bring
				// back a text from before a post that has been acknowledged meanwhile
				stopReload := make(chan struct{})
				reloadDone := make(chan struct{})
				if fn, ok := env.Srv.MessageBoard.(*mobius.FlatNews); ok && k%2 == 0 {
					go func() {
						defer close(reloadDone)
						<-start
						for {
							select {
							case <-stopReload:
								return
							default:
								fn.Reload()
							}
						}
					}()
				} else {
					close(reloadDone)
				}
				close(start)
				wg.Wait()
				close(stopReload)
				<-reloadDone
				// the posts as they were announced (that is what was prepended)
				seen := map[string]bool{}
				for _, s := range env.TakeSent() {
					if s.Type == hotline.TranNewMsg {
						p := s.GetField(hotline.FieldData).Data
						if !seen[string(p)] {
							seen[string(p)] = true
							posted = append(posted, p)
						}
					}
				}
				_, final := read(cc)
				disk, _ := os.ReadFile(boardPath)
				// the order the lock admitted the posters in, read off the final board
				var order [][]byte
				rest := final
				for len(order) < len(posted) {
					found := false
					for _, p := range posted {
						if bytes.HasPrefix(rest, p) && len(p) > 0 {
							order = append([][]byte{p}, order...)
							rest = rest[len(p):]
							found = true
							break
						}
					}
					if !found {
						break
					}
				}
				if len(order) != len(posted) {
					order = posted // a post is missing or mangled: the model's final board will differ
				}
				versions := [][]byte{before}
				cur := before
				for _, p := range order {
					cur = append(append([]byte{}, p...), cur...)
					versions = append(versions, cur)
				}
				args := [][]byte{be16(len(order))}
				args = append(args, order...)
				o := [][]byte{final, disk}
				for _, r := range reads {
					idx := 0xffff
					for j, v := range versions {
						if bytes.Equal(v, r) {
							idx = j
						}
					}
					args = append(args, be16(idx))
					o = append(o, r)
				}
				ops = append(ops, mkOp(4, "concurrent", args...))
				obs = append(obs, o)
				nPosts += nP
				if nR >= 4 && nP >= 2 && len(final) >= 600 {
					bigBatch = true
				}
				lastWasPost = false
			}
		}
		env.StopDrain()
		cs.Add(Case{Kind: "board-history", Ops: ops, Obs: obs, NonTrivial: nPosts >= 2 && readAfterPost && restarted && bigBatch})
	}
	// ---- the agreement shown at login, many logins at the same moment (wire mode) ----
	for h := 0; h < nAgr; h++ {
		text := dataBytes(rng, rng.Pick(0, 1, 600, 5000, 40000, 65535))
		env := NewEnv(fmt.Sprintf("%s-a%d", dir, h), EnvOpts{Agreement: string(text)})
		n := 2 + rng.Intn(14)
		shown := make([][]byte, n)
		var wg sync.WaitGroup
		start := make(chan struct{})
		for i := 0; i < n; i++ {
			wg.Add(1)
			go func(i int) {
				defer wg.Done()
				w := env.Connect(fmt.Sprintf("10.19.%d.%d:7", 1+h%200, i+1))
				<-start
				if !w.Login("guest", "") {
					shown[i] = []byte("<login failed>")
					return
				}
				dl := time.Now().Add(3 * time.Second)
				for time.Now().Before(dl) {
					fs, _ := w.Frames()
					for _, f := range fs {
						if f.Type == 109 {
							d, _ := f.Field(101)
							shown[i] = append([]byte{}, d...)
							w.Close()
							return
						}
					}
					time.Sleep(300 * time.Microsecond)
				}
				shown[i] = []byte("<no agreement>")
				w.Close()
			}(i)
		}
		// in every other history the agreement is reloaded from its file (SIGHUP / the API's reload) over and over while
		// the logins proceed: the file holds what the store holds, so everybody is still shown the complete text
		stopReload := make(chan struct{})
		reloadDone := make(chan struct{})
		if ag, ok := env.Srv.Agreement.(*mobius.Agreement); ok && h%2 == 1 {
			go func() {
				defer close(reloadDone)
				<-start
				for {
					select {
					case <-stopReload:
						return
					default:
						ag.Reload()
					}
				}
			}()
		} else {
			close(reloadDone)
		}
		close(start)
		wg.Wait()
		close(stopReload)
		<-reloadDone
		cs.Add(Case{Kind: "agreement-logins", Ops: []Op{mkOp(5, "concurrent-logins", text, be16(n))}, Obs: [][][]byte{shown}, NonTrivial: n >= 8 && len(text) >= 600})
	}
}

func dataBytesNoLF(rng *Rng, n int) []byte {
	b := dataBytes(rng, n)
	for i := range b {
		if b[i] == '\n' {
			b[i] = '\r'
		}
	}
	return b
}
