package main

import (
	"bytes"
	"encoding/binary"
	"fmt"
	"os"
	"path/filepath"
	"sort"
	"strings"

	"github.com/jhalter/mobius/hotline"
	"github.com/jhalter/mobius/internal/mobius"
	"golang.org/x/text/encoding/charmap"
)

func init() { register("C11", "Corr.Run_C11", genC11) }

func macDecode(wire []byte) string {
	s, err := charmap.Macintosh.NewDecoder().String(string(wire))
	must(err)
	return s
}
func macEncode(disk string) ([]byte, bool) {
	s, err := charmap.Macintosh.NewEncoder().String(disk)
	return []byte(s), err == nil
}

func c11InfoFork(ty, cr string, name, comment []byte) []byte {
	b := []byte("AMAC")
	b = append(b, []byte(ty)...)
	b = append(b, []byte(cr)...)
	b = append(b, 0, 0, 0, 0, 0, 0, 1, 0)
	b = append(b, make([]byte, 32)...)
	b = append(b, make([]byte, 16)...)
	b = append(b, 0, 0)
	b = append(b, be16(len(name))...)
	b = append(b, name...)
	b = append(b, be16(len(comment))...)
	b = append(b, comment...)
	return b
}

// (type, creator, comment) of a serialised info fork
func c11ParseInfo(b []byte) (ty, cr, comment []byte) {
	if len(b) < 72 {
		return []byte("????"), []byte("????"), nil
	}
	ty, cr = b[4:8], b[8:12]
	n := int(binary.BigEndian.Uint16(b[70:72]))
	if len(b) >= 72+n+2 {
		cl := int(binary.BigEndian.Uint16(b[72+n : 72+n+2]))
		if len(b) >= 72+n+2+cl {
			comment = b[72+n+2 : 72+n+2+cl]
		}
	}
	return
}

type c11Entry struct {
	path    [][]byte // wire names below the root
	kind    byte     // 1 file 2 info 3 dir 4 link
	payload []byte
}

func c11EncPath(p [][]byte) []byte { return npArg(p) }

func c11Snapshot(root string) []c11Entry {
	var out []c11Entry
	filepath.Walk(root, func(p string, info os.FileInfo, err error) error {
		if err != nil || p == root {
			return nil
		}
		rel, _ := filepath.Rel(root, p)
		var comps [][]byte
		for _, c := range strings.Split(rel, "/") {
			w, ok := macEncode(c)
			if !ok {
				w = []byte("<unrepresentable>")
			}
			comps = append(comps, w)
		}
		e := c11Entry{path: comps}
		switch {
		case info.Mode()&os.ModeSymlink != 0:
			e.kind = 4
			t, _ := os.Readlink(p)
			var tc [][]byte
			if r, err := filepath.Rel(root, t); err == nil && r != "." {
				for _, c := range strings.Split(r, "/") {
					w, _ := macEncode(c)
					tc = append(tc, w)
				}
			}
			e.payload = c11EncPath(tc)
		case info.IsDir():
			e.kind = 3
		case strings.HasPrefix(info.Name(), ".info_"):
			e.kind = 2
			b, _ := os.ReadFile(p)
			ty, cr, c := c11ParseInfo(b)
			e.payload = append(append(append([]byte{}, ty...), cr...), len16(c)...)
		default:
			e.kind = 1
			e.payload, _ = os.ReadFile(p)
		}
		out = append(out, e)
		return nil
	})
	key := func(e c11Entry) string {
		var b []byte
		for _, c := range e.path {
			b = append(append(b, '/'), c...)
		}
		return string(b)
	}
	sort.Slice(out, func(i, j int) bool { return key(out[i]) < key(out[j]) })
	return out
}

func c11EncSnapshot(es []c11Entry) []byte {
	var b []byte
	for _, e := range es {
		b = append(b, c11EncPath(e.path)...)
		b = append(b, e.kind)
		switch e.kind {
		case 1:
			b = append(b, be32(len(e.payload))...)
			b = append(b, e.payload...)
		case 2, 4:
			b = append(b, e.payload...)
		}
	}
	return b
}

func genC11(cs *CaseSet, rng *Rng, tier string, dir string) {
	cs.Rule = "history of >= 10 requests on a tree with a folder, a file with resource and info fork, a partial upload and a name containing '.incomplete' in the middle, including a list, a rename, a move and a delete of a file with side files; distinct by op sequence"
	nHist := 40
	if tier == "thorough" {
		nHist = 400
	}
	var all hotline.AccessBitmap
	for i := range all {
		all[i] = 255
	}
	namePool := [][]byte{[]byte("readme.txt"), []byte("photo.JPG"), []byte("archive.sit"), []byte("notes"), []byte("caf\x8e.txt"), []byte("a b c.pdf"),
		[]byte("movie.mov"), []byte("a.incomplete.txt"), []byte("x.incomplete.incomplete"), []byte("Folder One"), []byte("sub"), []byte("\xa5 bullet"), []byte("tool.sea"),
		[]byte("data.bin"), []byte("UPPER.TXT"), []byte("noext."), []byte("two.dots.gif")}
	for h := 0; h < nHist; h++ {
		env := NewEnv(fmt.Sprintf("%s-%d", dir, h), EnvOpts{})
		env.Srv.Config.IgnoreFiles = []string{`^\.`, `^@`}
		env.StartDrain()
		root := env.FileRoot
		cc, _ := env.NewClient("~admin~", all, "10.11.0.1:1")
		disk := func(comps [][]byte) string {
			p := root
			for _, c := range comps {
				p = filepath.Join(p, macDecode(c))
			}
			return p
		}
		// ---- initial tree ----
		var dirs [][][]byte
		dirs = append(dirs, nil)
		nDirs := 1 + rng.Intn(3)
		for i := 0; i < nDirs; i++ {
			parent := dirs[rng.Intn(len(dirs))]
			n := namePool[rng.Intn(len(namePool))]
			p := append(append([][]byte{}, parent...), n)
			if os.Mkdir(disk(p), 0755) == nil {
				dirs = append(dirs, p)
			}
		}
		nFiles := 3 + rng.Intn(6)
		hasForks, hasPartial, hasMiddle := false, false, false
		for i := 0; i < nFiles; i++ {
			d := dirs[rng.Intn(len(dirs))]
			n := namePool[rng.Intn(len(namePool))]
			p := append(append([][]byte{}, d...), n)
			if _, err := os.Lstat(disk(p)); err == nil {
				continue
			}
			data := rng.Bytes(rng.Pick(0, 1, 7, 30, 200))
			switch rng.Intn(6) {
			case 0: // a partial upload: only name.incomplete exists (plus perhaps its info fork)
				must(os.WriteFile(disk(p)+".incomplete", data, 0644))
				hasPartial = true
			default:
				must(os.WriteFile(disk(p), data, 0644))
			}
			if bytes.Contains(n, []byte(".incomplete.")) {
				hasMiddle = true
			}
			if rng.Intn(3) == 0 {
				must(os.WriteFile(filepath.Join(filepath.Dir(disk(p)), ".rsrc_"+macDecode(n)), rng.Bytes(rng.Pick(1, 9, 50)), 0644))
				must(os.WriteFile(filepath.Join(filepath.Dir(disk(p)), ".info_"+macDecode(n)), c11InfoFork("TEXT", "R*ch", n, rng.Bytes(rng.Intn(12))), 0644))
				hasForks = true
			} else if rng.Intn(4) == 0 {
				must(os.WriteFile(filepath.Join(filepath.Dir(disk(p)), ".info_"+macDecode(n)), c11InfoFork("PICT", "ogle", n, []byte("a comment")), 0644))
			}
		}
		if rng.Intn(3) == 0 {
			must(os.WriteFile(filepath.Join(root, "@hidden"), []byte("h"), 0644))
		}
		if h%4 != 0 { // the shapes the property speaks about, present for sure
			mk := func(rel string, data []byte) {
				p := filepath.Join(root, rel)
				if _, err := os.Lstat(p); err != nil {
					must(os.WriteFile(p, data, 0644))
				}
			}
			os.Mkdir(filepath.Join(root, "Folder One"), 0755)
			dirs = append(dirs, [][]byte{[]byte("Folder One")})
			mk("a.incomplete.txt", []byte("middle"))
			mk("forked.sit", []byte("data fork"))
			mk(".rsrc_forked.sit", []byte("resource fork"))
			mk(".info_forked.sit", c11InfoFork("SIT!", "SIT!", []byte("forked.sit"), []byte("has forks")))
			mk("partial.mov.incomplete", []byte("half"))
			hasForks, hasPartial, hasMiddle = true, true, true
		}
		snap := c11Snapshot(root)
		var initArgs [][]byte
		for _, e := range snap {
			initArgs = append(initArgs, c11EncPath(e.path), []byte{e.kind}, e.payload)
		}
		ops := []Op{mkOp(9, "init", initArgs...)}
		obs := [][][]byte{{}}
		// ---- requests ----
		status := func(res []hotline.Transaction, panicked bool) byte {
			switch {
			case panicked:
				return 3
			case len(res) == 0:
				return 2
			case res[len(res)-1].ErrorCode != [4]byte{}:
				return 1
			default:
				return 0
			}
		}
		pickEntry := func() ([][]byte, []byte) { // (items of the folder, name): mostly something that exists
			var s []c11Entry
			for _, e := range c11Snapshot(root) { // side files are not listed: a client addresses what it is shown
				if n := e.path[len(e.path)-1]; len(n) > 0 && n[0] != '.' && n[0] != '@' {
					s = append(s, e)
				}
			}
			if len(s) == 0 || rng.Intn(8) == 0 {
				return dirs[rng.Intn(len(dirs))], namePool[rng.Intn(len(namePool))]
			}
			e := s[rng.Intn(len(s))]
			n := e.path[len(e.path)-1]
			if rng.Intn(3) == 0 { // address a partial upload by its final name
				n = bytes.TrimSuffix(n, []byte(".incomplete"))
			}
			return e.path[:len(e.path)-1], n
		}
		pickDir := func() [][]byte {
			var ds [][][]byte
			ds = append(ds, nil)
			for _, e := range c11Snapshot(root) {
				if e.kind == 3 {
					ds = append(ds, e.path)
				}
			}
			if rng.Intn(10) == 0 {
				return [][]byte{[]byte("missing")}
			}
			return ds[rng.Intn(len(ds))]
		}
		pathField := func(items [][]byte) []hotline.Field {
			if len(items) == 0 && rng.Bool() {
				return nil
			}
			return []hotline.Field{hotline.NewField(hotline.FieldFilePath, encodePath(items))}
		}
		sawList, sawRename, sawMove, sawDelete := false, false, false, false
		nOps := 10 + rng.Intn(12)
		forced := []int{}
		if h%4 != 0 {
			forced = []int{0, 13, 10, 7} // list, rename, move, delete - aimed at the file with forks while it exists
		}
		if h%4 == 1 {
			forced = append(forced, 18, 0) // an alias of a name that does not exist, made in its own folder, then the list
		}
		for k := 0; k < nOps; k++ {
			items, name := pickEntry()
			forcedR := -1
			if k < len(forced) {
				forcedR = forced[k]
				if forcedR == 18 {
					items, name = nil, []byte("ghost")
				}
				for _, e := range c11Snapshot(root) {
					if n := e.path[len(e.path)-1]; e.kind == 1 && bytes.HasPrefix(n, []byte("forked")) {
						items, name = e.path[:len(e.path)-1], n
					}
				}
			}
			call := func(hd func(*hotline.ClientConn, *hotline.Transaction) []hotline.Transaction, typ hotline.TranType, fields ...hotline.Field) ([]hotline.Transaction, byte) {
				t := hotline.NewTransaction(typ, cc.ID, fields...)
				res, p := callHandler(hd, cc, &t)
				env.TakeSent()
				return res, status(res, p)
			}
			nameF := hotline.NewField(hotline.FieldFileName, name)
			withTree := func(st byte) [][]byte { return [][]byte{{st}, c11EncSnapshot(c11Snapshot(root))} }
			r := rng.Intn(20)
			if forcedR >= 0 {
				r = forcedR
			}
			switch {
			case r < 4: // list
				d := pickDir()
				if forcedR == 0 {
					d = nil
				}
				res, st := call(mobius.HandleGetFileNameList, hotline.TranGetFileNameList, pathField(d)...)
				var rows []byte
				if st == 0 {
					for _, f := range res[0].Fields {
						if f.Type == hotline.FieldFileNameWithInfo && len(f.Data) >= 20 {
							b := f.Data
							nm := b[20:]
							rows = append(rows, len16(nm)...)
							rows = append(rows, b[0:4]...)
							rows = append(rows, b[4:8]...)
							rows = append(rows, b[8:12]...)
						}
					}
				}
				ops = append(ops, mkOp(1, "list", c11EncPath(d)))
				obs = append(obs, [][]byte{{st}, rows})
				sawList = true
			case r < 7: // get info
				res, st := call(mobius.HandleGetFileInfo, hotline.TranGetFileInfo, append([]hotline.Field{nameF}, pathField(items)...)...)
				var o []byte
				if st == 0 {
					rp := res[0]
					o = append(o, len16(rp.GetField(hotline.FieldFileName).Data)...)
					o = append(o, rp.GetField(hotline.FieldFileType).Data...)
					o = append(o, len16(rp.GetField(hotline.FieldFileComment).Data)...)
					if sz := rp.GetField(hotline.FieldFileSize).Data; sz != nil {
						if fi, err := os.Stat(filepath.Join(disk(items), macDecode(name))); err == nil && fi.IsDir() {
							sz = []byte{0, 0, 0, 0} // a folder carrying a file's info fork: the inode size is not modelled
						}
						o = append(append(o, 1), sz...)
					} else {
						o = append(o, 0)
					}
				}
				ops = append(ops, mkOp(2, "get-info", c11EncPath(items), name))
				obs = append(obs, [][]byte{{st}, o})
			case r < 9: // delete
				_, st := call(mobius.HandleDeleteFile, hotline.TranDeleteFile, append([]hotline.Field{nameF}, pathField(items)...)...)
				ops = append(ops, mkOp(3, "delete", c11EncPath(items), name))
				obs = append(obs, withTree(st))
				sawDelete = true
			case r < 12: // move
				d := pickDir()
				_, st := call(mobius.HandleMoveFile, hotline.TranMoveFile, append([]hotline.Field{nameF, hotline.NewField(hotline.FieldFileNewPath, encodePath(d))}, pathField(items)...)...)
				ops = append(ops, mkOp(4, "move", c11EncPath(items), name, c11EncPath(d)))
				obs = append(obs, withTree(st))
				sawMove = true
			case r < 15: // rename
				nn := namePool[rng.Intn(len(namePool))]
				if rng.Intn(3) == 0 {
					nn = append(append([]byte{}, nn...), byte('0'+rng.Intn(10)))
				}
				if forcedR >= 0 {
					nn = []byte("forked-renamed.sit")
				}
				_, st := call(mobius.HandleSetFileInfo, hotline.TranSetFileInfo, append([]hotline.Field{nameF, hotline.NewField(hotline.FieldFileNewName, nn)}, pathField(items)...)...)
				ops = append(ops, mkOp(5, "rename", c11EncPath(items), name, nn))
				obs = append(obs, withTree(st))
				sawRename = true
			case r == 15 && rng.Bool(): // comment and new name in ONE request
				c := rng.Bytes(1 + rng.Intn(20))
				nn := append(append([]byte{}, namePool[rng.Intn(len(namePool))]...), byte('a'+rng.Intn(26)))
				_, st := call(mobius.HandleSetFileInfo, hotline.TranSetFileInfo, append([]hotline.Field{nameF, hotline.NewField(hotline.FieldFileComment, c), hotline.NewField(hotline.FieldFileNewName, nn)}, pathField(items)...)...)
				ops = append(ops, mkOp(11, "comment-and-rename", c11EncPath(items), name, c, nn))
				obs = append(obs, withTree(st))
			case r < 16: // comment
				c := rng.Bytes(1 + rng.Intn(20))
				_, st := call(mobius.HandleSetFileInfo, hotline.TranSetFileInfo, append([]hotline.Field{nameF, hotline.NewField(hotline.FieldFileComment, c)}, pathField(items)...)...)
				ops = append(ops, mkOp(6, "set-comment", c11EncPath(items), name, c))
				obs = append(obs, withTree(st))
			case r < 18: // new folder
				d := pickDir()
				nn := namePool[rng.Intn(len(namePool))]
				_, st := call(mobius.HandleNewFolder, hotline.TranNewFolder, append([]hotline.Field{hotline.NewField(hotline.FieldFileName, nn)}, pathField(d)...)...)
				ops = append(ops, mkOp(7, "new-folder", c11EncPath(d), nn))
				obs = append(obs, withTree(st))
			case r < 19: // alias
				d := pickDir()
				if forcedR == 18 {
					d = nil
				}
				_, st := call(mobius.HandleMakeAlias, hotline.TranMakeFileAlias, append([]hotline.Field{nameF, hotline.NewField(hotline.FieldFileNewPath, encodePath(d))}, pathField(items)...)...)
				ops = append(ops, mkOp(8, "alias", c11EncPath(items), name, c11EncPath(d)))
				obs = append(obs, withTree(st))
			default: // download request (of something that is not a folder)
				if fi, err := os.Stat(filepath.Join(disk(items), macDecode(name))); err == nil && fi.IsDir() {
					continue
				}
				if fi, err := os.Stat(filepath.Join(disk(items), macDecode(name)+".incomplete")); err == nil && fi.IsDir() {
					continue
				}
				res, st := call(mobius.HandleDownloadFile, hotline.TranDownloadFile, append([]hotline.Field{nameF}, pathField(items)...)...)
				var o []byte
				if st == 0 {
					o = res[0].GetField(hotline.FieldFileSize).Data
				}
				ops = append(ops, mkOp(10, "download", c11EncPath(items), name))
				obs = append(obs, [][]byte{{st}, o})
			}
		}
		env.StopDrain()
		cs.Add(Case{Kind: "history", Ops: ops, Obs: obs, NonTrivial: len(dirs) > 1 && hasForks && hasPartial && hasMiddle && sawList && sawRename && sawMove && sawDelete})
	}
}
