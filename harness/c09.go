package main

import (
	"bytes"
	"context"
	"fmt"
	"io"
	"net"
	"os"
	"path/filepath"
	"sync"
	"time"

	"github.com/jhalter/mobius/hotline"
	"github.com/jhalter/mobius/internal/mobius"
)

func init() {
	register("C09", "Corr.Run_C09", genC09)
	register("C08", "Corr.Run_C09", genC08)
}

func optObs(b []byte, ok bool) [][]byte {
	if ok {
		return [][]byte{{1}, b}
	}
	return [][]byte{{0}, nil}
}

func readOpt(p string) ([]byte, bool) {
	b, err := os.ReadFile(p)
	return b, err == nil
}

// cutReader delivers the first k bytes, then EOF (the connection died)
// cutConn delivers a stream that ends at the cut; like a TCP connection it may hand over less than a Read asks for:
// at most max bytes per call when max > 0 (segment boundaries fall anywhere, also inside a header)
type cutConn struct {
	r   *bytes.Reader
	max int
}

func (c *cutConn) Read(p []byte) (int, error) {
	if c.max > 0 && len(p) > c.max {
		p = p[:c.max]
	}
	return c.r.Read(p)
}
func (c *cutConn) Write(p []byte) (int, error) { return len(p), nil }

// failWriter accepts a few bytes and then fails, like a connection the peer has closed
type failWriter struct{ left int }

func (w *failWriter) Write(p []byte) (int, error) {
	if len(p) <= w.left {
		w.left -= len(p)
		return len(p), nil
	}
	n := w.left
	w.left = 0
	return n, io.ErrClosedPipe
}

func genC09(cs *CaseSet, rng *Rng, tier string, dir string) {
	cs.Rule = "at least one cut falls strictly inside the stream (preamble, flattened-file header or data) before completion; distinct by (data, name, cut sequence)"
	nHist := 40
	if tier == "thorough" {
		nHist = 400
	}
	env := NewEnv(dir, EnvOpts{})
	env.StartDrain()
	var all hotline.AccessBitmap
	for i := range all {
		all[i] = 255
	}
	admin, _ := env.NewClient("~admin~", all, "10.9.0.1:1")
	type wireJob struct {
		name string
		d    []byte
		cuts []int
	}
	var wireJobs []wireJob
	for h := 0; h < nHist; h++ {
		name := fmt.Sprintf("up-%d %s.bin", h, string(nameBytes(rng, rng.Intn(6))))
		name = string(bytes.ReplaceAll(bytes.ReplaceAll([]byte(name), []byte{0}, []byte{'_'}), []byte{'/'}, []byte{'_'}))
		for i := 0; i < len(name); i++ {
			if name[i] >= 0x80 { // keep the request name ASCII: the decoder is C07/C11's subject
				name = name[:i] + "x" + name[i+1:]
			}
		}
		d := dataBytes(rng, rng.Pick(0, 1, 2, 100, 511, 512, 513, 4000, 32768, 70000))
		final := filepath.Join(env.FileRoot, name)
		var ops []Op
		var obs [][][]byte
		ops = append(ops, mkOp(0, "data", d))
		obs = append(obs, [][]byte{})
		placed := h%9 == 8
		if placed { // an existing complete file: must never be replaced
			e := dataBytes(rng, 1+rng.Intn(300))
			must(os.WriteFile(final, e, 0644))
			ops = append(ops, mkOp(3, "existing-file", e))
			obs = append(obs, [][]byte{})
		}
		request := func(resume bool) (kind int, off int, ref []byte) {
			fields := []hotline.Field{hotline.NewField(hotline.FieldFileName, []byte(name))}
			if resume {
				fields = append(fields, hotline.NewField(hotline.FieldFileTransferOptions, []byte{0, 2}))
			}
			t := hotline.NewTransaction(hotline.TranUploadFile, admin.ID, fields...)
			res, p := callHandler(mobius.HandleUploadFile, admin, &t)
			switch {
			case p:
				kind = 9
			case isErrReply(res):
				kind = 0
			case len(res) == 0:
				kind = 3
			default:
				ref = res[0].GetField(hotline.FieldRefNum).Data
				kind = 1
				if rd := res[0].GetField(hotline.FieldFileResumeData).Data; rd != nil {
					kind = 2
					off = int(rd[46])<<24 | int(rd[47])<<16 | int(rd[48])<<8 | int(rd[49])
				}
			}
			var offb []byte
			if kind == 2 {
				offb = be32(off)
			}
			ops = append(ops, mkOp(1, "upload-request", b1(resume)))
			obs = append(obs, [][]byte{{byte(kind)}, offb})
			return
		}
		transfer := func(ref []byte, off int, k int) {
			stream := uploadStream(name, d[off:])
			copy(stream[4:8], ref)
			head := stream[:len(stream)-len(d[off:])]
			if k > len(stream) {
				k = len(stream)
			}
			if k >= 16 {
				var rr [4]byte
				copy(rr[:], ref)
				if ft := env.Srv.FileTransferMgr.Get(rr); ft != nil {
					full, _ := hotline.ReadPath(ft.FileRoot, ft.FilePath, ft.FileName)
					func() {
						defer func() { recover() }()
						// every other transfer arrives in small segments (1 .. 90 bytes per read)
						seg := 0
						if rng.Bool() {
							seg = rng.Pick(1, 5, 17, 90)
						}
						hotline.UploadHandler(&cutConn{r: bytes.NewReader(stream[16:k]), max: seg}, full, ft, env.Srv.FS, discardLogger, false)
					}()
					env.Srv.FileTransferMgr.Delete(rr)
				}
			}
			fb, fok := readOpt(final)
			pb, pok := readOpt(final + ".incomplete")
			ops = append(ops, mkOp(2, "transfer-cut", head, d[off:], be32(k)))
			obs = append(obs, append(optObs(fb, fok), optObs(pb, pok)...))
		}
		nCuts := rng.Intn(6)
		strict := false
		havePartial := false
		var cutList []int
		for a := 0; a <= nCuts+1; a++ {
			kind, off, ref := request(havePartial)
			if kind == 3 { // resume asked but nothing to resume: ask afresh
				kind, off, ref = request(false)
			}
			if kind == 0 || kind == 9 || ref == nil {
				// refused (existing file): the transfer would be refused as well - try it anyway
				transfer([]byte{0, 0, 0, 0}, 0, 1<<30)
				break
			}
			total := len(uploadStream(name, d[off:]))
			hl := total - len(d[off:])
			k := total
			if a <= nCuts {
				switch rng.Intn(7) {
				case 6: // exactly at a boundary of the stream's structure: after the preamble, the flattened-file header,
					// the information fork header, the information fork (= before the DATA fork header), the DATA fork header
					k = rng.Pick(16, 40, 56, hl-16, hl)
				case 0:
					k = rng.Intn(16)
				case 1:
					k = 16 + rng.Intn(hl-16)
				case 2:
					k = hl
				case 3:
					k = hl + rng.Intn(len(d[off:])+1)
				case 4:
					if len(d[off:]) > 32768 {
						k = hl + 32768 + rng.Intn(3) - 1
					} else {
						k = total - 1
					}
				case 5:
					k = hl + len(d[off:])/2
				}
				if k < total {
					strict = true
				}
			}
			cutList = append(cutList, k)
			transfer(ref, off, k)
			if k >= 16 {
				havePartial = true
			}
			if _, err := os.Stat(final); err == nil {
				havePartial = false
				// completed: another upload must be refused and leave the file alone
				if kind2, _, _ := request(false); kind2 == 0 {
					transfer([]byte{0, 0, 0, 0}, 0, 1<<30)
				}
				break
			}
		}
		kindName := "cuts-then-complete"
		if placed {
			kindName = "existing-file"
		}
		cs.Add(Case{Kind: kindName, Ops: ops, Obs: obs, NonTrivial: strict || placed})
		if h%10 == 3 && len(d) > 0 {
			wireJobs = append(wireJobs, wireJob{fmt.Sprintf("wire-%d.bin", h), d, cutList})
		}
	}
	env.StopDrain()

	// the same through the real transfer connection loop (handleFileTransfer): cuts of the live connection
	env.StartDrain()
	var wg sync.WaitGroup
	var mu sync.Mutex
	for _, j := range wireJobs {
		wg.Add(1)
		go func(j wireJob) {
			defer wg.Done()
			final := filepath.Join(env.FileRoot, j.name)
			var ops []Op
			var obs [][][]byte
			ops = append(ops, mkOp(0, "data", j.d))
			obs = append(obs, [][]byte{})
			havePartial := false
			cuts := append(append([]int{}, j.cuts...), 1<<30)
			if len(cuts) > 3 {
				cuts = append(cuts[:2], 1<<30)
			}
			for _, k := range cuts {
				fields := []hotline.Field{hotline.NewField(hotline.FieldFileName, []byte(j.name))}
				if havePartial {
					fields = append(fields, hotline.NewField(hotline.FieldFileTransferOptions, []byte{0, 2}))
				}
				mu.Lock()
				t := hotline.NewTransaction(hotline.TranUploadFile, admin.ID, fields...)
				res, _ := callHandler(mobius.HandleUploadFile, admin, &t)
				mu.Unlock()
				if len(res) == 0 || isErrReply(res) {
					break
				}
				ref := res[0].GetField(hotline.FieldRefNum).Data
				off, kind := 0, 1
				if rd := res[0].GetField(hotline.FieldFileResumeData).Data; rd != nil {
					kind = 2
					off = int(rd[46])<<24 | int(rd[47])<<16 | int(rd[48])<<8 | int(rd[49])
				}
				var offb []byte
				if kind == 2 {
					offb = be32(off)
				}
				ops = append(ops, mkOp(1, "upload-request", b1(havePartial)))
				obs = append(obs, [][]byte{{byte(kind)}, offb})
				stream := uploadStream(j.name, j.d[off:])
				copy(stream[4:8], ref)
				if k > len(stream) {
					k = len(stream)
				}
				cl, sv := net.Pipe()
				done := make(chan struct{})
				go func() {
					env.Srv.VerifHandleFileTransfer(context.Background(), sv, "10.9.0.2:9")
					sv.Close()
					close(done)
				}()
				go io.Copy(io.Discard, cl)
				cl.SetWriteDeadline(time.Now().Add(5 * time.Second))
				cl.Write(stream[:k])
				if k < len(stream) {
					cl.Close() // the connection dies here
				}
				// wait for the handler's effects (it sleeps 3 s before returning)
				for i := 0; i < 800; i++ {
					if _, err := os.Stat(final); err == nil {
						break
					}
					if k < len(stream) && i > 40 {
						break
					}
					time.Sleep(5 * time.Millisecond)
				}
				cl.Close()
				<-done
				fb, fok := readOpt(final)
				pb, pok := readOpt(final + ".incomplete")
				ops = append(ops, mkOp(2, "transfer-cut-wire", stream[:len(stream)-len(j.d[off:])], j.d[off:], be32(k)))
				obs = append(obs, append(optObs(fb, fok), optObs(pb, pok)...))
				if k >= 16 {
					havePartial = true
				}
				if fok {
					break
				}
			}
			cs.Add(Case{Kind: "wire-cuts-then-complete", Ops: ops, Obs: obs, NonTrivial: true})
		}(j)
	}
	wg.Wait()
	env.StopDrain()
}

// ------------------------------------------------------------------------------------------------ C08
func genC08(cs *CaseSet, rng *Rng, tier string, dir string) {
	cs.Rule = "size > 0 and at least one of: offset > 0, stored fork present, name longer than 1 byte, preview; distinct by (name, size, forks, offset, flags)"
	env := NewEnv(dir, EnvOpts{})
	env.StartDrain()
	defer env.StopDrain()
	var all hotline.AccessBitmap
	for i := range all {
		all[i] = 255
	}
	admin, _ := env.NewClient("~admin~", all, "10.8.0.1:1")
	sizes := []int{0, 1, 2, 511, 512, 513, 4095, 32767, 32768, 32769, 100000}
	if tier == "thorough" {
		sizes = append(sizes, 1<<20, 3<<20+17)
	}
	n := 0
	for _, size := range sizes {
		reps := 5
		if tier == "thorough" {
			reps = 12
		}
		for r := 0; r < reps; r++ {
			n++
			nameLen := rng.Pick(1, 2, 8, 31, 200, 240)
			nm := make([]byte, nameLen)
			for i := range nm {
				nm[i] = "abcdefghijklmnopqrstuvwxyz0123456789 -_."[rng.Intn(40)]
			}
			if nm[0] == '.' || nm[0] == ' ' {
				nm[0] = 'f'
			}
			name := fmt.Sprintf("%s%d", string(nm), n)
			if rng.Intn(3) == 0 {
				name += ".txt"
			}
			if len(name) > 240 {
				name = name[len(name)-240:]
				if name[0] == '.' || name[0] == ' ' {
					name = "g" + name[1:]
				}
			}
			// every fourth name carries characters outside ASCII: on disk in UTF-8, in the request in Mac Roman
			// (e-acute 0x8e, u-diaeresis 0x9f); the header sent must frame itself correctly for those too
			reqName := []byte(name)
			if n%4 == 0 {
				if len(name) > 200 {
					name = name[len(name)-200:]
					if name[0] == '.' || name[0] == ' ' {
						name = "g" + name[1:]
					}
				}
				reqName = append([]byte("caf\x8e men\x9f "), name...)
				name = "caf\u00e9 men\u00fc " + name
			}
			data := patBytes(size, byte(n))
			must(os.WriteFile(filepath.Join(env.FileRoot, name), data, 0644))
			hasInfo, hasRsrc := rng.Intn(3) == 0, rng.Intn(3) == 0
			var info, rsrc []byte
			if hasInfo {
				ia := iforkArgs(rng)
				ia[10] = []byte(name)
				ia[9] = be16(len(name))
				if rng.Intn(3) != 0 {
					ia[12] = dataBytes(rng, rng.Pick(1, 9, 200, 381, 382, 383, 600, 3000))
					ia[11] = be16(len(ia[12]))
				} else {
					ia[12], ia[11] = nil, []byte{0, 0}
				}
				f := mkIfork(ia)
				info, _ = io.ReadAll(&f)
				must(os.WriteFile(filepath.Join(env.FileRoot, ".info_"+name), info, 0644))
			}
			if hasRsrc {
				rsrc = dataBytes(rng, rng.Pick(0, 1, 300, 5000))
				must(os.WriteFile(filepath.Join(env.FileRoot, ".rsrc_"+name), rsrc, 0644))
			}
			offs := []int{0, 0, 1, size / 2, size - 1, size}
			off := offs[rng.Intn(len(offs))]
			if off < 0 || off > size {
				off = 0
			}
			preview := rng.Intn(4) == 0
			resuming := off > 0 || rng.Intn(5) == 0
			if preview {
				resuming, off = false, 0
			}
			fields := []hotline.Field{hotline.NewField(hotline.FieldFileName, reqName)}
			if resuming {
				rd := hotline.NewFileResumeData([]hotline.ForkInfoList{*hotline.NewForkInfoList(be32(off))})
				b, _ := rd.BinaryMarshal()
				fields = append(fields, hotline.NewField(hotline.FieldFileResumeData, b))
			}
			if preview {
				fields = append(fields, hotline.NewField(hotline.FieldFileTransferOptions, []byte{0, 2}))
			}
			t := hotline.NewTransaction(hotline.TranDownloadFile, admin.ID, fields...)
			res, _ := callHandler(mobius.HandleDownloadFile, admin, &t)
			if len(res) != 1 || isErrReply(res) {
				panic("download refused")
			}
			var ref [4]byte
			copy(ref[:], res[0].GetField(hotline.FieldRefNum).Data)
			xfer := res[0].GetField(hotline.FieldTransferSize).Data
			fsz := res[0].GetField(hotline.FieldFileSize).Data
			ft := env.Srv.FileTransferMgr.Get(ref)
			full, _ := hotline.ReadPath(ft.FileRoot, ft.FilePath, ft.FileName)
			// every third download follows one whose client hung up while the header was being sent (the write fails
			// after a few bytes): what that one left behind must not show up in this one
			if n%3 == 0 {
				hotline.DownloadHandler(&failWriter{left: rng.Intn(150)}, full, ft, env.Srv.FS, discardLogger, true)
			}
			var got bytes.Buffer
			hotline.DownloadHandler(&got, full, ft, env.Srv.FS, discardLogger, true)
			env.Srv.FileTransferMgr.Delete(ref)
			stream := got.Bytes()
			// what a header without a stored info fork shows for type / creator / dates: taken from the header itself
			typ, creator, mtime := make([]byte, 4), make([]byte, 4), make([]byte, 8)
			if !preview && !hasInfo && len(stream) >= 40+68 {
				ib := stream[40:]
				typ, creator, mtime = ib[4:8], ib[8:12], ib[52:60]
			}
			cs.Add(Case{Kind: fmt.Sprintf("download-info%v-rsrc%v-preview%v-resume%v", hasInfo, hasRsrc, preview, resuming),
				Ops:        []Op{mkOp(10, "download", []byte(name), data, be32(off), b1(resuming), b1(preview), b1(hasInfo), info, b1(hasRsrc), rsrc, typ, creator, mtime)},
				Obs:        [][][]byte{append([][]byte{xfer, fsz}, splitDownload(stream, preview, fsz)...)},
				NonTrivial: size > 0 && (off > 0 || hasInfo || hasRsrc || len(name) > 1 || preview)})
		}
	}
}

// splitDownload cuts a download stream the way a client does: the flattened file header up to the data fork
// (its length comes from the header's own INFO-fork size field), then as many data bytes as the reply's file
// size field announced, then whatever follows.
func splitDownload(stream []byte, preview bool, fsz []byte) [][]byte {
	n := 0
	if len(fsz) == 4 {
		n = int(fsz[0])<<24 | int(fsz[1])<<16 | int(fsz[2])<<8 | int(fsz[3])
	}
	head := 0
	if !preview {
		if len(stream) < 40 {
			return [][]byte{stream, nil, nil}
		}
		isz := int(stream[36])<<24 | int(stream[37])<<16 | int(stream[38])<<8 | int(stream[39])
		head = 40 + isz + 16
		if head > len(stream) || head < 0 {
			return [][]byte{stream, nil, nil}
		}
	}
	end := head + n
	if end > len(stream) {
		end = len(stream)
	}
	return [][]byte{stream[:head], stream[head:end], stream[end:]}
}
