package main

import (
	"context"
	"encoding/binary"
	"fmt"
	"io"
	"net"
	"os"
	"path/filepath"
	"sort"
	"strings"
	"time"

	"github.com/jhalter/mobius/hotline"
	"github.com/jhalter/mobius/internal/mobius"
)

func init() { register("C10", "Corr.Run_C10", genC10) }

func c10Preamble(ref []byte) []byte {
	b := []byte("HTXF")
	b = append(b, ref...)
	return append(b, 0, 0, 0, 0, 0, 0, 0, 0)
}

func c10ResumeData(offset int) []byte {
	b := []byte("RFLT")
	b = append(b, 0, 1)
	b = append(b, make([]byte, 34)...)
	b = append(b, 0, 1)
	b = append(b, []byte("DATA")...)
	b = append(b, be32(offset)...)
	return append(b, make([]byte, 8)...)
}

// the flattened file object a client sends for a file (no resource fork)
func c10FFO(name string, data []byte) []byte {
	s := uploadStream(name, data)
	return s[16:]
}

type c10Conn struct {
	c net.Conn
}

func (x *c10Conn) read(n int) ([]byte, error) {
	x.c.SetReadDeadline(time.Now().Add(4 * time.Second))
	b := make([]byte, n)
	_, err := io.ReadFull(x.c, b)
	return b, err
}
func (x *c10Conn) write(b []byte) error {
	x.c.SetWriteDeadline(time.Now().Add(4 * time.Second))
	_, err := x.c.Write(b)
	return err
}

func c10Open(env *Env, ref []byte) *c10Conn {
	cl, sv := net.Pipe()
	go func() {
		env.Srv.VerifHandleFileTransfer(context.Background(), sv, "10.10.0.2:9")
		sv.Close()
	}()
	x := &c10Conn{c: cl}
	x.write(c10Preamble(ref))
	return x
}

type c10Item struct {
	path  [][]byte
	isDir bool
	data  []byte
}

func genC10(cs *CaseSet, rng *Rng, tier string, dir string) {
	cs.Rule = "download: a tree with >= 2 levels, an empty folder, a dot-file and a dot-folder with a visible child, with >= 1 resumed and >= 1 skipped file; upload: a tree with a nested folder into a target holding a complete file (skipped) and a partial file (resumed); distinct by (tree, actions)"
	nHist := 24
	if tier == "thorough" {
		nHist = 240
	}
	var all hotline.AccessBitmap
	for i := range all {
		all[i] = 255
	}
	// ASCII names only: folder transfers carry item names as the raw bytes on disk (UTF-8) while file lists use Mac Roman;
	// the property fixes no encoding for item headers, so names outside ASCII are left to C11 (lists) and C08 (downloads)
	names := []string{"alpha", "beta.txt", "Gamma Folder", "d", "e e.sit", "zeta", "Readme", "m.mov", "x.y.z", "00", "~tilde", "UPPER", "movie.bin.incomplete", "half.incomplete"}
	for h := 0; h < nHist; h++ {
		env := NewEnv(fmt.Sprintf("%s-%d", dir, h), EnvOpts{})
		env.StartDrain()
		root := env.FileRoot
		cc, _ := env.NewClient("~admin~", all, "10.10.0.1:1")
		// ---- a tree ----
		var build func(dirPath string, depth int)
		hasEmpty, hasDotFile, hasDotDir, deep := false, false, false, false
		build = func(dirPath string, depth int) {
			n := 1 + rng.Intn(4)
			if depth >= 2 {
				deep = true
			}
			for i := 0; i < n; i++ {
				nm := names[rng.Intn(len(names))]
				p := filepath.Join(dirPath, nm)
				if _, err := os.Lstat(p); err == nil {
					continue
				}
				if rng.Intn(3) == 0 && depth < 3 {
					must(os.Mkdir(p, 0755))
					if rng.Intn(4) == 0 {
						hasEmpty = true
					} else {
						build(p, depth+1)
					}
				} else {
					must(os.WriteFile(p, dataBytes(rng, rng.Pick(0, 1, 17, 300, 3000)), 0644))
				}
			}
		}
		top := filepath.Join(root, "Shared")
		must(os.Mkdir(top, 0755))
		build(top, 0)
		if h%2 == 0 {
			must(os.WriteFile(filepath.Join(top, ".hidden"), []byte("dot"), 0644))
			must(os.MkdirAll(filepath.Join(top, ".dotdir"), 0755))
			must(os.WriteFile(filepath.Join(top, ".dotdir", "inside.txt"), []byte("visible child of a dot folder"), 0644))
			must(os.MkdirAll(filepath.Join(top, "sub", "deeper"), 0755))
			must(os.WriteFile(filepath.Join(top, "sub", "deeper", "leaf.bin"), dataBytes(rng, 700), 0644))
			must(os.MkdirAll(filepath.Join(top, "empty"), 0755))
			hasEmpty, hasDotFile, hasDotDir, deep = true, true, true, true
		}
		snap := c11Snapshot(root)
		var initArgs [][]byte
		for _, e := range snap {
			initArgs = append(initArgs, c11EncPath(e.path), []byte{e.kind}, e.payload)
		}
		ops := []Op{mkOp(9, "init", initArgs...)}
		obs := [][][]byte{{}}
		// ---- download of "Shared" (or of one of its sub folders) ----
		target := [][]byte{[]byte("Shared")}
		if rng.Intn(3) == 0 {
			for _, e := range snap {
				if e.kind == 3 && len(e.path) == 2 && e.path[1][0] != '.' {
					target = e.path
					break
				}
			}
		}
		fields := []hotline.Field{hotline.NewField(hotline.FieldFileName, target[len(target)-1])}
		if len(target) > 1 {
			fields = append(fields, hotline.NewField(hotline.FieldFilePath, encodePath(target[:len(target)-1])))
		}
		t := hotline.NewTransaction(hotline.TranDownloadFldr, cc.ID, fields...)
		res, _ := callHandler(mobius.HandleDownloadFolder, cc, &t)
		sawResume, sawSkip := false, false
		if len(res) == 1 && !isErrReply(res) {
			count := res[0].GetField(hotline.FieldFolderItemCount).Data
			ref := res[0].GetField(hotline.FieldRefNum).Data
			x := c10Open(env, ref)
			x.write([]byte{0, 3})
			var acts []byte
			nFilesSeen := 0
			o := [][]byte{count}
			n := int(binary.BigEndian.Uint16(count))
			for i := 0; i < n; i++ {
				hd, err := x.read(2)
				if err != nil {
					o = append(o, []byte("<no header>"))
					break
				}
				body, err := x.read(int(binary.BigEndian.Uint16(hd)))
				if err != nil || len(body) < 4 {
					o = append(o, []byte("<short header>"))
					break
				}
				isDir := body[1] == 1
				// path: count(2) then (0,0,len,name)*
				var comps [][]byte
				pc := int(binary.BigEndian.Uint16(body[2:4]))
				pb := body[4:]
				for j := 0; j < pc && len(pb) >= 3; j++ {
					l := int(pb[2])
					if len(pb) < 3+l {
						break
					}
					comps = append(comps, pb[3:3+l])
					pb = pb[3+l:]
				}
				item := append(c11EncPath(comps), 0)
				if isDir {
					item[len(item)-1] = 1
				}
				// the client's choice
				kind, off := 1, 0
				if !isDir {
					choice := rng.Intn(5)
					if nFilesSeen < 2 { // the first file is resumed, the second skipped; the rest at random
						choice = 1 - nFilesSeen
					}
					nFilesSeen++
					switch choice {
					case 0:
						kind = 3
						sawSkip = true
					case 1:
						kind = 2
						if fi, err := os.Stat(filepath.Join(append([]string{root}, append(bytesToStrings(target), bytesToStrings(comps)...)...)...)); err == nil && fi.Size() > 0 {
							off = rng.Intn(int(fi.Size()) + 1)
						}
						sawResume = true
					}
				} else if rng.Bool() {
					kind = 3
				}
				acts = append(acts, byte(kind))
				acts = append(acts, be32(off)...)
				switch kind {
				case 2:
					rd := c10ResumeData(off)
					x.write(append(append([]byte{0, 2}, be16(len(rd))...), rd...))
				default:
					x.write([]byte{0, byte(kind)})
				}
				if isDir || kind == 3 {
					item = append(item, 0, 0, 0, 0, 0)
					item = append(item, be32(0)...)
					o = append(o, item)
					continue
				}
				szb, err := x.read(4)
				if err != nil {
					o = append(o, append(item, []byte("<no size>")...))
					break
				}
				sz := int(binary.BigEndian.Uint32(szb))
				item = append(append(item, 1), szb...)
				if sz > 1<<22 {
					o = append(o, append(item, []byte("<absurd size>")...))
					break
				}
				payload, err := x.read(sz)
				if err != nil {
					o = append(o, append(item, []byte("<short payload>")...))
					break
				}
				// the data fork: after the 24-byte header, the INFO fork and the 16-byte DATA header
				var data []byte
				if len(payload) >= 40 {
					il := int(binary.BigEndian.Uint32(payload[36:40]))
					if len(payload) >= 40+il+16 {
						data = payload[40+il+16:]
					}
				}
				item = append(item, be32(len(data))...)
				item = append(item, data...)
				o = append(o, item)
				x.write([]byte{0, 3})
			}
			// nothing may follow the announced items
			x.c.SetReadDeadline(time.Now().Add(30 * time.Millisecond))
			extra := make([]byte, 1)
			if k, _ := x.c.Read(extra); k > 0 {
				o = append(o, []byte("<more data after the announced items>"))
			}
			x.c.Close()
			ops = append(ops, mkOp(1, "folder-download", c11EncPath(target), acts))
			obs = append(obs, o)
		}
		// ---- upload of a generated tree into a target that already holds a complete and a partial file ----
		upName := []byte("Incoming")
		upRoot := filepath.Join(root, "Incoming")
		pre := rng.Intn(4) != 0
		var items []c10Item
		items = append(items, c10Item{path: [][]byte{[]byte("docs")}, isDir: true})
		items = append(items, c10Item{path: [][]byte{[]byte("docs"), []byte("a.txt")}, data: dataBytes(rng, rng.Pick(0, 5, 400))})
		items = append(items, c10Item{path: [][]byte{[]byte("docs"), []byte("inner")}, isDir: true})
		items = append(items, c10Item{path: [][]byte{[]byte("docs"), []byte("inner"), []byte("b.bin")}, data: dataBytes(rng, rng.Pick(1, 900, 5000))})
		items = append(items, c10Item{path: [][]byte{[]byte("have.txt")}, data: []byte("the client's copy")})
		items = append(items, c10Item{path: [][]byte{[]byte("part.bin")}, data: dataBytes(rng, 600)})
		for i := 0; i < rng.Intn(4); i++ {
			items = append(items, c10Item{path: [][]byte{[]byte(fmt.Sprintf("extra%d", i))}, data: dataBytes(rng, rng.Intn(50))})
		}
		partial := 0
		if pre {
			must(os.MkdirAll(upRoot, 0755))
			must(os.WriteFile(filepath.Join(upRoot, "have.txt"), []byte("already complete on the server"), 0644))
			partial = 1 + rng.Intn(500)
			must(os.WriteFile(filepath.Join(upRoot, "part.bin.incomplete"), items[5].data[:partial], 0644))
			// the tree before the upload is part of the model's state
			snap = c11Snapshot(root)
			initArgs = nil
			for _, e := range snap {
				initArgs = append(initArgs, c11EncPath(e.path), []byte{e.kind}, e.payload)
			}
			ops = append(ops, mkOp(9, "init", initArgs...))
			obs = append(obs, [][]byte{})
		}
		total := 0
		for _, it := range items {
			total += len(it.data)
		}
		ut := hotline.NewTransaction(hotline.TranUploadFldr, cc.ID, hotline.NewField(hotline.FieldFileName, upName),
			hotline.NewField(hotline.FieldTransferSize, be32(total)), hotline.NewField(hotline.FieldFolderItemCount, be16(len(items))))
		ures, _ := callHandler(mobius.HandleUploadFolder, cc, &ut)
		cutIdx, cutAt := -1, 0
		if h%3 == 2 { // the connection dies inside the data of one file (the resumed one when there is one)
			cutIdx = 5
			if !pre || rng.Intn(3) == 0 {
				cutIdx = 3
			}
		}
		if len(ures) == 1 && !isErrReply(ures) {
			x := c10Open(env, ures[0].GetField(hotline.FieldRefNum).Data)
			var replies []byte
			var args [][]byte
			args = append(args, c11EncPath([][]byte{upName}))
			died := false
			if _, err := x.read(2); err == nil {
				for _, it := range items {
					d := byte(0)
					if it.isDir {
						d = 1
					}
					args = append(args, c11EncPath(it.path), []byte{d}, it.data)
				}
				for idx, it := range items {
					if died {
						break
					}
					pathBytes := encodePath(it.path)[2:]
					hd := be16(len(pathBytes) + 4)
					if it.isDir {
						hd = append(hd, 0, 1)
					} else {
						hd = append(hd, 0, 0)
					}
					hd = append(hd, be16(len(it.path))...)
					hd = append(hd, pathBytes...)
					x.write(hd)
					a, err := x.read(2)
					if err != nil {
						replies = append(replies, 9, 0, 0, 0, 0)
						break
					}
					if it.isDir {
						replies = append(replies, 0, 0, 0, 0, 0)
						continue
					}
					name := string(it.path[len(it.path)-1])
					switch a[1] {
					case 3:
						replies = append(replies, 0, 0, 0, 0, 0)
					case 2:
						l, _ := x.read(2)
						rd, _ := x.read(int(binary.BigEndian.Uint16(l)))
						off := 0
						if len(rd) >= 50 {
							off = int(binary.BigEndian.Uint32(rd[46:50]))
						}
						replies = append(append(replies, 2), be32(off)...)
						if off > len(it.data) {
							off = len(it.data)
						}
						ffo := c10FFO(name, it.data[off:])
						if idx == cutIdx && len(it.data[off:]) > 1 {
							cutAt = rng.Intn(len(it.data[off:]))
							x.write(append(be32(len(ffo)), ffo[:len(ffo)-len(it.data[off:])+cutAt]...))
							x.c.Close()
							died = true
							break
						}
						x.write(append(be32(len(ffo)), ffo...))
						x.read(2)
					default:
						replies = append(replies, 1, 0, 0, 0, 0)
						ffo := c10FFO(name, it.data)
						if idx == cutIdx && len(it.data) > 1 {
							cutAt = rng.Intn(len(it.data))
							x.write(append(be32(len(ffo)), ffo[:len(ffo)-len(it.data)+cutAt]...))
							x.c.Close()
							died = true
							break
						}
						x.write(append(be32(len(ffo)), ffo...))
						x.read(2)
					}
				}
			}
			x.c.Close()
			time.Sleep(2 * time.Millisecond)
			if died {
				time.Sleep(60 * time.Millisecond) // let the handler see the end of the stream
				cargs := append([][]byte{args[0], be16(cutIdx), be32(cutAt)}, args[1:]...)
				ops = append(ops, mkOp(3, "folder-upload-cut", cargs...))
				obs = append(obs, [][]byte{c11EncSnapshot(c11Snapshot(root))})
			} else {
				ops = append(ops, mkOp(2, "folder-upload", args...))
				obs = append(obs, [][]byte{replies, c11EncSnapshot(c11Snapshot(root))})
				// round trip: download what was just uploaded, taking every file whole
				dt := hotline.NewTransaction(hotline.TranDownloadFldr, cc.ID, hotline.NewField(hotline.FieldFileName, upName))
				if dres, _ := callHandler(mobius.HandleDownloadFolder, cc, &dt); len(dres) == 1 && !isErrReply(dres) {
					o, acts := c10Download(env, dres[0], nil)
					ops = append(ops, mkOp(1, "folder-download-roundtrip", c11EncPath([][]byte{upName}), acts))
					obs = append(obs, o)
				}
			}
		}
		env.StopDrain()
		cs.Add(Case{Kind: "folder-transfers", Ops: ops, Obs: obs, NonTrivial: deep && hasEmpty && hasDotFile && hasDotDir && sawResume && sawSkip && pre})
	}
}

// c10Download runs the reference folder-download client; choose gives the action for the i-th header (nil: send all)
func c10Download(env *Env, reply hotline.Transaction, choose func(i int, isDir bool, comps [][]byte) (int, int)) ([][]byte, []byte) {
	count := reply.GetField(hotline.FieldFolderItemCount).Data
	x := c10Open(env, reply.GetField(hotline.FieldRefNum).Data)
	x.write([]byte{0, 3})
	var acts []byte
	o := [][]byte{count}
	n := int(binary.BigEndian.Uint16(count))
	for i := 0; i < n; i++ {
		hd, err := x.read(2)
		if err != nil {
			o = append(o, []byte("<no header>"))
			break
		}
		body, err := x.read(int(binary.BigEndian.Uint16(hd)))
		if err != nil || len(body) < 4 {
			o = append(o, []byte("<short header>"))
			break
		}
		isDir := body[1] == 1
		var comps [][]byte
		pc := int(binary.BigEndian.Uint16(body[2:4]))
		pb := body[4:]
		for j := 0; j < pc && len(pb) >= 3; j++ {
			l := int(pb[2])
			if len(pb) < 3+l {
				break
			}
			comps = append(comps, pb[3:3+l])
			pb = pb[3+l:]
		}
		item := append(c11EncPath(comps), 0)
		if isDir {
			item[len(item)-1] = 1
		}
		kind, off := 1, 0
		if choose != nil {
			kind, off = choose(i, isDir, comps)
		}
		acts = append(acts, byte(kind))
		acts = append(acts, be32(off)...)
		if kind == 2 {
			rd := c10ResumeData(off)
			x.write(append(append([]byte{0, 2}, be16(len(rd))...), rd...))
		} else {
			x.write([]byte{0, byte(kind)})
		}
		if isDir || kind == 3 {
			item = append(item, 0, 0, 0, 0, 0)
			item = append(item, be32(0)...)
			o = append(o, item)
			continue
		}
		szb, err := x.read(4)
		if err != nil {
			o = append(o, append(item, []byte("<no size>")...))
			break
		}
		sz := int(binary.BigEndian.Uint32(szb))
		item = append(append(item, 1), szb...)
		if sz > 1<<22 {
			o = append(o, append(item, []byte("<absurd size>")...))
			break
		}
		payload, err := x.read(sz)
		if err != nil {
			o = append(o, append(item, []byte("<short payload>")...))
			break
		}
		var data []byte
		if len(payload) >= 40 {
			il := int(binary.BigEndian.Uint32(payload[36:40]))
			if len(payload) >= 40+il+16 {
				data = payload[40+il+16:]
			}
		}
		item = append(item, be32(len(data))...)
		item = append(item, data...)
		o = append(o, item)
		x.write([]byte{0, 3})
	}
	x.c.SetReadDeadline(time.Now().Add(30 * time.Millisecond))
	extra := make([]byte, 1)
	if k, _ := x.c.Read(extra); k > 0 {
		o = append(o, []byte("<more data after the announced items>"))
	}
	x.c.Close()
	return o, acts
}

func bytesToStrings(b [][]byte) []string {
	out := make([]string, len(b))
	for i, x := range b {
		out[i] = string(x)
	}
	return out
}

var _ = sort.Strings
var _ = strings.Split
