package main

import (
	"fmt"
	"io"
	"sort"
	"sync"
	"time"

	"github.com/jhalter/mobius/hotline"
)

func init() { register("C14", "Corr.Run_C14", genC14) }

// recConn records the size of every Write call (a TCP-like connection: each Write is one atomic unit).
type recConn struct {
	mu     sync.Mutex
	writes []int
}

func (c *recConn) Read(p []byte) (int, error) { select {} }
func (c *recConn) Write(p []byte) (int, error) {
	c.mu.Lock()
	c.writes = append(c.writes, len(p))
	c.mu.Unlock()
	return len(p), nil
}
func (c *recConn) Close() error { return nil }

func genC14(cs *CaseSet, rng *Rng, tier string, dir string) {
	cs.Rule = "load runs: >= 2 concurrent senders to one client and >= 1 frame larger than 32 KiB in flight; single-send cases: a transaction larger than 32 KiB; distinct by (sizes / request scripts)"
	// ---- how sendTransaction hands a transaction to the connection ----
	{
		env := NewEnv(dir+"-send", EnvOpts{})
		sizes := []int{0, 1, 100, 32740, 32741, 32742, 32745, 32768, 32769, 40000, 65000, 65535}
		for k := 0; k < 6; k++ {
			sizes = append(sizes, rng.Intn(65536))
		}
		for _, n := range sizes {
			rc := &recConn{}
			cc := env.Srv.NewClientConn(rc, "10.14.0.1:1")
			data := patBytes(n, byte(n))
			t := hotline.NewTransaction(hotline.TranServerMsg, cc.ID, hotline.NewField(hotline.FieldData, data))
			env.Srv.VerifSendTransaction(t)
			var w []byte
			for _, x := range rc.writes {
				w = append(w, be32(x)...)
			}
			env.Srv.ClientMgr.Delete(cc.ID)
			cs.Add(Case{Kind: "send-one", Ops: []Op{mkOp(1, "sendTransaction", data)}, Obs: [][][]byte{{w}}, NonTrivial: n > 32768-26})
		}
	}
	// ---- two transactions drained in turns: the first is read for a while, the second is read completely (as another
	// sender goroutine would do in between), then the rest of the first is read - each must come out whole ----
	{
		env := NewEnv(dir+"-turns", EnvOpts{})
		cc := env.Srv.NewClientConn(&recConn{}, "10.14.0.2:1")
		nT := 24
		if tier == "thorough" {
			nT = 200
		}
		for k := 0; k < nT; k++ {
			d1 := patBytes(rng.Pick(600, 5000, 40000, 65535, 513, 1024), byte(k))
			d2 := dataBytes(rng, rng.Pick(0, 10, 400, 3000, 60000))
			first := rng.Pick(1, 22, 512, 4096)
			t1 := hotline.NewTransaction(hotline.TranServerMsg, cc.ID, hotline.NewField(hotline.FieldData, d1))
			t2 := hotline.NewTransaction(hotline.TranServerMsg, cc.ID, hotline.NewField(hotline.FieldData, d2))
			t1.ID, t2.ID = [4]byte{0, 0, 0, 1}, [4]byte{0, 0, 0, 1}
			buf := make([]byte, first)
			n, _ := t1.Read(buf)
			out1 := append([]byte{}, buf[:n]...)
			out2, _ := io.ReadAll(&t2)
			rest, _ := io.ReadAll(&t1)
			out1 = append(out1, rest...)
			cs.Add(Case{Kind: "drained-in-turns", Ops: []Op{mkOp(3, "two-transactions-in-turns", d1, d2, be32(first))},
				Obs: [][][]byte{{out1, out2}}, NonTrivial: len(d1) > first})
		}
		env.Srv.ClientMgr.Delete(cc.ID)
	}
	// ---- load: several clients fire requests back to back while broadcasts and large replies are in flight ----
	nRuns := 15
	if tier == "thorough" {
		nRuns = 60
	}
	var all hotline.AccessBitmap
	for i := range all {
		all[i] = 255
	}
	for run := 0; run < nRuns; run++ {
		boardLen := 38000 + rng.Intn(20000)
		if run%3 == 1 { // the largest field there is: the reply carrying it is longer than 64 KiB on the wire
			boardLen = 65511 + rng.Intn(25)
		}
		board := string(patBytes(boardLen, byte(run)))
		env := NewEnv(fmt.Sprintf("%s-%d", dir, run), EnvOpts{Board: board, Agreement: "a",
			Accounts: []hotline.Account{{Login: "adm", Name: "Adm", Password: hotline.HashAndSalt([]byte("")), Access: all}}})
		nCl := 3 + rng.Intn(4)
		clients := make([]*WireClient, nCl)
		scripts := make([][]int, nCl)
		for i := range clients {
			clients[i] = env.Connect(fmt.Sprintf("10.14.%d.%d:%d", run, i+1, 3000+i))
			if !clients[i].Login("adm", "", RField{102, []byte(fmt.Sprintf("c%d", i))}, RField{104, []byte{0, 1}}) {
				panic("login failed")
			}
			n := 10 + rng.Intn(25)
			for k := 0; k < n; k++ {
				scripts[i] = append(scripts[i], []int{500, 300, 101, 101, 105, 105, 105, 999}[rng.Intn(8)])
			}
		}
		// let the login traffic (agreement, access, change-user notifications) drain
		for _, c := range clients {
			c.WaitQuiet(20*time.Millisecond, 2*time.Second)
		}
		totalChat := 0
		for _, s := range scripts {
			for _, ty := range s {
				if ty == 105 {
					totalChat++
				}
			}
		}
		base := make([]int, nCl)
		for i, c := range clients {
			fr, _ := c.Frames()
			base[i] = len(fr)
		}
		var wg sync.WaitGroup
		for i := range clients {
			wg.Add(1)
			go func(i int) {
				defer wg.Done()
				c := clients[i]
				for _, ty := range scripts[i] {
					switch ty {
					case 105:
						c.Send(105, RField{101, []byte(fmt.Sprintf("hello from %d", i))})
					case 999:
						c.Send(999, RField{101, []byte("x")})
					default:
						c.Send(ty)
					}
				}
			}(i)
		}
		wg.Wait()
		expect := func(i int) (replies int) {
			for _, ty := range scripts[i] {
				if ty == 500 || ty == 300 || ty == 101 {
					replies++
				}
			}
			return
		}
		// wait until every client has what it should have, or give up after a bounded time
		dl := time.Now().Add(6 * time.Second)
		for time.Now().Before(dl) {
			done := true
			for i, c := range clients {
				fr, _ := c.Frames()
				r, ch := 0, 0
				for _, f := range fr[base[i]:] {
					if f.Reply == 1 {
						r++
					}
					if f.Type == 106 {
						ch++
					}
				}
				if r < expect(i) || ch < totalChat {
					done = false
				}
			}
			if done {
				break
			}
			time.Sleep(2 * time.Millisecond)
		}
		for _, c := range clients {
			c.WaitQuiet(10*time.Millisecond, time.Second)
		}
		var args [][]byte
		var obs [][]byte
		for i, c := range clients {
			var a []byte
			for _, ty := range scripts[i] {
				a = append(a, be16(ty)...)
			}
			args = append(args, a)
			fr, rest := c.Frames()
			wf := byte(1)
			var ids []int
			ch := 0
			for _, f := range fr {
				if !f.WellFormed {
					wf = 0
				}
			}
			for _, f := range fr {
				if f.Reply == 1 {
					ids = append(ids, int(f.ID))
				}
			}
			for _, f := range fr[base[i]:] {
				if f.Type == 106 {
					ch++
				}
			}
			sort.Ints(ids)
			o := []byte{wf}
			o = append(o, be16(len(rest))...)
			for _, x := range ids {
				o = append(o, be32(x)...)
			}
			o = append(o, be16(ch)...)
			obs = append(obs, o)
		}
		cs.Add(Case{Kind: "load", Ops: []Op{mkOp(2, "load-run", args...)}, Obs: [][][]byte{obs}, NonTrivial: nCl >= 2})
		for _, c := range clients {
			c.Close()
		}
	}
}
