package main

import (
	"bufio"
	"bytes"
	"encoding/json"
	"fmt"
	"io"
	"os"
	"os/exec"
	"path/filepath"
	"regexp"
	"sort"
	"strconv"
	"strings"
	"sync"
	"time"

	"github.com/jhalter/mobius/hotline"
	"github.com/jhalter/mobius/internal/mobius"
)

func init() { register("C20", "Corr.Run_C20", genC20) }

// ---------------------------------------------------------------------------------------------
// child process: performs a scripted sequence of persistent updates with the real managers; run under strace

type c20Update struct {
	Kind     string // board-post news-cat news-post news-del ban-add acct-create acct-update acct-delete
	Text     string
	Path     []string
	ID       int
	IP       string
	Until    int64 // 0 = permanent
	Login    string
	NewLogin string
	Name     string
	PwHash   string
	Access   []byte
}

const c20MarkDir = "/nonexistent-verif-mark/"

func c20Child(cfg, scriptPath string) {
	b, err := os.ReadFile(scriptPath)
	must(err)
	var script []c20Update
	must(json.Unmarshal(b, &script))
	board, err := mobius.NewFlatNews(filepath.Join(cfg, "MessageBoard.txt"))
	must(err)
	news, err := mobius.NewThreadedNewsYAML(filepath.Join(cfg, "ThreadedNews.yaml"))
	must(err)
	bans, err := mobius.NewBanFile(filepath.Join(cfg, "Banlist.yaml"))
	must(err)
	accts, err := mobius.NewYAMLAccountManager(filepath.Join(cfg, "Users") + "/")
	must(err)
	for i, u := range script {
		os.Remove(c20MarkDir + strconv.Itoa(i)) // marker in the trace
		var err error
		switch u.Kind {
		case "board-post":
			_, err = board.Write([]byte(u.Text))
		case "news-cat":
			err = news.CreateGrouping(u.Path, u.Text, hotline.NewsCategory)
		case "news-post":
			err = news.PostArticle(u.Path, uint32(u.ID), hotline.NewsArtData{Title: u.Text, Poster: "p", Data: u.Text + " body"})
		case "news-del":
			err = news.DeleteArticle(u.Path, uint32(u.ID), false)
		case "ban-add":
			if u.Until == 0 {
				err = bans.Add(u.IP, nil)
			} else {
				t := time.Unix(0, u.Until).UTC()
				err = bans.Add(u.IP, &t)
			}
		case "acct-create":
			var ab hotline.AccessBitmap
			copy(ab[:], u.Access)
			err = accts.Create(hotline.Account{Login: u.Login, Name: u.Name, Password: u.PwHash, Access: ab})
		case "acct-update":
			var ab hotline.AccessBitmap
			copy(ab[:], u.Access)
			err = accts.Update(hotline.Account{Login: u.Login, Name: u.Name, Password: u.PwHash, Access: ab}, u.NewLogin)
		case "acct-delete":
			err = accts.Delete(u.Login)
		}
		if err != nil {
			fmt.Fprintf(os.Stderr, "update %d (%s): %v\n", i, u.Kind, err)
			os.Exit(3)
		}
	}
	os.Remove(c20MarkDir + "end")
}

// ---------------------------------------------------------------------------------------------
// trace parsing

type c20Call struct {
	Kind int // 1 create(trunc) 2 create-excl 3 write 4 rename 5 link 6 unlink 9 unknown
	A, B string
	Data []byte
	Raw  string
}

var reCall = regexp.MustCompile(`^\d+\s+(\w+)\((.*)\)\s+=\s+(-?\d+)`)
var reStr = regexp.MustCompile(`"((?:\\x[0-9a-f]{2})*)"(\.\.\.)?`)
var reFd = regexp.MustCompile(`^(\d+)<((?:\\x[0-9a-f]{2})*)>`)

func unhexEsc(s string) []byte {
	var out []byte
	for i := 0; i+3 < len(s); i += 4 {
		v, _ := strconv.ParseUint(s[i+2:i+4], 16, 8)
		out = append(out, byte(v))
	}
	return out
}

// parseTrace returns, per update, the calls that touch cfg (paths relative to cfg)
func c20ParseTrace(tracePath, cfg string, nUpdates int) ([][]c20Call, error) {
	f, err := os.Open(tracePath)
	if err != nil {
		return nil, err
	}
	defer f.Close()
	out := make([][]c20Call, nUpdates)
	cur := -1
	rd := bufio.NewReaderSize(f, 1<<20)
	rel := func(p string) (string, bool) {
		if strings.HasPrefix(p, cfg+"/") {
			return p[len(cfg)+1:], true
		}
		return "", false
	}
	handle := func(line string) {
		m := reCall.FindStringSubmatch(strings.TrimRight(line, "\n"))
		if m == nil {
			return
		}
		name, args, ret := m[1], m[2], m[3]
		var strs []string
		trunc := false
		for _, sm := range reStr.FindAllStringSubmatch(args, -1) {
			strs = append(strs, string(unhexEsc(sm[1])))
			if sm[2] != "" {
				trunc = true
			}
		}
		// marker
		if (name == "unlinkat" || name == "unlink") && len(strs) == 1 && strings.HasPrefix(strs[0], c20MarkDir) {
			tag := strs[0][len(c20MarkDir):]
			if tag == "end" {
				cur = -2
			} else {
				cur, _ = strconv.Atoi(tag)
			}
			return
		}
		if cur < 0 || ret == "-1" {
			return
		}
		var c c20Call
		c.Raw = name
		switch name {
		case "openat", "open", "creat":
			if len(strs) < 1 {
				return
			}
			p, ok := rel(strs[0])
			if !ok {
				return
			}
			c.A = p
			switch {
			case strings.Contains(args, "O_EXCL") && strings.Contains(args, "O_CREAT"):
				c.Kind = 2
			case strings.Contains(args, "O_TRUNC") && strings.Contains(args, "O_CREAT"):
				c.Kind = 1
			case strings.Contains(args, "O_RDONLY"):
				return
			default:
				c.Kind = 9
			}
		case "write", "pwrite64", "writev":
			fm := reFd.FindStringSubmatch(args)
			if fm == nil {
				return
			}
			p, ok := rel(string(unhexEsc(fm[2])))
			if !ok {
				return
			}
			c.A = p
			c.Kind = 3
			if name != "write" || trunc || len(strs) < 1 {
				c.Kind = 9
			} else {
				c.Data = []byte(strs[0])
				if n, _ := strconv.Atoi(ret); n != len(c.Data) {
					c.Kind = 9 // partial write
				}
			}
		case "rename", "renameat", "renameat2", "link", "linkat":
			if len(strs) < 2 {
				return
			}
			pa, oka := rel(strs[0])
			pb, okb := rel(strs[1])
			if !oka && !okb {
				return
			}
			c.A, c.B = pa, pb
			c.Kind = 4
			if strings.HasPrefix(name, "link") {
				c.Kind = 5
			}
			if !oka || !okb {
				c.Kind = 9
			}
		case "unlink", "unlinkat":
			if len(strs) < 1 {
				return
			}
			p, ok := rel(strs[0])
			if !ok {
				return
			}
			c.A = p
			c.Kind = 6
		default: // truncate, ftruncate, mkdir, symlink ... on the configuration directory: not part of the model
			touches := false
			for _, s := range strs {
				if _, ok := rel(s); ok {
					touches = true
				}
			}
			if fm := reFd.FindStringSubmatch(args); fm != nil {
				if _, ok := rel(string(unhexEsc(fm[2]))); ok {
					touches = true
				}
			}
			if !touches {
				return
			}
			c.Kind = 9
		}
		out[cur] = append(out[cur], c)
	}
	// strace -f splits a call when another thread's event comes in between:
	//   123 openat(AT_FDCWD, "x", O_WRONLY <unfinished ...>      ...      123 <... openat resumed>) = 7
	pendingCall := map[string]string{}
	reUnfinished := regexp.MustCompile(`^(\d+)\s+(.*) <unfinished \.\.\.>\s*$`)
	reResumed := regexp.MustCompile(`^(\d+)\s+<\.\.\. \w+ resumed>(.*)$`)
	for {
		line, err := rd.ReadString('\n')
		if len(line) > 0 {
			tl := strings.TrimRight(line, "\n")
			if m := reUnfinished.FindStringSubmatch(tl); m != nil {
				pendingCall[m[1]] = m[1] + " " + m[2]
			} else if m := reResumed.FindStringSubmatch(tl); m != nil {
				if pre, ok := pendingCall[m[1]]; ok {
					delete(pendingCall, m[1])
					handle(pre + m[2])
				}
			} else {
				handle(line)
			}
		}
		if err == io.EOF {
			break
		}
		if err != nil {
			return nil, err
		}
	}
	return out, nil
}

func c20Apply(dir string, c c20Call) {
	switch c.Kind {
	case 1, 2:
		os.WriteFile(filepath.Join(dir, c.A), nil, 0644)
	case 3:
		f, err := os.OpenFile(filepath.Join(dir, c.A), os.O_WRONLY|os.O_APPEND, 0644)
		if err == nil {
			f.Write(c.Data)
			f.Close()
		}
	case 4:
		os.Rename(filepath.Join(dir, c.A), filepath.Join(dir, c.B))
	case 5:
		os.Link(filepath.Join(dir, c.A), filepath.Join(dir, c.B))
	case 6:
		os.Remove(filepath.Join(dir, c.A))
	}
}

func c20Encode(calls []c20Call) []byte {
	var b []byte
	for _, c := range calls {
		b = append(b, byte(c.Kind))
		b = append(b, len16([]byte(c.A))...)
		switch c.Kind {
		case 3:
			b = append(b, be32(len(c.Data))...)
			b = append(b, c.Data...)
		case 4, 5:
			b = append(b, len16([]byte(c.B))...)
		}
	}
	return b
}

func copyDir(src, dst string) {
	os.RemoveAll(dst)
	filepath.Walk(src, func(p string, info os.FileInfo, err error) error {
		if err != nil {
			return nil
		}
		r, _ := filepath.Rel(src, p)
		if info.IsDir() {
			os.MkdirAll(filepath.Join(dst, r), 0755)
			return nil
		}
		b, _ := os.ReadFile(p)
		os.WriteFile(filepath.Join(dst, r), b, 0644)
		return nil
	})
}

// the state the real constructors recover from a directory (on a throw-away copy: the account loader may write)
func c20Recover(dir, scratch string, ips []string) string {
	copyDir(dir, scratch)
	var sb strings.Builder
	if b, err := mobius.NewFlatNews(filepath.Join(scratch, "MessageBoard.txt")); err != nil {
		return "FAIL:board"
	} else {
		b.Seek(0, 0)
		data, _ := io.ReadAll(b)
		fmt.Fprintf(&sb, "board=%x\n", data)
	}
	if n, err := mobius.NewThreadedNewsYAML(filepath.Join(scratch, "ThreadedNews.yaml")); err != nil {
		return "FAIL:news"
	} else {
		fmt.Fprintf(&sb, "news=%x\n", dumpNews(n.ThreadedNews.Categories, nil))
	}
	if bf, err := mobius.NewBanFile(filepath.Join(scratch, "Banlist.yaml")); err != nil {
		return "FAIL:bans"
	} else {
		for _, ip := range ips {
			is, until := bf.IsBanned(ip)
			u := "-"
			if until != nil {
				u = strconv.FormatInt(until.UnixNano(), 10)
			}
			fmt.Fprintf(&sb, "ban %s=%v/%s\n", ip, is, u)
		}
	}
	if am, err := mobius.NewYAMLAccountManager(filepath.Join(scratch, "Users") + "/"); err != nil {
		return "FAIL:accounts"
	} else {
		l := am.List()
		sort.Slice(l, func(i, j int) bool { return l[i].Login < l[j].Login })
		for _, a := range l {
			fmt.Fprintf(&sb, "acct %q %q %q %x\n", a.Login, a.Name, a.Password, a.Access[:])
		}
	}
	if f := c20Continue(scratch); f != "" {
		return "FAIL:continue:" + f
	}
	return sb.String()
}

// A directory left by a crash must not only load: the stores must keep working on it.  One more update of every kind
// through the real managers (on the throw-away copy, where leftovers of the interrupted update - temporary files -
// are still lying around) must succeed and be on disk for the next start; an update that is accepted and then lost
// is the loss of an acknowledged change.  Returns the store that failed, "" if none.
func c20Continue(scratch string) string {
	boardPath := filepath.Join(scratch, "MessageBoard.txt")
	if b, err := mobius.NewFlatNews(boardPath); err == nil {
		if _, err := b.Write([]byte("~probe~\r")); err != nil {
			return "board-write"
		}
		b2, err := mobius.NewFlatNews(boardPath)
		if err != nil {
			return "board-reload"
		}
		b2.Seek(0, 0)
		if data, _ := io.ReadAll(b2); !bytes.HasPrefix(data, []byte("~probe~\r")) {
			return "board-lost"
		}
	}
	newsPath := filepath.Join(scratch, "ThreadedNews.yaml")
	if n, err := mobius.NewThreadedNewsYAML(newsPath); err == nil {
		if err := n.CreateGrouping(nil, "~probe~", hotline.NewsCategory); err != nil {
			return "news-write"
		}
		n2, err := mobius.NewThreadedNewsYAML(newsPath)
		if err != nil {
			return "news-reload"
		}
		if _, ok := n2.ThreadedNews.Categories["~probe~"]; !ok {
			return "news-lost"
		}
	}
	banPath := filepath.Join(scratch, "Banlist.yaml")
	if bf, err := mobius.NewBanFile(banPath); err == nil {
		if err := bf.Add("203.0.113.250", nil); err != nil {
			return "ban-write"
		}
		bf2, err := mobius.NewBanFile(banPath)
		if err != nil {
			return "ban-reload"
		}
		if is, _ := bf2.IsBanned("203.0.113.250"); !is {
			return "ban-lost"
		}
	}
	users := filepath.Join(scratch, "Users") + "/"
	if am, err := mobius.NewYAMLAccountManager(users); err == nil {
		l := am.List()
		sort.Slice(l, func(i, j int) bool { return l[i].Login < l[j].Login })
		for _, a := range l { // rewriting every account in place (what SetUser does) must still work
			a.Name = "~probe~ " + a.Name
			if err := am.Update(a, a.Login); err != nil {
				return "account-update"
			}
		}
		if err := am.Create(hotline.Account{Login: "~probe~", Name: "p", Password: "x"}); err != nil {
			return "account-create"
		}
		am2, err := mobius.NewYAMLAccountManager(users)
		if err != nil {
			return "account-reload"
		}
		if am2.Get("~probe~") == nil {
			return "account-lost"
		}
		for _, a := range l {
			if b := am2.Get(a.Login); b == nil || !strings.HasPrefix(b.Name, "~probe~ ") {
				return "account-update-lost"
			}
		}
		// ... and so must deleting every account that was there (the probe account stays, a directory without any
		// account does not load): none of them may come back
		for _, a := range l {
			if err := am2.Delete(a.Login); err != nil {
				return "account-delete"
			}
		}
		am3, err := mobius.NewYAMLAccountManager(users)
		if err != nil {
			return "account-reload-after-delete"
		}
		for _, a := range l {
			if am3.Get(a.Login) != nil {
				return "account-back-after-delete"
			}
		}
	}
	return ""
}

func genC20(cs *CaseSet, rng *Rng, tier string, dir string) {
	cs.Rule = "an update of each kind (board post, news save, ban save, account create / update / update under a new login / delete) with >= 2 system calls, every crash point 0..n materialised and reloaded; distinct by (kind, trace, contents)"
	nHist := 10
	if tier == "thorough" {
		nHist = 80
	}
	self, err := os.Executable()
	must(err)
	ips := []string{"10.2.0.1", "10.2.0.2", "192.168.9.9"}
	results := make([][]Case, nHist)
	var wg sync.WaitGroup
	sem := make(chan struct{}, 12)
	for h := 0; h < nHist; h++ {
		wg.Add(1)
		go func(h int, rng *Rng) {
			defer wg.Done()
			sem <- struct{}{}
			defer func() { <-sem }()
			base := fmt.Sprintf("%s-%d", dir, h)
			env := NewEnv(base, EnvOpts{Board: "first post\r", Agreement: "a", Accounts: []hotline.Account{
				{Login: "admin", Name: "Administrator", Password: hotline.HashAndSalt([]byte("a")), Access: bitmapOf(0, 1, 2, 14, 15, 16, 17)},
				{Login: "bob", Name: "Bob", Password: hotline.HashAndSalt([]byte("b")), Access: bitmapOf(9, 10)}}})
			cfg := env.Cfg
			// ---- script ----
			var script []c20Update
			logins := map[string]bool{"admin": true, "bob": true, "guest": true}
			liveLogins := func() []string {
				var l []string
				for k := range logins {
					l = append(l, k)
				}
				sort.Strings(l)
				return l
			}
			serial := 0
			arts := 0
			haveCat := false
			deleted1 := false
			n := 9 + rng.Intn(6)
			for k := 0; k < n; k++ {
				serial++
				switch r := rng.Intn(16); {
				case r < 3:
					script = append(script, c20Update{Kind: "board-post", Text: fmt.Sprintf("post %d %s\r", serial, string(dataBytes(rng, rng.Pick(1, 30, 400, 5000))))})
				case r < 4 || !haveCat:
					script = append(script, c20Update{Kind: "news-cat", Text: fmt.Sprintf("Cat%d", serial)})
					if !haveCat {
						script[len(script)-1].Text = "Cat"
					}
					haveCat = true
				case r < 6:
					arts++
					script = append(script, c20Update{Kind: "news-post", Path: []string{"Cat"}, ID: 0, Text: fmt.Sprintf("title %d", serial)})
				case r < 7 && arts > 0 && !deleted1:
					script = append(script, c20Update{Kind: "news-del", Path: []string{"Cat"}, ID: 1})
					deleted1 = true
				case r < 9:
					u := c20Update{Kind: "ban-add", IP: ips[rng.Intn(len(ips))]}
					if rng.Bool() {
						u.Until = time.Date(2030, 1, 1, 0, 0, serial, 0, time.UTC).UnixNano()
					} else if k > 0 {
						u.Until = time.Date(2031, 1, 1, 0, 0, serial, 0, time.UTC).UnixNano() // never the same value twice
						if rng.Bool() {
							u.Until = 0
							// a permanent ban on an address that is already permanently banned would change nothing
							u.IP = fmt.Sprintf("10.9.%d.%d", h, serial)
						}
					}
					script = append(script, u)
				case r < 11:
					l := fmt.Sprintf("user%d", serial)
					logins[l] = true
					script = append(script, c20Update{Kind: "acct-create", Login: l, Name: "N " + l, PwHash: hotline.HashAndSalt([]byte(l)), Access: rng.Bytes(8)})
				case r < 14:
					ls := liveLogins()
					l := ls[rng.Intn(len(ls))]
					u := c20Update{Kind: "acct-update", Login: l, NewLogin: l, Name: fmt.Sprintf("renamed %d", serial), PwHash: hotline.HashAndSalt([]byte{byte(serial)}), Access: rng.Bytes(8)}
					if rng.Bool() && l != "guest" {
						u.NewLogin = fmt.Sprintf("moved%d", serial)
						delete(logins, l)
						logins[u.NewLogin] = true
					}
					script = append(script, u)
				default:
					ls := liveLogins()
					l := ls[rng.Intn(len(ls))]
					if l == "guest" || l == "admin" {
						continue
					}
					delete(logins, l)
					script = append(script, c20Update{Kind: "acct-delete", Login: l})
				}
			}
			ips := append([]string{}, ips...) // every address the script bans is looked up by the recovery dump
			for _, u := range script {
				if u.Kind == "ban-add" {
					ips = append(ips, u.IP)
				}
			}
			sp := filepath.Join(base, "script.json")
			sb, _ := json.Marshal(script)
			must(os.WriteFile(sp, sb, 0644))
			state := filepath.Join(base, "state")
			copyDir(cfg, state)
			// ---- run the real managers under strace ----
			tp := filepath.Join(base, "trace.txt")
			cmd := exec.Command("strace", "-f", "-y", "-xx", "-s", "4000000", "-o", tp,
				"-e", "trace=open,openat,creat,write,pwrite64,writev,rename,renameat,renameat2,unlink,unlinkat,link,linkat,symlink,symlinkat,truncate,ftruncate,mkdir,mkdirat,rmdir",
				self, "c20child", cfg, sp)
			var stderr bytes.Buffer
			cmd.Stderr = &stderr
			if err := cmd.Run(); err != nil {
				panic(fmt.Sprintf("c20 child failed: %v: %s", err, stderr.String()))
			}
			traces, err := c20ParseTrace(tp, cfg, len(script))
			must(err)
			scratch := filepath.Join(base, "load")
			for i, u := range script {
				calls := traces[i]
				readRel := func(p string) ([]byte, bool) {
					b, err := os.ReadFile(filepath.Join(state, p))
					return b, err == nil
				}
				// contents before
				var op Op
				name := u.Kind
				before := map[string][]byte{}
				for _, p := range []string{"MessageBoard.txt", "ThreadedNews.yaml", "Banlist.yaml", "Users/" + u.Login + ".yaml"} {
					if b, ok := readRel(p); ok {
						before[p] = b
					}
				}
				// every crash point
				dumps := []string{c20Recover(state, scratch, ips)}
				for _, c := range calls {
					c20Apply(state, c)
					dumps = append(dumps, c20Recover(state, scratch, ips))
				}
				classes := make([]byte, len(dumps))
				for k, d := range dumps {
					switch {
					case d == dumps[0]:
						classes[k] = 0
					case d == dumps[len(dumps)-1]:
						classes[k] = 1
					default:
						classes[k] = 2
					}
				}
				after := func(p string) []byte { b, _ := readRel(p); return b }
				single := func(code int, p string) {
					old, had := before[p]
					op = mkOp(code, name, []byte(p), b1(had), old, after(p))
				}
				switch u.Kind {
				case "board-post":
					single(1, "MessageBoard.txt")
				case "news-cat", "news-post", "news-del":
					single(2, "ThreadedNews.yaml")
				case "ban-add":
					single(3, "Banlist.yaml")
				case "acct-create":
					p := "Users/" + u.Login + ".yaml"
					op = mkOp(4, name, []byte(p), after(p))
				case "acct-update":
					p, q := "Users/"+u.Login+".yaml", "Users/"+u.NewLogin+".yaml"
					if p != q {
						name = "acct-update-new-login"
					}
					op = mkOp(5, name, []byte(p), []byte(q), before[p], after(q))
				case "acct-delete":
					p := "Users/" + u.Login + ".yaml"
					op = mkOp(6, name, []byte(p), before[p])
				}
				results[h] = append(results[h], Case{Kind: name, Ops: []Op{op}, Obs: [][][]byte{{c20Encode(calls), classes}}, NonTrivial: len(calls) >= 2})
				cs.Count(fmt.Sprintf("calls:%s:%d", name, len(calls)))
			}
			// the replayed directory must be the directory the child left behind
			if a, b := c20Recover(state, scratch, ips), c20Recover(cfg, scratch, ips); a != b {
				results[h] = append(results[h], Case{Kind: "replay-diverged", Ops: []Op{mkOp(99, "replay-diverged")}, Obs: [][][]byte{{[]byte(a), []byte(b)}}})
			}
		}(h, rng.Fork(fmt.Sprintf("h%d", h)))
	}
	wg.Wait()
	for _, r := range results {
		for _, c := range r {
			cs.Add(c)
		}
	}
}
