package main

import (
	"bytes"
	"context"
	"encoding/json"
	"fmt"
	"net"
	"os"
	"os/exec"
	"path/filepath"
	"runtime"
	"strings"
	"sync"
	"time"

	"github.com/jhalter/mobius/hotline"
)

func init() { register("C03", "Corr.Run_C03", genC03) }

type c03Result struct {
	Batches       int
	Connections   int
	Kinds         map[string]int
	SentinelOK    bool
	MaxLatencyMS  int64
	RegistryCount int
	Connected     int
	Downloads     int
	Uploads       int
	Note          string
}

// dial from a chosen loopback source address (every 127.x.y.z is local)
func c03Dial(src string, dst string) (net.Conn, error) {
	d := net.Dialer{Timeout: 2 * time.Second, LocalAddr: &net.TCPAddr{IP: net.ParseIP(src)}}
	return d.Dial("tcp", dst)
}

type tcpClient struct {
	c  net.Conn
	rx []byte
}

func (t *tcpClient) readFor(d time.Duration) {
	t.c.SetReadDeadline(time.Now().Add(d))
	buf := make([]byte, 65536)
	for {
		n, err := t.c.Read(buf)
		t.rx = append(t.rx, buf[:n]...)
		if err != nil {
			return
		}
	}
}

// waits until a reply frame with the given transaction ID has arrived
func (t *tcpClient) waitReply(id uint32, d time.Duration) bool {
	dl := time.Now().Add(d)
	buf := make([]byte, 65536)
	for time.Now().Before(dl) {
		b := t.rx
		if len(b) >= 8 {
			b = b[8:]
			for {
				f, n := refParse(b)
				if f == nil {
					break
				}
				if f.Reply == 1 && f.ID == id {
					return true
				}
				b = b[n:]
			}
		}
		t.c.SetReadDeadline(time.Now().Add(50 * time.Millisecond))
		n, err := t.c.Read(buf)
		t.rx = append(t.rx, buf[:n]...)
		if err != nil {
			if ne, ok := err.(net.Error); ok && ne.Timeout() {
				continue
			}
			return false
		}
	}
	return false
}

func c03Child(dir string, seed uint64, tier string) {
	rng := NewRng(seed)
	var all hotline.AccessBitmap
	for i := range all {
		all[i] = 255
	}
	// the hostile account: an ordinary user (no account / disconnect / delete / broadcast privileges)
	user := bitmapOf(1, 2, 9, 10, 11, 20, 21, 24, 26, 38, 39, 40)
	env := NewEnv(dir, EnvOpts{Agreement: "a", Board: "b\r", Accounts: []hotline.Account{
		{Login: "sentinel", Name: "sentinel", Password: hotline.HashAndSalt([]byte("")), Access: all},
		{Login: "mallory", Name: "mallory", Password: hotline.HashAndSalt([]byte("")), Access: user}}})
	must(os.MkdirAll(filepath.Join(env.FileRoot, "Uploads"), 0755))
	must(os.WriteFile(filepath.Join(env.FileRoot, "file.bin"), bytes.Repeat([]byte("x"), 5000), 0644))
	ctx, cancel := context.WithCancel(context.Background())
	defer cancel()
	ln, err := net.Listen("tcp", "127.0.0.1:0")
	must(err)
	ln2, err := net.Listen("tcp", "127.0.0.1:0")
	must(err)
	go env.Srv.Serve(ctx, ln)
	go env.Srv.ServeFileTransfers(ctx, ln2)
	env.StartOutbox()
	ctl, xfer := ln.Addr().String(), ln2.Addr().String()
	res := c03Result{Kinds: map[string]int{}}
	kindOf := map[string]string{}
	var kindMu sync.Mutex
	// ---- the sentinel ----
	sc, err := c03Dial("127.0.0.2", ctl)
	must(err)
	sent := &tcpClient{c: sc}
	sc.Write(handshakeBytes)
	sc.Write(refEncode(107, 1, RField{105, obfuscate([]byte("sentinel"))}, RField{106, nil}, RField{102, []byte("sentinel")}, RField{104, []byte{0, 1}}))
	if !sent.waitReply(1, 3*time.Second) {
		res.Note = "sentinel could not log in"
	}
	nextID := uint32(10)
	ping := func() bool {
		nextID++
		t0 := time.Now()
		sc.SetWriteDeadline(time.Now().Add(2 * time.Second))
		if _, err := sc.Write(refEncode(500, nextID)); err != nil {
			return false
		}
		ok := sent.waitReply(nextID, 3*time.Second)
		if ms := time.Since(t0).Milliseconds(); ms > res.MaxLatencyMS {
			res.MaxLatencyMS = ms
		}
		return ok
	}
	res.SentinelOK = ping()
	// ---- hostile batches ----
	nBatches, perBatch := 3, 48
	if tier == "thorough" {
		nBatches, perBatch = 10, 160
	}
	srcN := 0
	login := refEncode(107, 1, RField{105, obfuscate([]byte("mallory"))}, RField{106, nil}, RField{102, []byte("m")}, RField{104, []byte{0, 1}})
	tranTypes := []int{101, 103, 104, 105, 107, 108, 109, 110, 111, 112, 113, 114, 115, 116, 117, 120, 121, 200, 201, 202, 203, 204, 205, 206, 207, 208, 209, 210, 211, 212, 213,
		300, 303, 304, 348, 349, 350, 351, 352, 353, 354, 355, 370, 371, 380, 381, 400, 410, 411, 500, 9999}
	fieldIDs := []int{100, 101, 102, 103, 104, 105, 106, 107, 108, 109, 110, 113, 114, 115, 201, 202, 203, 204, 210, 211, 212, 213, 220, 300, 321, 322, 325, 326, 327, 328, 333, 334}
	for b := 0; b < nBatches; b++ {
		var wg sync.WaitGroup
		var mu sync.Mutex
		for k := 0; k < perBatch; k++ {
			srcN++
			src := fmt.Sprintf("127.%d.%d.%d", 1+srcN/60000, (srcN/250)%250, 3+srcN%250)
			r := rng.Fork(fmt.Sprintf("c%d", srcN))
			kind := []string{"pre-random", "pre-truncated-handshake", "pre-garbage-after-handshake", "pre-corrupt-login-length", "post-mutated", "post-mutated", "post-corrupt-length",
				"xfer-random", "xfer-valid-ref-garbage", "xfer-upload-declared-size"}[r.Intn(10)]
			if k == 0 {
				kind = "post-count-amplification" // count fields far above what the data holds, in every batch
			}
			if k == 1 {
				kind = "post-unknown-ids" // well-formed requests naming chats / users / articles that do not exist
			}
			if k == 2 {
				kind = "xfer-same-ref-twice" // two transfer connections claim the same reference number at once
			}
			if k == 4 {
				kind = "xfer-folder-upload-bad-item" // a valid folder-upload reference, then item headers that do not add up
			}
			if k == 3 {
				kind = "post-odd-presence" // name / icon / options fields of odd lengths, then the peer stays for a while
			}
			kindMu.Lock()
			kindOf[src] = kind
			kindMu.Unlock()
			wg.Add(1)
			go func(src, kind string, r *Rng) {
				defer wg.Done()
				mu.Lock()
				res.Kinds[kind]++
				res.Connections++
				mu.Unlock()
				port := ctl
				if kind == "xfer-random" {
					port = xfer
				}
				c, err := c03Dial(src, port)
				if err != nil {
					return
				}
				defer c.Close()
				t := &tcpClient{c: c}
				c.SetWriteDeadline(time.Now().Add(3 * time.Second))
				mut := func() []byte { // a transaction with random type, random fields of random sizes
					var fs []RField
					for i := 0; i < r.Intn(5); i++ {
						fs = append(fs, RField{fieldIDs[r.Intn(len(fieldIDs))], r.Bytes(r.Pick(0, 1, 2, 3, 4, 7, 8, 20, 300))})
					}
					return refEncode(tranTypes[r.Intn(len(tranTypes))], uint32(100+r.Intn(1000)), fs...)
				}
				switch kind {
				case "pre-random":
					c.Write(r.Bytes(r.Pick(1, 11, 12, 40, 5000)))
				case "pre-truncated-handshake":
					c.Write(handshakeBytes[:r.Intn(12)])
				case "pre-garbage-after-handshake":
					c.Write(handshakeBytes)
					c.Write(r.Bytes(r.Pick(1, 19, 20, 22, 600, 70000)))
				case "pre-corrupt-login-length":
					c.Write(handshakeBytes)
					l := append([]byte{}, login...)
					copy(l[12:16], r.Bytes(4))
					if r.Bool() {
						copy(l[16:20], r.Bytes(4))
					}
					c.Write(l)
				case "post-mutated", "post-corrupt-length":
					c.Write(handshakeBytes)
					c.Write(login)
					t.waitReply(1, 2*time.Second)
					for i := 0; i < 6+r.Intn(10); i++ {
						m := mut()
						if kind == "post-corrupt-length" && r.Intn(3) == 0 {
							switch r.Intn(3) {
							case 0:
								copy(m[12:16], be32(r.Intn(40)))
							case 1:
								copy(m[20:22], be16(r.Intn(300)))
							default:
								if len(m) > 26 {
									copy(m[24:26], be16(r.Intn(70000)))
								}
							}
						}
						if _, err := c.Write(m); err != nil {
							break
						}
					}
				case "post-count-amplification":
					c.Write(handshakeBytes)
					c.Write(login)
					t.waitReply(1, 2*time.Second)
					item := append([]byte{0, 0, 200}, bytes.Repeat([]byte("A"), 200)...)
					path := append(append([]byte{0xff, 0xff}, item...), 0, 0, 250, 'x') // 65,535 announced, the second item broken
					c.Write(refEncode(200, 60, RField{202, path}))
					c.Write(refEncode(202, 61, RField{201, []byte("file.bin")}, RField{202, path}))
					c.Write(refEncode(370, 62, RField{325, append([]byte{0xff, 0xff}, item...)}))
					c.Write(refEncode(205, 63, RField{201, []byte("d")}, RField{202, path}))
				case "post-odd-presence":
					c.Write(handshakeBytes)
					c.Write(login)
					t.waitReply(1, 2*time.Second)
					icon := r.Bytes(r.Pick(1, 1, 1, 3, 5))
					// first only the icon and the name (this request is handled without complaint) ...
					c.Write(refEncode(304, 40, RField{102, r.Bytes(r.Pick(0, 1, 300))}, RField{104, icon}))
					t.readFor(700 * time.Millisecond) // ... and the peer is in the user list while the sentinel asks for it
					// then options and automatic replies of odd lengths as well
					c.Write(refEncode(121, 41, RField{102, r.Bytes(r.Pick(0, 1, 40))}, RField{104, icon}, RField{113, r.Bytes(r.Pick(1, 2))}))
					c.Write(refEncode(304, 42, RField{104, icon}, RField{113, r.Bytes(r.Pick(0, 1, 3))}, RField{215, r.Bytes(r.Pick(0, 1, 600))}))
				case "post-unknown-ids":
					c.Write(handshakeBytes)
					c.Write(login)
					t.waitReply(1, 2*time.Second)
					chat := r.Bytes(4)
					for i, typ := range []int{115, 116, 120, 114, 105, 113, 108, 303, 110} {
						c.Write(refEncode(typ, uint32(70+i), RField{114, chat}, RField{103, []byte{0x7f, byte(r.Intn(256))}}, RField{101, []byte("x")}, RField{115, []byte("s")}))
					}
					c.Write(refEncode(112, 90, RField{103, []byte{0, 1}}))
					t.waitReply(90, 500*time.Millisecond)
				case "xfer-random":
					c.Write(r.Bytes(r.Pick(3, 16, 17, 200)))
				case "xfer-valid-ref-garbage", "xfer-upload-declared-size", "xfer-same-ref-twice", "xfer-folder-upload-bad-item":
					c.Write(handshakeBytes)
					c.Write(login)
					t.waitReply(1, 2*time.Second)
					var req []byte
					if kind == "xfer-valid-ref-garbage" || kind == "xfer-same-ref-twice" {
						req = refEncode(202, 50, RField{201, []byte("file.bin")})
					} else if kind == "xfer-folder-upload-bad-item" {
						req = refEncode(213, 50, RField{201, []byte(fmt.Sprintf("upf-%s", src))}, RField{202, encodePath([][]byte{[]byte("Uploads")})}, RField{108, be32(4000)}, RField{220, be16(3)})
					} else {
						req = refEncode(203, 50, RField{201, []byte(fmt.Sprintf("up-%s.bin", src))}, RField{202, encodePath([][]byte{[]byte("Uploads")})}, RField{108, be32(1 << 20)})
					}
					c.Write(req)
					if !t.waitReply(50, 2*time.Second) {
						return
					}
					var ref []byte
					bb := t.rx[8:]
					for {
						f, n := refParse(bb)
						if f == nil {
							break
						}
						if f.Reply == 1 && f.ID == 50 {
							ref, _ = f.Field(107)
						}
						bb = bb[n:]
					}
					if len(ref) != 4 {
						return
					}
					if kind == "xfer-same-ref-twice" {
						var w2 sync.WaitGroup
						for i := 0; i < 2; i++ {
							w2.Add(1)
							go func() {
								defer w2.Done()
								y, err := c03Dial(src, xfer)
								if err != nil {
									return
								}
								defer y.Close()
								y.SetWriteDeadline(time.Now().Add(3 * time.Second))
								y.Write(append(append([]byte("HTXF"), ref...), 0, 0, 0, 0, 0, 0, 0, 0))
								yt := &tcpClient{c: y}
								yt.readFor(40 * time.Millisecond)
							}()
						}
						w2.Wait()
						return
					}
					x, err := c03Dial(src, xfer)
					if err != nil {
						return
					}
					defer x.Close()
					x.SetWriteDeadline(time.Now().Add(3 * time.Second))
					pre := append(append([]byte("HTXF"), ref...), 0, 0, 0, 0, 0, 0, 0, 0)
					x.Write(pre)
					if kind == "xfer-folder-upload-bad-item" {
						// item headers whose sizes and counts disagree: a data size of 4 (no path bytes) with one path
						// item announced, a path item longer than the header, a size below 4
						xt := &tcpClient{c: x}
						xt.readFor(30 * time.Millisecond)
						switch r.Intn(4) {
						case 0:
							x.Write([]byte{0, 4, 0, 0, 0, 1})
						case 1:
							x.Write([]byte{0, 8, 0, 0, 0, 2, 0, 0, 200, 'a'})
						case 2:
							x.Write([]byte{0, 2, 0, 1, 0, 1, 0, 0})
						default:
							x.Write([]byte{0, 7, 0, 0, 0, 9, 0, 0, 1})
						}
						xt.readFor(60 * time.Millisecond)
					} else if kind == "xfer-valid-ref-garbage" {
						// a download: just hang up after a few bytes came
						xt := &tcpClient{c: x}
						xt.readFor(time.Duration(r.Intn(30)) * time.Millisecond)
					} else {
						// an upload stream whose headers declare up to 1 MiB but that breaks off / is garbage
						ffo := c10FFO("u", bytes.Repeat([]byte{7}, 100))
						switch r.Intn(4) {
						case 0:
							copy(ffo[36:40], be32(r.Intn(1<<20))) // info fork size
						case 1:
							copy(ffo[len(ffo)-104:len(ffo)-100], be32(1<<20)) // data fork size
						case 2:
							// garbage, but with a declared info-fork size within the property's 1 MiB bound (the handler
							// allocates what the header declares: a 32-bit size is outside the statement)
							ffo = r.Bytes(len(ffo))
							copy(ffo[36:40], be32(r.Intn(1<<20)))
						}
						x.Write(ffo[:r.Intn(len(ffo)+1)])
					}
				}
				t.readFor(time.Duration(20+r.Intn(60)) * time.Millisecond)
			}(src, kind, r)
		}
		// while the hostile peers of this batch are connected the sentinel asks for the user list
		wg.Add(1)
		go func() {
			defer wg.Done()
			time.Sleep(250 * time.Millisecond)
			mu.Lock()
			nextID++
			id := nextID
			mu.Unlock()
			sc.Write(refEncode(300, id))
			if !sent.waitReply(id, 5*time.Second) {
				mu.Lock()
				res.SentinelOK = false
				res.Note += "sentinel got no reply to a user-list request while hostile peers were connected; "
				mu.Unlock()
			}
		}()
		wg.Wait()
		res.Batches++
		if !ping() {
			res.SentinelOK = false
		}
	}
	// quiescence: the transfer handler sleeps 3 s before it returns; under load the last handlers may need longer
	time.Sleep(3600 * time.Millisecond)
	for dl := time.Now().Add(20 * time.Second); time.Now().Before(dl); time.Sleep(200 * time.Millisecond) {
		if len(env.Srv.ClientMgr.List()) == 1 && env.Srv.Stats.Get(hotline.StatDownloadsInProgress) == 0 && env.Srv.Stats.Get(hotline.StatUploadsInProgress) == 0 {
			break
		}
	}
	if !ping() {
		res.SentinelOK = false
	}
	// the sentinel can still open a private chat (with itself) and post to the board
	for _, cc := range env.Srv.ClientMgr.List() {
		if cc.Account != nil && cc.Account.Login == "sentinel" {
			nextID++
			sc.Write(refEncode(112, nextID, RField{103, cc.ID[:]}))
			if !sent.waitReply(nextID, 3*time.Second) {
				res.SentinelOK = false
				res.Note += "sentinel got no reply to invite-new-chat; "
			}
			nextID++
			sc.Write(refEncode(103, nextID, RField{101, []byte("still here")}))
			if !sent.waitReply(nextID, 3*time.Second) {
				res.SentinelOK = false
				res.Note += "sentinel got no reply to a board post; "
			}
			nextID++
			sc.Write(refEncode(202, nextID, RField{201, []byte("file.bin")}))
			if !sent.waitReply(nextID, 3*time.Second) {
				res.SentinelOK = false
				res.Note += "sentinel got no reply to a download request; "
			}
		}
	}
	res.RegistryCount = len(env.Srv.ClientMgr.List())
	for _, cc := range env.Srv.ClientMgr.List() {
		if cc.Account != nil && cc.Account.Login != "sentinel" {
			kindMu.Lock()
			res.Note += fmt.Sprintf("left behind: %s (%s); ", cc.RemoteAddr, kindOf[strings.Split(cc.RemoteAddr, ":")[0]])
			kindMu.Unlock()
		}
	}
	res.Connected = env.Srv.Stats.Get(hotline.StatCurrentlyConnected)
	res.Downloads = env.Srv.Stats.Get(hotline.StatDownloadsInProgress)
	res.Uploads = env.Srv.Stats.Get(hotline.StatUploadsInProgress)
	if res.RegistryCount != 1 || res.Uploads != 0 || res.Downloads != 0 {
		buf := make([]byte, 4<<20)
		buf = buf[:runtime.Stack(buf, true)]
		shown := 0
		for _, g := range strings.Split(string(buf), "\n\n") {
			if (strings.Contains(g, "handleNewConnection") || strings.Contains(g, "handleFileTransfer")) && shown < 3 {
				shown++
				if len(g) > 1500 {
					g = g[:1500]
				}
				res.Note += " || " + g
			}
		}
	}
	out, _ := json.Marshal(res)
	fmt.Println("C03RESULT " + string(out))
}

func genC03(cs *CaseSet, rng *Rng, tier string, dir string) {
	cs.Rule = "a run of >= 3 concurrent batches of >= 48 hostile connections (pre-login, post-login and transfer-port kinds all present) from distinct source addresses against the real accept loops, with a logged-in sentinel; distinct by seed"
	self, err := os.Executable()
	must(err)
	runs := 1
	if tier == "thorough" {
		runs = 3
	}
	for i := 0; i < runs; i++ {
		sub := rng.U64() % 1000000
		cmd := exec.Command(self, "c03child", fmt.Sprintf("%s-%d", dir, i), fmt.Sprint(sub), tier)
		var stdout, stderr bytes.Buffer
		cmd.Stdout, cmd.Stderr = &stdout, &stderr
		err := cmd.Run()
		exit := 0
		if err != nil {
			exit = 1
			if ee, ok := err.(*exec.ExitError); ok {
				exit = ee.ExitCode()
			}
		}
		var res c03Result
		for _, l := range bytes.Split(stdout.Bytes(), []byte("\n")) {
			if bytes.HasPrefix(l, []byte("C03RESULT ")) {
				json.Unmarshal(l[len("C03RESULT "):], &res)
			}
		}
		note := stderr.Bytes()
		if len(note) > 600 {
			note = note[:600]
		}
		b := func(v bool) []byte {
			if v {
				return []byte{1}
			}
			return []byte{0}
		}
		lat := byte(0)
		if res.MaxLatencyMS > 5000 {
			lat = 1
		}
		for k, v := range res.Kinds {
			cs.Dist["kind:"+k] += v
		}
		nontrivial := res.Batches >= 3 && res.Connections >= 3*48
		ob := [][]byte{be16(exit), b(res.SentinelOK), be16(res.RegistryCount), be16(res.Connected), be16(res.Downloads), be16(res.Uploads), {lat}}
		c := Case{Kind: "hostile-run", Ops: []Op{mkOp(1, "hostile-run", be32(int(sub)), be16(res.Batches), be16(res.Connections))}, Obs: [][][]byte{ob}, NonTrivial: nontrivial}
		if exit != 0 {
			c.Note = string(note)
		} else if res.Note != "" {
			c.Note = res.Note
		}
		cs.Add(c)
	}
}
