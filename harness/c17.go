package main

import (
	"bytes"
	"encoding/binary"
	"fmt"
	"os"
	"path/filepath"
	"sort"
	"strings"
	"sync"
	"time"

	"github.com/jhalter/mobius/hotline"
	"github.com/jhalter/mobius/internal/mobius"
)

func init() { register("C17", "Corr.Run_C17", genC17) }

func be64(n int64) []byte {
	b := make([]byte, 8)
	binary.BigEndian.PutUint64(b, uint64(n))
	return b
}

type c17Client struct {
	tok  int
	w    *WireClient
	id   []byte
	ip   string
	seen int
}

func genC17(cs *CaseSet, rng *Rng, tier string, dir string) {
	cs.Rule = "history with >= 1 temporary and >= 1 permanent ban (by request or direct addition), a restart after a ban, and connection attempts from a banned, an expired and an unrelated address; distinct by op sequence"
	nHist := 24
	if tier == "thorough" {
		nHist = 160
	}
	var all hotline.AccessBitmap
	for i := range all {
		all[i] = 255
	}
	usr := all
	usr[23/8] &^= 1 << (7 - 23%8) // can be disconnected
	accounts := []hotline.Account{
		{Login: "adm", Name: "adm", Password: hotline.HashAndSalt([]byte("")), Access: all},
		{Login: "usr", Name: "usr", Password: hotline.HashAndSalt([]byte("")), Access: usr},
		{Login: "vip", Name: "vip", Password: hotline.HashAndSalt([]byte("")), Access: all},
	}
	ips := []string{"10.1.1.1", "10.1.1.10", "10.1.1.100", "192.168.0.7", "10.1.1.11", "172.16.5.4"}
	results := make([][]Case, nHist)
	var wg sync.WaitGroup
	sem := make(chan struct{}, 16)
	for h := 0; h < nHist; h++ {
		wg.Add(1)
		go func(h int, rng *Rng) {
			defer wg.Done()
			sem <- struct{}{}
			defer func() { <-sem }()
			env := NewEnv(fmt.Sprintf("%s-%d", dir, h), EnvOpts{Accounts: accounts, Agreement: "a"})
			env.SeqOutbox = true
			banPath := filepath.Join(env.Cfg, "Banlist.yaml")
			var ops []Op
			var obs [][][]byte
			live := map[int]*c17Client{}
			nextTok := 1
			port := 3000
			var admin *c17Client
			sawTemp, sawPerm, sawRestartAfterBan, sawRefused, sawExpiredAdmit, sawOtherAdmit := false, false, false, false, false, false
			banned := map[string]bool{}
			sortedLive := func() []*c17Client {
				var ts []int
				for t := range live {
					ts = append(ts, t)
				}
				sort.Ints(ts)
				var out []*c17Client
				for _, t := range ts {
					out = append(out, live[t])
				}
				return out
			}
			connect := func(ip, login string) *c17Client {
				tok := nextTok
				nextTok++
				port++
				addr := fmt.Sprintf("%s:%d", ip, port)
				now := time.Now().UnixNano()
				w := env.Connect(addr)
				stream := append(append([]byte{}, handshakeBytes...), refEncode(107, 1, RField{105, obfuscate([]byte(login))}, RField{106, nil}, RField{102, []byte(login)}, RField{104, []byte{0, 1}})...)
				wrote := make(chan struct{})
				go func() {
					defer close(wrote)
					w.c.SetWriteDeadline(time.Now().Add(4 * time.Second))
					w.c.Write(stream)
				}()
				// either the login reply arrives or the server turns the peer away and returns
				logged := false
				dl := time.Now().Add(4 * time.Second)
				for time.Now().Before(dl) && !logged {
					fs, _ := w.Frames()
					for _, f := range fs {
						if f.Reply == 1 && f.ID == 1 && f.Err == 0 {
							logged = true
						}
					}
					select {
					case <-w.srvDone:
						dl = time.Now()
					default:
						time.Sleep(300 * time.Microsecond)
					}
				}
				prot := login != "usr"
				op := mkOp(1, "connect", be16(tok), []byte(ip), b1(prot), be64(now))
				if logged {
					c := &c17Client{tok: tok, w: w, ip: ip}
					for _, cc := range env.Srv.ClientMgr.List() {
						if cc.RemoteAddr == addr {
							c.id = append([]byte{}, cc.ID[:]...)
						}
					}
					w.nextID = 2
					w.Ping()
					live[tok] = c
					ops = append(ops, op)
					obs = append(obs, [][]byte{{4}, {}})
					if !banned[ip] {
						sawOtherAdmit = true
					}
					return c
				}
				w.WaitServerDone()
				w.c.Close()
				<-wrote
				rx := w.Rx()
				status := byte(9)
				frames, rest := w.Frames()
				if len(frames) == 1 && len(rest) == 0 && frames[0].Type == 104 {
					text, _ := frames[0].Field(101)
					switch {
					case strings.Contains(string(text), "permanently"):
						status = 3
					case strings.Contains(string(text), "temporarily"):
						status = 5
					}
					copy(rx[8+4:8+8], []byte{0, 0, 0, 0})
				}
				ops = append(ops, op)
				obs = append(obs, [][]byte{{status}, rx})
				sawRefused = true
				return nil
			}
			admin = connect("10.17.0.1", "adm")
			if admin == nil {
				panic("admin could not connect")
			}
			drainAll := func() {
				for _, c := range live {
					fs, _ := c.w.Frames()
					c.seen = len(fs)
				}
			}
			doKick := func(t *c17Client, opt []byte) {
				drainAll()
				_, prevUntil := env.Srv.BanList.IsBanned(t.ip)
				prevBanned, _ := env.Srv.BanList.IsBanned(t.ip)
				fields := []RField{{103, t.id}}
				if opt != nil {
					fields = append(fields, RField{113, opt})
				}
				t0 := time.Now()
				id := admin.w.Send(110, fields...)
				// the reply
				reply := byte(2)
				dl := time.Now().Add(2 * time.Second)
				for time.Now().Before(dl) && reply == 2 {
					fs, _ := admin.w.Frames()
					for _, f := range fs {
						if f.Reply == 1 && f.ID == id {
							reply = 0
							if f.Err != 0 {
								reply = 1
							}
						}
					}
					time.Sleep(300 * time.Microsecond)
				}
				t1 := time.Now()
				isProt := reply == 1
				if !isProt {
					t.w.WaitServerDone() // the disconnect follows one second later
					for dl := time.Now().Add(time.Second); time.Now().Before(dl) && !t.w.ServerClosed(); {
						time.Sleep(200 * time.Microsecond) // let the peer's reader see the end of the stream
					}
				} else {
					time.Sleep(1200 * time.Millisecond) // nothing may happen to a protected user
				}
				admin.w.Ping()
				closed := byte(0)
				if t.w.ServerClosed() {
					closed = 1
				}
				var told []byte
				for _, c := range sortedLive() {
					if c == t {
						continue
					}
					fs, _ := c.w.Frames()
					for _, f := range fs[c.seen:] {
						if who, _ := f.Field(103); f.Type == 302 && bytes.Equal(who, t.id) {
							told = append(told, be16(c.tok)...)
							break
						}
					}
					c.seen = len(fs)
				}
				notice := byte(0)
				tfs, _ := t.w.Frames()
				for _, f := range tfs[t.seen:] {
					if text, _ := f.Field(101); f.Type == 104 {
						if strings.Contains(string(text), "temporarily") {
							notice = 1
						} else if strings.Contains(string(text), "permanently") {
							notice = 2
						}
					}
				}
				// the ban entry the request asked for
				isB, until := env.Srv.BanList.IsBanned(t.ip)
				banOK := byte(0)
				switch {
				case isProt || opt == nil || (opt[1] != 1 && opt[1] != 2):
					if isB == prevBanned && ((until == nil) == (prevUntil == nil)) && (until == nil || until.Equal(*prevUntil)) {
						banOK = 1
					}
				case opt[1] == 1:
					if isB && until != nil && !until.Before(t0.Add(hotline.BanDuration)) && !until.After(t1.Add(hotline.BanDuration)) {
						banOK = 1
					}
					sawTemp = true
					banned[t.ip] = true
				case opt[1] == 2:
					if isB && until == nil {
						banOK = 1
					}
					sawPerm = true
					banned[t.ip] = true
				}
				if closed == 1 {
					delete(live, t.tok)
					t.w.c.Close()
				}
				ops = append(ops, mkOp(2, "kick", be16(t.tok), opt, be64(t0.UnixNano())))
				obs = append(obs, [][]byte{{reply}, {closed}, told, {notice}, {banOK}})
			}
			doRestart := func() {
				// every other restart follows a crash inside an earlier save: the temporary file of that save is
				// still lying next to the ban list (truncated); it must not keep later bans from being recorded
				if rng.Bool() {
					must(os.WriteFile(banPath+".tmp", []byte("10.9.9.9: nu"), 0644))
				}
				// a restart builds the store anew; a reload (SIGHUP, the API's reload) makes the running store read its
				// file again - both must leave exactly the bans that were recorded
				if bfOld, ok := env.Srv.BanList.(*mobius.BanFile); ok && rng.Intn(3) == 0 {
					must(bfOld.Load())
				} else {
					bf, err := mobius.NewBanFile(banPath)
					must(err)
					env.Srv.BanList = bf
				}
				ops = append(ops, mkOp(4, "restart"))
				obs = append(obs, [][]byte{})
				if sawTemp || sawPerm {
					sawRestartAfterBan = true
				}
			}
			doAdd := func(ip string, choice int) {
				now := time.Now()
				var until *time.Time
				kind := byte(1)
				switch choice {
				case 0:
					kind = 0
					sawPerm = true
				case 1:
					u := now.Add(-time.Hour)
					until = &u
				case 2:
					u := now.Add(-90 * time.Second)
					until = &u
				case 3:
					u := now.Add(90 * time.Second)
					until = &u
					sawTemp = true
				case 4:
					u := now.Add(time.Hour)
					until = &u
					sawTemp = true
				default:
					u := now.Add(24 * 3650 * time.Hour)
					until = &u
					sawTemp = true
				}
				must(env.Srv.BanList.Add(ip, until))
				banned[ip] = true
				var ub []byte
				if until != nil {
					ub = be64(until.UnixNano())
				}
				ops = append(ops, mkOp(5, "add-ban", []byte(ip), []byte{kind}, ub))
				obs = append(obs, [][]byte{})
			}
			if h%3 != 0 { // a scripted opening: both kinds of ban by request, a restart, then the door from four addresses
				u1, u2 := connect(ips[0], "usr"), connect(ips[1], "usr")
				if u1 != nil && u2 != nil {
					doKick(u1, []byte{0, 1})
					doKick(u2, []byte{0, 2})
					doRestart()
					connect(ips[0], "usr")
					connect(ips[1], "usr")
					connect(ips[2], "usr")
					doAdd(ips[3], 1+rng.Intn(2))
					connect(ips[3], "usr")
				}
			}
			if h%3 == 1 {
				// a temporary ban that runs out soon, replaced by a permanent one before it does: after the first one's
				// expiry instant the address must still be turned away
				u := time.Now().Add(1500 * time.Millisecond)
				must(env.Srv.BanList.Add(ips[4], &u))
				ops = append(ops, mkOp(5, "add-ban", []byte(ips[4]), []byte{1}, be64(u.UnixNano())))
				obs = append(obs, [][]byte{})
				doAdd(ips[4], 0)
				time.Sleep(1800 * time.Millisecond)
				connect(ips[4], "usr")
			}
			nOps := 12 + rng.Intn(8)
			for k := 0; k < nOps; k++ {
				r := rng.Intn(20)
				switch {
				case r < 7: // a connection attempt
					ip := ips[rng.Intn(len(ips))]
					login := "usr"
					if rng.Intn(6) == 0 {
						login = "vip"
					}
					before := banned[ip]
					c := connect(ip, login)
					if c != nil && before {
						sawExpiredAdmit = true
					}
				case r < 12: // disconnect request
					var cands []*c17Client
					for _, c := range sortedLive() {
						if c != admin {
							cands = append(cands, c)
						}
					}
					if len(cands) == 0 {
						continue
					}
					t := cands[rng.Intn(len(cands))]
					var opt []byte
					switch rng.Intn(6) {
					case 0, 1:
						opt = []byte{0, 1}
					case 2, 3:
						opt = []byte{0, 2}
					case 4:
						opt = []byte{0, byte(rng.Pick(0, 3, 255))}
					}
					doKick(t, opt)
				case r < 14: // a user leaves
					var cands []*c17Client
					for _, c := range sortedLive() {
						if c != admin {
							cands = append(cands, c)
						}
					}
					if len(cands) == 0 {
						continue
					}
					t := cands[rng.Intn(len(cands))]
					delete(live, t.tok)
					t.w.c.Close()
					t.w.WaitServerDone()
					admin.w.Ping()
					ops = append(ops, mkOp(3, "leave", be16(t.tok)))
					obs = append(obs, [][]byte{})
				case r < 16: // restart: a fresh ban list from the file
					doRestart()
				default: // a ban placed directly, with an expiry well before or after now
					doAdd(ips[rng.Intn(len(ips))], rng.Intn(6))
				}
			}
			for _, c := range live {
				c.w.c.Close()
			}
			results[h] = append(results[h], Case{Kind: "history", Ops: ops, Obs: obs,
				NonTrivial: sawTemp && sawPerm && sawRestartAfterBan && sawRefused && sawOtherAdmit && sawExpiredAdmit})
		}(h, rng.Fork(fmt.Sprintf("h%d", h)))
	}
	wg.Wait()
	for _, r := range results {
		for _, c := range r {
			cs.Add(c)
		}
	}
}
