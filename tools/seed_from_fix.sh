#!/bin/sh
# seed_from_fix.sh <fix-commit> <seed-id> <property> "<what it needs to manifest>"
# Stores the REVERSE of a fix commit as a seeded breaking change under /verif/seeded/<seed-id>/.
set -e
c=$1; id=$2; prop=$3; needs=$4
d=/verif/seeded/$id
mkdir -p $d
git -C /repo diff $c $c^ > $d/patch.diff
subj=$(git -C /repo log -1 --format=%s $c)
cat > $d/meta.json <<J
{"id": "$id", "property": "$prop", "origin": "reverse of repair commit $c ($subj): the pinned tree's own defect, kept as a regression seed",
 "needs": "$needs",
 "ran": "git -C /repo apply $d/patch.diff; cd /repo && go build ./... && go test -vet=off -count=1 ./... (passes); cd /verif && ./check.sh $prop quick (must print VIOLATION); git -C /repo checkout -- ."}
J
echo "seeded $id"
