#!/bin/sh
# Build the framework from files on disk only (offline).
set -e
cd "$(dirname "$0")/.."
export GOFLAGS=-mod=mod GOPROXY=off GOSUMDB=off GOTOOLCHAIN=local TZ=UTC
mkdir -p run/bin evidence
if [ -f translator/main.go ]; then
  (cd translator && go build -o ../run/bin/translator . && ../run/bin/translator -repo /repo -out ../coq/Gen)
fi
(cd coq && coq_makefile -f _CoqProject -o Makefile >/dev/null && timeout 3000 make -j16 2>&1 | tail -3)
python3 - <<'PY'
import sys
sys.path.insert(0, "tools")
import check
rc, out, binp = check.build_harness()
print("harness build rc=%s" % rc)
sys.exit(rc)
PY
