#!/usr/bin/env python3
"""mk_seed_task.py <property-id> <n>: creates a scratch worktree of /repo under /tmp/seed-<id>-<n>/wt and prints the sub-agent prompt."""
import json, subprocess, sys, os
pid, n = sys.argv[1], sys.argv[2]
base = "/tmp/seed-%s-%s" % (pid, n)
wt = base + "/wt"
os.makedirs(base + "/out", exist_ok=True)
if not os.path.exists(wt):
    subprocess.check_call(["git", "-C", "/repo", "worktree", "add", "--detach", wt, "HEAD"], stdout=subprocess.DEVNULL, stderr=subprocess.DEVNULL)
prop = [json.loads(l) for l in open("/verif/properties.jsonl") if json.loads(l)["id"] == pid][0]
style = {
  "1": "Prefer a change inside one of the mechanisms named in the anchors.",
  "2": "Prefer a change that needs two cooperating sites that each look fine alone, or a multi-step sequence / unusual input to manifest. Avoid the most obvious one-line change in the anchored mechanism.",
  "3": "Prefer a subtle boundary-condition or branch-specific change (a particular size, a particular kind of target, a rarely taken branch), different from simply deleting a check.",
  "4": "Prefer a change whose effect shows only for an input class at the edge of the quantifier's range (a maximum size, a legal but unusual combination of fields, a state that is reachable only through an earlier protocol operation), not for typical inputs.",
  "6": "Prefer a change to how the server REACTS after an earlier failure or unusual event (an error path, a retry, a reload, a leftover of an interrupted operation, a request repeated or arriving in an unusual order), leaving the ordinary success path alone.",
  "7": "Prefer a performance-motivated change (caching, batching, buffer or object reuse, avoiding a copy, a lock or a system call) whose staleness or aliasing shows only after a particular sequence of operations.",
  "5": "Prefer a change in code OUTSIDE the anchored mechanisms that the property nevertheless depends on (a helper, a manager, a codec, an initialisation or reload path), leaving the anchored functions themselves untouched.",
}.get(n, "")
print(f"""You are helping test a verification framework for the Go project jhalter/mobius (a server for the 1990s Hotline chat/file-sharing protocol). Your job is to act as a realistic source of regressions.

Work ONLY inside the git worktree {wt} (a checkout of the project). Do not read or write anything under /verif or /repo, and do not commit. Environment for every shell call: export GOFLAGS=-mod=mod GOPROXY=off GOSUMDB=off GOTOOLCHAIN=local (no network; Go 1.23 is installed).

Here is a semantic property the project is supposed to satisfy:

ID: {prop['id']} - {prop['title']}
Statement: {prop['statement']}
Quantifier: {prop['quantifier']['text']}
Why the existing tests cannot settle it: {prop['why_tests_cant']}
Relevant code (anchors): {json.dumps(prop['anchors'].get('mechanism', []))}

Task: make ONE small, realistic change to the non-test Go source in the worktree (the kind of change a maintainer might make in a refactor, optimisation or feature tweak) that BREAKS this property while
  (a) the project still compiles:  cd {wt} && go build ./... && go vet ./hotline ./internal/... || true
  (b) the existing test suite still passes, unedited:  cd {wt} && go test -vet=off -count=1 ./...
  (c) the breakage needs something specific to manifest - a particular input, size, interleaving, multi-step sequence of operations, crash/fault point, or a combination of two sites that each look fine alone - rather than being exposed at once by ordinary use.
{style}
Do not edit or add files ending in _test.go inside the project's existing tests, do not touch files named verif_export.go, and do not change go.mod.

Then write a DEMONSTRATION that fails with your change and passes without it: either a new Go test file (e.g. {wt}/hotline/zz_seed_demo_test.go or {wt}/internal/mobius/zz_seed_demo_test.go, package-internal so it can reach unexported names) or a small program. Confirm both directions yourself: run it with your change (must fail) and with the change reversed (save it with `git diff -- . ':(exclude)*zz_seed_demo*' > /tmp/<your-own-name>.diff`, `git apply -R` it, keep the demo; must pass), then re-apply the change with `git apply`. Do NOT use `git stash`: the stash is shared between all worktrees of the repository and other people work in sibling worktrees.

Deliver, in {base}/out/ :
  - patch.diff : output of `git -C {wt} diff -- . ':(exclude)*zz_seed_demo*'` (the source change only, no demo file)
  - the demonstration file(s) (copy them there), and
  - NOTES.md : 5-15 lines: what you changed and why it looks innocent, exactly what is needed for the breakage to manifest, the commands you ran and their results (build, full test suite, demo with/without the change).
Leave the worktree with your change applied and the demo file present. Reply with a short summary (files written, one sentence on the change).""")
