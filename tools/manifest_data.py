HOOK_COMMITS = ["35ab1c0", "1b45154"]
NOTES = ("All checks: ./check.sh <id> <tier>. Each run regenerates coq/Gen from /repo, rebuilds the proofs (full .vo), "
         "rebuilds the Go harness from /repo's working tree, runs the real code on generated cases and evaluates the Coq model on "
         "the same cases. Trusted base and per-property limits: DESIGN.md sections 3 and 5, and each evidence file.")
NOT_YET = {}
CHECKS = {
    "C01": {
        "text": "Theorems (Props/C01.v, 41) for every serialisable object (Field, Transaction, User, FileNameWithInfo, file path, FileHeader, "
                "FileResumeData, FlatFileInformationFork, flattenedFileObject, NewsArtList, NewsArtListData, NewsCategoryListData15, "
                "TrackerRegistration, Account): (layout) the encoder as coded emits exactly the reference layout transcribed from the protocol "
                "document, for all well-formed values; (prefixes) an independent reference decoder that trusts every length/size/count prefix "
                "recovers the object from layout ++ arbitrary trailing bytes, so every prefix equals what follows; (roundtrip) the Go decoder as "
                "coded (Write/Unmarshal/ReadFrom, with its Err/Panic outcomes) inverts the Go encoder; (drain) for EVERY Read method the "
                "translator finds in package hotline and every script of buffer sizes >= 1, the drained bytes are the buffer and the drain ends "
                "within |buf|+1 reads - stated over the reader shapes regenerated from the source on each run. Correspondence: random "
                "well-formed objects (lengths biased to 0,1,254-256,505-520,max) drained by scripted buffer sizes, io.ReadAll and io.Copy; "
                "Go encode->Go decode round trips; single-mutation malformed inputs (truncation, bit flip, trailing bytes) with outcome class "
                "Ok/Err/Panic compared to the model.",
        "note": "Trusted: Coq kernel; translator (reader shapes; unknown shape => obligation fails); hand-written layouts from the PDF; "
                "harness. Assumes fresh objects (readOffset 0) and cap == len for decoder inputs; FilePath.Write modelled below 3.5 KB of path data. No axioms.",
        "technique": "Coq proof (round-trip/layout theorems, drain theorem over translator-generated reader shapes) + differential correspondence check",
    },
    "C02": {
        "text": "Theorems (Props/C02.v): (scan_independent) EVERY run of bufio.Scanner+transactionScanner - any non-empty pieces, any re-chunking "
                "through the 64 KiB buffer, EOF, buffer-full - yields frames(bytes), a function of the byte string (incl. the uint32 wrap of the "
                "size field and tokens shorter than a header); (stage_exact_consumption) io.ReadFull-style stages (handshake 12, preamble 16, "
                "flattened-file headers) consume exactly their bytes under every chunking and leave the rest untouched; "
                "(control_session_independent, upload_independent) the composed control session (handshake, tokens) and the upload stream "
                "(preamble, headers, bytes written to the partial file, completeness) equal functions of the concatenated bytes for all chunk lists; "
                "(payload_written_is_prefix) CopyN writes exactly firstn n of the stream. Correspondence: real sessions through "
                "handleNewConnection over an in-memory connection whose reads return exactly the scripted pieces (all-at-once, one-byte, random, "
                "header-splitting, exhaustive cuts of the first 9-13 bytes), the real bufio.Scanner with the real split function vs frames, and "
                "real uploads through handleFileTransfer under segmentation; oracle: reply IDs / published file computed from the bytes alone.",
        "note": "Trusted: Coq kernel; abstraction of bufio.Scanner, io.ReadFull, io.CopyN (validated against the real library each run); "
                "net.Pipe as connection. TCP urgent data/deadlines not modelled. No axioms.",
        "technique": "Coq proof (all-segmentations theorem by induction over scanner runs; staged-read refinement) + differential correspondence check over scripted segmentations",
    },
    "C03": {
        "text": "PARTIAL by nature (scheduling, timeliness and memory are the runtime's). Model Srv/Contain.v: the resource bracket of a "
                "connection - registry entry, connected counter, claimed transfer entry, in-progress counters - acquired in order, each "
                "followed by a deferred release, recovery installed first. Theorems (Props/C03.v): control_bracket_restores (for EVERY "
                "body effect that respects the connection's own bracket and EVERY ending - return, error, recovered panic - the "
                "registry no longer holds the connection, the counters are back, the process is alive), "
                "rejected_connection_leaves_no_trace, transfer_bracket_restores; and, over Gen/Structure.v REGENERATED from the sources: "
                "recover_first (both connection handlers start with defer dontPanic), acquisitions_are_bracketed (ClientMgr.Add / "
                "Disconnect, Stats Increment / Decrement for the connection and the four transfer kinds, FileTransferMgr Get / "
                "Delete: the deferred release follows the acquisition directly), shared_maps_locked (every index expression on a map "
                "field of Server outside the registration table is under a mutex), goroutines_are_the_known_ones. Correspondence / "
                "search: a child process runs the REAL Serve and ServeFileTransfers on loopback listeners with a logged-in sentinel; "
                "3-10 batches of 48-160 concurrent hostile connections from distinct 127.x.y.z sources (pre-login garbage, truncated "
                "and corrupted handshakes / logins, post-login transactions of 51 types with random fields and corrupted length "
                "fields, count-amplification paths, transfer-port garbage, claimed transfers broken off, uploads declaring up to "
                "1 MiB); observed: exit status of the process, every sentinel probe answered within 5 s, registry and the three "
                "counters at quiescence.",
        "note": "Two defects found and repaired: unlocked rate-limiter map aborts the process (01776e6), path item-count amplification "
                "keeps a handler spinning for a minute (c1db222). What no model here exhibits: fairness, memory exhaustion, blocked "
                "writers. No axioms.",
        "technique": "Coq proof of the connection resource bracket + translator-checked structural obligations + hostile-traffic runs against the real accept loops",
    },
    "C04": {
        "text": "Model Auth/Door.v: what handleNewConnection does with the byte string of a new connection (12-byte handshake, ban verdict, "
                "first scanner token, Transaction.Write, de-obfuscated login with guest fallback, bcrypt abstracted to its 72 key bytes, "
                "dispatch loop). Theorems (Props/C04.v), for ALL account tables and ALL byte strings: logged_in_iff (logged in exactly when "
                "valid handshake, not banned, first token decodes, account exists, password verifies); only_the_current_password (for "
                "NUL-free passwords <= 72 bytes 'verifies' is equality); nothing_before_login (no request dispatched, never registered, the "
                "peer receives nothing / the handshake reply / that plus one error reply or one ban notice); appended_requests_ignored "
                "(any bytes appended after a complete first transaction change nothing unless it logs in); bad/short handshake gets "
                "not one byte. Correspondence: real handleNewConnection over net.Pipe on real account tables (7 password shapes incl. "
                "72-byte, NUL, empty; guest present/absent), handshake variants, password variants (one bit off, prefix, extension, NUL "
                "variants that collide under bcrypt, the old password after a successful login and a password change through the account manager), first transactions of other types / malformed / oversize / truncated, effectful "
                "requests appended; observed: every byte the peer received, what a logged-in observer received, config+file tree "
                "before/after, client registry.",
        "note": "Found and repaired (11f422e): failed logins were announced to logged-in users as departures. Trusted: bcrypt abstraction, "
                "net.Pipe, C02's scanner model. No axioms.",
        "technique": "Coq proof over a byte-stream model of the login path + differential correspondence on the real connection handler",
    },
    "C17": {
        "text": "Models Srv/Ban.v (ban list in memory and on disk, disconnect request with options, restart, door verdict) and Auth/Door.v. "
                "Theorems (Props/C17.v): refused_iff_latest_request (after ANY history of connections, disconnect/ban requests, direct "
                "additions and restarts, an address is turned away at instant now iff the latest ban request for it is permanent or "
                "temporary with now before its expiry); kick_records_ban (30 minutes / unlimited / none by option, for the target's "
                "address); ban_term_respected, permanent_ban_stands, expired_ban_lets_in; other_addresses_unaffected; "
                "refused_before_login (the outcome for a banned address is independent of the account table, never a login); "
                "kick_closes_and_tells_others; protected_user_stays. Correspondence: histories on a real server over net.Pipe (admin, "
                "users from 6 IPv4 addresses incl. prefix-similar ones, protected users): disconnect requests with every option value, "
                "reconnect attempts carrying valid credentials, restarts (fresh BanFile from the file), bans added directly with expiry "
                "from an hour ago to ten years ahead; observed: bytes a refused peer gets, that the target is closed and exactly the "
                "others are told, the notice shown, the stored expiry within [t0+30min, t1+30min].",
        "note": "time.Now is an input (harness clock readings); expiries are placed >= 90 s from 'now', the boundary is covered by the "
                "theorem only. 'Latest request wins' is how the statement is read for repeated bans of one address. No axioms.",
        "technique": "Coq proof over a history model of the ban list + wire-level history correspondence on the real server",
    },
    "C10": {
        "text": "Model FS/Folder.v on the namespace world: filepath.Walk order (pre-order, byte order of names), items = entries whose own "
                "name has no leading dot (also below dot-folders), CalcItemCount, the download exchange per item (header, client's "
                "send / resume k / skip, size prefix, payload, data) and the upload exchange per item (folder create, skip complete, "
                "resume partial at its length, receive + publish; a connection that dies inside a file). Theorems (Props/C10.v): "
                "count_matches_headers, headers_are_the_items (paths relative to the folder, kinds, in order), "
                "items_are_visible_entries + every_visible_entry_is_an_item + no_item_twice (the items are exactly the visible entries, each once), action_respected (the size prefix counts exactly the bytes that follow; a resumed "
                "file continues at the offset), upload_skips_complete, upload_resumes_partial + resumed_prefix_gives_whole_file, "
                "upload_writes_new_file, upload_creates_folder, cut_never_publishes; a computed upload->download round trip. "
                "Correspondence: a reference folder-transfer client against the real handleFileTransfer over net.Pipe on generated trees "
                "(nesting, empty folders, dot-files, dot-folders with visible children, sizes 0-3000): downloads with per-file choices "
                "(first file resumed at a random offset, second skipped, rest random), uploads into a target holding a complete and a "
                "partial file, uploads cut inside a (resumed or fresh) file, and the round trip; every header, prefix, data fork and "
                "the resulting tree are compared with the model.",
        "note": "Two defects found and repaired (b15acf8 resumed file sent from byte 0 in folder downloads; a0eef30 partially received "
                "resumed file published in folder uploads). ASCII names, no aliases, no stored forks. No axioms.",
        "technique": "Coq proof over an item-by-item folder transfer model + reference-client differential correspondence on the real transfer handlers",
    },
    "C11": {
        "text": "Model FS/Namespace.v: the tree below the file root as a map from component lists to files / info forks / folders / "
                "aliases, and the handlers on it: listing (ignore patterns, trailing .incomplete cut, folder item counts, size = data + "
                "resource fork, type/creator from the info fork or the extension table REGENERATED from hotline/file_types.go, aliases "
                "followed), get-info, download reply, set-comment, rename, move, delete (with the four-file group), new folder, make "
                "alias, with Go's os.Rename / os.Remove failure rules and alias loops. Theorems (Props/C11.v): "
                "listed_name_round_trips (the listing's Mac Roman encoder inverts ReadPath's decoder on EVERY byte string), "
                "listed_entry_is_addressable, complete_name_listed_unchanged, partial_listed_under_final_name, list_exact, "
                "ignored_entries_not_listed, sizes_agree (list row = get-info = download reply = bytes on disk for a file without "
                "resource fork), delete_removes_group + delete_changes_nothing_else, mkdir_never_replaces, move_carries_group (a file moves or is renamed WITH its partial data, resource fork and info fork; the old names are free; nothing else changes), move_plain_file. "
                "Correspondence: 10-21 requests per history through the real handlers on a real tree (folders, forks, partial uploads, "
                "names with .incomplete in the middle, Mac Roman high bytes, dot/@ files, aliases incl. dangling and self-referential), "
                "after EVERY step the whole directory tree (or the parsed reply) is compared with the model.",
        "note": "Two defects found and repaired: .incomplete stripped anywhere in a name (bda93bc), an unresolvable alias made its folder "
                "unlistable (3c057cb). Dates and folder inode sizes are not modelled. No axioms.",
        "technique": "Coq proof over a reference namespace model + per-step whole-tree differential correspondence on the real file handlers",
    },
    "C19": {
        "text": "Model Srv/Board.v: a text store with ONE shared read cursor (Seek, chunked Read, prepending Write that persists), "
                "io.ReadAll as 'read chunks of any positive capacity until the empty chunk', critical sections in the order a lock "
                "admits them, and - for contrast - the unlocked interleaving of readers' atomic steps. Theorems (Props/C19.v): "
                "cursor_use_is_serialised (over Gen/Locks.v, REGENERATED from the sources each run: every Seek/Read/ReadAll/Write on "
                "Server.MessageBoard and Server.Agreement is inside a Lock()..Unlock() section, one mutex per store, the three users "
                "present); read_is_whole (rewind + read-to-end returns the complete current text for every cursor position and every "
                "chunking, changing neither text nor file); every_history (for EVERY order of any number of posters and readers: each "
                "reader gets the text current at its turn, the final board is all posts newest first on the initial text, the file "
                "equals the board once a post was made); no_post_lost_newest_first; every_post_is_kept_whole (each post of the history is a contiguous piece of the final board); unlocked_cursor_refuted (two readers, witness "
                "schedule); post_has_no_line_feed. Correspondence: real HandleTranOldPostNews / HandleGetMsgs on a real FlatNews "
                "(format incl. names with line feeds, announcement to every connected user, file after each acknowledged post, restart "
                "from the file), concurrent batches (2-8 readers x 3-8 reads, 1-4 posters, released together): every read must equal a "
                "version of the board in the order the final board shows, no post lost; 2-15 simultaneous wire logins each shown the "
                "agreement (0 B ... 65,535 B) exactly.",
        "note": "Scheduling is the runtime's: the theorems cover all lock orders, the concurrent runs are a search. The two shared-cursor "
                "races of the pinned tree were repaired earlier (board lock, 46e42ce agreement lock); their reversals are seeds. No axioms.",
        "technique": "Coq proof over a shared-cursor store model and all lock orders + translator-checked critical sections + concurrent differential runs on the real handlers",
    },
    "C20": {
        "text": "Model FS/Crash.v: a directory as a map from file names to contents, six system calls (create/truncate, exclusive create, "
                "write, rename, link, unlink), the script of calls of each persistent update AS REPAIRED (temporary file + rename for the "
                "message board, threaded news, ban list and account update; temporary file + link(2) + unlink for account creation), a "
                "crash = a prefix of the script. Theorems (Props/C20.v) for EVERY crash point k of every script on every directory: "
                "single_file_stores_atomic (the store's file is the complete old or the complete new content, no other file but the "
                "temporary one changes), acknowledged_is_durable, account_create_atomic / _durable / _exclusive, account_update_atomic "
                "(also under a new login: the directory loads and holds exactly the old or exactly the new accounts as the loader, which "
                "reads the login inside each file, sees them; YAML decoder = section parameter), account_delete_atomic, and "
                "in_place_write_refuted (why the pinned tree failed). Tie to the code on every run: the real managers perform generated "
                "update sequences in a child process under strace; the traced calls on the configuration directory are compared call by "
                "call with the model's scripts; every prefix of every trace is materialised as a directory and loaded with the real "
                "constructors (NewFlatNews, NewThreadedNewsYAML, NewBanFile, NewYAMLAccountManager) and classified old / new / neither.",
        "note": "Four defects of the pinned tree found by this check and repaired (e525b84, 7ff262a, a985cd9, 5886a2b). SIGKILL semantics "
                "only (no power loss / fsync ordering). Trusted: strace, trace parser and replayer (cross-checked against the directory "
                "the child leaves). No axioms.",
        "technique": "Coq proof over a system-call-level model of the updates + strace-traced correspondence and exhaustive crash-point replay on the real loaders",
    },
    "C05": {
        "text": "Theorems (Props/C05.v): (guards_match_spec) for every one of the 43 handlers found in the source the set of Access constants it passes "
                "to Authorize equals the reference table (no dropped check, wrong constant or extra check), every registered type is covered, "
                "and the governing privileges of each of 52 request classes (type x target kind x request shape) are among the constants its handler "
                "tests with the protocol's numbers - all over tables REGENERATED from transaction_handlers.go and access.go each run; "
                "(denied_iff_privilege_missing / never_refused_when_held) for ALL 2^64 bitmaps the decision is 'refused iff some governing bit is "
                "clear'; the display name is adopted iff bit 26 is held and never causes an error; for ALL path item lists the upload-folder / drop-box rules "
                "are decided on the directory the items resolve to (dropbox_listing_needs_privilege, upload_elsewhere_needs_privilege, "
                "upload_folder_never_refused). Correspondence: every class is run on the real "
                "handlers (fresh targets per request on a real sandbox: files, folders, upload/drop-box folders, accounts, news items, chats, a "
                "second client) under all-ones-minus-one-bit, single-bit, exactly-the-governing-set and governing-set-minus-one bitmaps "
                "(all 64 positions in the thorough tier); observed: refused or not, and for a refusal that nothing was queued and no file, "
                "account, news or ban state changed; plus path probes: special folders addressed through disguises ('.', '..', '' items, "
                "separators inside an item, declared count off by one) where the effect is observed (secret file name in the listing, destination of a granted upload).",
        "note": "Handler bodies are not modelled in Coq; the branch structure (which guard governs which target kind) is tied by the bit sweep, the "
                "constants by the translator. Trusted: reference tables, translator. No axioms.",
        "technique": "Coq proof over translator-generated guard tables + exhaustive single-bit / all-but-one-bit correspondence on the real handlers",
    },
    "C06": {
        "text": "Theorems (Props/C06.v) over the Gallina model of the amplification loop of HandleNewUser / HandleUpdateUser-create and of "
                "HandleDisconnectUser: for ALL creator bitmaps and request field contents the created account holds copy8(request) and "
                "no bit the creator lacks; excess is refused, subsets accepted; a target with cannot-be-disconnected is never closed or "
                "banned for any option bytes. The model is tied to the code by a correspondence check on every run (all single-bit pairs, "
                "random bitmaps, short/long fields, all ban options) against the real handlers, account manager and ban file; the property "
                "oracle is also evaluated directly on what the real code did (memory and disk).",
        "note": "Trusted: Coq kernel; the hand-written model (validated by correspondence, ~2,000 cases per quick run); harness. "
                "bcrypt and yaml.v3 are exercised, not modelled. No axioms.",
        "technique": "Coq proof over executable model + differential correspondence check (vm_compute) against the real handlers",
    },
    "C07": {
        "text": "Theorems (Props/C07.v): cleaning a rooted path leaves no '..', '.', empty or '/'-containing component for ANY component list; hence "
                "ReadPath (the path expression behind every file request and transfer) yields root ++ good components for ALL path-item byte "
                "strings, any item count, and all names; the repaired folder-upload item path, rename target and account-file paths "
                "(create/delete/rename and the write after a rename) are inside their directory for all inputs; fork side files and the "
                ".incomplete file of a well-named entry are entries of the same directory; the Mac Roman decoder cannot create or remove '/' or "
                "'.' (finite check on the table, compared with x/text each run); the pinned unrooted item path is refuted. Correspondence: "
                "filepath.Join on hostile strings vs the component model; hotline.ReadPath and FormattedPath as functions on hostile and "
                "malformed encodings (string equality with the model, oracle: root prefix + no bad component); EFFECTS: 17 call sites "
                "(new folder, rename file/folder, comment, delete, move source/destination, alias, info, list, download incl. transfer bytes, "
                "upload incl. transfer, folder-upload item, account create/rename/delete) run on a real sandbox tree with victims above and "
                "beside the root: recursive snapshot diff outside the allowed tree must be empty and replies/transfers must not contain "
                "outside content or listings.",
        "note": "Lexical containment (symlinks leading out are assumed absent; make-alias targets are themselves inside). Trusted: path/filepath and "
                "charmap models validated each run. No axioms.",
        "technique": "Coq proof (stack-machine invariant of Clean over all byte strings) + differential correspondence on path functions + sandbox effect oracle",
    },
    "C08": {
        "text": "Theorems (Props/C08.v) over the model of HandleDownloadFile + DownloadHandler: for ALL contents, names, stored-fork combinations and "
                "resume offsets 0 <= k <= size the stream is header (unless preview) ++ EXACTLY dropN k data ++ resource-fork part; a preview is the "
                "bare data; the reply's file-size field is size - k and, without a stored resource fork, the transfer size is |header| + size - k "
                "(uint32 arithmetic modelled); the header's INFO-fork size field equals the length of the information fork that follows and a "
                "synthesised fork's name-size equals the name length (parsed by the reference combinators for arbitrary trailing bytes). "
                "Correspondence: real files of 0..100,000 bytes (1-3 MiB in the thorough tier; contents as shared patterns, streams as "
                "digests), names of 1-240 bytes, with/without .info_ and .rsrc_ side files, offsets {0,1,mid,size-1,size}, preview and explicit "
                "resume-at-0, through the real handler and DownloadHandler; the model predicts reply fields and the whole byte stream.",
        "note": "Header fields the property does not constrain are model inputs. The empty MACR header after a complete download of a fork-less file "
                "is read as permitted. Trusted: os reads, io.Copy. No axioms.",
        "technique": "Coq proof over the stream/reply model + differential correspondence on real files through the real handlers",
    },
    "C09": {
        "text": "Theorems (Props/C09.v): for every content d, name and reference, and EVERY sequence of connection cuts (any number; each at any byte "
                "offset of that attempt's stream, i.e. inside the 16-byte preamble, inside the flattened-file header, inside the data) by the "
                "honest resuming client: after each attempt final = none and partial = a prefix of d, or final = d and no partial "
                "(invariant by induction over the cut list, using a stage-by-stage characterisation of what the server parses from a cut "
                "stream); an uncut attempt completes to exactly d from any invariant state; the reported resume offset is the partial "
                "file's size; an existing file is never replaced (request and transfer refused, nothing touched); the download stream of the "
                "result carries d. Correspondence: generated histories (sizes 0..70,000, up to 6 cuts in every region incl. 32 KiB chunk "
                "boundaries, completion, then a further upload attempt; histories with a pre-existing file) through the real "
                "HandleUploadFile/UploadHandler, and a few through the real handleFileTransfer over a connection that is closed mid-stream; "
                "after every attempt the final and .incomplete files are read back.",
        "note": "Honest resuming client, default configuration, one upload per name at a time. Trusted: O_APPEND writes, io.CopyN, rename. No axioms.",
        "technique": "Coq proof (invariant over all cut sequences; staged-parse lemma over cut streams) + differential correspondence over cut histories",
    },
    "C12": {
        "text": "Theorems (Props/C12.v) over the chat model: in every state, a public line from a sender holding send-chat is queued once each for "
                "exactly the connected users whose account may read chat (and for nobody when the sender lacks send-chat: one error reply); "
                "private lines, subject changes, join/leave/decline notices are queued once each for exactly the members; after leaving, a user "
                "is no member (and the leave notice goes to the remaining members); declining changes no membership; the text is "
                "'\\r%13.13s:  msg' / '\\r*** name msg' on Go's rune segmentation, cut to 8192 bytes. Correspondence: wire-mode histories with "
                "3+ clients of differing chat privileges (connect, public/private lines incl. emotes, 8 KB+ messages, Frogblast's zero chat ID, "
                "invite, join, leave, decline, subject, disconnect) through the real connection loop; the model predicts every client's inbox "
                "per step; an independent oracle tracks membership per CONNECTION and checks that exactly the entitled clients received each kind.",
        "note": "Queue-level theorem + delivery by ID: KNOWN FINDING stale-member-after-id-reuse (membership not purged on disconnect; manifests after "
                "the 16-bit ID counter wraps), demonstrated by a dedicated history on every run. In-order delivery assumed. No axioms.",
        "technique": "Coq proof (audience = members/readers for all states) + differential correspondence over wire-mode histories with per-connection membership oracle",
    },
    "C13": {
        "text": "Theorems (Props/C13.v): (new_id_is_free) the repaired allocation loop never returns an ID in use while any of the 65,536 IDs is free, for "
                "any counter value (wrap included) - by an induction over the loop plus a covering lemma for 65,536 successive counter values; "
                "(ids_unique, id_addresses_holder) an invariant over histories of connects/disconnects of ANY length: every live connection is the "
                "registry entry of its own ID, hence no two connected users share an ID and an ID resolves to its current holder (and, holder_is_addressed_by_its_id, every connected user is what its own 16-bit ID resolves to); the pinned "
                "allocation is refuted by a computed 65,537-connection history; (roster_converges) for every well-formed history of logins "
                "(announced or not), announcements and departures, a client that fetched the list and folds the change/delete notifications ends "
                "with exactly the server's list once nobody is between login and first announcement; (pm_*) private messages reach only the holder "
                "of the addressed ID or the sender, honour refuse-messages, return the automatic reply. Correspondence: generated wire-mode "
                "histories (named/1.5 logins, Agreed, SetClientUserInfo, disconnects, user-list fetches, private messages, >65,536-connection "
                "churn) through the real connection loop; the executable model predicts every client's inbox per step; the oracle folds the "
                "observed notifications and compares with the fetched lists.",
        "note": "Trusted: Coq kernel, std++ gmap; in-order delivery assumed (sequential outbox in the harness, real sendTransaction); "
                "'settled' reading documented in DESIGN.md. No axioms.",
        "technique": "Coq proof (invariant by induction over histories, loop covering lemma, refinement of client roster fold) + differential correspondence over wire-mode histories",
    },
    "C14": {
        "text": "Theorems (Props/C14.v): for ANY number of writers and ANY interleaving of their atomic Write calls the received chunk sequence is a "
                "permutation of the written chunks; since sendTransaction (as repaired) issues ONE Write per transaction, every interleaving is "
                "a concatenation of whole well-formed transactions and the receiver's framing (reference decoder, trusting every prefix) recovers "
                "exactly a permutation of the transactions sent; replies carry the reply flag, the request's ID and the requester as recipient; "
                "every handler constructs at most one reply on any path (bound computed by the translator over the handlers' ASTs, regenerated "
                "each run); the pinned chunked sender is refuted by a computed torn stream. Tie: a recording connection logs the Write calls of "
                "the real sendTransaction for sizes around 32 KiB and up to 64 KiB; load runs (3-6 clients firing 10-35 requests back to back: "
                "keep-alives, user lists, 40-58 KB board replies, chat broadcasts, unknown types) through the real connection loop and the "
                "PRODUCTION outbox (goroutine per transaction): every client's raw bytes are re-framed by the reference decoder and a "
                "request-ID ledger is checked (search, not proof).",
        "note": "PARTIAL on scheduling: which interleavings the Go runtime produces, kernel buffering and partial-write errors are not modelled; "
                "atomicity of one Write is assumed. Trusted: translator (reply bound), Coq kernel. No axioms.",
        "technique": "Coq proof (all interleavings of atomic writes; framing of concatenated transactions) + translator-generated reply bound + recorded-Write correspondence and load search",
    },
    "C15": {
        "text": "Theorems (Props/C15.v) over a std++ gmap model of YAMLAccountManager and the four account handlers: the invariant "
                "disk = mask <$> mem (same logins, names, hashes; privileges = the 40 named bits), keys = logins, 8-byte bitmaps is preserved by "
                "every operation, hence for histories of ANY length (new-user, set-user, batched update-user mixing create/modify/rename/delete, "
                "delete-user, restart): listed iff on disk, a (login,password) authenticates iff its file exists and the stored hash verifies - "
                "before and after a restart; deleted logins cannot log in; a rename removes the old login and carries the account; the three "
                "password cases (absent clears, single zero byte keeps, else sets); an edit touches only its account; bcrypt's 72-byte cyclic "
                "key is modelled exactly (so '' and NUL collide in the model as in bcrypt). The pinned Update is refuted by witness. "
                "Correspondence: generated histories through the real handlers and manager; after EVERY step: list-users reply, parsed account "
                "files, every universe login x password tried against memory and against a manager freshly loaded from disk.",
        "note": "Trusted: Coq kernel, std++ gmap; bcrypt abstracted to equality of 72-byte cyclic keys (no collisions otherwise), yaml.v3 round-trip observed; "
                "logins restricted to legal file names. No axioms.",
        "technique": "Coq proof (invariant preserved by every operation, lifted over histories) + differential correspondence after every step of generated histories",
    },
    "C16": {
        "text": "Theorems (Props/C16.v) over tables REGENERATED from hotline/access.go on every run: for ALL 2^64 bitmaps and every bit, "
                "load(save(b)) has bit i iff b has it and i is one of the 40 defined privileges (also as the equation load(save b) = mask b); "
                "the legacy array form loads the same bytes; the YAML key of every bit equals the protocol reference table (both directions); "
                "the Access* constants are the protocol numbers; Set i then IsSet j = (i=j) or the old bit; a second save/load round changes nothing; load(save b) = b exactly when b has only defined bits. Generic lemma: tables_consistent -> save/load law; the finite consistency "
                "obligation is discharged by computation on the generated tables, so a swapped/missing/wrong entry in either hand-written Go "
                "table breaks a proof obligation. Correspondence through the real YAMLAccountManager + yaml.v3: all 64 single bits in both "
                "formats, pairs of defined bits, random bitmaps, migration of legacy files, and the user-access field/Authorize at a real login.",
        "note": "Trusted: Coq kernel; translator (go/ast, ~300 lines; unknown shapes become bit 999 and fail the obligation); yaml.v3 behaviour "
                "(struct fields marshalled in order, bool decoding) observed not verified; reference table transcribed by hand from the protocol PDF. No axioms.",
        "technique": "Coq proof over translator-generated tables + differential correspondence through the real YAML account manager",
    },
    "C18": {
        "text": "Theorems (Props/C18.v) over a std++ model of ThreadedNewsYAML (path-keyed representation of the nested maps): a new article's ID is "
                "used by no article present (IDs < 2^32-1); a successful post records the requested parent, links the article after the previously "
                "newest, leaves every other article's title, poster, date and body (and all links except the previous newest's next and - if unset - "
                "the parent's first child) unchanged, and changes nothing else in the tree; deleting an article / a category or bundle removes "
                "exactly that item (and what is below it); creating replaces only its own subtree; category listings are exactly the children "
                "of a path; the article list is decodable by the reference decoder (C01 layout theorem, titles/posters <= 255); every "
                "successful update is written, so a restart reproduces the tree. Correspondence: generated histories (create bundle/category "
                "incl. nested and re-created names, posts and replies incl. to missing categories/parents, article and item deletions, restarts, "
                "article-list replies) through the real handlers; after EVERY step the full tree in memory and the tree re-read from the YAML file "
                "are dumped and compared with the model; list replies are compared byte for byte.",
        "note": "Known finding (yaml.v3): strings beginning with a line feed do not survive the YAML round trip (dedicated profile, reported as KNOWN-FINDING). "
                "Trusted: std++ gmap, yaml.v3 otherwise, WriteFile+Rename. No axioms.",
        "technique": "Coq proof (frame-style effect theorems on a gmap model) + differential correspondence of full-tree dumps after every step",
    },
}
